import Driver.Util
import ZmqVerif.Model.Endpoint
/-! engine `endpoint` on the model side -/
namespace Driver
open Zmq Zmq.Ep Zmq.Ip

def strOfBytes (b : Bytes) : Option (List Char) :=
  (String.fromUTF8? (ByteArray.mk b.toArray)).map String.toList

def hexOfStr (s : List Char) : String := hex (String.ofList s).toUTF8.toList

def showEp : Endpoint stdModel → String
  | .tcp h p =>
    match h with
    | .v4 a => s!"tcp v4 {hexOfStr (Ip.show4 a)} {p}"
    | .v6 a => s!"tcp v6 {hexOfStr (Ip.show6 a)} {p}"
    | .domain s => s!"tcp dom {hexOfStr s} {p}"
  | .ipc p => s!"ipc {hexOfStr p}"

def hostEq : Host stdModel → Host stdModel → Bool
  | .v4 a, .v4 b => decide (a = b)
  | .v6 a, .v6 b => decide (a = b)
  | .domain a, .domain b => a == b
  | _, _ => false

def epEq : Endpoint stdModel → Endpoint stdModel → Bool
  | .tcp h p, .tcp h' p' => hostEq h h' && p == p'
  | .ipc a, .ipc b => a == b
  | _, _ => false

def errClass : Ep.Err → String
  | .syntax => "Syntax"
  | .unknownTransport _ => "UnknownTransport"

def endpointOp (w : List String) : String :=
  match w with
  | ["case"] => "case "
  | ["case", n] => s!"case {n}"
  | ["parse", b] =>
    match (parseBytes b).bind strOfBytes with
    | none => "bad-op utf8"
    | some s =>
      match parseEndpoint stdModel s with
      | .error e => s!"err {errClass e}"
      | .ok e =>
        let d := display stdModel e
        let re := match parseEndpoint stdModel d with
          | .ok e2 => if epEq e2 e then "same" else s!"diff {showEp e2}"
          | .error x => s!"err {errClass x}"
        s!"ok {showEp e} | disp {hexOfStr d} | re {re}"
  | ["ip4", b] =>
    match (parseBytes b).bind strOfBytes with
    | none => "bad-op"
    | some s => match Ip.parse4 s with
      | some a => s!"some {hexOfStr (Ip.show4 a)}"
      | none => "none"
  | ["ip6", b] =>
    match (parseBytes b).bind strOfBytes with
    | none => "bad-op"
    | some s => match Ip.parse6 s with
      | some a => s!"some {hexOfStr (Ip.show6 a)}"
      | none => "none"
  | ["v6rt", b] =>
    match parseBytes b with
    | some bs =>
      if bs.length ≠ 16 then "bad-op len" else
      let segs := (List.range 8).map fun i => (bs.getD (2*i) 0).toNat * 256 + (bs.getD (2*i+1) 0).toNat
      let a := Ip.mkIp6 segs
      let t := Ip.show6 a
      let re := match Ip.parse6 t with
        | some a2 => if a2 = a then "same" else "diff"
        | none => "none"
      s!"disp {hexOfStr t} | re {re}"
    | none => "bad-op"
  | ["v4rt", b] =>
    match parseBytes b with
    | some [x, y, z, u] =>
      let a : Ip.Ip4 := ⟨x, y, z, u⟩
      let t := Ip.show4 a
      let re := match Ip.parse4 t with
        | some a2 => if a2 = a then "same" else "diff"
        | none => "none"
      s!"disp {hexOfStr t} | re {re}"
    | _ => "bad-op len"
  | _ => "bad-op"

end Driver
