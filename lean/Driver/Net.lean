import Driver.Util
import ZmqVerif.Model.Net
/-! engine `net` on the model side: predicts the outcome CLASS of every op of `harness/src/net.rs` -/
namespace Driver
open Zmq Zmq.Net

structure NSt where
  s : St := {}
  /-- per raw client: messages the library has written to it, not yet read by the script -/
  outbox : List (Nat × List (List Bytes)) := []
  /-- per socket: registered raws in rotation order -/
  rr : List (Nat × List Nat) := []
  nextProbe : Nat := 1000

def greetingBytes : Bytes := encodeGreeting Greeting.default

def hsBytes (t : String) : Bytes :=
  greetingBytes ++ encodeCommand kReady [(kSocketType, t.toUTF8.toList)]

def epId (tok : String) : Option Nat := if tok.startsWith "ep#" then (tok.drop 3).toString.toNat? else none

def isIpc (s : St) (e : Nat) : Bool := (lookupN s.eps e) == some Kind.ipc

/-- after a write by raw `c`: if it just became registered, it enters its socket's rotation -/
def afterWrite (n : NSt) (before : Option RawC) (c : Nat) : NSt :=
  match before, lookupN n.s.raws c with
  | some b, some a =>
    if b.hs != .registered && a.hs == .registered then
      let cur := (lookupN n.rr a.sock).getD []
      { n with rr := insertN n.rr a.sock (cur ++ [c]) }
    else n
  | _, _ => n

def greetingValid (sent : Bytes) : Bool :=
  sent.length ≥ 64 &&
  (match parseGreeting (sent.take 64) with
   | .ok g => g.major.toNat ≥ 3
   | _ => false)

def netOp (n : NSt) (w : List String) : NSt × String :=
  let num (s : String) : Nat := s.toNat?.getD 0
  match w with
  | ["case"] => ({}, "case ")
  | ["case", x] => ({}, s!"case {x}")
  | ["sock", id, t] =>
    match sockTypeOfString t with
    | some ty => ({ n with s := { n.s with socks := insertN n.s.socks (num id) { typ := ty } } }, "ok")
    | none => (n, "bad-op type")
  | ["bind", sid, kind] =>
    let req : Option BindReq :=
      if kind == "tcp4" then some (.fresh .tcp4) else if kind == "tcp6" then some (.fresh .tcp6)
      else if kind == "localhost" then some (.fresh .localhost) else if kind == "ipc" then some (.fresh .ipc)
      else if kind == "badsyntax" then some .badSyntax
      else if kind.startsWith "dup:" then (epId (kind.drop 4).toString).map BindReq.again
      else none
    match req with
    | none => (n, "bad-op bind-kind")
    | some r =>
      let (s', o) := bind n.s (num sid) r
      ({ n with s := s' }, match o with
        | .ok e => s!"ok ep#{e}"
        | .errNetwork => "err Network"
        | .errSyntax => "err Endpoint.Syntax"
        | .noSock => "bad-op no-sock")
  | ["unbind", sid, e] =>
    -- (`near:<how>:ep#k`: an endpoint that is not bound but resembles a bound one — unknown like any other)
    let (s', o) := unbind n.s (num sid) (if e == "unknown" || e.startsWith "near:" then none else epId e)
    ({ n with s := s' }, match o with
      | .ok => "ok"
      | .noSuchBind => "err NoSuchBind"
      | .noSock => "bad-op no-sock")
  | ["binds", sid] =>
    match lookupN n.s.socks (num sid) with
    | none => (n, "bad-op no-sock")
    | some so =>
      let ids := (so.binds.toArray.qsort (· < ·)).toList
      (n, "binds " ++ ",".intercalate (ids.map fun i => s!"ep#{i}"))
  | "probe" :: e :: rest =>
    match epId e with
    | none => (n, "bad-op no-ep")
    | some eid =>
      let t := rest.headD "PAIR"
      let suffix (b : Bool) := if isIpc n.s eid then s!" path={if b then 1 else 0}" else ""
      let (s1, ok) := rawConnect n.s n.nextProbe eid
      if !ok then (n, "refused" ++ suffix false) else
      let s2 := rawWrite s1 n.nextProbe (hsBytes t)
      let s3 := rawClose s2 n.nextProbe
      ({ n with s := s3, nextProbe := n.nextProbe + 1 }, "handshake-ok" ++ suffix true)
  | ["probegone", e] =>
    match epId e with
    | none => (n, "bad-op no-ep")
    | some eid => (n, if (ownerOf n.s eid).isSome then "still-accepting" else "gone")
  | ["connectout", sid, _, c, t] =>
    if (lookupN n.s.socks (num sid)).isNone then (n, "bad-op no-sock") else
    let (s', ok) := connectOut n.s (num sid) (num c) (hsBytes t)
    let n' : NSt := { n with s := s' }
    let n' := if ok then { n' with rr := insertN n'.rr (num sid) (((lookupN n'.rr (num sid)).getD []) ++ [num c]) } else n'
    -- (the library sends its own greeting and READY before it judges the peer's: the raw side sees both)
    (n', (if ok then "ok" else "err Other") ++ " raw=hs-ok")
  | ["rawconn", c, e] =>
    match epId e with
    | none => (n, "bad-op no-ep")
    | some eid =>
      let (s', ok) := rawConnect n.s (num c) eid
      ({ n with s := s' }, if ok then "connected" else "refused")
  | "rawhs" :: c :: t :: rest =>
    let full := hsBytes t
    let b := match rest with
      | [off] => full.take (num off)
      | _ => full
    let before := lookupN n.s.raws (num c)
    if before.isNone then (n, "bad-op no-raw") else
    (afterWrite { n with s := rawWrite n.s (num c) b } before (num c), "ok")
  | ["rawsend", c, b] =>
    match parseBytes b with
    | none => (n, "bad-op")
    | some bs =>
      let before := lookupN n.s.raws (num c)
      if before.isNone then (n, "bad-op no-raw") else
      (afterWrite { n with s := rawWrite n.s (num c) bs } before (num c), "ok")
  | ["rawmsg", c, m] =>
    match parseMsg m, lookupN n.s.raws (num c) with
    | some msg, some rc =>
      let alive := ((lookupN n.s.socks rc.sock).map (·.alive)).getD false
      if rc.hs == .registered && alive && !rc.closedByLib then
        match lookupN n.s.socks rc.sock with
        | some so => ({ n with s := { n.s with socks := insertN n.s.socks rc.sock { so with inbox := so.inbox ++ [msg] } } }, "ok")
        | none => (n, "ok")
      else (n, "ok")
    | _, _ => (n, "bad-op")
  -- the peer reads what the library sends it (a SUB socket's subscription replay): no effect on the library's state
  | ["rawdrain", c, _] =>
    (match lookupN n.s.raws (num c) with
     | none => (n, "bad-op no-raw")
     | some rc => (n, if rc.hs == .registered && !rc.closedByLib then "drained" else if rc.closedByLib then "eof" else "short"))
  | ["rawwait", c, what] =>
    match lookupN n.s.raws (num c) with
    | none => (n, "bad-op no-raw")
    | some rc =>
      if what == "hs" then
        (n, if greetingValid rc.sent then "hs-ok" else if rc.closedByLib then "eof" else "none")
      else if what == "hsdump" then
        -- the library's side of the handshake, byte for byte: the greeting of `Model.Wire` (the one C01's theorems are
        -- about) and a READY announcing the socket's own type — whichever side opened the connection
        (n, if greetingValid rc.sent then
              (match lookupN n.s.socks rc.sock with
               | some so => s!"hs {hex (hsBytes (sockTypeString so.typ))}"
               | none => "none")
            else if rc.closedByLib then "eof" else "none")
      else if what == "greeting" then (n, "greeting-ok")     -- sent as soon as the connection's task runs
      else if what == "eof" || what == "open" then (n, if rc.closedByLib then "eof" else "open")
      else if what == "msg" then
        match lookupN n.outbox (num c) with
        | some (m :: rest) => ({ n with outbox := insertN n.outbox (num c) rest }, s!"M[{showMsg m}]")
        | _ => (n, if rc.closedByLib then "eof" else "none")
      else (n, "bad-op")
  -- `rawwait c eofcap <bytes>`: end-of-stream must arrive before the peer has read more than <bytes> (what can have
  -- been in flight when the socket went away): a connection the library still FEEDS is not closed
  | ["rawwait", c, "eofcap", _] =>
    (match lookupN n.s.raws (num c) with
     | none => (n, "bad-op no-raw")
     | some rc => (n, if rc.closedByLib then "eof" else "open"))
  -- a SUB socket subscribes to <count> topics of <size> bytes: its subscription set is what it announces to every
  -- new peer BEFORE registering it — with a set larger than the transport's buffers and a peer that does not read,
  -- the connection stays in the state "handshake done, registration pending"
  | ["subbig", sid, _, _] =>
    if (lookupN n.s.socks (num sid)).isNone then (n, "bad-op no-sock") else (n, "ok")
  | ["recvslow", sid, _] =>
    -- one poll of recv with nothing queued (the generator issues it only then), future dropped: no effect
    (match lookupN n.s.socks (num sid) with
     | some so => (n, if so.inbox.isEmpty then "pending" else "ready ok")
     | none => (n, "bad-op no-sock"))
  | ["pause", _] => (n, "ok")
  -- descriptor exhaustion is an environment condition: accept() fails while it lasts (each failure is an
  -- AcceptFailed of its own — their number is not predicted), the queued connection is accepted afterwards
  | ["fdhoard"] => (n, "ok")
  | ["fdrelease", _] => (n, "ok")
  | ["rawabort", _, _] =>
    -- connections reset before / while the accept loop takes them: each fails only itself (whether it is
    -- reported as AcceptFailed depends on the race, so cases with this op do not read the event count)
    (n, "ok")
  | ["rawclose", c] => ({ n with s := rawClose n.s (num c) }, "ok")
  | ["recv", sid] =>
    match lookupN n.s.socks (num sid) with
    | some so =>
      match so.inbox with
      | m :: rest => ({ n with s := { n.s with socks := insertN n.s.socks (num sid) { so with inbox := rest } } }, s!"ok M[{showMsg m}]")
      | [] => (n, "none")
    | none => (n, "bad-op no-sock")
  | ["send", sid, m] =>
    match parseMsg m with
    | none => (n, "bad-op")
    | some msg =>
      let live := ((lookupN n.rr (num sid)).getD []).filter (fun c =>
        match lookupN n.s.raws c with
        | some rc => rc.hs == .registered && !rc.closedByLib
        | none => false)
      match live with
      | [] => (n, s!"err ReturnToSender")
      | c :: rest =>
        let ob := (lookupN n.outbox c).getD []
        ({ n with outbox := insertN n.outbox c (ob ++ [msg]), rr := insertN n.rr (num sid) (rest ++ [c]) }, "ok")
  | ["close", sid] =>
    if (lookupN n.s.socks (num sid)).isNone then (n, "bad-op no-sock") else
    ({ n with s := closeSock n.s (num sid) }, "ok errs=0")
  | ["dropsock", sid] =>
    if (lookupN n.s.socks (num sid)).isNone then (n, "bad-op no-sock") else
    ({ n with s := closeSock n.s (num sid) }, "ok")
  -- a peer that comes up LATE: `reserve c` holds a loopback port that refuses connections; `connectnl` is a connect() to
  -- it that is abandoned after its deadline (connect() keeps retrying INSIDE the call: nothing of it outlives the call);
  -- `latelisten c` starts listening there — after the socket has been closed or dropped nobody dials it any more
  | ["reserve", _] => (n, "ok")
  | ["connectnl", sid, _, _] =>
    (match lookupN n.s.socks (num sid) with
     | some so => (n, if so.alive then "pending" else "bad-op no-sock")
     | none => (n, "bad-op no-sock"))
  | ["latelisten", _, _] => (n, "nobody")
  | ["monitor", sid] =>
    match lookupN n.s.socks (num sid) with
    | some so => ({ n with s := { n.s with socks := insertN n.s.socks (num sid) { so with monitor := true, events := [] } } }, "ok")
    | none => (n, "bad-op no-sock")
  -- the application drops the monitor's receiver: events go nowhere from now on, nothing else changes
  | ["monitordrop", sid] =>
    match lookupN n.s.socks (num sid) with
    | some so =>
      if !so.monitor then (n, "bad-op no-monitor") else
      ({ n with s := { n.s with socks := insertN n.s.socks (num sid) { so with monitor := false, events := [] } } }, "ok")
    | none => (n, "bad-op no-sock")
  | "events" :: sid :: _ =>
    match lookupN n.s.socks (num sid) with
    | some so =>
      if !so.monitor then (n, "bad-op no-monitor") else
      let evs := (so.events.toArray.qsort (· < ·)).toList
      ({ n with s := { n.s with socks := insertN n.s.socks (num sid) { so with events := [] } } }, "events " ++ ",".intercalate evs)
    | none => (n, "bad-op no-monitor")
  | _ => (n, "bad-op")

end Driver
