import Driver.Util
import ZmqVerif.Model.World
/-! engine `world` on the model side: parses the same op lines as `harness/src/world.rs` and prints
what `Model.World` predicts. -/
namespace Driver
open Zmq Zmq.W

structure WSt where
  w : World := {}
  /-- futures that already completed (a `poll` on them prints `done`) -/
  finished : List Nat := []
  /-- sockets a live future works on (one live future per socket) -/
  owner : List (Nat × Nat) := []    -- (future, socket)

/-- replace the first occurrence of `pat` in `hay` -/
partial def replaceFirst (hay pat rep : Bytes) : Bytes :=
  if pat.isEmpty then hay else
  let rec go (pre : Array UInt8) (rest : Bytes) : Bytes :=
    if pat.isPrefixOf rest then pre.toList ++ rep ++ rest.drop pat.length
    else match rest with
      | [] => pre.toList
      | x :: xs => go (pre.push x) xs
  go #[] hay

/-- cut a byte string into the encodings of complete ZMTP messages; returns them (printed) and
what is left over -/
def cutMsgs : Nat → Bytes → List String → Nat → Bytes → List String × Bytes
  | 0, _, acc, _, cur => (acc, cur)
  | fuel+1, b, acc, consumed, cur =>
    -- `cur` = bytes from the start of the current message; `consumed` = bytes of it already framed
    match cur.drop consumed with
    | [] => (acc, if consumed == 0 then [] else cur)
    | fl :: r =>
      let long := fl &&& 2 != 0
      let hdr := if long then 9 else 2
      if (cur.drop consumed).length < hdr then (acc, cur) else
      let len := if long then beNat (r.take 8) else (r.headD 0).toNat
      if (cur.drop consumed).length < hdr + len then (acc, cur) else
      let consumed := consumed + hdr + len
      if fl &&& 1 == 0 then cutMsgs fuel b (acc ++ [showBytes (cur.take consumed)]) 0 (cur.drop consumed)
      else cutMsgs fuel b acc consumed cur

def perms {α} : List α → List (List α)
  | [] => [[]]
  | x :: xs => (perms xs).flatMap (fun p => (List.range (p.length + 1)).map (fun i => p.take i ++ [x] ++ p.drop i))

def showVal : Val → String
  | .okUnit => "ok"
  | .okMsg m => s!"ok M[{showMsg m}]"
  | .okId i => s!"ok id={showBytes i}"
  | .okErrs n => s!"ok errs={n}"
  | .err e => s!"err {errS e}"
  | .errReturn m => s!"err ReturnToSender M[{showMsg m}]"
  | .panic => "PANIC"

def busy (st : WSt) (s : Nat) : Bool := st.owner.any (fun e => e.2 == s && (lookup st.w.futs e.1).isSome)

def addFut (st : WSt) (f : Nat) (sock : Option Nat) (fs : FutSt) : WSt × String :=
  let owner := match sock with
    | some s => (st.owner.filter (·.1 != f)) ++ [(f, s)]
    | none => st.owner.filter (·.1 != f)
  ({ st with w := { st.w with futs := insert st.w.futs f fs }, owner := owner,
             finished := st.finished.filter (· != f) }, "ok")

def worldOp (st : WSt) (wd : List String) : WSt × String :=
  let num (s : String) : Nat := s.toNat?.getD 0
  match wd with
  | ["case"] => ({}, "case ")
  | ["case", n] => ({}, s!"case {n}")
  | "sock" :: id :: t :: rest =>
    match sockTypeOfString t with
    | none => (st, "bad-op type")
    | some ty =>
      let ident := match rest with
        | [i] => (parseBytes i).bind (fun b => if b.isEmpty ∨ b.length > 255 then none else some b)
        | _ => none
      ({ st with w := setSock st.w (num id) { typ := ty, ident := ident } }, "ok")
  | ["attach", f, s, p] =>
    match getSock st.w (num s) with
    | none => (st, "bad-op no-sock")
    | some _ =>
      let pid := num p
      let w := { st.w with pipes := if (lookup st.w.pipes pid).isSome then st.w.pipes else setPipe st.w.pipes pid {} }
      addFut { st with w := w } (num f) none
        (.attach (num s) pid (.sendGreeting (.feeding (encodeGreeting Greeting.default))) { pipe := pid } { pipe := pid })
  | ["pipe", p] =>
    let pid := num p
    ({ st with w := { st.w with pipes := if (lookup st.w.pipes pid).isSome then st.w.pipes else setPipe st.w.pipes pid {} } }, "ok")
  | ["reveal", p, b] =>
    match parseBytes b with
    | some bs => ({ st with w := reveal st.w (num p) bs }, "ok")
    | none => (st, "bad-op")
  | ["eof", p] => ({ st with w := setEof st.w (num p) }, "ok")
  | "rderr" :: p :: _ => ({ st with w := setRdErr st.w (num p) }, "ok")
  | ["wrerr", p] => ({ st with w := setWrErr st.w (num p) true }, "ok")
  | ["wrerr", p, k] => ({ st with w := setWrErr st.w (num p) (k == "BrokenPipe") }, "ok")
  -- a transient error: exactly one write fails
  | ["wrerr1", p, k] => ({ st with w := setWrErrOnce st.w (num p) (k == "BrokenPipe") }, "ok")
  -- a cooperative transport (reads come in pieces, the reader is made to yield in the middle of available data): what a
  -- socket decodes depends on the byte stream only (C02) — no effect in the model
  | ["yieldy", _, _] => (st, "ok")
  | ["yieldy", _, _, _] => (st, "ok")
  | ["credit", p, c] =>
    ({ st with w := setCredit st.w (num p) (if c == "inf" then none else some (num c)) }, "ok")
  | ["wire", p] =>
    if (lookup st.w.pipes (num p)).isNone then (st, "bad-op no-pipe") else
    let (w, b) := takeWire st.w (num p)
    -- the READY properties come out of a hash map: either order is legal
    let alt := st.w.socks.foldl (fun (acc : Bytes) e =>
      match e.2.ident with
      | some i => replaceFirst acc (encodeReady e.2.typ (some i) false) (encodeReady e.2.typ (some i) true)
      | none => acc) b
    -- a SUB socket re-announces its subscription SET to a new peer in hash order: any order is legal
    let bases := if alt == b then [b] else [b, alt]
    let alts : List Bytes := st.w.socks.foldl (fun (acc : List Bytes) e =>
      if e.2.typ = .sub ∧ e.2.subs.length ≥ 2 ∧ e.2.subs.length ≤ 4 then
        let block (l : List Bytes) : Bytes := (l.map (fun t => encodeMsg (subsMsg true t))).flatten
        let base := block e.2.subs
        acc ++ bases.flatMap (fun b0 => (perms e.2.subs).filterMap (fun pm =>
          let r := replaceFirst b0 base (block pm)
          if r == b0 then none else some r))
      else acc) []
    let all := (bases ++ alts).eraseDups
    ({ st with w := w }, " || ".intercalate (all.map fun x => s!"wire {showBytes x}"))
  | ["wiresorted", p] =>
    if (lookup st.w.pipes (num p)).isNone then (st, "bad-op no-pipe") else
    let (w, b) := takeWire st.w (num p)
    let (msgs, rest) := cutMsgs b.length b [] 0 b
    let sorted := (msgs.toArray.qsort (fun a b => a < b)).toList
    ({ st with w := w }, s!"wiresorted {";".intercalate sorted}" ++ (if rest.isEmpty then "" else s!"|rest:{showBytes rest}"))
  | ["halves", p] =>
    match lookup st.w.pipes (num p) with
    | none => (st, "bad-op no-pipe")
    | some pp => (st, s!"halves r={if pp.rDropped then 1 else 0} w={if pp.wDropped then 1 else 0}")
  | ["recv", f, s] =>
    let sid := num s
    if busy st sid then (st, "bad-op busy") else
    match getSock st.w sid with
    | none => (st, "bad-op no-sock")
    | some so =>
      if so.typ = .req then addFut st (num f) (some sid) (.reqRecv sid)
      else if hasFq so.typ then addFut st (num f) (some sid) (.recv sid)
      else addFut st (num f) (some sid) (.fail "bad-op no-recv")
  | ["send", f, s, m] =>
    let sid := num s
    if busy st sid then (st, "bad-op busy") else
    match parseMsg m, getSock st.w sid with
    | none, _ => (st, "bad-op")
    | _, none => (st, "bad-op no-sock")
    | some msg, some so =>
      match so.typ with
      | .pub | .xpub => addFut st (num f) (some sid) (.pubSend sid msg)
      | .req => addFut st (num f) (some sid) (.reqSend sid msg)
      | .rep => addFut st (num f) (some sid) (.repSend sid msg)
      | .router => addFut st (num f) (some sid) (.routerSend sid msg)
      | .dealer | .push => addFut st (num f) (some sid) (.sendRR sid msg none)
      | _ => addFut st (num f) (some sid) (.fail "bad-op no-send")
  | "proxy" :: f :: a :: b :: rest =>
    let (sa, sb) := (num a, num b)
    if busy st sa || busy st sb then (st, "bad-op busy") else
    match getSock st.w sa, getSock st.w sb with
    | some x, some y =>
      let okT (t : SockType) : Bool := t = .router || t = .dealer
      let cap : Option Nat := match rest with
        | [c] => some (num c)
        | _ => none
      let capOk := match cap with
        | some c => match getSock st.w c with
          | some z => z.typ = .push || z.typ = .pub || z.typ = .dealer
          | none => false
        | none => true
      if !capOk then (st, "bad-op capture")
      else if okT x.typ && okT y.typ then
        let (st1, r) := addFut st (num f) (some sa) (.proxy sa sb cap 0 true [] .done)
        ({ st1 with owner := st1.owner ++ [(num f, sb)] ++ (match cap with | some c => [(num f, c)] | none => []) }, r)
      else (st, "bad-op proxy-types")
    | _, _ => (st, "bad-op no-sock")
  | op :: f :: s :: rest =>
    if op == "sub" || op == "unsub" then
      let sid := num s
      if busy st sid then (st, "bad-op busy") else
      match getSock st.w sid with
      | none => (st, "bad-op no-sock")
      | some so =>
        if so.typ ≠ .sub then addFut st (num f) (some sid) (.fail "bad-op not-sub") else
        let topic := match rest with
          | [t] => (parseBytes t).getD []
          | _ => []
        addFut st (num f) (some sid) (.subOp sid (op == "sub") topic false [] none false)
    else if op == "close" then
      let sid := num s
      if busy st sid then (st, "bad-op busy") else
      match getSock st.w sid with
      | none => (st, "bad-op no-sock")
      | some _ => addFut st (num f) none (.close sid)
    else (st, "bad-op")
  | ["dropsock", s] =>
    let sid := num s
    match getSock st.w sid with
    | none => (st, "bad-op no-sock")
    | some so =>
      if so.dead then (st, "bad-op no-sock") else
      -- futures that borrow the socket go first
      let gone := st.owner.filter (·.2 == sid) |>.map (·.1)
      let w := { st.w with futs := st.w.futs.filter (fun e => !gone.contains e.1) }
      ({ st with w := dropSocket w sid, owner := st.owner.filter (·.2 != sid) }, "ok")
  -- `pollx f`: one poll made with tokio's cooperative budget used up — the model has no budget: the same as `poll f`
  | ["poll", f] | ["pollx", f] =>
    let fid := num f
    match lookup st.w.futs fid with
    | none => if st.finished.contains fid then (st, "done") else (st, "bad-op no-fut")
    | some (.fail r) =>
      ({ st with w := { st.w with futs := erase st.w.futs fid }, finished := st.finished ++ [fid] }, s!"ready {r}")
    | some fs =>
      let (w, fs', o) := pollAny st.w fs
      match o with
      | .pending => ({ st with w := { w with futs := insert w.futs fid fs' } }, "pending")
      | .ready v =>
        ({ st with w := { w with futs := erase w.futs fid }, finished := st.finished ++ [fid] }, s!"ready {showVal v}")
  | ["woken", f] =>
    -- whether the future's own waker fired is not predicted by the model: the wake-up contract
    -- (Pending, then Ready on the next poll ⇒ woken in between) is judged on the implementation's trace
    let fid := num f
    if (lookup st.w.futs fid).isSome then (st, "woken yes || woken no")
    else if st.finished.contains fid then (st, "done") else (st, "bad-op no-fut")
  | ["drop", f] =>
    let fid := num f
    if (lookup st.w.futs fid).isSome || st.finished.contains fid then
      -- an abandoned handshake drops its `FramedIo`
      let w := match lookup st.w.futs fid with
        | some (.attach _ _ _ rd wr) => { st.w with pipes := dropW (dropR st.w.pipes rd.pipe) wr.pipe }
        | some (.proxy a b c _ _ _ _) => proxyEnd st.w a b c
        | _ => st.w
      ({ st with w := { w with futs := erase w.futs fid }, finished := st.finished.filter (· != fid),
                 owner := st.owner.filter (·.1 != fid) }, "ok")
    else (st, "bad-op no-fut")
  | ["drain"] => ({ st with w := drain st.w }, "ok")
  | _ => (st, "bad-op")

end Driver
