import Driver.Codec
import Driver.Spec
import Driver.Endpoint
import Driver.Fq
import Driver.World
import Driver.Net
/-! `zmqmodel <engine>`: one op per line in, one canonical result line out — the model side of
the correspondence check. -/
open Driver

def words (line : String) : List String :=
  (line.trimAscii.toString.splitOn " ").filter (· ≠ "")

partial def loopCodec (h : IO.FS.Stream) (out : IO.FS.Stream) (s : CodecSt) : IO Unit := do
  let line ← h.getLine
  if line.isEmpty then return ()
  let w := words line
  match w with
  | [] => loopCodec h out s
  | x :: _ =>
    if x.startsWith "#" then loopCodec h out s else
    let (s', o) := codecOp s w
    out.putStrLn o
    loopCodec h out s'

partial def loopPure (h : IO.FS.Stream) (out : IO.FS.Stream) (f : List String → String) : IO Unit := do
  let line ← h.getLine
  if line.isEmpty then return ()
  let w := words line
  match w with
  | [] => loopPure h out f
  | x :: _ =>
    if x.startsWith "#" then loopPure h out f else
    out.putStrLn (f w)
    loopPure h out f

partial def loopSt {σ : Type} (h : IO.FS.Stream) (out : IO.FS.Stream) (f : σ → List String → σ × String) (s : σ) : IO Unit := do
  let line ← h.getLine
  if line.isEmpty then return ()
  let w := words line
  match w with
  | [] => loopSt h out f s
  | x :: _ =>
    if x.startsWith "#" then loopSt h out f s else
    let (s', o) := f s w
    out.putStrLn o
    loopSt h out f s'

def main (args : List String) : IO UInt32 := do
  let stdin ← IO.getStdin
  let stdout ← IO.getStdout
  match args with
  | ["codec"] => loopCodec stdin stdout {}; return 0
  | ["spec"] => loopPure stdin stdout specOp; return 0
  | ["world"] => loopSt stdin stdout worldOp {}; return 0
  | ["net"] => loopSt stdin stdout netOp {}; return 0
  | ["fq"] => loopSt stdin stdout fqOp {}; return 0
  | ["endpoint"] => loopPure stdin stdout endpointOp; return 0
  | _ => IO.eprintln "usage: zmqmodel <engine>"; return 2
