import Driver.Util
/-! engine `codec` on the model side -/
namespace Driver
open Zmq

structure CodecSt where
  conn : Conn := Conn.init

def codecOp (s : CodecSt) (w : List String) : CodecSt × String :=
  match w with
  | ["case"] => ({}, "case ")
  | ["case", n] => ({}, s!"case {n}")
  | ["enc", m] =>
    match parseMsg m with
    | some fs => (s, s!"wire {showBytes (encodeMsg fs)}")
    | none => (s, "bad-op")
  | ["roundtrip", m] =>
    match parseMsg m with
    | some fs =>
      let r := run Dec.framing (encodeMsg fs)
      let tail := match r.panic, r.error with
        | some _, _ => "PANIC"
        | none, some e => s!"err {errName e}"
        | none, none => "none"
      (s, s!"rt {" ; ".intercalate (r.items.map showItem ++ [tail])} | left {r.rest.length}")
    | none => (s, "bad-op")
  | ["encgreeting"] => (s, s!"wire {hex (encodeGreeting Greeting.default)}")
  | ["encready", t, idt] =>
    match sockTypeOfString t with
    | none => (s, "bad-op type")
    | some t =>
      if idt == "none" then (s, s!"wire {hex (encodeReady t none false)}")
      else match parseBytes idt with
        | some i => (s, s!"wire {hex (encodeReady t (some i) false)} || wire {hex (encodeReady t (some i) true)}")
        | none => (s, "bad-op")
  | ["newdec"] => ({}, "ok")
  | ["feed", c] =>
    match parseBytes c with
    | none => (s, "bad-op")
    | some chunk =>
      if s.conn.dead then (s, "dead") else
      let (items, c') := s.conn.feed chunk
      let tail := match c'.panic, c'.error with
        | some _, _ => "PANIC"
        | none, some e => s!"err {errName e}"
        | none, none => "none"
      ({ conn := c' }, s!"items {" ; ".intercalate (items.map showItem ++ [tail])} | left {c'.buf.length}")
  | ["hfeed", c] =>
    match parseBytes c with
    | none => (s, "bad-op")
    | some chunk =>
      if s.conn.dead then (s, "dead") else
      let (items, c') := s.conn.feed chunk
      let tail := match c'.panic, c'.error with
        | some _, _ => "PANIC"
        | none, some e => s!"err {errName e}"
        | none, none => "none"
      ({ conn := c' },
        s!"items {" ; ".intercalate (items.map showItem ++ [tail])} | left {c'.buf.length} | heap ok")
  | _ => (s, "bad-op")

end Driver
