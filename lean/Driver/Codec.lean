import Driver.Util
/-! engine `codec` on the model side -/
namespace Driver
open Zmq

structure CodecSt where
  dec : Dec := Dec.init
  buf : Bytes := []
  dead : Bool := false

def codecOp (s : CodecSt) (w : List String) : CodecSt × String :=
  match w with
  | ["case"] => ({}, "case ")
  | ["case", n] => ({}, s!"case {n}")
  | ["enc", m] =>
    match parseMsg m with
    | some fs => (s, s!"wire {showBytes (encodeMsg fs)}")
    | none => (s, "bad-op")
  | ["roundtrip", m] =>
    match parseMsg m with
    | some fs =>
      let r := run Dec.framing (encodeMsg fs)
      let tail := match r.panic, r.error with
        | some _, _ => "PANIC"
        | none, some e => s!"err {errName e}"
        | none, none => "none"
      (s, s!"rt {" ; ".intercalate (r.items.map showItem ++ [tail])} | left {r.rest.length}")
    | none => (s, "bad-op")
  | ["encgreeting"] => (s, s!"wire {hex (encodeGreeting Greeting.default)}")
  | ["encready", t, idt] =>
    match sockTypeOfString t with
    | none => (s, "bad-op type")
    | some t =>
      if idt == "none" then (s, s!"wire {hex (encodeReady t none false)}")
      else match parseBytes idt with
        | some i => (s, s!"wire {hex (encodeReady t (some i) false)} || wire {hex (encodeReady t (some i) true)}")
        | none => (s, "bad-op")
  | ["newdec"] => ({}, "ok")
  | ["feed", c] =>
    match parseBytes c with
    | none => (s, "bad-op")
    | some chunk =>
      if s.dead then (s, "dead") else
      let r := run s.dec (s.buf ++ chunk)
      let items := r.items.map showItem
      let (tail, dead) := match r.panic, r.error with
        | some _, _ => ("PANIC", true)
        | none, some e => (s!"err {errName e}", true)
        | none, none => ("none", false)
      ({ dec := r.dec, buf := r.rest, dead := dead },
        s!"items {" ; ".intercalate (items ++ [tail])} | left {r.rest.length}")
  | _ => (s, "bad-op")

end Driver
