import ZmqVerif.Model.Decoder
/-! Line-protocol helpers of the model driver: the same token grammar and the same
canonical printing as `harness/src/util.rs`. -/
namespace Driver
open Zmq

def hexDigit (n : Nat) : Char :=
  if n < 10 then Char.ofNat (48 + n) else Char.ofNat (87 + n)

def hex (b : Bytes) : String :=
  String.ofList (b.foldr (fun x acc => hexDigit (x.toNat / 16) :: hexDigit (x.toNat % 16) :: acc) [])

def unhexDigit (c : Char) : Option Nat :=
  if '0' ≤ c ∧ c ≤ '9' then some (c.toNat - 48)
  else if 'a' ≤ c ∧ c ≤ 'f' then some (c.toNat - 87)
  else if 'A' ≤ c ∧ c ≤ 'F' then some (c.toNat - 55)
  else none

partial def unhexGo : List Char → Array UInt8 → Option (Array UInt8)
  | [], acc => some acc
  | [_], _ => none
  | a :: b :: r, acc =>
    match unhexDigit a, unhexDigit b with
    | some x, some y => unhexGo r (acc.push (UInt8.ofNat (x * 16 + y)))
    | _, _ => none

def unhex (s : String) : Option Bytes := (unhexGo s.toList #[]).map Array.toList

/-- byte `i` of the generated body `@len:seed` -/
def genByte (seed i : Nat) : UInt8 :=
  let x := ((seed * 1000003 + i) % 18446744073709551616 * 2654435761) % 4294967296
  UInt8.ofNat (x / 16777216 % 256)

def genBytes (len seed : Nat) : Bytes :=
  (Array.ofFn (n := len) (fun i => genByte seed i.val)).toList

def parsePart (p : String) : Option Bytes :=
  if p == "." || p == "" then some []
  else if p.startsWith "@" then
    match (p.drop 1).toString.splitOn ":" with
    | [l, s] => match l.toNat?, s.toNat? with
      | some l, some s => some (genBytes l s)
      | _, _ => none
    | _ => none
  else unhex p

def parseBytes (tok : String) : Option Bytes :=
  (tok.splitOn "+").foldl (fun acc p => match acc, parsePart p with
    | some a, some b => some (a ++ b)
    | _, _ => none) (some [])

def parseMsg (tok : String) : Option (List Bytes) :=
  (tok.splitOn ",").foldr (fun p acc => match parseBytes p, acc with
    | some b, some a => some (b :: a)
    | _, _ => none) (some [])

def fnv64 (b : Bytes) : UInt64 :=
  b.foldl (fun h x => (h ^^^ x.toUInt64) * 0x100000001b3) 0xcbf29ce484222325

def hex64 (v : UInt64) : String :=
  String.ofList ((List.range 16).map fun i => hexDigit ((v.toNat / 16 ^ (15 - i)) % 16))

def showBytes (b : Bytes) : String :=
  if b.isEmpty then "."
  else if b.length ≤ 200 then hex b
  else s!"{hex (b.take 16)}#{b.length}:{hex64 (fnv64 b)}"

def showMsg (m : List Bytes) : String :=
  if m.isEmpty then "EMPTYMSG" else ",".intercalate (m.map showBytes)

def sockTypeOfString (s : String) : Option SockType :=
  SockType.all.find? (fun t => String.ofList (t.name.map (fun b => Char.ofNat b.toNat)) == s)

def sockTypeString (t : SockType) : String :=
  String.ofList (t.name.map (fun b => Char.ofNat b.toNat))

def errName : Err → String
  | .command => "Command" | .greeting => "Greeting" | .mechanism => "Mechanism"
  | .decode => "Decode" | .io => "Io" | .other => "Other"
  | .unsupportedVersion => "UnsupportedVersion" | .peerIdentity => "PeerIdentity"
  | .noMessage => "NoMessage" | .returnToSender => "ReturnToSender" | .bufferFull => "BufferFull"
  | .network => "Network" | .codecOther => "CodecOther"

def mechString : Mechanism → String
  | .null => "NULL" | .plain => "PLAIN" | .curve => "CURVE"

/-- later-wins de-duplication + sort by key: what a `HashMap` keeps, canonically ordered -/
def canonProps (ps : Props) : Props :=
  let dedup := ps.foldl (fun acc (k, v) => (acc.filter (fun kv => kv.1 ≠ k)) ++ [(k, v)]) []
  let lt (a b : Bytes × Bytes) : Bool := decide (a.1.map UInt8.toNat < b.1.map UInt8.toNat)
  (dedup.toArray.qsort lt).toList

def showItem : Item → String
  | .greeting g => s!"G{g.major.toNat}.{g.minor.toNat}/{mechString g.mech}/{if g.asServer then 1 else 0}"
  | .command ps =>
    let body := ";".intercalate ((canonProps ps).map fun (k, v) => s!"{showBytes k}={showBytes v}")
    "C:READY{" ++ body ++ "}"
  | .message m => s!"M[{showMsg m}]"

end Driver
