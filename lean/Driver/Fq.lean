import Driver.Util
import ZmqVerif.Model.FairQueue
/-! engine `fq` on the model side: the micro-step model of `Model.FairQueue`, driven through the
same ops as the real queue.  A `poll` runs `pollStart` and then receiver sections until the
receiver is idle (delivered) or parked; window actions are environment steps taken while the
program counter is at `b` (before the stream is polled) or at `c` (after). -/
namespace Driver
open Zmq.FQ

structure FqSt where
  s : St := {}
  pre : List (Nat × Op) := []
  post : List (Nat × Op) := []

def parseEnv : List String → Option Op
  | ["insert", k] => k.toNat?.map Op.insert
  | ["remove", k] => k.toNat?.map Op.remove
  | ["arrive", k, i] => match k.toNat?, i.toNat? with
    | some k, some i => some (Op.arrive k i)
    | _, _ => none
  | ["close", k] => k.toNat?.map Op.close
  | ["exhaust"] => some Op.exhaust
  | ["setwaker", w] => w.toNat?.map Op.setWaker
  | _ => none

/-- run the receiver until it returns; fuel bounds the loop (each section strictly progresses) -/
def runPoll : Nat → FqSt → FqSt
  | 0, f => f
  | fuel+1, f =>
    match f.s.pc with
    | .idle => f
    | .parked => f
    | .a => runPoll fuel { f with s := step f.s .recvStep }
    | .b _ k =>
      let mine := (f.pre.filter (·.1 == k)).map (·.2)
      let s1 := mine.foldl step f.s
      runPoll fuel { f with s := step s1 .recvStep, pre := f.pre.filter (·.1 != k) }
    | .c _ k _ =>
      let mine := (f.post.filter (·.1 == k)).map (·.2)
      let s1 := mine.foldl step f.s
      runPoll fuel { f with s := step s1 .recvStep, post := f.post.filter (·.1 != k) }

/-- the waker woken last (`-` if none yet) and the number of wake-ups so far -/
def wk (s : St) : String :=
  let l := match s.woken.getLast? with
    | some w => toString w
    | none => "-"
  s!"w={l} wakes={s.wakes}"

def fqOp (f : FqSt) (w : List String) : FqSt × String :=
  match w with
  | ["case"] => ({}, "case ")
  | ["case", n] => ({}, s!"case {n}")
  | "window" :: k :: whn :: rest =>
    match k.toNat?, parseEnv rest with
    | some k, some op =>
      if whn == "pre" then ({ f with pre := f.pre ++ [(k, op)] }, "ok")
      else if whn == "post" then ({ f with post := f.post ++ [(k, op)] }, "ok")
      else (f, "bad-op")
    | _, _ => (f, "bad-op")
  | ["poll"] =>
    let n0 := f.s.out.length
    let f1 := { f with s := step f.s .pollStart }
    let fuel := 3 * (f1.s.heap.length + f1.pre.length + f1.post.length + 2) + 8
    let f2 := runPoll (4 * fuel) f1
    match f2.s.pc with
    | .idle =>
      if f2.s.out.length > n0 then
        match f2.s.out.getLast? with
        | some (k, i) => (f2, s!"ready {k} {i} {wk f2.s}")
        | none => (f2, "model-error")
      else (f2, "model-error idle-without-delivery")
    | .parked => (f2, s!"pending {wk f2.s}")
    | _ => (f2, "model-error out-of-fuel")
  | _ =>
    match parseEnv w with
    | some op => let s' := step f.s op; ({ f with s := s' }, s!"ok {wk s'}")
    | none => (f, "bad-op")

end Driver
