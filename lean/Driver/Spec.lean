import Driver.Util
import ZmqVerif.Spec.Rfc23
/-! engine `spec`: the independent Spec predicates evaluated on bytes the IMPLEMENTATION produced -/
namespace Driver
open Zmq Zmq.Rfc

def specOp (w : List String) : String :=
  match w with
  | ["case"] => "case "
  | ["case", n] => s!"case {n}"
  -- parse a byte stream with the strict RFC 23 grammar and regroup it into messages
  | ["rfcmsgs", b] =>
    match parseBytes b with
    | none => "bad-op"
    | some bs =>
      match parseFrames bs with
      | none => "malformed"
      | some fs =>
        match groupMsgs fs [] with
        | none => "malformed-grouping"
        | some ms => "msgs " ++ ";".intercalate (ms.map fun m => s!"M[{showMsg m}]")
  | ["rfccmd", b] =>
    match parseBytes b with
    | none => "bad-op"
    | some bs =>
      match parseCommandFrame bs with
      | none => "malformed"
      | some (name, ps) =>
        let body := ";".intercalate ((canonProps ps).map fun (k, v) => s!"{showBytes k}={showBytes v}")
        s!"cmd {hex name} " ++ "{" ++ body ++ "}"
  | ["rfcgreeting", b, maj, min, mech, srv] =>
    match parseBytes b, maj.toNat?, min.toNat?, parseBytes mech with
    | some bs, some maj, some min, some mech =>
      if validGreeting bs (UInt8.ofNat maj) (UInt8.ofNat min) mech (srv == "1") then "valid" else "invalid"
    | _, _, _, _ => "bad-op"
  | _ => "bad-op"

end Driver
