import ZmqVerif.Model.Wire
/-!
# Spec — the socket compatibility relation of the RFCs

Typed in from RFC 28 (REQ/REP/DEALER/ROUTER), RFC 29 (PUB/SUB/XPUB/XSUB), RFC 30
(PUSH/PULL), RFC 31 (PAIR); STREAM peers are raw TCP, not ZMTP sockets.
-/
namespace Zmq.Rfc
open Zmq

def compatRfc : SockType → SockType → Bool
  | .pair, .pair => true
  | .pub, .sub | .pub, .xsub => true
  | .sub, .pub | .sub, .xpub => true
  | .xpub, .sub | .xpub, .xsub => true
  | .xsub, .pub | .xsub, .xpub => true
  | .req, .rep | .req, .router => true
  | .rep, .req | .rep, .dealer => true
  | .dealer, .rep | .dealer, .dealer | .dealer, .router => true
  | .router, .req | .router, .dealer | .router, .router => true
  | .push, .pull => true
  | .pull, .push => true
  | _, _ => false

end Zmq.Rfc
