import ZmqVerif.Model.Endpoint
/-!
# Spec — the endpoint grammar the property states, declaratively

"exactly lower-case `tcp://host:port` with a non-empty host and a decimal port in
0..=65535, and `ipc://path` with a non-empty path".  (Text is single-line: the character
`\n` never occurs.)  How a host text is classified (IPv4 / IPv6 / domain) is `parseHost`.
-/
namespace Zmq.Ep
open Zmq.Ip

inductive EndpointOk (m : IpModel) : Str → Endpoint m → Prop
  | tcp (hs ps : Str) (hne : hs ≠ []) (hnl : '\n' ∉ hs) (pne : ps ≠ [])
      (pdig : ∀ c ∈ ps, isDigit c = true) (pval : digitsVal ps ≤ 65535) :
      EndpointOk m (['t','c','p',':','/','/'] ++ hs ++ [':'] ++ ps) (.tcp (parseHost m hs) (digitsVal ps))
  | ipc (path : Str) (hne : path ≠ []) (hnl : '\n' ∉ path) :
      EndpointOk m (['i','p','c',':','/','/'] ++ path) (.ipc path)

end Zmq.Ep
