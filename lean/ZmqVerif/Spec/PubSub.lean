import ZmqVerif.Model.Basic
/-!
# Spec — subscriptions as a multiset, matching by byte prefix

"Subscriptions are counted per connection: each unsubscribe cancels one equal subscribe;
malformed subscription messages change nothing; a message is delivered iff at least one active
subscription is a byte-prefix of its first frame."  Written independently of the list-based
bookkeeping of the code.
-/
namespace Zmq.SpecPS
open Zmq

/-- how many times each topic is currently subscribed -/
def Counts := Bytes → Nat

/-- one subscription message (the frames of one message from the subscriber) -/
def onMsg (c : Counts) (frames : List Bytes) : Counts :=
  match frames with
  | [b :: t] =>
    if b = 1 then fun x => if x = t then c x + 1 else c x
    else if b = 0 then fun x => if x = t then c x - 1 else c x
    else c
  | _ => c          -- empty, multi-frame, or empty-frame messages change nothing

/-- the delivery decision, stated outright -/
def Matches (c : Counts) (firstFrame : Bytes) : Prop := ∃ t, c t > 0 ∧ t <+: firstFrame

end Zmq.SpecPS
