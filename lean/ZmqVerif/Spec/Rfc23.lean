import ZmqVerif.Model.Basic
/-!
# Spec — an independent, strict reading of RFC 23 (ZMTP 3.0) framing

Written from the RFC text, not from the library: a frame is a flags octet whose
bits 7‥3 are zero, bit 2 = COMMAND, bit 1 = LONG, bit 0 = MORE; a one-octet size
(short) or an eight-octet network-order size (long); then the body.  The
property additionally demands the canonical width ("one-byte size only for
bodies of at most 255 bytes, eight-byte otherwise"), which this parser enforces.
-/
namespace Zmq.Rfc
open Zmq

structure RFrame where
  more : Bool
  command : Bool
  body : Bytes
deriving Repr, DecidableEq

def parseFrame : Bytes → Option (RFrame × Bytes)
  | [] => none
  | fl :: rest =>
    if fl &&& 0xF8 ≠ 0 then none else
    let more := fl &&& 1 ≠ 0
    let long := fl &&& 2 ≠ 0
    let cmd := fl &&& 4 ≠ 0
    if cmd ∧ more then none else        -- a command frame never carries MORE
    if long then
      if rest.length < 8 then none else
      let n := beNat (rest.take 8)
      let r := rest.drop 8
      if n ≤ 255 then none               -- a long size for a short body is not canonical
      else if r.length < n then none
      else some ({ more := more, command := cmd, body := r.take n }, r.drop n)
    else
      match rest with
      | [] => none
      | sz :: r =>
        if r.length < sz.toNat then none
        else some ({ more := more, command := cmd, body := r.take sz.toNat }, r.drop sz.toNat)

theorem parseFrame_shorter {bs : Bytes} {f : RFrame} {rest : Bytes}
    (h : parseFrame bs = some (f, rest)) : rest.length < bs.length := by
  cases bs with
  | nil => simp [parseFrame] at h
  | cons fl r0 =>
    simp only [parseFrame] at h
    split at h
    · simp at h
    · split at h
      · simp at h
      · split at h
        · split at h
          · simp at h
          · split at h
            · simp at h
            · split at h
              · simp at h
              · simp at h; obtain ⟨_, rfl⟩ := h; simp; omega
        · split at h
          · simp at h
          · split at h
            · simp at h
            · simp at h; obtain ⟨_, rfl⟩ := h; simp; omega

/-- parse a whole buffer into frames; `none` if anything is malformed or left over -/
def parseFrames (bs : Bytes) : Option (List RFrame) :=
  if _hb : bs = [] then some [] else
  match hp : parseFrame bs with
  | none => none
  | some (f, rest) =>
    match parseFrames rest with
    | none => none
    | some fs => some (f :: fs)
termination_by bs.length
decreasing_by exact parseFrame_shorter hp

/-- the frames of one application message: MORE on all but the last, no COMMAND bit -/
def tagMore : List Bytes → List RFrame
  | [] => []
  | [f] => [{ more := false, command := false, body := f }]
  | f :: g :: fs => { more := true, command := false, body := f } :: tagMore (g :: fs)

/-- group a frame sequence back into messages (a message ends at the first frame without MORE);
`none` if the sequence ends inside a message or contains a command frame -/
def groupMsgs : List RFrame → List Bytes → Option (List (List Bytes))
  | [], [] => some []
  | [], _ :: _ => none
  | f :: fs, acc =>
    if f.command then none
    else if f.more then groupMsgs fs (acc ++ [f.body])
    else (groupMsgs fs []).map ((acc ++ [f.body]) :: ·)

/-! ### command bodies and the greeting -/

/-- `property = name-len name value-len(4) value`, repeated to the end of the body -/
def parsePropsRfc : Nat → Bytes → Option (List (Bytes × Bytes))
  | 0, _ => none
  | _+1, [] => some []
  | fuel+1, n :: rest =>
    if n = 0 then none else                          -- property names are 1..255 octets
    if rest.length < n.toNat + 4 then none else
    let name := rest.take n.toNat
    let r := rest.drop n.toNat
    let vlen := beNat (r.take 4)
    let r := r.drop 4
    if r.length < vlen then none else
    (parsePropsRfc fuel (r.drop vlen)).map ((name, r.take vlen) :: ·)

/-- command body = name-len name properties -/
def parseCommandBody (body : Bytes) : Option (Bytes × List (Bytes × Bytes)) :=
  match body with
  | [] => none
  | n :: rest =>
    if n = 0 ∨ rest.length < n.toNat then none else
    (parsePropsRfc (rest.length + 1) (rest.drop n.toNat)).map (fun ps => (rest.take n.toNat, ps))

/-- a whole buffer that is exactly one command frame -/
def parseCommandFrame (bs : Bytes) : Option (Bytes × List (Bytes × Bytes)) :=
  match parseFrame bs with
  | some (f, []) => if f.command ∧ ¬ f.more then parseCommandBody f.body else none
  | _ => none

/-- the 64-octet greeting: signature `FF` 8×any `7F`, version, 20-octet mechanism
(upper-case name padded with NULs), as-server, 31 zero octets of filler -/
def validGreeting (g : Bytes) (major minor : UInt8) (mech : Bytes) (asServer : Bool) : Bool :=
  g.length == 64
  && g[0]? == some 0xff && g[9]? == some 0x7f
  && ((g.drop 1).take 8).all (· == 0)                 -- padding the library sends as zeros
  && g[10]? == some major && g[11]? == some minor
  && (g.drop 12).take mech.length == mech
  && ((g.drop (12 + mech.length)).take (20 - mech.length)).all (· == 0)
  && mech.length ≤ 20 && mech.all (fun c => 65 ≤ c.toNat ∧ c.toNat ≤ 90)
  && g[32]? == some (if asServer then 1 else 0)
  && (g.drop 33).all (· == 0)

end Zmq.Rfc
