import ZmqVerif.Lemmas.WorldSend
namespace Zmq.W
open Zmq

theorem sendToPoll_shape (w : World) (sid : Nat) (k : Ident) (st : SendSt) (sc : Bool) :
    (∃ st', (sendToPoll w sid k st sc).2 = (.sendTo sid k st' sc, .pending)) ∨
    (sendToPoll w sid k st sc).2 = (.done, .ready .okUnit) ∨
    (∃ e, (sendToPoll w sid k st sc).2 = (.done, .ready (.err e))) := by
  unfold sendToPoll
  cases getSock w sid with
  | none => exact Or.inr (Or.inr ⟨_, rfl⟩)
  | some s =>
    simp only
    cases ilookup s.peers k with
    | none => exact Or.inr (Or.inr ⟨_, rfl⟩)
    | some wr =>
      simp only
      rcases wrSendPoll w.pipes wr st with ⟨ps1, wr1, st1, r⟩
      cases r with
      | pending => exact Or.inl ⟨_, rfl⟩
      | error => exact Or.inr (Or.inr ⟨_, rfl⟩)
      | done => exact Or.inr (Or.inl rfl)

/-- **`ReqSocket::send`, first poll, against the wires.**  Whatever the rotation looks like (stale entries of lost
servers are skipped): a send that is refused hands the message back and touches no wire; otherwise exactly one
registered peer `k` is chosen and the send is in progress to it with the encoding of `[delimiter] ++ message` —
`SendInv` holds with `base` = that connection's outgoing stream at the start (so by `sendToPoll_spec`, over all
later polls, the request goes out behind EXACTLY ONE delimiter on exactly that connection); if it completes at once,
that wire is `base` followed by the complete encoding and no other write side was touched. -/
theorem reqSendStart_spec (fuel : Nat) (w : World) (sid : Nat) (m : Msg) (s : Socket) (hs : getSock w sid = some s)
    (w' : World) (f' : FutSt) (o : POut) (h : reqSendStart fuel w sid m = (w', f', o)) :
    match (generalizing := false) f', o with
    | .sendTo _ k st _, .pending =>
        ∃ wr, ilookup s.peers k = some wr ∧
          SendInv w' sid k wr.pipe (outOf w.pipes wr) (encodeMsg (reqWrap m)) st ∧
          ∀ j, j ≠ wr.pipe → wOf w'.pipes j = wOf w.pipes j
    | _, .ready .okUnit =>
        ∃ k wr, ilookup s.peers k = some wr ∧
          (wOf w'.pipes wr.pipe).wire = outOf w.pipes wr ++ encodeMsg (reqWrap m) ∧
          ∀ j, j ≠ wr.pipe → wOf w'.pipes j = wOf w.pipes j
    | _, .ready (.errReturn m') => m' = m ∧ ∀ j, wOf w'.pipes j = wOf w.pipes j
    | _, .ready (.err _) => True
    | _, _ => False := by
  induction fuel generalizing w s with
  | zero =>
    simp only [reqSendStart, Prod.mk.injEq] at h
    obtain ⟨rfl, rfl, rfl⟩ := h
    trivial
  | succ fuel ih =>
    unfold reqSendStart at h
    simp only [hs] at h
    split at h
    · simp only [Prod.mk.injEq] at h
      obtain ⟨rfl, rfl, rfl⟩ := h
      exact ⟨rfl, fun _ => rfl⟩
    · cases hrr : s.rr with
      | nil =>
        simp only [hrr, Prod.mk.injEq] at h
        obtain ⟨rfl, rfl, rfl⟩ := h
        exact ⟨rfl, fun _ => rfl⟩
      | cons k rest =>
        simp only [hrr] at h
        cases hp : ilookup s.peers k with
        | none =>
          simp only [hp, Option.isSome_none, Bool.false_eq_true, ↓reduceIte] at h
          have := ih (setSock w sid { s with rr := rest }) { s with rr := rest } (getSock_setSock_same _ _ _) h
          exact this
        | some wr =>
          simp only [hp, Option.isSome_some, ↓reduceIte] at h
          have hinv : SendInv (setSock w sid { s with rr := rest ++ [k] }) sid k wr.pipe (outOf w.pipes wr)
              (encodeMsg (reqWrap m)) (.feeding (encodeMsg (reqWrap m))) :=
            SendInv.start _ sid { s with rr := rest ++ [k] } k wr _ (getSock_setSock_same _ _ _) hp
          obtain ⟨h1, h2⟩ := sendToPoll_spec _ sid k wr.pipe _ _ _ true hinv w' f' o h
          simp only [setSock_pipes] at h1
          have hsh := sendToPoll_shape (setSock w sid { s with rr := rest ++ [k] }) sid k
            (.feeding (encodeMsg (reqWrap m))) true
          rw [h] at hsh
          rcases hsh with ⟨st', hq⟩ | hq | ⟨e, hq⟩
          · simp only [Prod.mk.injEq] at hq
            obtain ⟨rfl, rfl⟩ := hq
            simp only at h2 ⊢
            exact ⟨wr, hp, h2.2, h1⟩
          · simp only [Prod.mk.injEq] at hq
            obtain ⟨rfl, rfl⟩ := hq
            simp only at h2 ⊢
            exact ⟨k, wr, hp, h2, h1⟩
          · simp only [Prod.mk.injEq] at hq
            obtain ⟨rfl, rfl⟩ := hq
            trivial

/-- **`RepSocket::send`, first poll, against the wires**: without a request there is nothing to answer (message handed
back, no wire touched); otherwise the send is in progress to EXACTLY the connection the request came from
(`s.current`), with the encoding of `stored envelope ++ reply` (`repReply`). -/
theorem repSendStart_spec (w : World) (sid : Nat) (m : Msg) (s : Socket) (hs : getSock w sid = some s)
    (w' : World) (f' : FutSt) (o : POut) (h : repSendStart w sid m = (w', f', o)) :
    match (generalizing := false) f', o with
    | .sendTo _ k st _, .pending =>
        s.current = some k ∧ ∃ wr, ilookup s.peers k = some wr ∧
          SendInv w' sid k wr.pipe (outOf w.pipes wr) (encodeMsg (repReply (s.envelope.getD []) m)) st ∧
          ∀ j, j ≠ wr.pipe → wOf w'.pipes j = wOf w.pipes j
    | _, .ready .okUnit =>
        ∃ k wr, s.current = some k ∧ ilookup s.peers k = some wr ∧
          (wOf w'.pipes wr.pipe).wire = outOf w.pipes wr ++ encodeMsg (repReply (s.envelope.getD []) m) ∧
          ∀ j, j ≠ wr.pipe → wOf w'.pipes j = wOf w.pipes j
    | _, .ready (.errReturn m') => m' = m ∧ ∀ j, wOf w'.pipes j = wOf w.pipes j
    | _, .ready (.err _) => True
    | _, _ => False := by
  unfold repSendStart at h
  simp only [hs] at h
  cases hc : s.current with
  | none =>
    simp only [hc, Prod.mk.injEq] at h
    obtain ⟨rfl, rfl, rfl⟩ := h
    exact ⟨rfl, fun _ => rfl⟩
  | some k =>
    simp only [hc] at h
    cases hp : ilookup s.peers k with
    | none =>
      simp only [hp, Option.isSome_none, Bool.false_eq_true, ↓reduceIte, Prod.mk.injEq] at h
      obtain ⟨rfl, rfl, rfl⟩ := h
      exact ⟨rfl, fun _ => rfl⟩
    | some wr =>
      simp only [hp, Option.isSome_some, ↓reduceIte] at h
      have hinv : SendInv (setSock w sid { s with current := none, envelope := none }) sid k wr.pipe (outOf w.pipes wr)
          (encodeMsg (repReply (s.envelope.getD []) m)) (.feeding (encodeMsg (repReply (s.envelope.getD []) m))) :=
        SendInv.start _ sid { s with current := none, envelope := none } k wr _ (getSock_setSock_same _ _ _) hp
      obtain ⟨h1, h2⟩ := sendToPoll_spec _ sid k wr.pipe _ _ _ false hinv w' f' o h
      simp only [setSock_pipes] at h1
      have hsh := sendToPoll_shape (setSock w sid { s with current := none, envelope := none }) sid k
        (.feeding (encodeMsg (repReply (s.envelope.getD []) m))) false
      rw [h] at hsh
      rcases hsh with ⟨st', hq⟩ | hq | ⟨e, hq⟩
      · simp only [Prod.mk.injEq] at hq
        obtain ⟨rfl, rfl⟩ := hq
        simp only at h2 ⊢
        refine ⟨?_, wr, ?_, h2.2, h1⟩ <;> first | rfl | trivial | exact hp
      · simp only [Prod.mk.injEq] at hq
        obtain ⟨rfl, rfl⟩ := hq
        simp only at h2 ⊢
        refine ⟨k, wr, ?_, ?_, h2, h1⟩ <;> first | rfl | trivial | exact hp
      · simp only [Prod.mk.injEq] at hq
        obtain ⟨rfl, rfl⟩ := hq
        trivial

/-- **`RouterSocket::send`, first poll, against the wires**: a message of two or more frames goes — minus its first
frame — to EXACTLY the connected peer whose identity equals that frame; if no such peer is connected the send fails
and NOTHING is written to any connection. -/
theorem routerSendStart_spec (w : World) (sid : Nat) (t : Bytes) (rest : Msg) (hne : rest ≠ []) (s : Socket)
    (hs : getSock w sid = some s) (w' : World) (f' : FutSt) (o : POut)
    (h : routerSendStart w sid (t :: rest) = (w', f', o)) :
    match (generalizing := false) f', o with
    | .sendTo _ k st _, .pending =>
        k = t ∧ ∃ wr, ilookup s.peers t = some wr ∧
          SendInv w' sid t wr.pipe (outOf w.pipes wr) (encodeMsg rest) st ∧
          ∀ j, j ≠ wr.pipe → wOf w'.pipes j = wOf w.pipes j
    | _, .ready .okUnit =>
        ∃ wr, ilookup s.peers t = some wr ∧
          (wOf w'.pipes wr.pipe).wire = outOf w.pipes wr ++ encodeMsg rest ∧
          ∀ j, j ≠ wr.pipe → wOf w'.pipes j = wOf w.pipes j
    | _, .ready (.err _) => (ilookup s.peers t = none ∨ t = [] ∨ t.length > 255) → ∀ j, wOf w'.pipes j = wOf w.pipes j
    | _, _ => False := by
  unfold routerSendStart at h
  have hlen : ¬ (t :: rest).length ≤ 1 := by
    cases rest with
    | nil => exact (hne rfl).elim
    | cons a b => simp
  simp only [hlen, ↓reduceIte, routerOut] at h
  by_cases ht : t.isEmpty
  · simp only [ht, ↓reduceIte, Prod.mk.injEq] at h
    obtain ⟨rfl, rfl, rfl⟩ := h
    exact fun _ _ => rfl
  · simp only [ht, Bool.false_eq_true, ↓reduceIte] at h
    by_cases hl : t.length > 255
    · simp only [hl, ↓reduceIte, Prod.mk.injEq] at h
      obtain ⟨rfl, rfl, rfl⟩ := h
      exact fun _ _ => rfl
    · simp only [hl, ↓reduceIte, hs] at h
      cases hp : ilookup s.peers t with
      | none =>
        simp only [hp, Option.isSome_none, Bool.false_eq_true, ↓reduceIte, Prod.mk.injEq] at h
        obtain ⟨rfl, rfl, rfl⟩ := h
        exact fun _ _ => rfl
      | some wr =>
        simp only [hp, Option.isSome_some, ↓reduceIte] at h
        have hinv : SendInv w sid t wr.pipe (outOf w.pipes wr) (encodeMsg rest) (.feeding (encodeMsg rest)) :=
          SendInv.start w sid s t wr _ hs hp
        obtain ⟨h1, h2⟩ := sendToPoll_spec _ sid t wr.pipe _ _ _ false hinv w' f' o h
        have hsh := sendToPoll_shape w sid t (.feeding (encodeMsg rest)) false
        rw [h] at hsh
        rcases hsh with ⟨st', hq⟩ | hq | ⟨e, hq⟩
        · simp only [Prod.mk.injEq] at hq
          obtain ⟨rfl, rfl⟩ := hq
          simp only at h2 ⊢
          refine ⟨?_, wr, ?_, h2.2, h1⟩ <;> first | rfl | trivial | exact hp
        · simp only [Prod.mk.injEq] at hq
          obtain ⟨rfl, rfl⟩ := hq
          simp only at h2 ⊢
          refine ⟨wr, ?_, h2, h1⟩ <;> first | rfl | trivial | exact hp
        · simp only [Prod.mk.injEq] at hq
          obtain ⟨rfl, rfl⟩ := hq
          intro hor
          rcases hor with hn | he | hg
          · cases hn
          · subst he; simp at ht
          · exact (hl hg).elim

theorem sendRRPoll_some_shape (fuel : Nat) (w : World) (sid : Nat) (m : Msg) (k : Ident) (st : SendSt) :
    (∃ st', (sendRRPoll (fuel + 1) w sid m (some (k, st))).2 = (.sendRR sid m (some (k, st')), .pending)) ∨
    (sendRRPoll (fuel + 1) w sid m (some (k, st))).2 = (.done, .ready .okUnit) ∨
    (∃ e, (sendRRPoll (fuel + 1) w sid m (some (k, st))).2 = (.done, .ready (.err e))) := by
  unfold sendRRPoll
  cases getSock w sid with
  | none => exact Or.inr (Or.inr ⟨_, rfl⟩)
  | some s =>
    simp only
    cases ilookup s.peers k with
    | none => exact Or.inr (Or.inr ⟨_, rfl⟩)
    | some wr =>
      simp only
      rcases wrSendPoll w.pipes wr st with ⟨ps1, wr1, st1, r⟩
      cases r with
      | pending => exact Or.inl ⟨_, rfl⟩
      | error => exact Or.inr (Or.inr ⟨_, rfl⟩)
      | done => exact Or.inr (Or.inl rfl)

/-- **`send_round_robin` (PUSH, DEALER), first poll, against the wires**: entries of vanished peers are skipped; with no
live peer the message is handed back intact and NOTHING is written; otherwise exactly one registered peer is chosen
and the send is in progress to it with the encoding of the message, unchanged (`SendInv`, `base` = that connection's
outgoing stream at the start). -/
theorem sendRRStart_spec (fuel : Nat) (w : World) (sid : Nat) (m : Msg) (s : Socket) (hs : getSock w sid = some s)
    (w' : World) (f' : FutSt) (o : POut) (h : sendRRPoll fuel w sid m none = (w', f', o)) :
    match (generalizing := false) f', o with
    | .sendRR _ _ (some (k, st)), .pending =>
        ∃ wr, ilookup s.peers k = some wr ∧
          SendInv w' sid k wr.pipe (outOf w.pipes wr) (encodeMsg m) st ∧
          ∀ j, j ≠ wr.pipe → wOf w'.pipes j = wOf w.pipes j
    | _, .ready .okUnit =>
        ∃ k wr, ilookup s.peers k = some wr ∧
          (wOf w'.pipes wr.pipe).wire = outOf w.pipes wr ++ encodeMsg m ∧
          ∀ j, j ≠ wr.pipe → wOf w'.pipes j = wOf w.pipes j
    | _, .ready (.errReturn m') => m' = m ∧ ∀ j, wOf w'.pipes j = wOf w.pipes j
    | _, .ready (.err _) => True
    | _, _ => False := by
  induction fuel generalizing w s with
  | zero =>
    simp only [sendRRPoll, Prod.mk.injEq] at h
    obtain ⟨rfl, rfl, rfl⟩ := h
    trivial
  | succ fuel ih =>
    unfold sendRRPoll at h
    simp only [hs] at h
    cases hrr : s.rr with
    | nil =>
      simp only [hrr, Prod.mk.injEq] at h
      obtain ⟨rfl, rfl, rfl⟩ := h
      exact ⟨rfl, fun _ => rfl⟩
    | cons k rest =>
      simp only [hrr] at h
      cases hp : ilookup s.peers k with
      | none =>
        simp only [hp, Option.isSome_none, Bool.false_eq_true, ↓reduceIte] at h
        have := ih (setSock w sid { s with rr := rest }) { s with rr := rest } (getSock_setSock_same _ _ _) h
        exact this
      | some wr =>
        simp only [hp, Option.isSome_some, ↓reduceIte] at h
        cases fuel with
        | zero =>
          simp only [sendRRPoll, Prod.mk.injEq] at h
          obtain ⟨rfl, rfl, rfl⟩ := h
          trivial
        | succ fuel =>
          have hinv : SendInv (setSock w sid { s with rr := rest }) sid k wr.pipe (outOf w.pipes wr)
              (encodeMsg m) (.feeding (encodeMsg m)) :=
            SendInv.start _ sid { s with rr := rest } k wr _ (getSock_setSock_same _ _ _) hp
          obtain ⟨h1, h2⟩ := sendRRPoll_spec fuel _ sid m k wr.pipe _ _ _ hinv w' f' o h
          simp only [setSock_pipes] at h1
          have hsh := sendRRPoll_some_shape fuel (setSock w sid { s with rr := rest }) sid m k (.feeding (encodeMsg m))
          rw [h] at hsh
          rcases hsh with ⟨st', hq⟩ | hq | ⟨e, hq⟩
          · simp only [Prod.mk.injEq] at hq
            obtain ⟨rfl, rfl⟩ := hq
            simp only at h2 ⊢
            exact ⟨wr, hp, h2.2, h1⟩
          · simp only [Prod.mk.injEq] at hq
            obtain ⟨rfl, rfl⟩ := hq
            simp only at h2 ⊢
            exact ⟨k, wr, hp, h2, h1⟩
          · simp only [Prod.mk.injEq] at hq
            obtain ⟨rfl, rfl⟩ := hq
            trivial

end Zmq.W
