import ZmqVerif.Model.Basic
namespace Zmq

@[simp] theorem be_length (k n : Nat) : (be k n).length = k := by
  induction k with
  | zero => rfl
  | succ k ih => simp [be, ih]

theorem beNat_be (k n : Nat) : beNat (be k n) = n % 256 ^ k := by
  induction k with
  | zero => simp [be, beNat, Nat.mod_one]
  | succ k ih =>
    simp only [be, beNat, be_length, ih]
    have h1 : (UInt8.ofNat (n / 256 ^ k % 256)).toNat = n / 256 ^ k % 256 := by
      simp [UInt8.toNat_ofNat']
    rw [h1]
    rw [Nat.pow_succ, Nat.mod_mul, Nat.mul_comm (256 ^ k)]
    omega

theorem beNat_be8 (n : Nat) (h : n < 2 ^ 64) : beNat (be 8 n) = n := by
  rw [beNat_be]; exact Nat.mod_eq_of_lt (by simpa using h)

theorem beNat_be4 (n : Nat) (h : n < 2 ^ 32) : beNat (be 4 n) = n := by
  rw [beNat_be]; exact Nat.mod_eq_of_lt (by simpa using h)

theorem beNat_lt (b : Bytes) : beNat b < 256 ^ b.length := by
  induction b with
  | nil => simp [beNat]
  | cons x xs ih =>
    simp only [beNat, List.length_cons, Nat.pow_succ]
    have := x.toNat_lt
    have h256 : x.toNat ≤ 255 := by omega
    calc x.toNat * 256 ^ xs.length + beNat xs
        < x.toNat * 256 ^ xs.length + 256 ^ xs.length := by omega
      _ = (x.toNat + 1) * 256 ^ xs.length := by rw [Nat.add_mul]; simp
      _ ≤ 256 * 256 ^ xs.length := Nat.mul_le_mul_right _ (by omega)
      _ = 256 ^ xs.length * 256 := Nat.mul_comm _ _

theorem ofNat_toNat_small (n : Nat) (h : n ≤ 255) : (UInt8.ofNat n).toNat = n := by
  simp [UInt8.toNat_ofNat']; omega

end Zmq
