import ZmqVerif.Lemmas.FQInv
/-! prototype: bounded bypass. While peer `i` is owed a delivery, every other peer is served at most once. -/
namespace Zmq.FQ

def pcTicket : Pc → Nat
  | .b t _ => t
  | .c t _ _ => t
  | _ => 0

/-- `k` owns a token carrying ticket `t` -/
def hasTok (s : St) (k t : Nat) : Prop :=
  (t, k) ∈ s.heap ∨ (s.peer k).armed = some t ∨ (handKey s.pc = some k ∧ pcTicket s.pc = t)

def live (s : St) (k : Nat) : Prop := s.reg k = .inMap ∨ s.reg k = .out

/-- every ticket in circulation was issued by the counter -/
def TickLt (s : St) : Prop := ∀ k t, hasTok s k t → t < s.counter

/-- `i` has a complete item that has not yet been handed to the application -/
def owed (s : St) (i : Nat) : Prop :=
  live s i ∧ ((s.peer i).q ≠ [] ∨ ∃ t item, s.pc = .c t i (.some item))

/-- `j` is strictly behind `i`: not in hand and all its tickets are larger than all of `i`'s -/
def behind (s : St) (i j : Nat) : Prop :=
  handKey s.pc ≠ some j ∧ ∀ ti tj, hasTok s i ti → hasTok s j tj → ti < tj

def delivers (s : St) : Op → Option Nat
  | .recvStep => match s.pc with
    | .c _ k (.some _) => some k
    | _ => none
  | _ => none

/-! ### popMin facts -/

theorem popMin_mem {h e rest} (hp : popMin h = some (e, rest)) : e ∈ h := by
  induction h generalizing e rest with
  | nil => simp [popMin] at hp
  | cons x xs ih =>
    simp only [popMin] at hp
    split at hp
    · simp at hp; simp [hp.1]
    · rename_i m r hm
      split at hp
      · simp at hp; simp [hp.1]
      · simp at hp; obtain ⟨rfl, rfl⟩ := hp; exact List.mem_cons_of_mem _ (ih hm)

theorem popMin_split {h e rest} (hp : popMin h = some (e, rest)) (x : Nat × Nat) :
    x ∈ h ↔ x = e ∨ x ∈ rest := by
  induction h generalizing e rest with
  | nil => simp [popMin] at hp
  | cons y ys ih =>
    simp only [popMin] at hp
    split at hp
    · rename_i hn; have := popMin_none hn; subst this
      simp at hp; obtain ⟨rfl, rfl⟩ := hp; simp
    · rename_i m r hm
      split at hp
      · simp at hp; obtain ⟨rfl, rfl⟩ := hp; simp
      · simp at hp; obtain ⟨rfl, rfl⟩ := hp
        have := ih hm
        simp [this]; constructor
        · rintro (h1 | h1 | h1) <;> simp [h1]
        · rintro (h1 | h1 | h1) <;> simp [h1]

theorem popMin_min {h e rest} (hp : popMin h = some (e, rest)) : ∀ x ∈ h, e.1 ≤ x.1 := by
  induction h generalizing e rest with
  | nil => simp [popMin] at hp
  | cons y ys ih =>
    simp only [popMin] at hp
    split at hp
    · rename_i hn; have := popMin_none hn; subst this
      simp at hp; obtain ⟨rfl, rfl⟩ := hp; simp
    · rename_i m r hm
      have hmin := ih hm
      split at hp
      · rename_i hle
        simp at hp; obtain ⟨rfl, rfl⟩ := hp
        intro x hx; simp at hx
        rcases hx with rfl | hx
        · exact Nat.le_refl _
        · exact Nat.le_trans hle (hmin x hx)
      · rename_i hle
        simp at hp; obtain ⟨rfl, rfl⟩ := hp
        intro x hx; simp at hx
        rcases hx with rfl | hx
        · omega
        · exact hmin x hx

theorem cnt_pos_mem {h : List (Nat × Nat)} {k : Nat} (hc : 0 < cnt h k) : ∃ t, (t, k) ∈ h := by
  induction h with
  | nil => simp at hc
  | cons e es ih =>
    simp at hc
    by_cases he : e.2 = k
    · exact ⟨e.1, by simp [← he]⟩
    · simp [he] at hc
      obtain ⟨t, ht⟩ := ih hc
      exact ⟨t, List.mem_cons_of_mem _ ht⟩

theorem mem_cnt_pos {h : List (Nat × Nat)} {k t : Nat} (hm : (t, k) ∈ h) : 0 < cnt h k := by
  induction h with
  | nil => simp at hm
  | cons e es ih =>
    simp only [List.mem_cons] at hm
    rw [cnt_cons]
    rcases hm with rfl | hm
    · simp; omega
    · have := ih hm; omega


/-! ### where tokens come from: a token of the new state is an old token, or freshly ticketed -/

theorem hasTok_insert {s : St} {k x t : Nat} (h : hasTok (doInsert s k) x t) :
    hasTok s x t ∨ (x = k ∧ t = s.counter ∧ s.reg k = .absent) := by
  unfold doInsert at h
  by_cases habs : s.reg k = .absent
  · simp only [habs, ↓reduceIte, hasTok] at h
    rcases h with h | h | h
    · simp at h
      rcases h with ⟨rfl, rfl⟩ | h
      · exact Or.inr ⟨rfl, rfl, habs⟩
      · exact Or.inl (Or.inl h)
    · exact Or.inl (Or.inr (Or.inl h))
    · exact Or.inl (Or.inr (Or.inr h))
  · simp only [habs, ↓reduceIte] at h; exact Or.inl h

theorem hasTok_remove {s : St} {k x t : Nat} (h : hasTok (doRemove s k) x t) : hasTok s x t := by
  unfold doRemove at h
  by_cases hin : s.reg k = .inMap
  · simp only [hin, ↓reduceIte, hasTok] at h
    rcases h with h | h | h
    · exact Or.inl h
    · by_cases hx : x = k
      · subst hx; simp at h
      · simp [upd, hx] at h; exact Or.inr (Or.inl h)
    · exact Or.inr (Or.inr h)
  · simp only [hin, ↓reduceIte] at h; exact h

theorem hasTok_ready {s : St} {k x t : Nat} {p' : Peer} (h : hasTok (ready s k p') x t) : hasTok s x t := by
  unfold ready at h
  cases ha : (s.peer k).armed with
  | none =>
    simp only [ha, hasTok] at h
    rcases h with h | h | h
    · exact Or.inl h
    · by_cases hx : x = k
      · subst hx; simp at h
      · simp [upd, hx] at h; exact Or.inr (Or.inl h)
    · exact Or.inr (Or.inr h)
  | some t0 =>
    simp only [ha] at h
    by_cases hl : s.reg k = .inMap ∨ s.reg k = .out
    · simp only [hl, ↓reduceIte, fire, hasTok] at h
      rcases h with h | h | h
      · simp at h
        rcases h with ⟨rfl, rfl⟩ | h
        · exact Or.inr (Or.inl ha)
        · exact Or.inl h
      · by_cases hx : x = k
        · subst hx; simp at h
        · simp [upd, hx] at h; exact Or.inr (Or.inl h)
      · exact Or.inr (Or.inr h)
    · simp only [hl, ↓reduceIte, hasTok] at h
      rcases h with h | h | h
      · exact Or.inl h
      · by_cases hx : x = k
        · subst hx; simp at h
        · simp [upd, hx] at h; exact Or.inr (Or.inl h)
      · exact Or.inr (Or.inr h)

theorem hasTok_pollStart {s : St} {x t : Nat} (h : hasTok (doPollStart s) x t) : hasTok s x t := by
  unfold doPollStart at h
  split at h
  · rename_i hpc; simp only [hasTok, handKey] at h ⊢; simp [hpc, handKey] at h ⊢; exact h
  · rename_i hpc
    simp only [hasTok, handKey] at h ⊢; simp [hpc, handKey] at h ⊢; exact h
  · exact h

theorem hasTok_A {s : St} {x t : Nat} (hpc : s.pc = .a) (h : hasTok (doAcore s) x t) : hasTok s x t := by
  unfold doAcore at h
  split at h
  · simp only [hasTok, handKey] at h ⊢; simp [hpc, handKey] at h ⊢; exact h
  · rename_i t0 k rest hsome
    have hmem := popMin_mem hsome
    have hsplit := popMin_split hsome
    by_cases hin : s.reg k = .inMap
    · simp only [hin, ↓reduceIte, hasTok] at h
      rcases h with h | h | h
      · exact Or.inl ((hsplit _).2 (Or.inr h))
      · exact Or.inr (Or.inl h)
      · simp [handKey, pcTicket] at h
        obtain ⟨rfl, rfl⟩ := h
        exact Or.inl hmem
    · simp only [hin, ↓reduceIte, hasTok] at h
      rcases h with h | h | h
      · exact Or.inl ((hsplit _).2 (Or.inr h))
      · exact Or.inr (Or.inl h)
      · simp [hpc, handKey] at h

theorem hasTok_B {s : St} {t0 k x t : Nat} (hpc : s.pc = .b t0 k) (h : hasTok (doBcore s t0 k) x t) :
    hasTok s x t := by
  cases hq : (s.peer k).q with
  | cons item q' =>
    simp only [doBcore, hq, hasTok] at h
    rcases h with h | h | h
    · exact Or.inl h
    · by_cases hx : x = k
      · subst hx; simp at h; exact Or.inr (Or.inl h)
      · simp [upd, hx] at h; exact Or.inr (Or.inl h)
    · simp [handKey, pcTicket] at h
      exact Or.inr (Or.inr (by simp [hpc, handKey, pcTicket, h]))
  | nil =>
    by_cases hcl : (s.peer k).closed = true
    · simp only [doBcore, hq, hcl, ↓reduceIte, hasTok] at h
      rcases h with h | h | h
      · exact Or.inl h
      · exact Or.inr (Or.inl h)
      · simp [handKey, pcTicket] at h
        exact Or.inr (Or.inr (by simp [hpc, handKey, pcTicket, h]))
    · simp only [doBcore, hq, hcl, ↓reduceIte, hasTok] at h
      rcases h with h | h | h
      · exact Or.inl h
      · by_cases hx : x = k
        · subst hx; simp at h
          exact Or.inr (Or.inr (by simp [hpc, handKey, pcTicket, h]))
        · simp [upd, hx] at h; exact Or.inr (Or.inl h)
      · simp [handKey] at h

theorem doA_cases (s : St) : doA s = yieldNow s ∨ doA s = doAcore s := by
  unfold doA; split
  · split <;> simp
  · simp

theorem doB_cases (s : St) (t k : Nat) : doB s t k = doBex s t k ∨ doB s t k = doBcore s t k := by
  unfold doB; split <;> simp

theorem hasTok_yield {s : St} {x t : Nat} (hpc : s.pc = .a) (h : hasTok (yieldNow s) x t) : hasTok s x t := by
  simp only [yieldNow, hasTok, handKey] at h ⊢; simp [hpc, handKey] at h ⊢; exact h

theorem hasTok_Bex {s : St} {t0 k x t : Nat} (hpc : s.pc = .b t0 k) (h : hasTok (doBex s t0 k) x t) :
    hasTok s x t := by
  simp only [doBex, fire, hasTok] at h
  rcases h with h | h | h
  · simp at h
    rcases h with ⟨rfl, rfl⟩ | h
    · exact Or.inr (Or.inr (by simp [hpc, handKey, pcTicket]))
    · exact Or.inl h
  · exact Or.inr (Or.inl h)
  · simp [handKey] at h

theorem hasTok_A' {s : St} {x t : Nat} (hpc : s.pc = .a) (h : hasTok (doA s) x t) : hasTok s x t := by
  rcases doA_cases s with e | e <;> rw [e] at h
  · exact hasTok_yield hpc h
  · exact hasTok_A hpc h

theorem hasTok_B' {s : St} {t0 k x t : Nat} (hpc : s.pc = .b t0 k) (h : hasTok (doB s t0 k) x t) :
    hasTok s x t := by
  rcases doB_cases s t0 k with e | e <;> rw [e] at h
  · exact hasTok_Bex hpc h
  · exact hasTok_B hpc h

theorem hasTok_exhaust {s : St} {x t : Nat} (h : hasTok { s with exhausted := true } x t) : hasTok s x t := h

theorem hasTok_C {s : St} {t0 k x t : Nat} {r : Res} (hpc : s.pc = .c t0 k r) (h : hasTok (doC s k r) x t) :
    hasTok s x t ∨ (x = k ∧ t = s.counter ∧ ∃ item, r = .some item) := by
  cases r with
  | some item =>
    simp only [doC, hasTok] at h
    rcases h with h | h | h
    · simp at h
      rcases h with ⟨rfl, rfl⟩ | h
      · exact Or.inr ⟨rfl, rfl, item, rfl⟩
      · exact Or.inl (Or.inl h)
    · exact Or.inl (Or.inr (Or.inl h))
    · simp [handKey] at h
  | none =>
    simp only [doC, hasTok] at h
    rcases h with h | h | h
    · exact Or.inl (Or.inl h)
    · exact Or.inl (Or.inr (Or.inl h))
    · simp [handKey] at h
  | pend =>
    simp only [doC, hasTok] at h
    rcases h with h | h | h
    · exact Or.inl (Or.inl h)
    · exact Or.inl (Or.inr (Or.inl h))
    · simp [handKey] at h

/-- a token after any step is an old token, or carries the counter value that this step consumed -/
theorem hasTok_step {s : St} {op : Op} {x t : Nat} (h : hasTok (step s op) x t) :
    hasTok s x t ∨ (t = s.counter ∧ (step s op).counter = s.counter + 1) := by
  cases op with
  | insert k =>
    rcases hasTok_insert h with h | h
    · exact Or.inl h
    · exact Or.inr ⟨h.2.1, by simp [step, doInsert, h.2.2]⟩
  | remove k => exact Or.inl (hasTok_remove h)
  | arrive k item =>
    simp only [step, doArrive] at h; split at h
    · exact Or.inl h
    · exact Or.inl (hasTok_ready h)
  | close k =>
    simp only [step, doClose] at h; split at h
    · exact Or.inl h
    · exact Or.inl (hasTok_ready h)
  | pollStart => exact Or.inl (hasTok_pollStart h)
  | recvStep =>
    simp only [step, doRecv] at h ⊢
    split at h
    · rename_i hpc; exact Or.inl (hasTok_A' hpc h)
    · rename_i t0 k hpc; exact Or.inl (hasTok_B' hpc h)
    · rename_i t0 k r hpc
      rcases hasTok_C hpc h with h | h
      · exact Or.inl h
      · obtain ⟨_, ht, item, rfl⟩ := h
        exact Or.inr ⟨ht, by simp [hpc, doC]⟩
    · exact Or.inl h
  | exhaust => exact Or.inl h
  | setWaker w => exact Or.inl h

theorem counter_mono (s : St) (op : Op) : s.counter ≤ (step s op).counter := by
  cases op with
  | insert k => simp only [step, doInsert]; split <;> simp
  | remove k => simp only [step, doRemove]; split <;> simp
  | arrive k item =>
    simp only [step, doArrive]; split
    · simp
    · simp only [ready]; split <;> (try split) <;> simp [fire]
  | close k =>
    simp only [step, doClose]; split
    · simp
    · simp only [ready]; split <;> (try split) <;> simp [fire]
  | pollStart => simp only [step, doPollStart]; split <;> (try split) <;> simp
  | recvStep =>
    simp only [step, doRecv]
    split
    · rcases doA_cases s with e | e <;> rw [e]
      · simp [yieldNow]
      · simp only [doAcore]; split <;> (try split) <;> simp
    · rename_i t0 k0 _
      rcases doB_cases s t0 k0 with e | e <;> rw [e]
      · simp [doBex, fire]
      · simp only [doBcore]; split <;> (try split) <;> simp
    · rename_i r _; cases r <;> simp [doC]
    · simp
  | exhaust => simp [step]
  | setWaker w => simp [step]


theorem tickLt_step {s : St} (op : Op) (h : TickLt s) : TickLt (step s op) := by
  intro k t ht
  rcases hasTok_step ht with h1 | ⟨h1, h2⟩
  · exact Nat.lt_of_lt_of_le (h k t h1) (counter_mono s op)
  · omega

theorem tickLt_init : TickLt ({} : St) := by
  intro k t h; simp [hasTok, handKey] at h


/-! ### a `none` result means the stream really ended -/

def NoneQ (s : St) : Prop := ∀ t k, s.pc = .c t k .none → (s.peer k).q = [] ∧ (s.peer k).closed = true

@[simp] theorem pc_insert (s : St) (k) : (doInsert s k).pc = s.pc := by unfold doInsert; split <;> rfl
@[simp] theorem pc_remove (s : St) (k) : (doRemove s k).pc = s.pc := by unfold doRemove; split <;> rfl
@[simp] theorem pc_ready (s : St) (k p') : (ready s k p').pc = s.pc := by
  unfold ready; split <;> (try split) <;> simp [fire]
@[simp] theorem pc_arrive (s : St) (k item) : (doArrive s k item).pc = s.pc := by
  simp only [doArrive]; split <;> simp
@[simp] theorem pc_close (s : St) (k) : (doClose s k).pc = s.pc := by
  simp only [doClose]; split <;> simp

theorem peer_ready_other (s : St) (k x : Nat) (p' : Peer) (hx : x ≠ k) : (ready s k p').peer x = s.peer x := by
  unfold ready; split <;> (try split) <;> simp [fire, upd, hx]

theorem noneQ_step {s : St} (op : Op) (h : NoneQ s) : NoneQ (step s op) := by
  intro t k hpc
  cases op with
  | insert k' =>
    simp only [step, pc_insert] at hpc
    have := h t k hpc
    simp only [step, doInsert]; split <;> exact this
  | remove k' =>
    simp only [step, pc_remove] at hpc
    have := h t k hpc
    simp only [step, doRemove]; split
    · by_cases hk : k = k'
      · subst hk; simp [this]
      · simp [upd, hk, this]
    · exact this
  | arrive k' item =>
    simp only [step, pc_arrive] at hpc
    have := h t k hpc
    simp only [step, doArrive]
    split
    · exact this
    · rename_i hcl
      have hk : k ≠ k' := by intro e; subst e; exact hcl this.2
      rw [peer_ready_other _ _ _ _ hk]; exact this
  | close k' =>
    simp only [step, pc_close] at hpc
    have := h t k hpc
    simp only [step, doClose]
    split
    · exact this
    · rename_i hcl
      have hk : k ≠ k' := by intro e; subst e; exact hcl this.2
      rw [peer_ready_other _ _ _ _ hk]; exact this
  | pollStart =>
    simp only [step, doPollStart] at hpc ⊢
    split at hpc
    · simp at hpc
    · simp at hpc
    · exact h t k hpc
  | recvStep =>
    cases hp : s.pc with
    | idle => simp only [step, doRecv, hp] at hpc ⊢; simp [hp] at hpc
    | parked => simp only [step, doRecv, hp] at hpc ⊢; simp [hp] at hpc
    | a =>
      simp only [step, doRecv, hp] at hpc ⊢
      rcases doA_cases s with e | e <;> rw [e] at hpc ⊢
      · simp [yieldNow] at hpc
      · simp only [doAcore] at hpc ⊢
        split at hpc
        · simp at hpc
        · split at hpc <;> simp [hp] at hpc
    | b t0 k0 =>
      simp only [step, doRecv, hp] at hpc ⊢
      rcases doB_cases s t0 k0 with e | e <;> rw [e] at hpc ⊢
      · simp [doBex, fire] at hpc
      cases hq : (s.peer k0).q with
      | cons item q' => simp [doBcore, hq] at hpc
      | nil =>
        by_cases hcl : (s.peer k0).closed = true
        · simp [doBcore, hq, hcl] at hpc ⊢
          obtain ⟨rfl, rfl⟩ := hpc
          exact ⟨hq, hcl⟩
        · simp [doBcore, hq, hcl] at hpc
    | c t0 k0 r =>
      simp only [step, doRecv, hp] at hpc ⊢
      cases r <;> simp [doC] at hpc
  | exhaust => exact h t k hpc
  | setWaker w => exact h t k hpc

theorem noneQ_init : NoneQ ({} : St) := by intro t k h; simp at h


/-! ### the main argument -/

theorem delivers_some {s : St} {op : Op} {k : Nat} (h : delivers s op = some k) :
    op = .recvStep ∧ ∃ t item, s.pc = .c t k (.some item) := by
  cases op <;> simp [delivers] at h
  split at h <;> simp at h
  rename_i t k' item hpc
  subst h
  exact ⟨rfl, t, item, hpc⟩

/-- tokens of a live stream that is not being delivered by this step are old tokens -/
theorem hasTok_step_old {s : St} {op : Op} {x t : Nat} (hl : live s x) (hnd : delivers s op ≠ some x)
    (h : hasTok (step s op) x t) : hasTok s x t := by
  cases op with
  | insert k =>
    rcases hasTok_insert h with h | ⟨rfl, _, habs⟩
    · exact h
    · rcases hl with hl | hl <;> simp [hl] at habs
  | remove k => exact hasTok_remove h
  | arrive k item =>
    simp only [step, doArrive] at h; split at h
    · exact h
    · exact hasTok_ready h
  | close k =>
    simp only [step, doClose] at h; split at h
    · exact h
    · exact hasTok_ready h
  | pollStart => exact hasTok_pollStart h
  | recvStep =>
    cases hp : s.pc with
    | idle => simp only [step, doRecv, hp] at h; exact h
    | parked => simp only [step, doRecv, hp] at h; exact h
    | a => simp only [step, doRecv, hp] at h; exact hasTok_A' hp h
    | b t0 k0 => simp only [step, doRecv, hp] at h; exact hasTok_B' hp h
    | c t0 k0 r =>
      simp only [step, doRecv, hp] at h
      rcases hasTok_C hp h with h | ⟨rfl, _, item, rfl⟩
      · exact h
      · exact absurd (by simp [delivers, hp]) hnd
  | exhaust => exact h
  | setWaker w => exact h

theorem owed_step {s : St} {op : Op} {i : Nat} (hinv : Inv s) (hnq : NoneQ s) (ho : owed s i)
    (hnd : delivers s op ≠ some i) (hnr : op ≠ .remove i) : owed (step s op) i := by
  obtain ⟨hl, hq⟩ := ho
  cases op with
  | insert k =>
    simp only [step, doInsert]
    split
    · rename_i habs
      have hik : i ≠ k := by intro e; subst e; rcases hl with hl | hl <;> simp [hl] at habs
      exact ⟨by simpa [live, upd, hik] using hl, hq⟩
    · exact ⟨hl, hq⟩
  | remove k =>
    have hik : i ≠ k := by intro e; subst e; exact hnr rfl
    simp only [step, doRemove]
    split
    · exact ⟨by simpa [live, upd, hik] using hl, by simpa [upd, hik] using hq⟩
    · exact ⟨hl, hq⟩
  | arrive k item =>
    simp only [step, doArrive]
    split
    · exact ⟨hl, hq⟩
    · refine ⟨?_, ?_⟩
      · unfold ready; split <;> (try split) <;> simpa [live, fire] using hl
      · by_cases hik : i = k
        · subst hik
          left
          unfold ready; split <;> (try split) <;> simp [fire]
        · rw [peer_ready_other _ _ _ _ hik, pc_ready]; exact hq
  | close k =>
    simp only [step, doClose]
    split
    · exact ⟨hl, hq⟩
    · refine ⟨?_, ?_⟩
      · unfold ready; split <;> (try split) <;> simpa [live, fire] using hl
      · by_cases hik : i = k
        · subst hik
          rw [pc_ready]
          rcases hq with hq | hq
          · left; unfold ready; split <;> (try split) <;> simpa [fire] using hq
          · exact Or.inr hq
        · rw [peer_ready_other _ _ _ _ hik, pc_ready]; exact hq
  | pollStart =>
    simp only [step, doPollStart]
    split
    · rename_i hp
      refine ⟨hl, ?_⟩
      rcases hq with hq | ⟨t, item, hq⟩
      · exact Or.inl hq
      · simp [hp] at hq
    · rename_i hp
      refine ⟨hl, ?_⟩
      rcases hq with hq | ⟨t, item, hq⟩
      · exact Or.inl hq
      · simp [hp] at hq
    · exact ⟨hl, hq⟩
  | recvStep =>
    cases hp : s.pc with
    | idle => simp only [step, doRecv, hp]; exact ⟨hl, hq⟩
    | parked => simp only [step, doRecv, hp]; exact ⟨hl, hq⟩
    | a =>
      have hq' : (s.peer i).q ≠ [] := by
        rcases hq with hq | ⟨t, item, hq⟩
        · exact hq
        · simp [hp] at hq
      simp only [step, doRecv, hp]
      rcases doA_cases s with e | e <;> rw [e]
      · exact ⟨hl, Or.inl hq'⟩
      simp only [doAcore]
      split
      · exact ⟨hl, Or.inl hq'⟩
      · rename_i t k rest hsome
        split
        · refine ⟨?_, Or.inl hq'⟩
          by_cases hik : i = k
          · subst hik; simp [live]
          · simpa [live, upd, hik] using hl
        · exact ⟨hl, Or.inl hq'⟩
    | b t0 k0 =>
      have hq' : (s.peer i).q ≠ [] := by
        rcases hq with hq | ⟨t, item, hq⟩
        · exact hq
        · simp [hp] at hq
      simp only [step, doRecv, hp]
      rcases doB_cases s t0 k0 with e | e <;> rw [e]
      · exact ⟨hl, Or.inl hq'⟩
      by_cases hik : i = k0
      · subst hik
        cases hqq : (s.peer i).q with
        | nil => exact absurd hqq hq'
        | cons item q' =>
          simp only [doBcore, hqq]
          exact ⟨hl, Or.inr ⟨t0, item, rfl⟩⟩
      · cases hqq : (s.peer k0).q with
        | cons item q' =>
          simp only [doBcore, hqq]
          exact ⟨hl, Or.inl (by simpa [upd, hik] using hq')⟩
        | nil =>
          by_cases hcl : (s.peer k0).closed = true
          · simp only [doBcore, hqq, hcl, ↓reduceIte]; exact ⟨hl, Or.inl hq'⟩
          · simp only [doBcore, hqq, hcl, ↓reduceIte]
            exact ⟨hl, Or.inl (by simpa [upd, hik] using hq')⟩
    | c t0 k0 r =>
      simp only [step, doRecv, hp]
      have hik : i ≠ k0 ∨ ∃ item, r = .some item ∨ r = .pend := by
        by_cases hik : i = k0
        · subst hik
          right
          cases r with
          | some item => exact ⟨item, Or.inl rfl⟩
          | pend => exact ⟨0, Or.inr rfl⟩
          | none =>
            have := hnq t0 i hp
            rcases hq with hq | ⟨t, item, hq⟩
            · exact absurd this.1 hq
            · simp [hp] at hq
        · exact Or.inl hik
      have hq' : i ≠ k0 → (s.peer i).q ≠ [] := by
        intro hne
        rcases hq with hq | ⟨t, item, hq⟩
        · exact hq
        · simp [hp] at hq; exact absurd hq.2.1.symm hne
      rcases hik with hik | ⟨item, hr | hr⟩
      · cases r <;> simp only [doC] <;>
          exact ⟨by simpa [live, upd, hik] using hl, Or.inl (hq' hik)⟩
      · subst hr
        by_cases hik : i = k0
        · subst hik; exact absurd (by simp [delivers, hp]) hnd
        · simp only [doC]
          exact ⟨by simpa [live, upd, hik] using hl, Or.inl (hq' hik)⟩
      · subst hr
        simp only [doC]
        by_cases hik : i = k0
        · subst hik
          refine ⟨by simp [live], ?_⟩
          rcases hq with hq | ⟨t, item, hq⟩
          · exact Or.inl hq
          · simp [hp] at hq
        · exact ⟨by simpa [live, upd, hik] using hl, Or.inl (hq' hik)⟩
  | exhaust => exact ⟨hl, hq⟩
  | setWaker w => exact ⟨hl, hq⟩


/-- an owed stream that is not in hand has its (only) token in the heap -/
theorem owed_event {s : St} {i : Nat} (hinv : Inv s) (ho : owed s i) (hpc : s.pc = .a) :
    ∃ ti, (ti, i) ∈ s.heap := by
  obtain ⟨hl, hq⟩ := ho
  have hq' : (s.peer i).q ≠ [] := by
    rcases hq with hq | ⟨t, item, hq⟩
    · exact hq
    · simp [hpc] at hq
  have ht := hinv.tok i hl
  have harm : (s.peer i).armed = none := by
    cases ha : (s.peer i).armed with
    | none => rfl
    | some t => exact absurd (hinv.armedEmpty i (by simp [ha])).1 hq'
  simp [evs, armedN, inHand, harm, hpc, handKey] at ht
  exact cnt_pos_mem (by omega)

theorem behind_step {s : St} {op : Op} {i j : Nat} (hinv : Inv s) (htl : TickLt s) (ho : owed s i)
    (hb : behind s i j) (hnd : delivers s op ≠ some i) :
    behind (step s op) i j ∧ delivers s op ≠ some j := by
  obtain ⟨hhand, hlt⟩ := hb
  have hdj : delivers s op ≠ some j := by
    intro hd
    obtain ⟨_, t, item, hpc⟩ := delivers_some hd
    exact hhand (by simp [hpc, handKey])
  refine ⟨⟨?_, ?_⟩, hdj⟩
  · -- j does not get into the receiver's hand
    cases op with
    | insert k => simpa [step] using hhand
    | remove k => simpa [step] using hhand
    | arrive k item => simpa [step] using hhand
    | close k => simpa [step] using hhand
    | pollStart =>
      simp only [step, doPollStart]
      split
      · simp [handKey]
      · simp [handKey]
      · exact hhand
    | recvStep =>
      cases hp : s.pc with
      | idle => simp only [step, doRecv, hp]; simp [handKey]
      | parked => simp only [step, doRecv, hp]; simp [handKey]
      | a =>
        simp only [step, doRecv, hp]
        rcases doA_cases s with e | e <;> rw [e]
        · simp [yieldNow, handKey]
        simp only [doAcore]
        split
        · simp [handKey]
        · rename_i t k rest hsome
          split
          · simp only [handKey]
            intro hk; simp at hk; subst hk
            obtain ⟨ti, hti⟩ := owed_event hinv ho hp
            have h1 := hlt ti t (Or.inl hti) (Or.inl (popMin_mem hsome))
            have h2 := popMin_min hsome _ hti
            simp at h2; omega
          · simp [hp, handKey]
      | b t0 k0 =>
        have hk : k0 ≠ j := by intro e; subst e; exact hhand (by simp [hp, handKey])
        simp only [step, doRecv, hp]
        rcases doB_cases s t0 k0 with e | e <;> rw [e]
        · simp [doBex, fire, handKey]
        cases hq : (s.peer k0).q with
        | cons item q' => simp [doBcore, hq, handKey]; exact hk
        | nil =>
          by_cases hcl : (s.peer k0).closed = true
          · simp [doBcore, hq, hcl, handKey]; exact hk
          · simp [doBcore, hq, hcl, handKey]
      | c t0 k0 r =>
        simp only [step, doRecv, hp]
        cases r <;> simp [doC, handKey]
    | exhaust => simpa [step] using hhand
    | setWaker w => simpa [step] using hhand
  · -- tickets stay ordered
    intro ti tj hi hj
    have hi' := hasTok_step_old ho.1 hnd hi
    rcases hasTok_step hj with hj' | ⟨hj', _⟩
    · exact hlt ti tj hi' hj'
    · have := htl i ti hi'; omega

/-- right after `j` is served while `i` is owed, `j` is strictly behind `i` -/
theorem behind_after_deliver {s : St} {i j : Nat} (hinv : Inv s) (htl : TickLt s) (ho : owed s i)
    (hij : i ≠ j) (hd : delivers s .recvStep = some j) : behind (step s .recvStep) i j := by
  obtain ⟨_, t, item, hpc⟩ := delivers_some hd
  have hout : s.reg j = .out := (hinv.outPc j).2 (by simp [hpc, outKey])
  have htk := hinv.tok j (Or.inr hout)
  have hz : cnt s.heap j = 0 ∧ (s.peer j).armed = none := by
    cases ha : (s.peer j).armed <;> simp [evs, armedN, inHand, hpc, handKey, ha] at htk ⊢ <;> omega
  refine ⟨?_, ?_⟩
  · simp [step, doRecv, hpc, doC, handKey]
  · intro ti tj hi hj
    have hnd : delivers s .recvStep ≠ some i := by rw [hd]; intro e; exact hij (by injection e with e; exact e.symm)
    have hi' := hasTok_step_old ho.1 hnd hi
    have hti := htl i ti hi'
    simp only [step, doRecv, hpc, doC, hasTok] at hj
    rcases hj with hj | hj | hj
    · simp at hj
      rcases hj with ⟨rfl, _⟩ | hj
      · exact hti
      · have := mem_cnt_pos hj; omega
    · simp [hz.2] at hj
    · simp [handKey] at hj

/-- deliveries of `j` before the first delivery (or removal) of `i` -/
def countJ (i j : Nat) : St → List Op → Nat
  | _, [] => 0
  | s, op :: ops =>
    if delivers s op = some i ∨ op = .remove i then 0
    else (if delivers s op = some j then 1 else 0) + countJ i j (step s op) ops

theorem behind_no_delivery (i j : Nat) (ops : List Op) :
    ∀ s, Inv s → NoneQ s → TickLt s → owed s i → behind s i j → countJ i j s ops = 0 := by
  induction ops with
  | nil => intros; rfl
  | cons op ops ih =>
    intro s hinv hnq htl ho hb
    simp only [countJ]
    split
    · rfl
    · rename_i hstop
      have hnd : delivers s op ≠ some i := fun e => hstop (Or.inl e)
      have hnr : op ≠ .remove i := fun e => hstop (Or.inr e)
      obtain ⟨hb', hdj⟩ := behind_step hinv htl ho hb hnd
      simp only [hdj, ↓reduceIte, Nat.zero_add]
      exact ih _ (step_inv s op hinv) (noneQ_step op hnq) (tickLt_step op htl)
        (owed_step hinv hnq ho hnd hnr) hb'

/-- **bounded bypass**: while `i` is owed a delivery, any other peer `j` is served at most once -/
theorem served_at_most_once (i j : Nat) (hij : i ≠ j) (ops : List Op) :
    ∀ s, Inv s → NoneQ s → TickLt s → owed s i → countJ i j s ops ≤ 1 := by
  induction ops with
  | nil => intros; simp [countJ]
  | cons op ops ih =>
    intro s hinv hnq htl ho
    simp only [countJ]
    split
    · omega
    · rename_i hstop
      have hnd : delivers s op ≠ some i := fun e => hstop (Or.inl e)
      have hnr : op ≠ .remove i := fun e => hstop (Or.inr e)
      have hinv' := step_inv s op hinv
      have hnq' := noneQ_step op hnq
      have htl' := tickLt_step op htl
      have ho' := owed_step hinv hnq ho hnd hnr
      by_cases hd : delivers s op = some j
      · have hop : op = .recvStep := (delivers_some hd).1
        subst hop
        have hb := behind_after_deliver hinv htl ho hij hd
        simp only [hd, ↓reduceIte]
        rw [behind_no_delivery i j ops _ hinv' hnq' htl' ho' hb]
        omega
      · simp only [hd, ↓reduceIte, Nat.zero_add]
        exact ih _ hinv' hnq' htl' ho'

/-- the same from the initial state, along any schedule prefix -/
theorem fair_from_init (pre ops : List Op) (i j : Nat) (hij : i ≠ j)
    (ho : owed (pre.foldl step {}) i) : countJ i j (pre.foldl step {}) ops ≤ 1 := by
  have hall : ∀ (l : List Op) (s : St), Inv s → NoneQ s → TickLt s →
      Inv (l.foldl step s) ∧ NoneQ (l.foldl step s) ∧ TickLt (l.foldl step s) := by
    intro l
    induction l with
    | nil => intro s a b c; exact ⟨a, b, c⟩
    | cons op l ih => intro s a b c; exact ih _ (step_inv s op a) (noneQ_step op b) (tickLt_step op c)
  obtain ⟨a, b, c⟩ := hall pre {} inv_init noneQ_init tickLt_init
  exact served_at_most_once i j hij ops _ a b c ho

end Zmq.FQ
