import ZmqVerif.Lemmas.FQProgress
/-! Every `poll_next` call returns: a variant that strictly decreases with every receiver
section, whatever the cooperative budget does (`exhausted` may be set at any point: the variant
does not mention it).  This is the termination argument of the repaired loop — the variant is
the number of queued events whose stream has NOT yet returned `Pending` in this call; before the
repair there was none (a self-waking stream was re-polled for ever: finding D17). -/
namespace Zmq.FQ

/-- queued events of streams that have not yet returned `Pending` during this call -/
def unseen (h : List (Nat × Nat)) (seen : List Nat) : Nat :=
  (h.filter (fun e => decide (e.2 ∉ seen))).length

theorem unseen_cons (e : Nat × Nat) (h : List (Nat × Nat)) (seen : List Nat) :
    unseen (e :: h) seen = (if e.2 ∈ seen then 0 else 1) + unseen h seen := by
  unfold unseen
  by_cases hc : e.2 ∈ seen
  · simp [hc]
  · simp [hc]; omega

theorem popMin_unseen {h : List (Nat × Nat)} {e rest} (seen : List Nat) (hp : popMin h = some (e, rest)) :
    unseen h seen = (if e.2 ∈ seen then 0 else 1) + unseen rest seen := by
  induction h generalizing e rest with
  | nil => simp [popMin] at hp
  | cons x xs ih =>
    simp only [popMin] at hp
    split at hp
    · rename_i hn
      have := popMin_none hn; subst this
      simp at hp; obtain ⟨rfl, rfl⟩ := hp
      exact unseen_cons _ _ _
    · rename_i m r hm
      split at hp
      · simp at hp; obtain ⟨rfl, rfl⟩ := hp
        exact unseen_cons _ _ _
      · simp at hp; obtain ⟨rfl, rfl⟩ := hp
        rw [unseen_cons, ih hm, unseen_cons]; omega

theorem unseen_mono (h : List (Nat × Nat)) (seen : List Nat) (k : Nat) :
    unseen h (k :: seen) ≤ unseen h seen := by
  induction h with
  | nil => simp [unseen]
  | cons e es ih =>
    rw [unseen_cons, unseen_cons]
    by_cases h1 : e.2 ∈ seen
    · have h2 : e.2 ∈ k :: seen := List.mem_cons_of_mem _ h1
      rw [if_pos h1, if_pos h2]; omega
    · rw [if_neg h1]
      by_cases h2 : e.2 ∈ k :: seen
      · rw [if_pos h2]; omega
      · rw [if_neg h2]; omega

theorem unseen_push_seen (h : List (Nat × Nat)) (seen : List Nat) (t k : Nat) :
    unseen ((t, k) :: h) (k :: seen) = unseen h (k :: seen) := by
  rw [unseen_cons]; simp

/-- the variant: 3 sections per unseen event, plus the position inside the current round -/
def variant (s : St) : Nat :=
  match s.pc with
  | .idle => 0
  | .parked => 0
  | .a => 3 * unseen s.heap s.seen + 1
  | .b _ _ => 3 * unseen s.heap s.seen + 3
  | .c _ _ (.some _) => 2
  | .c _ _ .none => 3 * unseen s.heap s.seen + 2
  | .c _ k .pend => 3 * unseen s.heap (k :: s.seen) + 2

/-- **every receiver section decreases the variant** — in every state, reachable or not, and
whether or not the budget is exhausted -/
theorem variant_decreases (s : St) (hpc : s.pc ≠ .idle ∧ s.pc ≠ .parked) :
    variant (step s .recvStep) < variant s := by
  cases hp : s.pc with
  | idle => exact absurd hp hpc.1
  | parked => exact absurd hp hpc.2
  | a =>
    simp only [step, doRecv, hp]
    unfold doA
    cases hpop : popMin s.heap with
    | none => simp [doAcore, hpop, variant, hp]
    | some er =>
      obtain ⟨⟨t, k⟩, rest⟩ := er
      have hu := popMin_unseen s.seen hpop
      simp only [] at hu
      by_cases hseen : k ∈ s.seen
      · simp [hseen, yieldNow, variant, hp]
      · have hc : s.seen.contains k = false := by simpa using hseen
        rw [if_neg hseen] at hu
        simp only [hc, Bool.false_eq_true, ↓reduceIte, doAcore, hpop]
        by_cases hreg : s.reg k = .inMap
        · simp [hreg, variant, hp]; omega
        · simp [hreg, variant, hp]; omega
  | b t k =>
    simp only [step, doRecv, hp]
    unfold doB
    by_cases hex : s.exhausted = true
    · simp only [hex, ↓reduceIte, doBex, fire, variant, hp]
      rw [unseen_push_seen]
      have := unseen_mono s.heap s.seen k
      omega
    · simp only [hex, Bool.false_eq_true, ↓reduceIte, doBcore]
      cases hq : (s.peer k).q with
      | cons item q' => simp [variant, hp]
      | nil =>
        by_cases hcl : (s.peer k).closed = true
        · simp [hcl, variant, hp]
        · simp [hcl, variant, hp]
          have := unseen_mono s.heap s.seen k
          omega
  | c t k r =>
    simp only [step, doRecv, hp]
    cases r with
    | some item => simp [doC, variant, hp]
    | none => simp [doC, variant, hp]
    | pend => simp [doC, variant, hp]

/-- **every `poll_next` call returns**: from any state, at most `variant s` receiver sections
(hence at most `3·|heap| + 3`) bring the receiver to `idle` (Ready) or `parked` (Pending) -/
theorem poll_returns : ∀ (m : Nat) (s : St), variant s ≤ m →
    ∃ n, n ≤ m ∧ ((recvN n s).pc = .idle ∨ (recvN n s).pc = .parked) := by
  intro m
  induction m with
  | zero =>
    intro s hv
    refine ⟨0, Nat.le_refl _, ?_⟩
    simp only [recvN]
    cases hp : s.pc <;> simp [variant, hp] at hv ⊢
    rename_i t k r
    cases r <;> simp at hv
  | succ m ih =>
    intro s hv
    by_cases hdone : s.pc = .idle ∨ s.pc = .parked
    · exact ⟨0, Nat.zero_le _, by simpa [recvN] using hdone⟩
    · have hpc : s.pc ≠ .idle ∧ s.pc ≠ .parked := ⟨fun h => hdone (Or.inl h), fun h => hdone (Or.inr h)⟩
      have hlt := variant_decreases s hpc
      obtain ⟨n, hn, hfin⟩ := ih (step s .recvStep) (by omega)
      exact ⟨n + 1, by omega, by simpa [recvN] using hfin⟩

theorem unseen_le_length (h : List (Nat × Nat)) (seen : List Nat) : unseen h seen ≤ h.length := by
  unfold unseen; exact List.length_filter_le _ _

/-- the bound in terms of what is queued when the call starts -/
theorem poll_returns_from_start (s : St) (hpc : s.pc = .idle ∨ s.pc = .parked) :
    ∃ n, n ≤ 3 * s.heap.length + 1 ∧
      ((recvN n (step s .pollStart)).pc = .idle ∨ (recvN n (step s .pollStart)).pc = .parked) := by
  have hv : variant (step s .pollStart) ≤ 3 * s.heap.length + 1 := by
    have := unseen_le_length s.heap []
    rcases hpc with h | h <;> simp [step, doPollStart, h, variant] <;> omega
  exact poll_returns _ _ hv

/-! ### the loop as it was before the repair does not return (finding D17) -/

/-- receiver section of the ORIGINAL `poll_next`: section A never looks at `seen` -/
def doRecvOld (s : St) : St :=
  match s.pc with
  | .a => doAcore s
  | .b t k => doB s t k
  | .c _ k r => doC s k r
  | _ => s

def recvOldN : Nat → St → St
  | 0, s => s
  | n+1, s => recvOldN n (doRecvOld s)

/-- one registered stream, its event queued, budget exhausted, receiver at section A -/
def Spin (s : St) : Prop :=
  s.pc = .a ∧ s.heap = [(0, 1)] ∧ s.reg 1 = .inMap ∧ s.exhausted = true

theorem spin_round {s : St} (h : Spin s) : Spin (recvOldN 3 s) := by
  obtain ⟨hpc, hheap, hreg, hex⟩ := h
  simp [recvOldN, doRecvOld, hpc, doAcore, hheap, popMin, hreg, doB, hex, doBex, fire, doC, Spin, upd]

/-- the original loop, started with `insert 1; exhaust; poll`, is still inside the same call
after any number of rounds: it never returns -/
theorem old_loop_spins (n : Nat) :
    Spin (recvOldN (3 * n) ([Op.insert 1, .exhaust, .pollStart].foldl step {})) := by
  induction n with
  | zero => simp [recvOldN, Spin, step, doInsert, doPollStart, upd]
  | succ n ih =>
    have : 3 * (n + 1) = 3 * n + 3 := by omega
    rw [this]
    have hadd : ∀ (a b : Nat) (s : St), recvOldN (a + b) s = recvOldN b (recvOldN a s) := by
      intro a b
      induction a with
      | zero => intro s; simp [recvOldN]
      | succ a iha => intro s; rw [Nat.succ_add]; simp [recvOldN, iha]
    rw [hadd]
    exact spin_round ih

end Zmq.FQ
