import ZmqVerif.Model.Net
namespace Zmq.Net

theorem lookupN_insertN_same {α} (m : List (Nat × α)) (k : Nat) (v : α) : lookupN (insertN m k v) k = some v := by
  induction m with
  | nil => simp [insertN, lookupN]
  | cons e t ih =>
    simp only [insertN]
    split
    · simp [lookupN]
    · rename_i h; simp [lookupN, h, ih]

theorem lookupN_insertN_other {α} (m : List (Nat × α)) (k j : Nat) (v : α) (h : j ≠ k) :
    lookupN (insertN m k v) j = lookupN m j := by
  have hkj : (k == j) = false := by simpa using fun x => h x.symm
  induction m with
  | nil => simp [insertN, lookupN, hkj]
  | cons e t ih =>
    simp only [insertN]
    split
    · rename_i he
      have : e.1 = k := by simpa using he
      have hej : (e.1 == j) = false := by rw [this]; exact hkj
      simp [lookupN, hkj, hej]
    · simp only [lookupN, ih]

theorem emit_raws (s : St) (sid : Nat) (ev : String) : (emit s sid ev).raws = s.raws := by
  unfold emit; split <;> (try split) <;> rfl

theorem emit_eps (s : St) (sid : Nat) (ev : String) : (emit s sid ev).eps = s.eps := by
  unfold emit; split <;> (try split) <;> rfl

/-- `emit` only ever touches the event list of the socket it reports to -/
theorem emit_binds (s : St) (sid : Nat) (ev : String) (j : Nat) :
    (lookupN (emit s sid ev).socks j).map (fun x => (x.binds, x.alive, x.typ)) =
    (lookupN s.socks j).map (fun x => (x.binds, x.alive, x.typ)) := by
  unfold emit
  split
  · rename_i so hso
    split
    · by_cases hj : j = sid
      · subst hj; simp [lookupN_insertN_same, hso]
      · simp [lookupN_insertN_other _ _ _ _ hj]
    · rfl
  · rfl

theorem lookup_emit_same (s : St) (sid : Nat) (ev : String) :
    lookupN (emit s sid ev).socks sid =
      (lookupN s.socks sid).map (fun so => if so.monitor then { so with events := so.events ++ [ev] } else so) := by
  unfold emit
  cases h : lookupN s.socks sid with
  | none => simp [h]
  | some so =>
    simp only [Option.map_some]
    by_cases hm : so.monitor
    · simp [hm, lookupN_insertN_same]
    · simp [hm, h]

end Zmq.Net
