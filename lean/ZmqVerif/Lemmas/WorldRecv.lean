import ZmqVerif.Lemmas.WorldMaps
import ZmqVerif.Lemmas.Segment
import ZmqVerif.Lemmas.Decode
/-!
# The receive path of the composition (`Model.World`): reader → fair queue → `recv`

`readerPoll` (FramedRead over a scripted pipe), `fqPoll` (the fair queue's loop) and `recvPoll`
(the socket's loop that skips non-message items) are related here to the **byte streams** of
the connections: whatever a poll hands out is the next item of exactly one connection's
stream, as `run` (C02's decoder run) decodes it, and no other connection's stream is touched.
-/
namespace Zmq.W
open Zmq

/-! ### `run`, unfolded without the dependent match -/

theorem run_unfold (d : Dec) (buf : Bytes) :
    run d buf =
      match decode d buf with
      | .none d' b' => ⟨[], none, none, d', b'⟩
      | .fail e d' b' => ⟨[], some e, none, d', b'⟩
      | .panic s d' b' => ⟨[], none, some s, d', b'⟩
      | .item i d' b' => { run d' b' with items := i :: (run d' b').items } := by
  rw [run.eq_1]
  split <;> rename_i h <;> simp [h]

theorem run_congr {d d' : Dec} {b b' : Bytes} (h : decode d b = decode d' b') : run d b = run d' b' := by
  rw [run_unfold d b, run_unfold d' b', h]

theorem run_decode_none {d d' : Dec} {a a' : Bytes} (h : decode d a = .none d' a') (x : Bytes) :
    run d (a ++ x) = run d' (a' ++ x) := by
  apply run_congr
  rw [decode_append, h]

theorem run_decode_item {d d' : Dec} {a a' : Bytes} {i : Item} (h : decode d a = .item i d' a') (x : Bytes) :
    run d (a ++ x) = { run d' (a' ++ x) with items := i :: (run d' (a' ++ x)).items } := by
  have : decode d (a ++ x) = .item i d' (a' ++ x) := by rw [decode_append, h]; rfl
  rw [run_item this]

theorem run_decode_fail {d d' : Dec} {a a' : Bytes} {e : Err} (h : decode d a = .fail e d' a') (x : Bytes) :
    (run d (a ++ x)).items = [] := by
  have : decode d (a ++ x) = .fail e d' (a' ++ x) := by rw [decode_append, h]; rfl
  rw [run_unfold, this]

theorem run_decode_panic {d d' : Dec} {a a' : Bytes} {s : Site} (h : decode d a = .panic s d' a') (x : Bytes) :
    (run d (a ++ x)).items = [] := by
  have : decode d (a ++ x) = .panic s d' (a' ++ x) := by rw [decode_append, h]; rfl
  rw [run_unfold, this]

theorem run_items_stuck {d d' : Dec} {a a' : Bytes} (h : decode d a = .none d' a') :
    (run d' a').items = [] := by
  rw [run_stuck _ _ (decode_none_stuck h)]

/-! ### what is left of a connection's stream -/

def inbufOf (ps : Pipes) (j : Nat) : Bytes := (getPipe ps j).inbuf

/-- the items the rest of the connection's byte stream (read buffer + bytes waiting in the pipe)
decodes to -/
def Rd.rem (ps : Pipes) (rd : Rd) : RunOut := run rd.dec (rd.buf ++ inbufOf ps rd.pipe)

def Rd.items (ps : Pipes) (rd : Rd) : List Item := (rd.rem ps).items

/-- the same run, with `l` already taken off the front -/
def _root_.Zmq.RunOut.pre (l : List Item) (r : RunOut) : RunOut := { r with items := l ++ r.items }

@[simp] theorem _root_.Zmq.RunOut.pre_nil (r : RunOut) : RunOut.pre [] r = r := by cases r; rfl
@[simp] theorem _root_.Zmq.RunOut.pre_pre (a b : List Item) (r : RunOut) : RunOut.pre a (RunOut.pre b r) = RunOut.pre (a ++ b) r := by
  simp [RunOut.pre]
@[simp] theorem _root_.Zmq.RunOut.pre_items (a : List Item) (r : RunOut) : (RunOut.pre a r).items = a ++ r.items := rfl

theorem inbufOf_setPipe_other (ps : Pipes) (k j : Nat) (p : Pipe) (h : j ≠ k) :
    inbufOf (setPipe ps k p) j = inbufOf ps j := by
  simp [inbufOf, getPipe_setPipe_other _ _ _ _ h]

theorem inbufOf_setPipe_same (ps : Pipes) (k : Nat) (p : Pipe) : inbufOf (setPipe ps k p) k = p.inbuf := by
  simp [inbufOf, getPipe_setPipe_same]

theorem inbufOf_dropR (ps : Pipes) (a j : Nat) : inbufOf (dropR ps a) j = inbufOf ps j := by
  by_cases h : j = a
  · subst h; simp [dropR, inbufOf, getPipe_setPipe_same]
  · simp [dropR, inbufOf, getPipe_setPipe_other _ _ _ _ h]

theorem inbufOf_dropW (ps : Pipes) (a j : Nat) : inbufOf (dropW ps a) j = inbufOf ps j := by
  by_cases h : j = a
  · subst h; simp [dropW, inbufOf, getPipe_setPipe_same]
  · simp [dropW, inbufOf, getPipe_setPipe_other _ _ _ _ h]

/-! ### one `poll_next` of a framed reader -/

theorem decode_stuck_again {d d' : Dec} {a a' : Bytes} (h : decode d a = .none d' a') :
    decode d' a' = .none d' a' := by
  have := decode_none_stuck h
  rw [decode.eq_1]; simp [this]

/-- What one poll of a framed reader means for its connection's stream: an item handed out is
the FIRST item of the stream and the rest of the stream is what the reader goes on with;
`Pending`, end-of-stream and errors are reported only when no complete item is left; no other
pipe is touched. -/
theorem readerPoll_spec (fuel : Nat) (ps : Pipes) (rd : Rd) (who : RWaker)
    (hf : (inbufOf ps rd.pipe).length < fuel) (r : ReadRes) (ps' : Pipes) (rd' : Rd)
    (h : readerPoll fuel ps rd who = (r, ps', rd')) :
    rd'.pipe = rd.pipe ∧ (∀ j, j ≠ rd.pipe → inbufOf ps' j = inbufOf ps j) ∧
    (match (generalizing := false) r with
     | .item i => rd.rem ps = (rd'.rem ps').pre [i]
     | .pending => rd.rem ps = rd'.rem ps' ∧ rd.items ps = []
     | _ => rd.items ps = []) := by
  induction fuel generalizing ps rd with
  | zero => omega
  | succ fuel ih =>
    unfold readerPoll at h
    simp only [decodeOnce] at h
    cases hd : decode rd.dec rd.buf with
    | item i d b =>
      simp only [hd, Prod.mk.injEq] at h
      obtain ⟨rfl, rfl, rfl⟩ := h
      exact ⟨rfl, fun _ _ => rfl, run_decode_item hd _⟩
    | fail e d b =>
      simp only [hd, Prod.mk.injEq] at h
      obtain ⟨rfl, rfl, rfl⟩ := h
      exact ⟨rfl, fun _ _ => rfl, run_decode_fail hd _⟩
    | panic s d b =>
      simp only [hd, Prod.mk.injEq] at h
      obtain ⟨rfl, rfl, rfl⟩ := h
      exact ⟨rfl, fun _ _ => rfl, run_decode_panic hd _⟩
    | none d b =>
      simp only [hd] at h
      have hstuck := decode_stuck_again hd
      have hrun : ∀ x, run rd.dec (rd.buf ++ x) = run d (b ++ x) := fun x => run_decode_none hd x
      have hnil : (run d (b ++ [])).items = [] := by
        rw [List.append_nil]; exact run_items_stuck hd
      by_cases he : (getPipe ps rd.pipe).inbuf.isEmpty
      · have he' : inbufOf ps rd.pipe = [] := by simpa [inbufOf] using he
        have hrem : rd.rem ps = run d (b ++ []) := by rw [Rd.rem, he', hrun]
        have h0 : rd.items ps = [] := by rw [Rd.items, hrem, hnil]
        simp only [he, ↓reduceIte] at h
        split at h
        · simp only [Prod.mk.injEq] at h
          obtain ⟨rfl, rfl, rfl⟩ := h
          exact ⟨rfl, fun _ _ => rfl, h0⟩
        · split at h
          · split at h
            · simp only [Prod.mk.injEq] at h
              obtain ⟨rfl, rfl, rfl⟩ := h
              exact ⟨rfl, fun _ _ => rfl, h0⟩
            · simp only [hstuck] at h
              split at h <;>
              · simp only [Prod.mk.injEq] at h
                obtain ⟨rfl, rfl, rfl⟩ := h
                exact ⟨rfl, fun _ _ => rfl, h0⟩
          · simp only [Prod.mk.injEq] at h
            obtain ⟨rfl, rfl, rfl⟩ := h
            refine ⟨rfl, fun j hj => inbufOf_setPipe_other _ _ _ _ hj, ?_, h0⟩
            rw [hrem]
            simp only [Rd.rem, inbufOf_setPipe_same]
            have : (getPipe ps rd.pipe).inbuf = [] := he'
            rw [this]
      · simp only [he, Bool.false_eq_true, ↓reduceIte] at h
        have hne : (inbufOf ps rd.pipe) ≠ [] := by simpa [inbufOf] using he
        have hpos : 0 < (inbufOf ps rd.pipe).length := List.length_pos_iff.mpr hne
        have := ih _ _ (by
          simp only [inbufOf_setPipe_same, List.length_drop]
          simp only [inbufOf] at hf hpos
          omega) h
        obtain ⟨h1, h2, h3⟩ := this
        refine ⟨h1, fun j hj => by rw [h2 j hj, inbufOf_setPipe_other _ _ _ _ hj], ?_⟩
        have hitems : Rd.rem (setPipe ps rd.pipe { getPipe ps rd.pipe with
              inbuf := (getPipe ps rd.pipe).inbuf.drop (min 8192 (getPipe ps rd.pipe).inbuf.length) })
            { rd with dec := d, buf := b ++ (getPipe ps rd.pipe).inbuf.take (min 8192 (getPipe ps rd.pipe).inbuf.length) }
            = rd.rem ps := by
          simp only [Rd.rem, inbufOf_setPipe_same, List.append_assoc, List.take_append_drop]
          rw [hrun]; rfl
        simp only [Rd.items] at h3 ⊢
        rw [hitems] at h3
        exact h3

/-! ### association-list facts (lookups only) -/

theorem ilookup_ierase_same {α} (m : List (Ident × α)) (k : Ident) : ilookup (ierase m k) k = none := by
  induction m with
  | nil => rfl
  | cons e t ih =>
    simp only [ierase, List.filter_cons]
    split
    · rename_i h
      have : (e.1 == k) = false := by simpa using h
      simp only [ilookup, this]; exact ih
    · exact ih

theorem ilookup_ierase_other {α} (m : List (Ident × α)) (k j : Ident) (h : j ≠ k) :
    ilookup (ierase m k) j = ilookup m j := by
  induction m with
  | nil => rfl
  | cons e t ih =>
    simp only [ierase, List.filter_cons]
    split
    · simp only [ilookup]; split
      · rfl
      · exact ih
    · rename_i hk
      have hek : e.1 = k := by simpa using hk
      have : (e.1 == j) = false := by rw [hek]; simpa using fun x => h x.symm
      simp only [ilookup, this]; exact ih

theorem ilookup_append {α} (m : List (Ident × α)) (k j : Ident) (v : α) :
    ilookup (m ++ [(k, v)]) j = (ilookup m j).or (if k == j then some v else none) := by
  induction m with
  | nil => simp [ilookup]
  | cons e t ih =>
    simp only [List.cons_append, ilookup]
    split
    · rfl
    · exact ih

theorem ilookup_putback_same {α} (m : List (Ident × α)) (k : Ident) (v : α) :
    ilookup (ierase m k ++ [(k, v)]) k = some v := by
  simp [ilookup_append, ilookup_ierase_same]

theorem ilookup_putback_other {α} (m : List (Ident × α)) (k j : Ident) (v : α) (h : j ≠ k) :
    ilookup (ierase m k ++ [(k, v)]) j = ilookup m j := by
  have : (k == j) = false := by simpa using fun x => h x.symm
  simp [ilookup_append, ilookup_ierase_other _ _ _ h, this]

/-! ### consumed items: the relation between two states of a socket's stream map -/

abbrev Streams := List (Ident × Rd)

/-- two connections never share a pipe -/
def PD (m : Streams) : Prop :=
  ∀ k j rd rd2, ilookup m k = some rd → ilookup m j = some rd2 → k ≠ j → rd.pipe ≠ rd2.pipe

/-- From `(ps, m)` to `(ps', m')` the items `c k` — and nothing else — were taken off the front of
connection `k`'s stream (the WHOLE remaining run — items, decoder state, leftover bytes, first error —
is the old one minus that prefix); a connection that is no longer registered had nothing
complete left; no connection appears from nowhere. -/
structure Step (ps : Pipes) (m : Streams) (ps' : Pipes) (m' : Streams) (c : Ident → List Item) : Prop where
  old : ∀ k rd', ilookup m' k = some rd' →
    ∃ rd, ilookup m k = some rd ∧ rd'.pipe = rd.pipe ∧ rd.rem ps = (rd'.rem ps').pre (c k)
  gone : ∀ k rd, ilookup m k = some rd → ilookup m' k = none → rd.items ps = c k
  nil : ∀ k, ilookup m k = none → c k = []

def nilC : Ident → List Item := fun _ => []
def oneC (k : Ident) (i : Item) : Ident → List Item := fun j => if j = k then [i] else []

theorem Step.refl (ps : Pipes) (m : Streams) : Step ps m ps m nilC :=
  ⟨fun k rd' h => ⟨rd', h, rfl, by simp [nilC]⟩, fun k rd h h' => (by rw [h] at h'; cases h'), fun _ _ => rfl⟩

theorem Step.trans {ps ps1 ps' : Pipes} {m m1 m' : Streams} {c1 c2 : Ident → List Item}
    (a : Step ps m ps1 m1 c1) (b : Step ps1 m1 ps' m' c2) : Step ps m ps' m' (fun k => c1 k ++ c2 k) := by
  refine ⟨?_, ?_, ?_⟩
  · intro k rd' h
    obtain ⟨rd1, h1, hp1, e1⟩ := b.old k rd' h
    obtain ⟨rd, h0, hp0, e0⟩ := a.old k rd1 h1
    exact ⟨rd, h0, hp1.trans hp0, by rw [e0, e1, RunOut.pre_pre]⟩
  · intro k rd h h'
    cases h1 : ilookup m1 k with
    | none => rw [a.gone k rd h h1, b.nil k h1, List.append_nil]
    | some rd1 =>
      obtain ⟨rd0, h0, _, e0⟩ := a.old k rd1 h1
      rw [h] at h0; cases h0
      have := b.gone k rd1 h1 h'
      simp only [Rd.items] at this ⊢
      rw [e0, RunOut.pre_items, this]
  · intro k h
    have h1 : ilookup m1 k = none := by
      cases h1 : ilookup m1 k with
      | none => rfl
      | some rd1 => obtain ⟨rd0, h0, _⟩ := a.old k rd1 h1; rw [h] at h0; cases h0
    rw [a.nil k h, b.nil k h1]; rfl

/-- the relation only looks at lookups -/
theorem Step.congr {ps ps' : Pipes} {m m' m2 : Streams} {c : Ident → List Item}
    (a : Step ps m ps' m' c) (h : ∀ k, ilookup m2 k = ilookup m' k) : Step ps m ps' m2 c :=
  ⟨fun k rd' hk => a.old k rd' (by rw [← h]; exact hk), fun k rd hk hk' => a.gone k rd hk (by rw [← h]; exact hk'),
   a.nil⟩

theorem Step.congr_c {ps ps' : Pipes} {m m' : Streams} {c c2 : Ident → List Item}
    (a : Step ps m ps' m' c) (h : ∀ k, c2 k = c k) : Step ps m ps' m' c2 := by
  have : c2 = c := funext h
  rw [this]; exact a

theorem Step.pd {ps ps' : Pipes} {m m' : Streams} {c : Ident → List Item}
    (a : Step ps m ps' m' c) (h : PD m) : PD m' := by
  intro k j rd rd2 hk hj hne
  obtain ⟨r1, h1, p1, _⟩ := a.old k rd hk
  obtain ⟨r2, h2, p2, _⟩ := a.old j rd2 hj
  rw [p1, p2]; exact h k j r1 r2 h1 h2 hne

theorem Rd.rem_frame {ps ps' : Pipes} (rd : Rd) (h : inbufOf ps' rd.pipe = inbufOf ps rd.pipe) :
    rd.rem ps' = rd.rem ps := by simp [Rd.rem, h]

/-- bytes waiting in the pipes unchanged ⇒ every stream is where it was -/
theorem Step.frame {ps ps' : Pipes} (m : Streams) (h : ∀ j, inbufOf ps' j = inbufOf ps j) :
    Step ps m ps' m nilC :=
  ⟨fun k rd' hk => ⟨rd', hk, rfl, by simp [nilC, Rd.rem_frame rd' (h _)]⟩,
   fun k rd h1 h2 => (by rw [h1] at h2; cases h2), fun _ _ => rfl⟩

/-- one poll of the reader of connection `k`, checked out of the map and put back (or not) -/
theorem Step.reader {ps : Pipes} {m : Streams} (hpd : PD m) {k : Ident} {rd : Rd} (hk : ilookup m k = some rd)
    {fuel : Nat} {who : RWaker} (hf : (inbufOf ps rd.pipe).length < fuel) {r : ReadRes} {ps' : Pipes} {rd' : Rd}
    (h : readerPoll fuel ps rd who = (r, ps', rd')) :
    match (generalizing := false) r with
    | .item i => Step ps m ps' (ierase m k ++ [(k, rd')]) (oneC k i)
    | .pending => Step ps m ps' (ierase m k ++ [(k, rd')]) nilC
    | _ => Step ps m ps' (ierase m k) nilC := by
  obtain ⟨hp, hfr, hres⟩ := readerPoll_spec fuel ps rd who hf r ps' rd' h
  have others : ∀ j rdj, j ≠ k → ilookup m j = some rdj → rdj.rem ps = (rdj.rem ps').pre [] := by
    intro j rdj hj hl
    rw [RunOut.pre_nil, Rd.rem_frame rdj (hfr _ (hpd j k rdj rd hl hk hj))]
  cases r with
  | item i =>
    simp only at hres ⊢
    refine ⟨?_, ?_, ?_⟩
    · intro j rdj hl
      by_cases hj : j = k
      · subst hj
        rw [ilookup_putback_same] at hl; cases hl
        exact ⟨rd, hk, hp, by simp [oneC, hres]⟩
      · rw [ilookup_putback_other _ _ _ _ hj] at hl
        exact ⟨rdj, hl, rfl, by simp only [oneC, hj, ↓reduceIte]; exact others j rdj hj hl⟩
    · intro j rdj hl hn
      by_cases hj : j = k
      · subst hj; rw [ilookup_putback_same] at hn; cases hn
      · rw [ilookup_putback_other _ _ _ _ hj, hl] at hn; cases hn
    · intro j hn
      have : j ≠ k := fun e => by subst e; rw [hk] at hn; cases hn
      simp [oneC, this]
  | pending =>
    simp only at hres ⊢
    refine ⟨?_, ?_, fun _ _ => rfl⟩
    · intro j rdj hl
      by_cases hj : j = k
      · subst hj
        rw [ilookup_putback_same] at hl; cases hl
        exact ⟨rd, hk, hp, by simp [nilC, hres.1]⟩
      · rw [ilookup_putback_other _ _ _ _ hj] at hl
        exact ⟨rdj, hl, rfl, others j rdj hj hl⟩
    · intro j rdj hl hn
      by_cases hj : j = k
      · subst hj; rw [ilookup_putback_same] at hn; cases hn
      · rw [ilookup_putback_other _ _ _ _ hj, hl] at hn; cases hn
  | eof =>
    simp only at hres ⊢
    refine ⟨?_, ?_, fun _ _ => rfl⟩
    · intro j rdj hl
      by_cases hj : j = k
      · subst hj; rw [ilookup_ierase_same] at hl; cases hl
      · rw [ilookup_ierase_other _ _ _ hj] at hl
        exact ⟨rdj, hl, rfl, others j rdj hj hl⟩
    · intro j rdj hl hn
      by_cases hj : j = k
      · subst hj; rw [hk] at hl; cases hl; exact hres
      · rw [ilookup_ierase_other _ _ _ hj, hl] at hn; cases hn
  | err e =>
    simp only at hres ⊢
    refine ⟨?_, ?_, fun _ _ => rfl⟩
    · intro j rdj hl
      by_cases hj : j = k
      · subst hj; rw [ilookup_ierase_same] at hl; cases hl
      · rw [ilookup_ierase_other _ _ _ hj] at hl
        exact ⟨rdj, hl, rfl, others j rdj hj hl⟩
    · intro j rdj hl hn
      by_cases hj : j = k
      · subst hj; rw [hk] at hl; cases hl; exact hres
      · rw [ilookup_ierase_other _ _ _ hj, hl] at hn; cases hn

/-! ### `peer_disconnected` and the stream map -/

theorem pd_inbuf (ps : Pipes) (s : Socket) (k : Ident) (j : Nat) :
    inbufOf (peerDisconnected ps s k).1 j = inbufOf ps j := by
  cases hp : ilookup s.peers k <;> cases hf : ilookup s.fqStreams k <;> cases hqq : ilookup s.reqRd k <;>
    cases ht : s.typ <;>
    simp_all [peerDisconnected, fqRemove, inbufOf_dropR, inbufOf_dropW]

theorem pd_typ (ps : Pipes) (s : Socket) (k : Ident) : (peerDisconnected ps s k).2.typ = s.typ := by
  cases hp : ilookup s.peers k <;> cases hf : ilookup s.fqStreams k <;> cases hqq : ilookup s.reqRd k <;>
    cases ht : s.typ <;>
    simp_all [peerDisconnected, fqRemove]

theorem pd_lookup_other (ps : Pipes) (s : Socket) (k j : Ident) (h : j ≠ k) :
    ilookup (peerDisconnected ps s k).2.fqStreams j = ilookup s.fqStreams j := by
  cases hp : ilookup s.peers k <;> cases hf : ilookup s.fqStreams k <;> cases hqq : ilookup s.reqRd k <;>
    cases ht : s.typ <;>
    simp_all [peerDisconnected, fqRemove, ilookup_ierase_other]

theorem pd_lookup_same (ps : Pipes) (s : Socket) (k : Ident) (h : hasFq s.typ = true) :
    ilookup (peerDisconnected ps s k).2.fqStreams k = none := by
  cases hp : ilookup s.peers k <;> cases hf : ilookup s.fqStreams k <;> cases hqq : ilookup s.reqRd k <;>
    cases ht : s.typ <;>
    simp_all [peerDisconnected, fqRemove, ilookup_ierase_same, hasFq]

theorem pd_lookup_same_any (ps : Pipes) (s : Socket) (k : Ident) :
    ilookup (peerDisconnected ps s k).2.fqStreams k = none ∨
    ilookup (peerDisconnected ps s k).2.fqStreams k = ilookup s.fqStreams k := by
  cases hp : ilookup s.peers k <;> cases hf : ilookup s.fqStreams k <;> cases hqq : ilookup s.reqRd k <;>
    cases ht : s.typ <;>
    simp_all [peerDisconnected, fqRemove, ilookup_ierase_same]

/-- forgetting a peer whose stream has nothing complete left takes nothing from anybody -/
theorem Step.pd_step (ps : Pipes) (s : Socket) (k : Ident)
    (h0 : ∀ rd, ilookup s.fqStreams k = some rd → rd.items ps = []) :
    Step ps s.fqStreams (peerDisconnected ps s k).1 (peerDisconnected ps s k).2.fqStreams nilC := by
  refine ⟨?_, ?_, fun _ _ => rfl⟩
  · intro j rdj hl
    by_cases hj : j = k
    · subst hj
      rcases pd_lookup_same_any ps s j with hn | he
      · rw [hn] at hl; cases hl
      · rw [he] at hl
        exact ⟨rdj, hl, rfl, by simp [nilC, Rd.rem, pd_inbuf]⟩
    · rw [pd_lookup_other _ _ _ _ hj] at hl
      exact ⟨rdj, hl, rfl, by simp [nilC, Rd.rem, pd_inbuf]⟩
  · intro j rdj hl hn
    by_cases hj : j = k
    · subst hj; exact h0 rdj hl
    · rw [pd_lookup_other _ _ _ _ hj, hl] at hn; cases hn

/-! ### `FairQueue::poll_next` over the readers -/

theorem readFuel_ok (ps : Pipes) (rd : Rd) : (inbufOf ps rd.pipe).length < readFuel ps rd := by
  simp [readFuel, inbufOf]

theorem nilC_append (c : Ident → List Item) : (fun k => nilC k ++ c k) = c := by
  funext k; simp [nilC]

theorem Step.pre {ps ps0 ps' : Pipes} {m m0 m' : Streams} {c : Ident → List Item}
    (a : Step ps m ps0 m0 nilC) (b : Step ps0 m0 ps' m' c) : Step ps m ps' m' c := by
  have := a.trans b
  rwa [nilC_append] at this

theorem PD.putback {m : Streams} (h : PD m) {k : Ident} {rd rd' : Rd} (hk : ilookup m k = some rd)
    (hp : rd'.pipe = rd.pipe) : PD (ierase m k ++ [(k, rd')]) := by
  intro a b ra rb ha hb hne
  by_cases hak : a = k
  · subst hak
    rw [ilookup_putback_same] at ha; cases ha
    have hbk : b ≠ a := fun e => hne e.symm
    rw [ilookup_putback_other _ _ _ _ hbk] at hb
    rw [hp]; exact h a b rd rb hk hb hne
  · rw [ilookup_putback_other _ _ _ _ hak] at ha
    by_cases hbk : b = k
    · subst hbk
      rw [ilookup_putback_same] at hb; cases hb
      rw [hp]; exact h a b ra rd ha hk hne
    · rw [ilookup_putback_other _ _ _ _ hbk] at hb
      exact h a b ra rb ha hb hne

theorem PD.erase {m : Streams} (h : PD m) (k : Ident) : PD (ierase m k) := by
  intro a b ra rb ha hb hne
  have hak : a ≠ k := fun e => by subst e; rw [ilookup_ierase_same] at ha; cases ha
  have hbk : b ≠ k := fun e => by subst e; rw [ilookup_ierase_same] at hb; cases hb
  rw [ilookup_ierase_other _ _ _ hak] at ha
  rw [ilookup_ierase_other _ _ _ hbk] at hb
  exact h a b ra rb ha hb hne

theorem ilookup_erase_putback {α} (m : List (Ident × α)) (k j : Ident) (v : α) :
    ilookup (ierase (ierase m k ++ [(k, v)]) k) j = ilookup (ierase m k) j := by
  by_cases hj : j = k
  · subst hj; rw [ilookup_ierase_same, ilookup_ierase_same]
  · rw [ilookup_ierase_other _ _ _ hj, ilookup_putback_other _ _ _ _ hj, ilookup_ierase_other _ _ _ hj]

/-- what a call of `poll_next` did to the streams, by result -/
def FqPost (ps : Pipes) (m : Streams) (r : FqRes) (ps' : Pipes) (m' : Streams) : Prop :=
  match r with
  | .pending => Step ps m ps' m' nilC
  | .got k (.item i) => Step ps m ps' m' (oneC k i)
  | .got k (.err _) => Step ps m ps' (ierase m' k) nilC
  | .got _ _ => False          -- `Ready(Some((k, Pending)))` does not exist

theorem FqPost.pre {ps ps0 ps' : Pipes} {m m0 m' : Streams} {r : FqRes}
    (a : Step ps m ps0 m0 nilC) (b : FqPost ps0 m0 r ps' m') : FqPost ps m r ps' m' := by
  cases r with
  | pending => exact Step.pre a b
  | got k rr =>
    cases rr with
    | item i => exact Step.pre a b
    | pending => exact b.elim
    | eof => exact b.elim
    | err e => exact Step.pre a b

/-- One call of the fair queue's `poll_next`: the item it returns is the next item of the stream
of the connection it names, and it is taken from that stream only; whatever else the call did
(stale events, streams that were `Pending`, streams that ended and whose peers were forgotten)
took nothing from anybody.  When it returns an error for `k`, that stream has nothing complete
left (the relation is stated for the map without `k`, which is how `recv` leaves it). -/
theorem fqPoll_spec (fuel : Nat) (ps : Pipes) (sid : Nat) (s : Socket) (hpd : PD s.fqStreams)
    (r : FqRes) (ps' : Pipes) (s' : Socket) (h : fqPoll fuel ps sid s = (r, ps', s')) :
    s'.typ = s.typ ∧ PD s'.fqStreams ∧ FqPost ps s.fqStreams r ps' s'.fqStreams := by
  induction fuel generalizing ps s with
  | zero =>
    simp only [fqPoll, Prod.mk.injEq] at h
    obtain ⟨rfl, rfl, rfl⟩ := h
    exact ⟨rfl, hpd, Step.refl _ _⟩
  | succ fuel ih =>
    unfold fqPoll at h
    cases hpop : popMinE s.fqHeap with
    | none =>
      simp only [hpop, Prod.mk.injEq] at h
      obtain ⟨rfl, rfl, rfl⟩ := h
      exact ⟨rfl, hpd, Step.refl _ _⟩
    | some e =>
      obtain ⟨⟨t, k⟩, rest⟩ := e
      simp only [hpop] at h
      cases hl : ilookup s.fqStreams k with
      | none =>
        simp only [hl] at h
        exact ih ps { s with fqHeap := rest } hpd h
      | some rd =>
        simp only [hl] at h
        cases hrp : readerPoll (readFuel ps rd) ps rd (.fq sid t k) with
        | mk r0 rest0 =>
          obtain ⟨ps0, rd0⟩ := rest0
          have hsp := readerPoll_spec _ ps rd _ (readFuel_ok ps rd) r0 ps0 rd0 hrp
          have hrd := Step.reader hpd hl (readFuel_ok ps rd) hrp
          simp only [hrp] at h
          cases r0 with
          | pending =>
            simp only at h hrd
            have := ih ps0 _ (PD.putback hpd hl hsp.1) h
            exact ⟨this.1, this.2.1, FqPost.pre hrd this.2.2⟩
          | eof =>
            simp only at h hrd
            let s2 : Socket := { s with fqHeap := rest, fqStreams := ierase s.fqStreams k }
            have b1 : Step ps0 (ierase s.fqStreams k) (dropR ps0 rd0.pipe) (ierase s.fqStreams k) nilC :=
              Step.frame _ (fun j => inbufOf_dropR _ _ _)
            have b2 := Step.pd_step (dropR ps0 rd0.pipe) s2 k (fun rd hk => by
              simp only [s2, ilookup_ierase_same] at hk; cases hk)
            have hpd2 : PD (peerDisconnected (dropR ps0 rd0.pipe) s2 k).2.fqStreams := b2.pd (PD.erase hpd k)
            have := ih _ _ hpd2 h
            exact ⟨this.1.trans (pd_typ _ _ _), this.2.1, FqPost.pre (Step.pre hrd (Step.pre b1 b2)) this.2.2⟩
          | item i =>
            simp only [Prod.mk.injEq] at h hrd
            obtain ⟨rfl, rfl, rfl⟩ := h
            exact ⟨rfl, PD.putback hpd hl hsp.1, hrd⟩
          | err e =>
            simp only [Prod.mk.injEq] at h hrd
            obtain ⟨rfl, rfl, rfl⟩ := h
            exact ⟨rfl, PD.putback hpd hl hsp.1, hrd.congr (fun j => ilookup_erase_putback _ _ j _)⟩

/-! ### the socket's `recv` loop -/

def msgsOf (l : List Item) : List Msg :=
  l.filterMap (fun i => match i with | .message m => some m | _ => none)

/-- what the socket type does to a message before the application sees it (`none` = the message
violates the type's envelope rule and is reported as an error) -/
def deliver (t : SockType) (k : Ident) (m : Msg) : Option Msg :=
  match t with
  | .router => some (routerIn k m)
  | .rep => (repSplit m).map (·.2)
  | _ => some m

/-- one `recv` poll against the items it took (`c k` = taken from connection `k`) -/
def RecvPost (t : SockType) (c : Ident → List Item) (o : POut) : Prop :=
  match o with
  | .pending => ∀ k, msgsOf (c k) = []
  | .ready (.okMsg m) =>
      ∃ k m0, msgsOf (c k) = [m0] ∧ deliver t k m0 = some m ∧ ∀ j, j ≠ k → msgsOf (c j) = []
  | .ready (.err _) =>
      (∀ k, msgsOf (c k) = []) ∨
      (∃ k m0, msgsOf (c k) = [m0] ∧ deliver t k m0 = none ∧ ∀ j, j ≠ k → msgsOf (c j) = [])
  | .ready _ => False

theorem RecvPost.congr {t : SockType} {c1 c2 : Ident → List Item} {o : POut}
    (h : ∀ j, msgsOf (c2 j) = msgsOf (c1 j)) (a : RecvPost t c1 o) : RecvPost t c2 o := by
  cases o with
  | pending => intro k; rw [h]; exact a k
  | ready v =>
    cases v with
    | okMsg m =>
      obtain ⟨k, m0, h1, h2, h3⟩ := a
      exact ⟨k, m0, by rw [h]; exact h1, h2, fun j hj => by rw [h]; exact h3 j hj⟩
    | err e =>
      rcases a with a | ⟨k, m0, h1, h2, h3⟩
      · left; intro k; rw [h]; exact a k
      · right; exact ⟨k, m0, by rw [h]; exact h1, h2, fun j hj => by rw [h]; exact h3 j hj⟩
    | okUnit => exact a.elim
    | okId i => exact a.elim
    | okErrs n => exact a.elim
    | errReturn m => exact a.elim
    | panic => exact a.elim

theorem pd_lookup_fq (ps : Pipes) (s : Socket) (k : Ident) (h : hasFq s.typ = true) (j : Ident) :
    ilookup (peerDisconnected ps s k).2.fqStreams j = ilookup (ierase s.fqStreams k) j := by
  by_cases hj : j = k
  · subst hj; rw [pd_lookup_same _ _ _ h, ilookup_ierase_same]
  · rw [pd_lookup_other _ _ _ _ hj, ilookup_ierase_other _ _ _ hj]

theorem msgsOf_oneC_msg (k j : Ident) (m : Msg) :
    msgsOf (oneC k (.message m) j) = if j = k then [m] else [] := by
  unfold oneC; split <;> simp [msgsOf]

theorem RecvPost.one_ok (t : SockType) (k : Ident) (m m' : Msg) (hd : deliver t k m = some m') :
    RecvPost t (oneC k (.message m)) (.ready (.okMsg m')) :=
  ⟨k, m, by simp [msgsOf_oneC_msg], hd, fun j hj => by simp [msgsOf_oneC_msg, hj]⟩

theorem RecvPost.one_err (t : SockType) (k : Ident) (m : Msg) (e : Err) (hd : deliver t k m = none) :
    RecvPost t (oneC k (.message m)) (.ready (.err e)) :=
  Or.inr ⟨k, m, by simp [msgsOf_oneC_msg], hd, fun j hj => by simp [msgsOf_oneC_msg, hj]⟩

theorem deliver_other (t : SockType) (k : Ident) (m : Msg) (h1 : t ≠ .router) (h2 : t ≠ .rep) :
    deliver t k m = some m := by
  cases t <;> simp_all [deliver]

theorem setSock_pipes (w : World) (k : Nat) (s : Socket) : (setSock w k s).pipes = w.pipes := rfl

/-- **One poll of `recv`** (PULL, SUB, DEALER, ROUTER, REP, XPUB), against the byte streams of the
socket's connections.  The items taken off each connection's stream during the poll (`c k`) are
a prefix of that stream's items (relation `Step`); among everything taken there is AT MOST ONE
message, and there is exactly one iff the poll returns it (as the socket type presents it) or —
REP only — rejects it with an error; every other item taken is a command or greeting, which
the loop ignores.  `Pending` takes no message from anybody. -/
theorem recvPoll_spec (fuel : Nat) (w : World) (sid : Nat) (s : Socket) (hs : getSock w sid = some s)
    (hfq : hasFq s.typ = true) (hpd : PD s.fqStreams) (w' : World) (o : POut)
    (h : recvPoll fuel w sid = (w', o)) :
    ∃ s' c, getSock w' sid = some s' ∧ s'.typ = s.typ ∧ PD s'.fqStreams ∧
      Step w.pipes s.fqStreams w'.pipes s'.fqStreams c ∧ RecvPost s.typ c o := by
  induction fuel generalizing w s with
  | zero =>
    simp only [recvPoll, Prod.mk.injEq] at h
    obtain ⟨rfl, rfl⟩ := h
    exact ⟨s, nilC, hs, rfl, hpd, Step.refl _ _, fun _ => rfl⟩
  | succ fuel ih =>
    unfold recvPoll at h
    simp only [hs] at h
    cases hq : fqPoll (s.fqHeap.length + 2) w.pipes sid s with
    | mk r rest =>
      obtain ⟨ps1, s1⟩ := rest
      obtain ⟨htyp, hpd1, hpost⟩ := fqPoll_spec _ _ _ _ hpd r ps1 s1 hq
      simp only [hq] at h
      have hfq1 : hasFq s1.typ = true := by rw [htyp]; exact hfq
      cases r with
      | pending =>
        simp only [Prod.mk.injEq] at h
        obtain ⟨rfl, rfl⟩ := h
        exact ⟨s1, nilC, getSock_setSock_same _ _ _, htyp, hpd1, hpost, fun _ => rfl⟩
      | got k rr =>
        cases rr with
        | pending => exact hpost.elim
        | eof => exact hpost.elim
        | err e =>
          simp only [setSock_pipes] at h hpost
          have b1 : Step ps1 (ierase s1.fqStreams k) (peerDisconnected ps1 s1 k).1 (ierase s1.fqStreams k) nilC :=
            Step.frame _ (pd_inbuf ps1 s1 k)
          have total : Step w.pipes s.fqStreams (peerDisconnected ps1 s1 k).1 (peerDisconnected ps1 s1 k).2.fqStreams nilC :=
            (Step.pre hpost b1).congr (fun j => pd_lookup_fq ps1 s1 k hfq1 j)
          have hpd2 := total.pd hpd
          have htyp2 : (peerDisconnected ps1 s1 k).2.typ = s.typ := (pd_typ ps1 s1 k).trans htyp
          by_cases hr : (peerDisconnected ps1 s1 k).2.typ = SockType.router
          · simp only [hr, ↓reduceIte] at h
            obtain ⟨s', c, g1, g2, g3, g4, g5⟩ := ih _ _ (getSock_setSock_same _ _ _) (by rw [htyp2]; exact hfq) hpd2 h
            exact ⟨s', c, g1, g2.trans htyp2, g3, Step.pre total g4, by rw [← htyp2]; exact g5⟩
          · simp only [hr, ↓reduceIte, Prod.mk.injEq] at h
            obtain ⟨rfl, rfl⟩ := h
            exact ⟨_, nilC, getSock_setSock_same _ _ _, htyp2, hpd2, total, Or.inl (fun _ => rfl)⟩
        | item i =>
          cases i with
          | message m =>
            simp only at h hpost
            split at h
            · rename_i hty
              simp only [Prod.mk.injEq] at h
              obtain ⟨rfl, rfl⟩ := h
              exact ⟨s1, oneC k (.message m), getSock_setSock_same _ _ _, htyp, hpd1, hpost,
                RecvPost.one_ok _ _ _ _ (by rw [← htyp, hty]; rfl)⟩
            · rename_i hty
              split at h
              · rename_i hsp
                simp only [Prod.mk.injEq] at h
                obtain ⟨rfl, rfl⟩ := h
                exact ⟨s1, oneC k (.message m), getSock_setSock_same _ _ _, htyp, hpd1, hpost,
                  RecvPost.one_err _ _ _ _ (by rw [← htyp, hty]; simp [deliver, hsp])⟩
              · rename_i env data hsp
                simp only [Prod.mk.injEq] at h
                obtain ⟨rfl, rfl⟩ := h
                exact ⟨_, oneC k (.message m), getSock_setSock_same _ _ _, htyp, hpd1, hpost,
                  RecvPost.one_ok _ _ _ _ (by rw [← htyp, hty]; simp [deliver, hsp])⟩
            · rename_i hty
              simp only [Prod.mk.injEq] at h
              obtain ⟨rfl, rfl⟩ := h
              refine ⟨_, oneC k (.message m), getSock_setSock_same _ _ _, ?_, ?_, ?_,
                RecvPost.one_ok _ _ _ _ (by rw [← htyp, hty]; rfl)⟩
              · split <;> exact htyp
              · split <;> exact hpd1
              · simp only [setSock_pipes]; split <;> exact hpost
            · rename_i h1 h2 h3
              simp only [Prod.mk.injEq] at h
              obtain ⟨rfl, rfl⟩ := h
              exact ⟨s1, oneC k (.message m), getSock_setSock_same _ _ _, htyp, hpd1, hpost,
                RecvPost.one_ok _ _ _ _ (deliver_other _ _ _ (by rw [← htyp]; exact h1) (by rw [← htyp]; exact h2))⟩
          | greeting g =>
            simp only at h hpost
            obtain ⟨s', c, g1, g2, g3, g4, g5⟩ := ih _ _ (getSock_setSock_same _ _ _) hfq1 hpd1 h
            refine ⟨s', _, g1, g2.trans htyp, g3, hpost.trans g4, ?_⟩
            rw [← htyp]
            exact g5.congr (fun j => by unfold oneC; split <;> simp [msgsOf])
          | command p =>
            simp only at h hpost
            obtain ⟨s', c, g1, g2, g3, g4, g5⟩ := ih _ _ (getSock_setSock_same _ _ _) hfq1 hpd1 h
            refine ⟨s', _, g1, g2.trans htyp, g3, hpost.trans g4, ?_⟩
            rw [← htyp]
            exact g5.congr (fun j => by unfold oneC; split <;> simp [msgsOf])

end Zmq.W
