import ZmqVerif.Model.Decoder
namespace Zmq

/-- append bytes behind whatever a transition left in the buffer -/
def StepOut.app (o : StepOut) (extra : Bytes) : StepOut :=
  match o with
  | .cont d b => .cont d (b ++ extra)
  | .item i d b => .item i d (b ++ extra)
  | .fail e d b => .fail e d (b ++ extra)
  | .panic s => .panic s

def DecodeOut.app (o : DecodeOut) (extra : Bytes) : DecodeOut :=
  match o with
  | .none d b => .none d (b ++ extra)
  | .item i d b => .item i d (b ++ extra)
  | .fail e d b => .fail e d (b ++ extra)
  | .panic s d b => .panic s d (b ++ extra)

theorem ofOut_app (o : Out Item) (d : Dec) (b extra : Bytes) :
    (StepOut.ofOut o d b).app extra = StepOut.ofOut o d (b ++ extra) := by
  cases o <;> rfl

/-- a transition that had enough bytes does not look at what follows them -/
theorem step_append (d : Dec) (buf extra : Bytes) (h : ¬ buf.length < d.st.need) :
    step d (buf ++ extra) = (step d buf).app extra := by
  unfold step
  cases hs : d.st with
  | greeting =>
    simp only [hs, DState.need] at h
    cases buf with
    | nil => simp at h
    | cons b t =>
      simp only [List.cons_append]
      split
      · rfl
      · have h1 : ¬ (b :: t).length < 64 := h
        have h2 : ¬ (b :: (t ++ extra)).length < 64 := by simp at h1 ⊢; omega
        simp only [h1, h2, ↓reduceIte]
        rw [ofOut_app]
        have e1 : (b :: (t ++ extra)).take 64 = (b :: t).take 64 := by
          rw [← List.cons_append, List.take_append_of_le_length (by simp at h1 ⊢; omega)]
        have e2 : (b :: (t ++ extra)).drop 64 = (b :: t).drop 64 ++ extra := by
          rw [← List.cons_append, List.drop_append_of_le_length (by simp at h1 ⊢; omega)]
        rw [e1, e2]
  | header =>
    simp only [hs, DState.need] at h
    cases buf with
    | nil => simp at h
    | cons b t => rfl
  | len f =>
    simp only [hs, DState.need] at h
    by_cases hl : f.long
    · simp only [hl, ↓reduceIte] at h ⊢
      have h2 : ¬ (buf ++ extra).length < 8 := by simp; omega
      simp only [h, h2, ↓reduceIte, StepOut.app]
      rw [List.take_append_of_le_length (by omega), List.drop_append_of_le_length (by omega)]
    · simp only [hl, Bool.false_eq_true, ↓reduceIte] at h ⊢
      cases buf with
      | nil => simp at h
      | cons b t => rfl
  | body f n =>
    simp only [hs, DState.need] at h
    have h2 : ¬ (buf ++ extra).length < n := by simp; omega
    simp only [h, h2, ↓reduceIte]
    rw [List.take_append_of_le_length (by omega), List.drop_append_of_le_length (by omega)]
    split
    · rw [ofOut_app]
    · split <;> rfl

/-- one `decode` call on a longer buffer: same outcome if it produced something,
otherwise it simply continues with the extra bytes -/
theorem decode_append (d : Dec) (buf extra : Bytes) :
    decode d (buf ++ extra) =
      match decode d buf with
      | .none d' b' => decode d' (b' ++ extra)
      | o => o.app extra := by
  fun_induction decode d buf with
  | case1 d buf hlt => rfl
  | case2 d buf hge d1 b1 hs ih =>
    rw [decode.eq_1 d (buf ++ extra)]
    have h' : ¬ (buf ++ extra).length < d.st.need := by simp; omega
    simp only [h', ↓reduceIte]
    have hsa := step_append d buf extra hge
    rw [hs] at hsa
    simp only [StepOut.app] at hsa
    split <;> rename_i hx <;> rw [hsa] at hx <;> simp at hx
    obtain ⟨rfl, rfl⟩ := hx
    exact ih
  | case3 d buf hge i d1 b1 hs =>
    rw [decode.eq_1 d (buf ++ extra)]
    have h' : ¬ (buf ++ extra).length < d.st.need := by simp; omega
    simp only [h', ↓reduceIte]
    have hsa := step_append d buf extra hge
    rw [hs] at hsa
    simp only [StepOut.app] at hsa
    split <;> rename_i hx <;> rw [hsa] at hx <;> simp at hx
    obtain ⟨rfl, rfl, rfl⟩ := hx
    rfl
  | case4 d buf hge e d1 b1 hs =>
    rw [decode.eq_1 d (buf ++ extra)]
    have h' : ¬ (buf ++ extra).length < d.st.need := by simp; omega
    simp only [h', ↓reduceIte]
    have hsa := step_append d buf extra hge
    rw [hs] at hsa
    simp only [StepOut.app] at hsa
    split <;> rename_i hx <;> rw [hsa] at hx <;> simp at hx
    obtain ⟨rfl, rfl, rfl⟩ := hx
    rfl
  | case5 d buf hge s hs =>
    rw [decode.eq_1 d (buf ++ extra)]
    have h' : ¬ (buf ++ extra).length < d.st.need := by simp; omega
    simp only [h', ↓reduceIte]
    have hsa := step_append d buf extra hge
    rw [hs] at hsa
    simp only [StepOut.app] at hsa
    split <;> rename_i hx <;> rw [hsa] at hx <;> simp at hx
    obtain rfl := hx
    rfl

/-- the run so far ended the stream -/
def RunOut.ended (r : RunOut) : Bool := r.error.isSome || r.panic.isSome

/-- **key lemma**: running on a longer buffer = run on the prefix, then (unless the stream
ended) continue from the state reached with the leftover plus the new bytes -/
theorem run_append (d : Dec) (buf extra : Bytes) :
    run d (buf ++ extra) =
      if (run d buf).ended then { run d buf with rest := (run d buf).rest ++ extra }
      else
        let r := run d buf
        let r2 := run r.dec (r.rest ++ extra)
        { r2 with items := r.items ++ r2.items } := by
  fun_induction run d buf with
  | case1 d buf d' buf' h =>
    simp only [RunOut.ended, Option.isSome_none, Bool.or_self, Bool.false_eq_true, ↓reduceIte,
      List.nil_append]
    rw [run.eq_1 d (buf ++ extra), run.eq_1 d' (buf' ++ extra)]
    have := decode_append d buf extra
    rw [h] at this
    simp only at this
    rw [this]
  | case2 d buf e d' buf' h =>
    simp only [RunOut.ended, Option.isSome_some, Bool.true_or, ↓reduceIte]
    rw [run.eq_1 d (buf ++ extra)]
    have := decode_append d buf extra
    rw [h] at this
    simp only [DecodeOut.app] at this
    split <;> rename_i hx <;> rw [this] at hx <;> simp at hx
    obtain ⟨rfl, rfl, rfl⟩ := hx
    rfl
  | case3 d buf s d' buf' h =>
    simp only [RunOut.ended, Option.isSome_some, Bool.or_true, ↓reduceIte]
    rw [run.eq_1 d (buf ++ extra)]
    have := decode_append d buf extra
    rw [h] at this
    simp only [DecodeOut.app] at this
    split <;> rename_i hx <;> rw [this] at hx <;> simp at hx
    obtain ⟨rfl, rfl, rfl⟩ := hx
    rfl
  | case4 d buf i d' buf' h r ih =>
    rw [run.eq_1 d (buf ++ extra)]
    have := decode_append d buf extra
    rw [h] at this
    simp only [DecodeOut.app] at this
    split <;> rename_i hx <;> rw [this] at hx <;> simp at hx
    obtain ⟨rfl, rfl, rfl⟩ := hx
    simp only [ih]
    by_cases he : ((run d' buf').error.isSome || (run d' buf').panic.isSome) = true <;>
      simp [he, RunOut.ended, r]

/-! ### the state a run stops in accepts nothing more without new bytes -/

theorem decode_none_stuck {d : Dec} {buf : Bytes} {d' : Dec} {b' : Bytes}
    (h : decode d buf = .none d' b') : b'.length < d'.st.need := by
  fun_induction decode d buf with
  | case1 d buf hlt => simp at h; obtain ⟨rfl, rfl⟩ := h; exact hlt
  | case2 d buf hge d1 b1 hs ih => exact ih h
  | case3 => simp at h
  | case4 => simp at h
  | case5 => simp at h

theorem run_stuck (d : Dec) (buf : Bytes) (h : buf.length < d.st.need) :
    run d buf = ⟨[], none, none, d, buf⟩ := by
  rw [run.eq_1]
  have hd : decode d buf = .none d buf := by rw [decode.eq_1]; simp [h]
  split <;> rename_i hx <;> rw [hd] at hx <;> simp at hx
  obtain ⟨rfl, rfl⟩ := hx; rfl

theorem run_result_stuck (d : Dec) (buf : Bytes) :
    (run d buf).ended = false → (run d buf).rest.length < (run d buf).dec.st.need := by
  fun_induction run d buf with
  | case1 d buf d' buf' h => intro _; exact decode_none_stuck h
  | case2 d buf e d' buf' h => simp [RunOut.ended]
  | case3 d buf s d' buf' h => simp [RunOut.ended]
  | case4 d buf i d' buf' h r ih => simpa [RunOut.ended] using ih

/-- a connection state between reads: nothing further can be decoded from what is buffered -/
def Conn.Quiescent (c : Conn) : Prop := c.dead = true ∨ c.buf.length < c.dec.st.need

theorem Conn.feed_quiescent (c : Conn) (chunk : Bytes) : (c.feed chunk).2.Quiescent := by
  unfold Conn.feed
  by_cases hd : c.dead
  · simp only [hd, ↓reduceIte]; left; simpa [Conn.dead] using hd
  · simp only [hd, Bool.false_eq_true, ↓reduceIte]
    by_cases he : (run c.dec (c.buf ++ chunk)).ended
    · left; simpa [Conn.dead, RunOut.ended] using he
    · right; exact run_result_stuck _ _ (by simpa using he)

theorem Conn.feed_append (c : Conn) (hq : c.Quiescent) (a b : Bytes) :
    c.feed (a ++ b) =
      (((c.feed a).1 ++ ((c.feed a).2.feed b).1), ((c.feed a).2.feed b).2) := by
  unfold Conn.feed
  by_cases hd : c.dead
  · simp [hd, Conn.dead] at *
    simp [hd, Conn.dead]
  · simp only [hd, Bool.false_eq_true, ↓reduceIte]
    rw [← List.append_assoc, run_append]
    by_cases he : (run c.dec (c.buf ++ a)).ended
    · have : Conn.dead ⟨(run c.dec (c.buf ++ a)).dec, (run c.dec (c.buf ++ a)).rest,
          (run c.dec (c.buf ++ a)).error, (run c.dec (c.buf ++ a)).panic⟩ = true := by
        simpa [Conn.dead, RunOut.ended] using he
      simp [he, this]
    · have : Conn.dead ⟨(run c.dec (c.buf ++ a)).dec, (run c.dec (c.buf ++ a)).rest,
          (run c.dec (c.buf ++ a)).error, (run c.dec (c.buf ++ a)).panic⟩ = false := by
        simpa [Conn.dead, RunOut.ended] using he
      simp [he, this]

theorem Conn.feed_nil (c : Conn) (hq : c.Quiescent) : c.feed [] = ([], c) := by
  unfold Conn.feed
  by_cases hd : c.dead
  · simp [hd]
  · simp only [hd, Bool.false_eq_true, ↓reduceIte, List.append_nil]
    rcases hq with h | h
    · simp [h] at hd
    · rw [run_stuck _ _ h]
      have h1 : c.error = none := by
        cases he : c.error <;> simp [Conn.dead, he] at hd ⊢
      have h2 : c.panic = none := by
        cases hp : c.panic <;> simp [Conn.dead, hp] at hd ⊢
      cases c; simp_all

end Zmq
