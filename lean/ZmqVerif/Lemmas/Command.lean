import ZmqVerif.Lemmas.Bytes
import ZmqVerif.Model.Wire
import ZmqVerif.Model.Decoder
import ZmqVerif.Spec.Rfc23
/-! Commands round-trip: the body the encoder writes for a command with ANY property list
(names of 1..255 octets, values shorter than 2^32) parses back to exactly that list — under the
independent RFC-23 reading of a command body, and under the library's own `ZmqCommand::try_from`
(for READY, names valid UTF-8). -/
namespace Zmq

/-- what the wire format can carry: names of 1..255 octets, values shorter than 2^32 octets -/
def PropsOk (ps : Props) : Prop := ∀ p ∈ ps, 1 ≤ p.1.length ∧ p.1.length ≤ 255 ∧ p.2.length < 2 ^ 32

theorem u8_ofNat_toNat (n : Nat) (h : n ≤ 255) : (UInt8.ofNat n).toNat = n := by
  simp [UInt8.toNat_ofNat']; omega

theorem take_app_left {α} (a b : List α) : (a ++ b).take a.length = a := by simp
theorem drop_app_left {α} (a b : List α) : (a ++ b).drop a.length = b := by simp

theorem u8_ofNat_ne_zero (n : Nat) (h1 : 1 ≤ n) (h2 : n ≤ 255) : UInt8.ofNat n ≠ 0 := by
  intro e
  have := congrArg UInt8.toNat e
  rw [u8_ofNat_toNat n h2] at this
  simp at this; omega

theorem encodeProps_len (ps : Props) : ps.length ≤ (encodeProps ps).length := by
  induction ps with
  | nil => simp
  | cons p ps ih => obtain ⟨k, v⟩ := p; simp [encodeProps]; omega

/-- one property, read by the RFC grammar -/
theorem parsePropsRfc_cons (f : Nat) (k v rest : Bytes) (hk1 : 1 ≤ k.length) (hk2 : k.length ≤ 255)
    (hv : v.length < 2 ^ 32) :
    Rfc.parsePropsRfc (f + 1) (UInt8.ofNat k.length :: (k ++ (be 4 v.length ++ (v ++ rest)))) =
      (Rfc.parsePropsRfc f rest).map ((k, v) :: ·) := by
  have hn : (UInt8.ofNat k.length).toNat = k.length := u8_ofNat_toNat _ hk2
  have hne := u8_ofNat_ne_zero _ hk1 hk2
  rw [Rfc.parsePropsRfc]
  simp only [hne, ↓reduceIte, hn]
  have hlen : ¬ (k ++ (be 4 v.length ++ (v ++ rest))).length < k.length + 4 := by simp
  simp only [hlen, ↓reduceIte, take_app_left, drop_app_left]
  have e3 : (be 4 v.length ++ (v ++ rest)).take 4 = be 4 v.length := by
    have := take_app_left (be 4 v.length) (v ++ rest)
    rw [be_length] at this; exact this
  have e4 : (be 4 v.length ++ (v ++ rest)).drop 4 = v ++ rest := by
    have := drop_app_left (be 4 v.length) (v ++ rest)
    rw [be_length] at this; exact this
  simp only [e3, e4, beNat_be4 _ hv]
  have hl2 : ¬ (v ++ rest).length < v.length := by simp
  simp only [hl2, ↓reduceIte, take_app_left, drop_app_left]

/-- RFC reading of the encoded properties -/
theorem parsePropsRfc_encode : ∀ (ps : Props), PropsOk ps → ∀ fuel, ps.length < fuel →
    Rfc.parsePropsRfc fuel (encodeProps ps) = some ps
  | [], _, fuel, hf => by
    obtain ⟨f, rfl⟩ : ∃ f, fuel = f + 1 := ⟨fuel - 1, by omega⟩
    simp [encodeProps, Rfc.parsePropsRfc]
  | (k, v) :: ps, hok, fuel, hf => by
    obtain ⟨f, rfl⟩ : ∃ f, fuel = f + 1 := ⟨fuel - 1, by simp at hf; omega⟩
    have h := hok (k, v) (by simp)
    simp only [] at h
    obtain ⟨hk1, hk2, hv⟩ := h
    have hrest : PropsOk ps := fun p hp => hok p (by simp [hp])
    have ih := parsePropsRfc_encode ps hrest f (by simp at hf; omega)
    have hshape : encodeProps ((k, v) :: ps) =
        UInt8.ofNat k.length :: (k ++ (be 4 v.length ++ (v ++ encodeProps ps))) := by
      simp [encodeProps]
    rw [hshape, parsePropsRfc_cons f k v _ hk1 hk2 hv, ih]; rfl

/-- **the command body parses, under the RFC grammar, to exactly the name and properties encoded** -/
theorem rfc_commandBody (name : Bytes) (ps : Props) (hn1 : 1 ≤ name.length) (hn2 : name.length ≤ 255)
    (hok : PropsOk ps) : Rfc.parseCommandBody (commandBody name ps) = some (name, ps) := by
  have hn : (UInt8.ofNat name.length).toNat = name.length := u8_ofNat_toNat _ hn2
  have hne0 := u8_ofNat_ne_zero _ hn1 hn2
  have hshape : commandBody name ps = UInt8.ofNat name.length :: (name ++ encodeProps ps) := rfl
  rw [hshape]
  simp only [Rfc.parseCommandBody, hn]
  have hc : ¬ (UInt8.ofNat name.length = 0 ∨ (name ++ encodeProps ps).length < name.length) := by
    intro h
    rcases h with e | e
    · exact hne0 e
    · simp at e; omega
  simp only [hc, ↓reduceIte, take_app_left, drop_app_left]
  rw [parsePropsRfc_encode ps hok _ (by have := encodeProps_len ps; simp; omega)]
  rfl

/-! ### the library's own parser -/

/-- one property, read by `ZmqCommand::try_from`'s loop -/
theorem parseProps_cons (f : Nat) (k v rest : Bytes) (acc : Props) (hk2 : k.length ≤ 255)
    (hu : validUtf8 k = true) (hv : v.length < 2 ^ 32) :
    parseProps (f + 1) (UInt8.ofNat k.length :: (k ++ (be 4 v.length ++ (v ++ rest)))) acc =
      parseProps f rest (acc ++ [(k, v)]) := by
  have hn : (UInt8.ofNat k.length).toNat = k.length := u8_ofNat_toNat _ hk2
  have e3 : (be 4 v.length ++ (v ++ rest)).take 4 = be 4 v.length := by
    have := take_app_left (be 4 v.length) (v ++ rest)
    rw [be_length] at this; exact this
  have e4 : (be 4 v.length ++ (v ++ rest)).drop 4 = v ++ rest := by
    have := drop_app_left (be 4 v.length) (v ++ rest)
    rw [be_length] at this; exact this
  rw [parseProps]
  have h1 : ¬ (k ++ (be 4 v.length ++ (v ++ rest))).length < k.length := by simp
  have h2 : ¬ (be 4 v.length ++ (v ++ rest)).length < 4 := by simp
  have h3 : ¬ (v ++ rest).length < v.length := by simp
  have hb : beNat (be 4 v.length) = v.length := beNat_be4 _ hv
  have tk : (k ++ (be 4 v.length ++ (v ++ rest))).take k.length = k := take_app_left _ _
  have dk : (k ++ (be 4 v.length ++ (v ++ rest))).drop k.length = be 4 v.length ++ (v ++ rest) := drop_app_left _ _
  simp only [List.isEmpty_cons, Bool.false_eq_true, ↓reduceIte, getU8, bind, Out.bind, hn, h1, splitTo]
  rw [tk, dk]
  simp only [hu, Bool.not_true, Bool.false_eq_true, ↓reduceIte, h2, getU32]
  rw [e3, e4, hb]
  simp only [h3, ↓reduceIte]
  have tv : (v ++ rest).take v.length = v := take_app_left _ _
  have dv : (v ++ rest).drop v.length = rest := drop_app_left _ _
  rw [tv, dv]

theorem parseProps_encode : ∀ (ps : Props), PropsOk ps → (∀ p ∈ ps, validUtf8 p.1 = true) →
    ∀ fuel acc, ps.length < fuel → parseProps fuel (encodeProps ps) acc = .ok (acc ++ ps)
  | [], _, _, fuel, acc, hf => by
    obtain ⟨f, rfl⟩ : ∃ f, fuel = f + 1 := ⟨fuel - 1, by omega⟩
    simp [encodeProps, parseProps]
  | (k, v) :: ps, hok, hu, fuel, acc, hf => by
    obtain ⟨f, rfl⟩ : ∃ f, fuel = f + 1 := ⟨fuel - 1, by simp at hf; omega⟩
    have h := hok (k, v) (by simp)
    simp only [] at h
    obtain ⟨_, hk2, hv⟩ := h
    have huk : validUtf8 k = true := hu (k, v) (by simp)
    have ih := parseProps_encode ps (fun p hp => hok p (by simp [hp])) (fun p hp => hu p (by simp [hp]))
      f (acc ++ [(k, v)]) (by simp at hf; omega)
    have hshape : encodeProps ((k, v) :: ps) =
        UInt8.ofNat k.length :: (k ++ (be 4 v.length ++ (v ++ encodeProps ps))) := by
      simp [encodeProps]
    rw [hshape, parseProps_cons f k v _ acc hk2 huk hv, ih]; simp

/-- **the READY body the encoder writes is read back by the library's own command parser as exactly
the properties encoded**, for any property list the wire format can carry -/
theorem lib_readyBody (ps : Props) (hok : PropsOk ps) (hu : ∀ p ∈ ps, validUtf8 p.1 = true) :
    parseCommand (commandBody kReady ps) = .ok ps := by
  have hshape : commandBody kReady ps = 5 :: (kReady ++ encodeProps ps) := rfl
  rw [hshape]
  unfold parseCommand
  have h1 : ¬ (kReady ++ encodeProps ps).length < (5 : UInt8).toNat := by
    have : kReady.length = 5 := rfl
    simp [this]
  have ht : (kReady ++ encodeProps ps).take 5 = kReady := take_app_left kReady _
  have hd : (kReady ++ encodeProps ps).drop 5 = encodeProps ps := drop_app_left kReady _
  have h5 : (5 : UInt8).toNat = 5 := rfl
  have hk5 : kReady.length = 5 := rfl
  have hl : ¬ (kReady.length + (encodeProps ps).length < 5) := by rw [hk5]; omega
  have := parseProps_encode ps hok hu ((encodeProps ps).length + 1) []
    (by have := encodeProps_len ps; omega)
  simp only [List.isEmpty_cons, Bool.false_eq_true, ↓reduceIte, getU8, bind, Out.bind, sliceTo, h5,
    splitTo, ht, hd, List.length_append, hl, ne_eq, not_true_eq_false]
  simpa using this

end Zmq
