import ZmqVerif.Lemmas.WorldHist
namespace Zmq.W
open Zmq

theorem pd_subsOf_other (ps : Pipes) (s : Socket) (k j : Ident) (h : j ≠ k) :
    ilookup (peerDisconnected ps s k).2.subsOf j = ilookup s.subsOf j := by
  cases hp : ilookup s.peers k <;> cases hf : ilookup s.fqStreams k <;> cases hqq : ilookup s.reqRd k <;>
    cases ht : s.typ <;>
    simp_all [peerDisconnected, fqRemove, ilookup_ierase_other]

/-- **PUB's per-subscriber reader task against the subscriber's byte stream.**  Run until it is `Pending` or
ends, the task has consumed a PREFIX `c` of the items the rest of the connection's stream decodes to, and the
subscription list it keeps for that subscriber is the old one with `onMsg` (push on `01 …`, remove the first
equal on `00 …`, ignore anything else, only single-frame messages) folded over exactly the messages in `c`, in
order; commands and greetings in between change nothing; no other subscriber's list and no other pipe's waiting
bytes are touched.  If the task ends (end of stream / error), nothing complete was left behind. -/
theorem readerTask_spec (fuel : Nat) (ps : Pipes) (s : Socket) (k : Ident) (rd : Rd)
    (subs : List Bytes) (hsub : ilookup s.subsOf k = some subs)
    (ps' : Pipes) (s' : Socket) (r : Option Rd) (h : readerTask fuel ps s k rd = (ps', s', r)) :
    ∃ c : List Item,
      (∀ j, j ≠ rd.pipe → inbufOf ps' j = inbufOf ps j) ∧
      (∀ j, j ≠ k → ilookup s'.subsOf j = ilookup s.subsOf j) ∧
      (match r with
       | some rd' => rd'.pipe = rd.pipe ∧ rd.rem ps = (rd'.rem ps').pre c ∧
           ilookup s'.subsOf k = some ((msgsOf c).foldl onMsg subs)
       | none => rd.items ps = c) := by
  induction fuel generalizing ps s rd subs with
  | zero =>
    simp only [readerTask, Prod.mk.injEq] at h
    obtain ⟨rfl, rfl, rfl⟩ := h
    exact ⟨[], fun _ _ => rfl, fun _ _ => rfl, rfl, by simp, by simpa [msgsOf] using hsub⟩
  | succ fuel ih =>
    unfold readerTask at h
    cases hrp : readerPoll (readFuel ps rd) ps rd .user with
    | mk r0 rest0 =>
      obtain ⟨ps0, rd0⟩ := rest0
      obtain ⟨hp, hfr, hres⟩ := readerPoll_spec _ ps rd _ (readFuel_ok ps rd) r0 ps0 rd0 hrp
      simp only [hrp] at h
      cases r0 with
      | pending =>
        simp only [Prod.mk.injEq] at h
        obtain ⟨rfl, rfl, rfl⟩ := h
        exact ⟨[], hfr, fun _ _ => rfl, hp, by simpa using hres.1, by simpa [msgsOf] using hsub⟩
      | eof =>
        simp only [Prod.mk.injEq] at h
        obtain ⟨rfl, rfl, rfl⟩ := h
        refine ⟨[], fun j hj => ?_, fun j hj => pd_subsOf_other _ _ _ _ hj, hres⟩
        rw [inbufOf_dropR, pd_inbuf]; exact hfr j hj
      | err e =>
        simp only [Prod.mk.injEq] at h
        obtain ⟨rfl, rfl, rfl⟩ := h
        refine ⟨[], fun j hj => ?_, fun j hj => pd_subsOf_other _ _ _ _ hj, hres⟩
        rw [inbufOf_dropR, pd_inbuf]; exact hfr j hj
      | item i =>
        simp only at hres
        have hitems : rd.items ps = i :: rd0.items ps0 := by
          simp only [Rd.items, hres, RunOut.pre_items]; rfl
        cases i with
        | message m =>
          simp only [hsub] at h
          obtain ⟨c, h1, h2, h3⟩ := ih ps0 _ rd0 (onMsg subs m) (ilookup_iinsert_same _ _ _) h
          refine ⟨.message m :: c, fun j hj => by rw [h1 j (by rw [hp]; exact hj), hfr j hj],
            fun j hj => by rw [h2 j hj]; exact ilookup_iinsert_other _ _ _ _ hj, ?_⟩
          cases r with
          | some rd' =>
            simp only at h3 ⊢
            refine ⟨h3.1.trans hp, by rw [hres, h3.2.1, RunOut.pre_pre]; rfl, ?_⟩
            rw [h3.2.2]; simp [msgsOf]
          | none =>
            simp only at h3 ⊢
            rw [hitems, h3]
        | greeting g =>
          simp only at h
          obtain ⟨c, h1, h2, h3⟩ := ih ps0 _ rd0 subs hsub h
          refine ⟨.greeting g :: c, fun j hj => by rw [h1 j (by rw [hp]; exact hj), hfr j hj], h2, ?_⟩
          cases r with
          | some rd' =>
            simp only at h3 ⊢
            refine ⟨h3.1.trans hp, by rw [hres, h3.2.1, RunOut.pre_pre]; rfl, ?_⟩
            rw [h3.2.2]; simp [msgsOf]
          | none =>
            simp only at h3 ⊢
            rw [hitems, h3]
        | command p =>
          simp only at h
          obtain ⟨c, h1, h2, h3⟩ := ih ps0 _ rd0 subs hsub h
          refine ⟨.command p :: c, fun j hj => by rw [h1 j (by rw [hp]; exact hj), hfr j hj], h2, ?_⟩
          cases r with
          | some rd' =>
            simp only at h3 ⊢
            refine ⟨h3.1.trans hp, by rw [hres, h3.2.1, RunOut.pre_pre]; rfl, ?_⟩
            rw [h3.2.2]; simp [msgsOf]
          | none =>
            simp only at h3 ⊢
            rw [hitems, h3]

end Zmq.W
