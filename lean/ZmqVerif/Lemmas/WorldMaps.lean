import ZmqVerif.Model.World
namespace Zmq.W

theorem lookup_insert_same {α} (m : List (Nat × α)) (k : Nat) (v : α) : lookup (insert m k v) k = some v := by
  induction m with
  | nil => simp [insert, lookup]
  | cons e t ih =>
    simp only [insert]
    split
    · simp [lookup]
    · rename_i h; simp [lookup, h, ih]

theorem lookup_insert_other {α} (m : List (Nat × α)) (k j : Nat) (v : α) (h : j ≠ k) :
    lookup (insert m k v) j = lookup m j := by
  have hkj : (k == j) = false := by simpa using fun x => h x.symm
  induction m with
  | nil => simp [insert, lookup, hkj]
  | cons e t ih =>
    simp only [insert]
    split
    · rename_i he
      have : e.1 = k := by simpa using he
      have hej : (e.1 == j) = false := by rw [this]; exact hkj
      simp [lookup, hkj, hej]
    · simp only [lookup, ih]

theorem ilookup_iinsert_same {α} (m : List (Ident × α)) (k : Ident) (v : α) :
    ilookup (iinsert m k v) k = some v := by
  induction m with
  | nil => simp [iinsert, ilookup]
  | cons e t ih =>
    simp only [iinsert]
    split
    · simp [ilookup]
    · rename_i h; simp [ilookup, h, ih]

theorem ilookup_iinsert_other {α} (m : List (Ident × α)) (k j : Ident) (v : α) (h : j ≠ k) :
    ilookup (iinsert m k v) j = ilookup m j := by
  have hkj : (k == j) = false := by simpa using fun x => h x.symm
  induction m with
  | nil => simp [iinsert, ilookup, hkj]
  | cons e t ih =>
    simp only [iinsert]
    split
    · rename_i he
      have : e.1 = k := by simpa using he
      have hej : (e.1 == j) = false := by rw [this]; exact hkj
      simp [ilookup, hkj, hej]
    · simp only [ilookup, ih]

theorem getPipe_setPipe_same (ps : Pipes) (k : Nat) (p : Pipe) : getPipe (setPipe ps k p) k = p := by
  simp [getPipe, setPipe, lookup_insert_same]

theorem getPipe_setPipe_other (ps : Pipes) (k j : Nat) (p : Pipe) (h : j ≠ k) :
    getPipe (setPipe ps k p) j = getPipe ps j := by
  simp [getPipe, setPipe, lookup_insert_other _ _ _ _ h]

theorem getSock_setSock_same (w : World) (k : Nat) (s : Socket) : getSock (setSock w k s) k = some s := by
  simp [getSock, setSock, lookup_insert_same]

/-- a write through `wr` touches no pipe but `wr.pipe` -/
theorem wrSendPoll_frame (ps : Pipes) (wr : Wr) (st : SendSt) (j : Nat) (h : j ≠ wr.pipe) :
    getPipe (wrSendPoll ps wr st).1 j = getPipe ps j := by
  simp only [wrSendPoll]
  exact getPipe_setPipe_other _ _ _ _ h

theorem wrSendPoll_pipe (ps : Pipes) (wr : Wr) (st : SendSt) : (wrSendPoll ps wr st).2.1.pipe = wr.pipe := by
  simp [wrSendPoll]

theorem getPipe_dropW_other (ps : Pipes) (a j : Nat) (h : j ≠ a) : getPipe (dropW ps a) j = getPipe ps j := by
  simp [dropW, getPipe_setPipe_other _ _ _ _ h]

theorem getPipe_dropR_other (ps : Pipes) (a j : Nat) (h : j ≠ a) : getPipe (dropR ps a) j = getPipe ps j := by
  simp [dropR, getPipe_setPipe_other _ _ _ _ h]

/-- `peer_disconnected(k)` touches only the halves the socket holds for `k` -/
theorem peerDisconnected_frame (ps : Pipes) (s : Socket) (k : Ident) (j : Nat)
    (hw : ∀ wr, ilookup s.peers k = some wr → j ≠ wr.pipe)
    (hr : ∀ rd, ilookup s.fqStreams k = some rd → j ≠ rd.pipe)
    (hq : ∀ rd, ilookup s.reqRd k = some rd → j ≠ rd.pipe) :
    getPipe (peerDisconnected ps s k).1 j = getPipe ps j := by
  cases hp : ilookup s.peers k <;> cases hf : ilookup s.fqStreams k <;> cases hqq : ilookup s.reqRd k <;>
    cases ht : s.typ <;>
    simp_all [peerDisconnected, fqRemove, getPipe_dropR_other, getPipe_dropW_other]

end Zmq.W
