import ZmqVerif.Lemmas.FQInv
/-! Progress and wake-up: with something deliverable registered, a receiver that runs
delivers within `3·|heap|` sections; a parked receiver is woken by the next event. -/
namespace Zmq.FQ

theorem popMin_length {h : List (Nat × Nat)} {e rest} (hp : popMin h = some (e, rest)) :
    rest.length + 1 = h.length := by
  induction h generalizing e rest with
  | nil => simp [popMin] at hp
  | cons x xs ih =>
    simp only [popMin] at hp
    split at hp
    · simp at hp; obtain ⟨_, rfl⟩ := hp; simp [popMin_none ‹popMin xs = none›]
    · rename_i m r hm
      split at hp
      · simp at hp; obtain ⟨_, rfl⟩ := hp; simp
      · simp at hp; obtain ⟨_, rfl⟩ := hp; have := ih hm; simp; omega

/-- `n` consecutive receiver sections with no environment step in between -/
def recvN : Nat → St → St
  | 0, s => s
  | n+1, s => recvN n (step s .recvStep)

theorem recvN_add (a b : Nat) (s : St) : recvN (a + b) s = recvN b (recvN a s) := by
  induction a generalizing s with
  | zero => simp [recvN]
  | succ a ih => rw [Nat.succ_add]; simp [recvN, ih]

/-- some registered stream can yield an item right now -/
def Avail (s : St) : Prop := ∃ k, s.reg k = .inMap ∧ (s.peer k).q ≠ []

/-- nothing that already returned `Pending` in this call has an event queued — true of every
call in which the budget never ran out: such a stream is armed, its token is the armed waker -/
def SeenClean (s : St) : Prop := ∀ j, s.seen.contains j = true → cnt s.heap j = 0

theorem progress_aux : ∀ (m : Nat) (s : St), s.heap.length = m → Inv s → s.pc = .a → Avail s →
    s.exhausted = false → SeenClean s →
    ∃ n, n ≤ 3 * m ∧ (recvN n s).pc = .idle ∧ (recvN n s).out.length = s.out.length + 1 := by
  intro m
  induction m using Nat.strongRecOn with
  | _ m ih =>
    intro s hm hinv hpc ⟨k, hreg, hq⟩ hex hsc
    have hev := avail_has_event s hinv k hreg (Or.inl hq)
    cases hpop : popMin s.heap with
    | none => have := popMin_none hpop; simp [this, cnt] at hev
    | some er =>
      obtain ⟨⟨t, k'⟩, rest⟩ := er
      have hlen := popMin_length hpop
      -- the popped key has an event, so it is not one of the streams seen pending in this call
      have hk'seen : s.seen.contains k' = false := by
        cases hc : s.seen.contains k' with
        | false => rfl
        | true =>
          have h0 := hsc k' hc
          have := popMin_cnt hpop k'
          simp at this; omega
      have hnm : k' ∉ s.seen := by simpa using hk'seen
      have hA : step s .recvStep = doAcore s := by
        simp [step, doRecv, hpc, doA, hpop, hnm]
      have hrestclean : ∀ j, s.seen.contains j = true → cnt rest j = 0 := by
        intro j hj
        have := popMin_cnt_le hpop j
        have := hsc j hj
        omega
      by_cases hk' : s.reg k' = .inMap
      · -- the event's stream is checked out and polled
        have h1 : step s .recvStep =
            { s with waker := true, pubW := s.polledW, heap := rest, reg := upd s.reg k' .out, pc := .b t k' } := by
          rw [hA]; simp [doAcore, hpop, hk']
        have hinv1 : Inv (step s .recvStep) := step_inv s _ hinv
        have e3 : ∀ x : St, recvN 3 x = step (step (step x .recvStep) .recvStep) .recvStep := fun _ => rfl
        cases hqk : (s.peer k').q with
        | cons item q' =>
          -- it yields: B, then C delivers
          have h2 : step (step s .recvStep) .recvStep =
              { s with waker := true, pubW := s.polledW, heap := rest, reg := upd s.reg k' .out,
                       peer := upd s.peer k' { s.peer k' with q := q' }, pc := .c t k' (.some item) } := by
            rw [h1]; simp [step, doRecv, doB, hex, doBcore, hqk]
          have h3 : recvN 3 s =
              { s with waker := true, pubW := s.polledW, heap := (s.counter, k') :: rest, counter := s.counter + 1,
                       reg := upd (upd s.reg k' .out) k' .inMap,
                       peer := upd s.peer k' { s.peer k' with q := q' }, pc := .idle,
                       out := s.out ++ [(k', item)], exhausted := false } := by
            rw [e3, h2]; simp [step, doRecv, doC]
          exact ⟨3, by omega, by rw [h3], by rw [h3]; simp⟩
        | nil =>
          have hkk : k' ≠ k := by intro e; subst e; exact hq hqk
          by_cases hcl : (s.peer k').closed = true
          · -- EOF: the stream is dropped, back to A with a shorter heap
            have h2 : step (step s .recvStep) .recvStep =
                { s with waker := true, pubW := s.polledW, heap := rest, reg := upd s.reg k' .out, pc := .c t k' .none } := by
              rw [h1]; simp [step, doRecv, doB, hex, doBcore, hqk, hcl]
            have h3 : recvN 3 s =
                { s with waker := true, pubW := s.polledW, heap := rest, reg := upd (upd s.reg k' .out) k' .gone, pc := .a } := by
              rw [e3, h2]; simp [step, doRecv, doC]
            have hinv3 : Inv (recvN 3 s) := by
              rw [e3]; exact step_inv _ _ (step_inv _ _ hinv1)
            have hav : Avail (recvN 3 s) := by
              refine ⟨k, ?_, ?_⟩
              · rw [h3]; simp [upd, Ne.symm hkk, hreg]
              · rw [h3]; simpa using hq
            have hsc3 : SeenClean (recvN 3 s) := by
              rw [h3]; intro j hj; exact hrestclean j hj
            obtain ⟨n, hn, hp, ho⟩ := ih rest.length (by omega) (recvN 3 s) (by rw [h3]) hinv3 (by rw [h3]) hav
              (by rw [h3]; exact hex) hsc3
            refine ⟨3 + n, by omega, ?_, ?_⟩
            · rw [recvN_add]; exact hp
            · rw [recvN_add, ho, h3]
          · -- Pending: armed, put back, remembered as seen, back to A with a shorter heap
            have hcl' : (s.peer k').closed = false := by simpa using hcl
            have h2 : step (step s .recvStep) .recvStep =
                { s with waker := true, pubW := s.polledW, heap := rest, reg := upd s.reg k' .out,
                         peer := upd s.peer k' { s.peer k' with armed := some t }, pc := .c t k' .pend } := by
              rw [h1]; simp [step, doRecv, doB, hex, doBcore, hqk, hcl']
            have h3 : recvN 3 s =
                { s with waker := true, pubW := s.polledW, heap := rest, reg := upd (upd s.reg k' .out) k' .inMap,
                         peer := upd s.peer k' { s.peer k' with armed := some t }, pc := .a,
                         seen := k' :: s.seen } := by
              rw [e3, h2]; simp [step, doRecv, doC]
            have hinv3 : Inv (recvN 3 s) := by
              rw [e3]; exact step_inv _ _ (step_inv _ _ hinv1)
            have hav : Avail (recvN 3 s) := by
              refine ⟨k, ?_, ?_⟩
              · rw [h3]; simp [upd, Ne.symm hkk, hreg]
              · rw [h3]; simpa [upd, Ne.symm hkk] using hq
            have hsc3 : SeenClean (recvN 3 s) := by
              intro j hj
              by_cases hjk : j = k'
              · -- the stream just armed: its one token is the armed waker
                subst hjk
                have ht := hinv3.tok j (by rw [h3]; simp [upd])
                rw [h3] at ht ⊢
                simp [evs, armedN, inHand, handKey, upd] at ht ⊢
                omega
              · rw [h3] at hj ⊢
                simp at hj
                rcases hj with hj | hj
                · exact absurd hj hjk
                · exact hrestclean j (by simpa using hj)
            obtain ⟨n, hn, hp, ho⟩ := ih rest.length (by omega) (recvN 3 s) (by rw [h3]) hinv3 (by rw [h3]) hav
              (by rw [h3]; exact hex) hsc3
            refine ⟨3 + n, by omega, ?_, ?_⟩
            · rw [recvN_add]; exact hp
            · rw [recvN_add, ho, h3]
      · -- stale event (its stream has gone): dropped, still at A with a shorter heap
        have h1 : step s .recvStep = { s with waker := true, pubW := s.polledW, heap := rest } := by
          rw [hA]; simp [doAcore, hpop, hk']
        have hinv1 : Inv (step s .recvStep) := step_inv s _ hinv
        have hav : Avail (step s .recvStep) := ⟨k, by rw [h1]; exact hreg, by rw [h1]; exact hq⟩
        have hsc1 : SeenClean (step s .recvStep) := by
          rw [h1]; intro j hj; exact hrestclean j hj
        obtain ⟨n, hn, hp, ho⟩ := ih rest.length (by omega) (step s .recvStep) (by rw [h1]) hinv1
          (by rw [h1]; exact hpc) hav (by rw [h1]; exact hex) hsc1
        refine ⟨1 + n, by omega, ?_, ?_⟩
        · rw [recvN_add]; exact hp
        · rw [recvN_add]; simp only [recvN]; rw [ho, h1]

/-- **progress**: whenever a registered stream holds a complete item, a receiver that polls —
with budget to do so — returns `Ready` within `3·|heap|` sections -/
theorem progress (s : St) (hinv : Inv s) (hpc : s.pc = .idle ∨ s.pc = .parked) (hav : Avail s)
    (hex : s.exhausted = false) :
    ∃ n, n ≤ 3 * s.heap.length ∧
      (recvN n (step s .pollStart)).pc = .idle ∧
      (recvN n (step s .pollStart)).out.length = s.out.length + 1 := by
  have h1 : step s .pollStart = { s with pc := .a, notified := false, seen := [], polledW := s.curW } := by
    rcases hpc with h | h <;> simp [step, doPollStart, h]
  have hinv1 : Inv (step s .pollStart) := step_inv s _ hinv
  have := progress_aux s.heap.length (step s .pollStart) (by rw [h1]) hinv1 (by rw [h1])
    (by obtain ⟨k, a, b⟩ := hav; exact ⟨k, by rw [h1]; exact a, by rw [h1]; exact b⟩)
    (by rw [h1]; exact hex) (by rw [h1]; intro j hj; simp at hj)
  rw [h1] at this ⊢
  exact this

/-- **no spin**: when the budget is exhausted, a stream that has just returned `Pending` in this
call is not polled again in this call — the receiver yields (parks, notified and woken), so the
executor can run and refresh the budget.  (Before the repair the loop re-polled the self-waking
stream for ever: a livelock at 100 % CPU, reproduced on the real runtime.) -/
theorem no_spin (s : St) (t k : Nat) (rest : List (Nat × Nat)) (hpc : s.pc = .a)
    (hpop : popMin s.heap = some ((t, k), rest)) (hseen : s.seen.contains k = true) :
    (step s .recvStep).pc = .parked ∧ (step s .recvStep).notified = true ∧
    (step s .recvStep).wakes = s.wakes + 1 ∧ (step s .recvStep).heap = s.heap := by
  have hmem : k ∈ s.seen := by simpa using hseen
  simp [step, doRecv, hpc, doA, hpop, hmem, yieldNow]

/-- … and an exhausted poll of a stream puts it on the `seen` list with its event queued again,
so the next section A is exactly the situation of `no_spin`. -/
theorem exhausted_poll_is_seen (s : St) (t k : Nat) (hpc : s.pc = .b t k) (hex : s.exhausted = true) :
    let s2 := step (step s .recvStep) .recvStep
    s2.pc = .a ∧ s2.seen = k :: s.seen ∧ s2.heap = (t, k) :: s.heap := by
  simp [step, doRecv, hpc, doB, hex, doBex, fire, doC]

/-- **wake-up**: a parked, un-notified receiver is woken by the next arrival on a registered
stream, by a peer closing, and by a new peer being inserted -/
theorem wake_on_arrive (s : St) (hinv : Inv s) (hp : s.pc = .parked) (hn : s.notified = false)
    (k item : Nat) (hreg : s.reg k = .inMap) :
    (step s (.arrive k item)).wakes = s.wakes + 1 ∧ (step s (.arrive k item)).notified = true := by
  obtain ⟨hheap, hw⟩ := hinv.i1 hp hn
  have hcl := (parked_means_nothing_ready s hinv hp hn k hreg).2
  have ht := hinv.tok k (Or.inl hreg)
  have hh := inHand_of_not_out hinv k (by simp [hreg])
  have harm : ∃ t, (s.peer k).armed = some t := by
    cases ha : (s.peer k).armed with
    | some t => exact ⟨t, rfl⟩
    | none => simp [evs, cnt, hheap, armedN, ha, hh] at ht
  obtain ⟨t, ha⟩ := harm
  simp [step, doArrive, hcl, ready, ha, hreg, fire, hw]

theorem wake_on_close (s : St) (hinv : Inv s) (hp : s.pc = .parked) (hn : s.notified = false)
    (k : Nat) (hreg : s.reg k = .inMap) :
    (step s (.close k)).wakes = s.wakes + 1 ∧ (step s (.close k)).notified = true := by
  obtain ⟨hheap, hw⟩ := hinv.i1 hp hn
  have hcl := (parked_means_nothing_ready s hinv hp hn k hreg).2
  have ht := hinv.tok k (Or.inl hreg)
  have hh := inHand_of_not_out hinv k (by simp [hreg])
  have harm : ∃ t, (s.peer k).armed = some t := by
    cases ha : (s.peer k).armed with
    | some t => exact ⟨t, rfl⟩
    | none => simp [evs, cnt, hheap, armedN, ha, hh] at ht
  obtain ⟨t, ha⟩ := harm
  simp [step, doClose, hcl, ready, ha, hreg, fire, hw]

theorem wake_on_insert (s : St) (hinv : Inv s) (hp : s.pc = .parked) (hn : s.notified = false)
    (k : Nat) (hreg : s.reg k = .absent) :
    (step s (.insert k)).wakes = s.wakes + 1 ∧ (step s (.insert k)).notified = true := by
  obtain ⟨_, hw⟩ := hinv.i1 hp hn
  simp [step, doInsert, hreg, hw]

end Zmq.FQ
