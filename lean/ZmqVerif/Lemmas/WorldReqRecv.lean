import ZmqVerif.Lemmas.WorldHist
namespace Zmq.W
open Zmq

/-- **REQ `recv` against the awaited peer's byte stream.**  REQ reads only the connection its outstanding
request went to.  One poll either is `Pending` — then that connection's stream holds no complete item, its
reader is where it was, and the request marker stays (the recv is still owed) — or it consumes EXACTLY the
first item of that stream: a message is returned with its delimiter removed (`reqUnwrap`) or rejected with
one error, anything else is one error; end of stream / a stream error are reported once, with nothing
complete left.  No other pipe's waiting bytes are touched. -/
theorem reqRecvPoll_spec (w : World) (sid : Nat) (s : Socket) (hs : getSock w sid = some s)
    (k : Ident) (hc : s.current = some k) (rd : Rd) (hk : ilookup s.reqRd k = some rd)
    (w' : World) (o : POut) (h : reqRecvPoll w sid = (w', o)) :
    (∀ j, j ≠ rd.pipe → inbufOf w'.pipes j = inbufOf w.pipes j) ∧
    (match o with
     | .pending => rd.items w.pipes = [] ∧
         ∃ s' rd', getSock w' sid = some s' ∧ s'.current = some k ∧ ilookup s'.reqRd k = some rd' ∧
           rd'.rem w'.pipes = rd.rem w.pipes
     | .ready (.okMsg r) => ∃ m rest, rd.items w.pipes = .message m :: rest ∧ reqUnwrap m = some r
     | .ready (.err _) =>
         rd.items w.pipes = [] ∨ (∃ i rest, rd.items w.pipes = i :: rest ∧
           (∀ m, i = .message m → reqUnwrap m = none))
     | _ => False) := by
  unfold reqRecvPoll at h
  simp only [hs, hc, hk] at h
  cases hrp : readerPoll (readFuel w.pipes rd) w.pipes rd .user with
  | mk r0 rest0 =>
    obtain ⟨ps0, rd0⟩ := rest0
    obtain ⟨hp, hfr, hres⟩ := readerPoll_spec _ w.pipes rd _ (readFuel_ok w.pipes rd) r0 ps0 rd0 hrp
    simp only [hrp] at h
    cases r0 with
    | pending =>
      simp only [Prod.mk.injEq] at h
      obtain ⟨rfl, rfl⟩ := h
      refine ⟨fun j hj => by simp only [setSock_pipes]; exact hfr j hj, hres.2, ?_⟩
      exact ⟨_, rd0, getSock_setSock_same _ _ _, rfl, ilookup_iinsert_same _ _ _, by simp only [setSock_pipes]; exact hres.1.symm⟩
    | item i =>
      have hitems : rd.items w.pipes = i :: rd0.items ps0 := by
        simp only [Rd.items, hres, RunOut.pre_items]; rfl
      cases i with
      | message m =>
        simp only at h
        cases hu : reqUnwrap m with
        | none =>
          simp only [hu, Prod.mk.injEq] at h
          obtain ⟨rfl, rfl⟩ := h
          exact ⟨fun j hj => by simp only [setSock_pipes]; exact hfr j hj,
            Or.inr ⟨_, _, hitems, fun m' hm' => by cases hm'; exact hu⟩⟩
        | some r =>
          simp only [hu, Prod.mk.injEq] at h
          obtain ⟨rfl, rfl⟩ := h
          exact ⟨fun j hj => by simp only [setSock_pipes]; exact hfr j hj, _, _, hitems, hu⟩
      | greeting g =>
        simp only [Prod.mk.injEq] at h
        obtain ⟨rfl, rfl⟩ := h
        exact ⟨fun j hj => by simp only [setSock_pipes]; exact hfr j hj,
          Or.inr ⟨_, _, hitems, fun m' hm' => by cases hm'⟩⟩
      | command p =>
        simp only [Prod.mk.injEq] at h
        obtain ⟨rfl, rfl⟩ := h
        exact ⟨fun j hj => by simp only [setSock_pipes]; exact hfr j hj,
          Or.inr ⟨_, _, hitems, fun m' hm' => by cases hm'⟩⟩
    | err e =>
      simp only [Prod.mk.injEq] at h
      obtain ⟨rfl, rfl⟩ := h
      refine ⟨fun j hj => ?_, Or.inl hres⟩
      simp only [setSock_pipes]
      rw [pd_inbuf]; exact hfr j hj
    | eof =>
      simp only [Prod.mk.injEq] at h
      obtain ⟨rfl, rfl⟩ := h
      refine ⟨fun j hj => ?_, Or.inl hres⟩
      simp only [setSock_pipes]
      rw [pd_inbuf]; exact hfr j hj

end Zmq.W
