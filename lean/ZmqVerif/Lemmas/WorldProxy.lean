import ZmqVerif.Model.World
namespace Zmq.W
open Zmq

/-! # `proxy()` at socket level: what it forwards is what it took (C15)

`proxyPollT` is `proxyPoll` with a ghost trace of what the loop does: `took ff m` — `recv` on the frontend (`ff`) or
backend returned `m`; `start sid m` — a `send` of `m` on socket `sid` was started; `finished` — the send in progress
completed.  `proxyPollT_erase`: forgetting the trace gives back `proxyPoll`, the function the correspondence check ties
to the real `proxy()`.  `Accepts`: the trace of ANY poll is a word of the forwarding grammar, from the state the future
was in to the state it is left in. -/

inductive PEv
  | took (fromFront : Bool) (m : Msg)
  | start (sid : Nat) (m : Msg)
  | finished
deriving Repr, DecidableEq

def proxyPollT : Nat → World → Nat → Nat → Option Nat → Nat → Bool → Msg → FutSt → (World × FutSt × POut) × List PEv
  | 0, w, a, b, c, ph, ff, m, sub => ((w, .proxy a b c ph ff m sub, .pending), [])
  | fuel+1, w, a, b, c, ph, ff, m, sub =>
    if ph = 0 then
      let (w, o) := recvPoll (recvFuel w a) w a
      match o with
      | .ready (.okMsg msg) =>
        match c with
        | some k =>
          let r := proxyPollT fuel w a b c 1 true msg (sendStartFut w k msg)
          (r.1, .took true msg :: .start k msg :: r.2)
        | none =>
          let r := proxyPollT fuel w a b c 2 true msg (sendStartFut w b msg)
          (r.1, .took true msg :: .start b msg :: r.2)
      | .ready v => ((proxyEnd w a b c, .done, .ready v), [])
      | .pending =>
        let (w, o) := recvPoll (recvFuel w b) w b
        match o with
        | .ready (.okMsg msg) =>
          match c with
          | some k =>
            let r := proxyPollT fuel w a b c 1 false msg (sendStartFut w k msg)
            (r.1, .took false msg :: .start k msg :: r.2)
          | none =>
            let r := proxyPollT fuel w a b c 2 false msg (sendStartFut w a msg)
            (r.1, .took false msg :: .start a msg :: r.2)
        | .ready v => ((proxyEnd w a b c, .done, .ready v), [])
        | .pending => ((w, .proxy a b c 0 ff m sub, .pending), [])
    else
      let (w, sub', o) := pollFut w sub
      match o with
      | .pending => ((w, .proxy a b c ph ff m sub', .pending), [])
      | .ready .okUnit =>
        if ph = 1 then
          let r := proxyPollT fuel w a b c 2 ff m (sendStartFut w (if ff then b else a) m)
          (r.1, .finished :: .start (if ff then b else a) m :: r.2)
        else
          let r := proxyPollT fuel w a b c 0 ff [] .done
          (r.1, .finished :: r.2)
      | .ready v => ((proxyEnd w a b c, .done, .ready v), [])

/-- forgetting the trace gives `proxyPoll` -/
theorem proxyPollT_erase (fuel : Nat) (w : World) (a b : Nat) (c : Option Nat) (ph : Nat) (ff : Bool) (m : Msg) (sub : FutSt) :
    (proxyPollT fuel w a b c ph ff m sub).1 = proxyPoll fuel w a b c ph ff m sub := by
  induction fuel generalizing w ph ff m sub with
  | zero => rfl
  | succ fuel ih =>
    unfold proxyPollT proxyPoll
    by_cases h0 : ph = 0
    · simp only [h0, if_true]
      rcases recvPoll (recvFuel w a) w a with ⟨w1, o1⟩
      cases o1 with
      | ready v =>
        cases v with
        | okMsg msg => cases c <;> simp only [ih]
        | _ => rfl
      | pending =>
        simp only []
        rcases recvPoll (recvFuel w1 b) w1 b with ⟨w2, o2⟩
        cases o2 with
        | ready v =>
          cases v with
          | okMsg msg => cases c <;> simp only [ih]
          | _ => rfl
        | pending => rfl
    · simp only [h0, if_false]
      rcases pollFut w sub with ⟨w1, sub1, o1⟩
      cases o1 with
      | pending => rfl
      | ready v =>
        cases v with
        | okUnit =>
          by_cases h1 : ph = 1
          · simp only [h1, if_true, ih]
          · simp only [h1, if_false, ih]
        | _ => rfl

/-- the state of the forwarding loop: `idle` — in `select!`; `cap ff m` — writing the copy of `m` (taken from the
frontend iff `ff`) to the capture socket; `fwd ff m` — forwarding `m` to the other side -/
inductive PSt
  | idle
  | cap (ff : Bool) (m : Msg)
  | fwd (ff : Bool) (m : Msg)
deriving Repr, DecidableEq

/-- the state a proxy future is in -/
def pstOf (ph : Nat) (ff : Bool) (m : Msg) : PSt :=
  if ph = 0 then .idle else if ph = 1 then .cap ff m else .fwd ff m

/-- the forwarding grammar: from `s`, the trace `tr` leads to `s'`.  A message is taken only when idle; what is then
started is a send of THAT message — first on the capture socket if there is one, then on the OTHER side; the next
message is taken only after the forward has finished. -/
def accepts (a b : Nat) (c : Option Nat) : PSt → List PEv → Option PSt
  | s, [] => some s
  | .idle, .took ff m :: .start sid m' :: tr =>
    (match c with
     | some k => if sid = k ∧ m' = m then accepts a b c (.cap ff m) tr else none
     | none => if sid = (if ff then b else a) ∧ m' = m then accepts a b c (.fwd ff m) tr else none)
  | .cap ff m, .finished :: .start sid m' :: tr =>
    if sid = (if ff then b else a) ∧ m' = m then accepts a b c (.fwd ff m) tr else none
  | .fwd _ _, .finished :: tr => accepts a b c .idle tr
  | _, _ => none


@[simp] theorem pstOf_zero (ff : Bool) (m : Msg) : pstOf 0 ff m = .idle := rfl
@[simp] theorem pstOf_one (ff : Bool) (m : Msg) : pstOf 1 ff m = .cap ff m := rfl
@[simp] theorem pstOf_two (ff : Bool) (m : Msg) : pstOf 2 ff m = .fwd ff m := rfl

/-- what a poll leaves behind, as far as the grammar is concerned: the state of the future it returns -/
def Leaves (a b : Nat) (c : Option Nat) (f : FutSt) (s' : PSt) : Prop :=
  ∀ a' b' c' ph' ff' m' sub', f = .proxy a' b' c' ph' ff' m' sub' → a' = a ∧ b' = b ∧ c' = c ∧ s' = pstOf ph' ff' m'

/-- **Every poll of the proxy future is a word of the forwarding grammar** — from the state the future was in to the
state of the future it returns: whatever the two sockets' connections deliver during the poll, however many messages
it gets through, whether sends complete or block. -/
theorem proxyPollT_accepts (fuel : Nat) (w : World) (a b : Nat) (c : Option Nat) (ph : Nat) (ff : Bool) (m : Msg) (sub : FutSt) :
    ∃ s', accepts a b c (pstOf ph ff m) (proxyPollT fuel w a b c ph ff m sub).2 = some s' ∧
      Leaves a b c (proxyPollT fuel w a b c ph ff m sub).1.2.1 s' := by
  induction fuel generalizing w ph ff m sub with
  | zero =>
    refine ⟨pstOf ph ff m, by simp [proxyPollT, accepts], ?_⟩
    intro a' b' c' ph' ff' m' sub' h
    simp only [proxyPollT] at h
    injection h with h1 h2 h3 h4 h5 h6 h7
    subst h1 h2 h3 h4 h5 h6
    exact ⟨rfl, rfl, rfl, rfl⟩
  | succ fuel ih =>
    unfold proxyPollT
    by_cases h0 : ph = 0
    · subst h0
      simp only [if_true]
      rcases recvPoll (recvFuel w a) w a with ⟨w1, o1⟩
      cases o1 with
      | ready v =>
        cases v with
        | okMsg msg =>
          cases c with
          | some k =>
            obtain ⟨s', h1, h2⟩ := ih w1 1 true msg (sendStartFut w1 k msg)
            exact ⟨s', by simpa [accepts] using h1, h2⟩
          | none =>
            obtain ⟨s', h1, h2⟩ := ih w1 2 true msg (sendStartFut w1 b msg)
            exact ⟨s', by simpa [accepts] using h1, h2⟩
        | _ => exact ⟨.idle, by simp [accepts], by intro _ _ _ _ _ _ _ h; cases h⟩
      | pending =>
        simp only []
        rcases recvPoll (recvFuel w1 b) w1 b with ⟨w2, o2⟩
        cases o2 with
        | ready v =>
          cases v with
          | okMsg msg =>
            cases c with
            | some k =>
              obtain ⟨s', h1, h2⟩ := ih w2 1 false msg (sendStartFut w2 k msg)
              exact ⟨s', by simpa [accepts] using h1, h2⟩
            | none =>
              obtain ⟨s', h1, h2⟩ := ih w2 2 false msg (sendStartFut w2 a msg)
              exact ⟨s', by simpa [accepts] using h1, h2⟩
          | _ => exact ⟨.idle, by simp [accepts], by intro _ _ _ _ _ _ _ h; cases h⟩
        | pending =>
          refine ⟨.idle, by simp [accepts], ?_⟩
          intro a' b' c' ph' ff' m' sub' h
          injection h with h1 h2 h3 h4 h5 h6 h7
          subst h1 h2 h3 h4 h5 h6
          exact ⟨rfl, rfl, rfl, rfl⟩
    · simp only [h0, if_false]
      rcases pollFut w sub with ⟨w1, sub1, o1⟩
      cases o1 with
      | pending =>
        refine ⟨pstOf ph ff m, by simp [accepts], ?_⟩
        intro a' b' c' ph' ff' m' sub' h
        injection h with h1 h2 h3 h4 h5 h6 h7
        subst h1 h2 h3 h4 h5 h6
        exact ⟨rfl, rfl, rfl, rfl⟩
      | ready v =>
        cases v with
        | okUnit =>
          by_cases h1 : ph = 1
          · subst h1
            simp only [if_true]
            obtain ⟨s', h1, h2⟩ := ih w1 2 ff m (sendStartFut w1 (if ff then b else a) m)
            exact ⟨s', by simpa [accepts] using h1, h2⟩
          · simp only [h1, if_false]
            obtain ⟨s', h2, h3⟩ := ih w1 0 ff [] .done
            refine ⟨s', ?_, h3⟩
            have : pstOf ph ff m = .fwd ff m := by simp [pstOf, h0, h1]
            rw [this]
            simpa [accepts] using h2
        | _ => exact ⟨pstOf ph ff m, by simp [accepts], by intro _ _ _ _ _ _ _ h; cases h⟩


/-! ### what the grammar implies: everything taken is forwarded — verbatim, once, in order -/

/-- the messages `recv` returned during the trace, with the side they came from -/
def tookOf : List PEv → List (Bool × Msg)
  | [] => []
  | .took ff m :: tr => (ff, m) :: tookOf tr
  | _ :: tr => tookOf tr

/-- the sends STARTED towards one of the two sides (socket, message — read off the `start` events themselves) -/
def fwdOf (c : Option Nat) : PSt → List PEv → List (Nat × Msg)
  | .idle, .took ff m :: .start sid m' :: tr =>
    (match c with
     | some _ => fwdOf c (.cap ff m) tr
     | none => (sid, m') :: fwdOf c (.fwd ff m) tr)
  | .cap ff m, .finished :: .start sid m' :: tr => (sid, m') :: fwdOf c (.fwd ff m) tr
  | .fwd _ _, .finished :: tr => fwdOf c .idle tr
  | _, _ => []

/-- the sends started on the capture socket -/
def capOf (c : Option Nat) : PSt → List PEv → List (Nat × Msg)
  | .idle, .took ff m :: .start sid m' :: tr =>
    (match c with
     | some _ => (sid, m') :: capOf c (.cap ff m) tr
     | none => capOf c (.fwd ff m) tr)
  | .cap ff m, .finished :: .start _ _ :: tr => capOf c (.fwd ff m) tr
  | .fwd _ _, .finished :: tr => capOf c .idle tr
  | _, _ => []

/-- the message in hand that has not been forwarded yet (its copy is being written to the capture socket) -/
def PSt.hand : PSt → List (Bool × Msg)
  | .cap ff m => [(ff, m)]
  | _ => []

/-- where a message taken from the frontend (`true`) / backend goes -/
def dest (a b : Nat) (x : Bool × Msg) : Nat × Msg := (if x.1 then b else a, x.2)

/-- **Conservation along any accepted trace**: what was in hand, followed by everything `recv` returned, is — message by
message, in order — what was sent on towards the OTHER side, followed by what is in hand now. -/
theorem accepts_conservation (a b : Nat) (c : Option Nat) (s : PSt) (tr : List PEv) (s' : PSt) :
    accepts a b c s tr = some s' →
    (s.hand ++ tookOf tr).map (dest a b) = fwdOf c s tr ++ s'.hand.map (dest a b) := by
  fun_induction accepts a b c s tr with
  | case1 s =>
    intro h
    cases h
    cases s' <;> simp [tookOf, fwdOf, PSt.hand]
  | case2 ff m sid m' tr k hc hk ih =>
    subst hc
    intro h
    obtain ⟨h1, h2⟩ := hk
    subst h1 h2
    have := ih h
    simp only [PSt.hand, List.nil_append, tookOf, fwdOf, List.map_cons, List.cons_append] at this ⊢
    exact this
  | case3 => intro h; cases h
  | case4 ff m sid m' tr hc hk ih =>
    subst hc
    intro h
    obtain ⟨h1, h2⟩ := hk
    subst h1 h2
    have := ih h
    simp only [PSt.hand, List.nil_append, tookOf, fwdOf, List.map_cons, List.cons_append] at this ⊢
    simp [dest, this]
  | case5 => intro h; cases h
  | case6 ff m sid m' tr hk ih =>
    intro h
    obtain ⟨h1, h2⟩ := hk
    subst h1 h2
    have := ih h
    simp only [PSt.hand, List.nil_append, tookOf, fwdOf, List.map_cons, List.cons_append] at this ⊢
    simp [dest, this]
  | case7 => intro h; cases h
  | case8 ff m tr ih =>
    intro h
    have := ih h
    simpa [PSt.hand, tookOf, fwdOf] using this
  | case9 => intro h; cases h


/-- the capture socket is sent a copy of EVERY message taken, in the order taken (and nothing when there is none) -/
theorem accepts_capture (a b : Nat) (c : Option Nat) (s : PSt) (tr : List PEv) (s' : PSt) :
    accepts a b c s tr = some s' →
    capOf c s tr = (match c with
                    | some k => (tookOf tr).map (fun x => (k, x.2))
                    | none => []) := by
  fun_induction accepts a b c s tr with
  | case1 s => intro _; cases c <;> cases s <;> simp [tookOf, capOf]
  | case2 ff m sid m' tr k hc hk ih =>
    subst hc
    intro h
    obtain ⟨h1, h2⟩ := hk
    subst h1 h2
    have := ih h
    simp only [tookOf, capOf, List.map_cons] at this ⊢
    rw [this]
  | case3 => intro h; cases h
  | case4 ff m sid m' tr hc hk ih =>
    subst hc
    intro h
    have := ih h
    simpa [tookOf, capOf] using this
  | case5 => intro h; cases h
  | case6 ff m sid m' tr hk ih =>
    intro h
    have := ih h
    cases c <;> simpa [tookOf, capOf] using this
  | case7 => intro h; cases h
  | case8 ff m tr ih =>
    intro h
    have := ih h
    cases c <;> simpa [tookOf, capOf] using this
  | case9 => intro h; cases h

/-- the grammar composes: the trace of one poll followed by the trace of the next -/
theorem accepts_append (a b : Nat) (c : Option Nat) (s : PSt) (tr1 tr2 : List PEv) (s1 : PSt) :
    accepts a b c s tr1 = some s1 → accepts a b c s (tr1 ++ tr2) = accepts a b c s1 tr2 := by
  fun_induction accepts a b c s tr1 with
  | case1 s => intro h; cases h; rfl
  | case2 ff m sid m' tr k hc hk ih =>
    subst hc
    intro h
    have := ih h
    simp only [List.cons_append, accepts, hk, and_self, if_true]
    exact this
  | case3 => intro h; cases h
  | case4 ff m sid m' tr hc hk ih =>
    subst hc
    intro h
    have := ih h
    simp only [List.cons_append, accepts, hk, and_self, if_true]
    exact this
  | case5 => intro h; cases h
  | case6 ff m sid m' tr hk ih =>
    intro h
    have := ih h
    simp only [List.cons_append, accepts, hk, and_self, if_true]
    exact this
  | case7 => intro h; cases h
  | case8 ff m tr ih =>
    intro h
    have := ih h
    simp only [List.cons_append, accepts]
    exact this
  | case9 => intro h; cases h

/-! ### every history of polls -/

/-- A history of the proxy future: any number of polls, each in an ARBITRARY world (whatever happened since the last
poll — bytes arrived, connections came and went, other calls ran), each starting from the future the previous poll
returned; `tr` is the concatenation of the polls' traces. -/
inductive ProxyRun (a b : Nat) (c : Option Nat) : FutSt → List PEv → FutSt → Prop
  | nil (f : FutSt) : ProxyRun a b c f [] f
  | poll (w : World) (ph : Nat) (ff : Bool) (m : Msg) (sub : FutSt) (tr : List PEv) (f' : FutSt) :
      ProxyRun a b c (proxyPollT 64 w a b c ph ff m sub).1.2.1 tr f' →
      ProxyRun a b c (.proxy a b c ph ff m sub) ((proxyPollT 64 w a b c ph ff m sub).2 ++ tr) f'

/-- (a proxy that has returned is not polled again: `ProxyRun` from a future that is not a proxy future is empty) -/
theorem ProxyRun.not_proxy {a b : Nat} {c : Option Nat} {f f' : FutSt} {tr : List PEv} (h : ProxyRun a b c f tr f')
    (hf : ∀ a' b' c' ph ff m sub, f ≠ .proxy a' b' c' ph ff m sub) : tr = [] ∧ f' = f := by
  cases h with
  | nil => exact ⟨rfl, rfl⟩
  | poll w ph ff m sub tr f' h => exact absurd rfl (hf _ _ _ _ _ _ _)

/-- **Every history is a word of the grammar** -/
theorem ProxyRun.accepts {a b : Nat} {c : Option Nat} {f f' : FutSt} {tr : List PEv} (h : ProxyRun a b c f tr f')
    (s : PSt) (hs : Leaves a b c f s) (hp : ∃ ph ff m sub, f = .proxy a b c ph ff m sub) :
    ∃ s', Zmq.W.accepts a b c s tr = some s' ∧
      (∀ ph' ff' m' sub', f' = .proxy a b c ph' ff' m' sub' → s' = pstOf ph' ff' m') := by
  induction h generalizing s with
  | nil f =>
    refine ⟨s, by simp [Zmq.W.accepts], ?_⟩
    intro ph' ff' m' sub' h
    exact (hs _ _ _ _ _ _ _ h).2.2.2
  | poll w ph ff m sub tr f' h ih =>
    have hs' : s = pstOf ph ff m := (hs _ _ _ _ _ _ _ rfl).2.2.2
    subst hs'
    obtain ⟨s1, h1, h2⟩ := proxyPollT_accepts 64 w a b c ph ff m sub
    rw [accepts_append _ _ _ _ _ _ _ h1]
    by_cases hp' : ∃ ph1 ff1 m1 sub1, (proxyPollT 64 w a b c ph ff m sub).1.2.1 = .proxy a b c ph1 ff1 m1 sub1
    · exact ih s1 h2 hp'
    · -- the proxy returned: no further polls
      have hnp : ∀ a' b' c' ph1 ff1 m1 sub1, (proxyPollT 64 w a b c ph ff m sub).1.2.1 ≠ .proxy a' b' c' ph1 ff1 m1 sub1 := by
        intro a' b' c' ph1 ff1 m1 sub1 he
        obtain ⟨e1, e2, e3, _⟩ := h2 _ _ _ _ _ _ _ he
        subst e1 e2 e3
        exact hp' ⟨_, _, _, _, he⟩
      obtain ⟨e1, e2⟩ := h.not_proxy hnp
      subst e1 e2
      refine ⟨s1, by simp [Zmq.W.accepts], ?_⟩
      intro ph' ff' m' sub' he
      exact absurd he (hnp _ _ _ _ _ _ _)

end Zmq.W
