import ZmqVerif.Lemmas.FQInv
/-! Conservation: what a stream was given = what was delivered from it ++ what the receiver
holds in flight ++ what it can still yield.  Holds for every interleaving. -/
namespace Zmq.FQ

/-- the item the receiver has taken from stream `k` and not yet returned (between B and C) -/
def inflight (s : St) (k : Nat) : List Nat :=
  match s.pc with
  | .c _ k' (.some item) => if k' = k then [item] else []
  | _ => []

/-- what `poll_next` has returned for key `k`, in order -/
def deliveredOf (s : St) (k : Nat) : List Nat := (s.out.filter (fun e => e.1 = k)).map (·.2)

def Cons (s : St) : Prop := ∀ k, deliveredOf s k ++ inflight s k ++ (s.peer k).q = s.hist k

theorem cons_init : Cons ({} : St) := by intro k; simp [deliveredOf, inflight]

theorem pc_ready' (s : St) (k : Nat) (p' : Peer) : (ready s k p').pc = s.pc := by
  unfold ready; simp only []; split <;> (try split) <;> simp [fire]

theorem out_ready (s : St) (k : Nat) (p' : Peer) : (ready s k p').out = s.out := by
  unfold ready; simp only []; split <;> (try split) <;> simp [fire]

theorem hist_ready (s : St) (k : Nat) (p' : Peer) : (ready s k p').hist = s.hist := by
  unfold ready; simp only []; split <;> (try split) <;> simp [fire]

theorem peer_ready_q (s : St) (k : Nat) (p' : Peer) (j : Nat) :
    ((ready s k p').peer j).q = if j = k then p'.q else (s.peer j).q := by
  by_cases h : j = k
  · subst h; rw [if_pos rfl]; unfold ready; simp only []; split <;> (try split) <;> simp [fire, upd]
  · rw [if_neg h]; unfold ready; simp only []; split <;> (try split) <;> simp [fire, upd, h]

theorem cons_step (s : St) (op : Op) (h : Cons s) : Cons (step s op) := by
  intro j
  have hj := h j
  cases op with
  | insert k =>
    simp only [step, doInsert]
    split <;> simpa [deliveredOf, inflight] using hj
  | remove k =>
    simp only [step, doRemove]
    split
    · by_cases e : j = k <;> simpa [deliveredOf, inflight, upd, e] using hj
    · exact hj
  | arrive k item =>
    simp only [step, doArrive]
    split
    · exact hj
    · simp only [deliveredOf, inflight, out_ready, pc_ready', peer_ready_q] at hj ⊢
      by_cases e : j = k
      · subst e
        simp only [↓reduceIte, upd_same]
        rw [← hj]; simp [deliveredOf, inflight]
      · simp only [e, ↓reduceIte, upd]
        exact hj
  | close k =>
    simp only [step, doClose]
    split
    · exact hj
    · simp only [Cons, deliveredOf, inflight, out_ready, pc_ready', peer_ready_q, hist_ready] at hj ⊢
      by_cases e : j = k
      · subst e; simpa using hj
      · simpa [e] using hj
  | pollStart =>
    simp only [step, doPollStart]
    split
    · rename_i hp; simp only [deliveredOf, inflight, hp] at hj ⊢; exact hj
    · rename_i hp; simp only [deliveredOf, inflight, hp] at hj ⊢; exact hj
    · exact hj
  | recvStep =>
    simp only [step, doRecv]
    split
    · rename_i hp
      have hcases : doA s = yieldNow s ∨ doA s = doAcore s := by
        unfold doA; split
        · split <;> simp
        · simp
      rcases hcases with e | e <;> rw [e]
      · simp only [yieldNow, deliveredOf, inflight, hp] at hj ⊢; exact hj
      simp only [doAcore]
      split
      · simp only [deliveredOf, inflight, hp] at hj ⊢; exact hj
      · split
        · simp only [deliveredOf, inflight, hp] at hj ⊢; exact hj
        · simp only [deliveredOf, inflight, hp] at hj ⊢; exact hj
    · rename_i t k hp
      have hcases : doB s t k = doBex s t k ∨ doB s t k = doBcore s t k := by
        unfold doB; split <;> simp
      rcases hcases with e | e <;> rw [e]
      · simp only [doBex, fire, deliveredOf, inflight, hp] at hj ⊢; exact hj
      simp only [doBcore]
      split
      · rename_i item q' hq
        simp only [deliveredOf, inflight, hp] at hj ⊢
        by_cases e : k = j
        · subst e; simp [hq] at hj ⊢; exact hj
        · have e' : j ≠ k := fun x => e x.symm
          simp [e, upd, e'] at hj ⊢; exact hj
      · split
        · simp only [deliveredOf, inflight, hp] at hj ⊢; exact hj
        · simp only [deliveredOf, inflight, hp] at hj ⊢
          by_cases e : j = k <;> simpa [upd, e] using hj
    · rename_i t k r hp
      cases r with
      | some item =>
        simp only [doC, deliveredOf, inflight, hp] at hj ⊢
        by_cases e : k = j
        · subst e; simp at hj ⊢; rw [← hj]
        · simp [e] at hj ⊢; exact hj
      | none => simp only [doC, deliveredOf, inflight, hp] at hj ⊢; exact hj
      | pend => simp only [doC, deliveredOf, inflight, hp] at hj ⊢; exact hj
    · exact hj
  | exhaust => exact hj
  | setWaker w => exact hj

theorem reachable_cons (ops : List Op) : Cons (ops.foldl step {}) := by
  suffices h : ∀ s, Cons s → Cons (ops.foldl step s) from h _ cons_init
  induction ops with
  | nil => intro s h; exact h
  | cons op ops ih => intro s h; exact ih _ (cons_step s op h)

end Zmq.FQ
