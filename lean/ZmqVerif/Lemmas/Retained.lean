import ZmqVerif.Model.Decoder
namespace Zmq

/-- bytes held in the partially assembled message -/
def Dec.held (d : Dec) : Nat := (d.part.map List.length).sum

/-- everything a connection's read side retains: read buffer + partial message -/
def Conn.retained (c : Conn) : Nat := c.buf.length + c.dec.held

theorem held_append (p : List Bytes) (x : Bytes) :
    ((p ++ [x]).map List.length).sum = (p.map List.length).sum + x.length := by
  simp [List.sum_append]

theorem ofOut_cases (o : Out Item) (d : Dec) (b : Bytes) :
    (∃ i, StepOut.ofOut o d b = .item i d b) ∨ (∃ e, StepOut.ofOut o d b = .fail e d b) ∨
    (∃ s, StepOut.ofOut o d b = .panic s) := by
  cases o with
  | ok i => exact .inl ⟨i, rfl⟩
  | err e => exact .inr (.inl ⟨e, rfl⟩)
  | panic s => exact .inr (.inr ⟨s, rfl⟩)

/-- what a transition leaves behind (state + buffer) is never more than what it found -/
def StepOut.retainedLe (o : StepOut) (bound : Nat) : Prop :=
  match o with
  | .cont d b => b.length + d.held ≤ bound
  | .item _ d b => b.length + d.held ≤ bound
  | .fail _ d b => b.length + d.held ≤ bound
  | .panic _ => True

theorem step_retained (d : Dec) (buf : Bytes) : (step d buf).retainedLe (buf.length + d.held) := by
  unfold step
  cases hs : d.st with
  | greeting =>
    simp only []
    cases buf with
    | nil => simp [StepOut.retainedLe]
    | cons b t =>
      simp only []
      split
      · simp [StepOut.retainedLe]
      · split
        · simp [StepOut.retainedLe]
        · rcases ofOut_cases (parseGreeting ((b :: t).take 64) >>= fun g => .ok (.greeting g))
            { d with st := .header } ((b :: t).drop 64) with ⟨i, h⟩ | ⟨e, h⟩ | ⟨s, h⟩ <;>
            rw [h] <;> simp [StepOut.retainedLe, Dec.held] <;> omega
  | header =>
    simp only []
    cases buf with
    | nil => simp [StepOut.retainedLe]
    | cons b t => simp [StepOut.retainedLe, Dec.held]
  | len f =>
    simp only []
    split
    · split
      · simp [StepOut.retainedLe]
      · simp [StepOut.retainedLe, Dec.held]
    · cases buf with
      | nil => simp [StepOut.retainedLe]
      | cons b t => simp [StepOut.retainedLe, Dec.held]
  | body f n =>
    simp only []
    split
    · simp [StepOut.retainedLe]
    · rename_i hn
      split
      · rcases ofOut_cases (parseCommand (buf.take n) >>= fun p => .ok (.command p))
          { d with st := .header } (buf.drop n) with ⟨i, h⟩ | ⟨e, h⟩ | ⟨s, h⟩ <;>
          rw [h] <;> simp [StepOut.retainedLe, Dec.held] <;> omega
      · split
        · simp only [StepOut.retainedLe, Dec.held, held_append]
          simp; omega
        · simp [StepOut.retainedLe, Dec.held]; omega

def DecodeOut.retainedLe (o : DecodeOut) (bound : Nat) : Prop :=
  match o with
  | .none d b => b.length + d.held ≤ bound
  | .item _ d b => b.length + d.held ≤ bound
  | .fail _ d b => b.length + d.held ≤ bound
  | .panic _ d b => b.length + d.held ≤ bound

theorem decode_retained (d : Dec) (buf : Bytes) :
    (decode d buf).retainedLe (buf.length + d.held) := by
  fun_induction decode d buf with
  | case1 d buf hlt => simp [DecodeOut.retainedLe]
  | case2 d buf hge d1 b1 hs ih =>
    have := step_retained d buf
    rw [hs] at this
    simp only [StepOut.retainedLe] at this
    revert ih
    cases decode d1 b1 <;> simp only [DecodeOut.retainedLe] <;> omega
  | case3 d buf hge i d1 b1 hs =>
    have := step_retained d buf; rw [hs] at this; simpa [StepOut.retainedLe, DecodeOut.retainedLe] using this
  | case4 d buf hge e d1 b1 hs =>
    have := step_retained d buf; rw [hs] at this; simpa [StepOut.retainedLe, DecodeOut.retainedLe] using this
  | case5 d buf hge s hs => simp [DecodeOut.retainedLe]

theorem run_retained (d : Dec) (buf : Bytes) :
    (run d buf).rest.length + (run d buf).dec.held ≤ buf.length + d.held := by
  fun_induction run d buf with
  | case1 d buf d' buf' h =>
    have := decode_retained d buf; rw [h] at this; simpa [DecodeOut.retainedLe] using this
  | case2 d buf e d' buf' h =>
    have := decode_retained d buf; rw [h] at this; simpa [DecodeOut.retainedLe] using this
  | case3 d buf s d' buf' h =>
    have := decode_retained d buf; rw [h] at this; simpa [DecodeOut.retainedLe] using this
  | case4 d buf i d' buf' h r ih =>
    have := decode_retained d buf; rw [h] at this
    simp only [DecodeOut.retainedLe] at this
    simp only [r] at ih ⊢
    omega

theorem Conn.feed_retained (c : Conn) (chunk : Bytes) :
    (c.feed chunk).2.retained ≤ c.retained + chunk.length := by
  unfold Conn.feed Conn.retained
  split
  · simp; omega
  · have := run_retained c.dec (c.buf ++ chunk)
    simp at this ⊢; omega

theorem Conn.feedAll_retained (c : Conn) (chunks : List Bytes) :
    (c.feedAll chunks).2.retained ≤ c.retained + chunks.flatten.length := by
  induction chunks generalizing c with
  | nil => simp [Conn.feedAll]
  | cons ch chs ih =>
    simp only [Conn.feedAll, List.flatten_cons, List.length_append]
    have h1 := Conn.feed_retained c ch
    have h2 := ih (c.feed ch).2
    omega

end Zmq
