import ZmqVerif.Lemmas.WorldPubReader
namespace Zmq.W
open Zmq

theorem pd_subsOf (ps : Pipes) (s : Socket) (k j : Ident) :
    ilookup (peerDisconnected ps s k).2.subsOf j = none ∨
    ilookup (peerDisconnected ps s k).2.subsOf j = ilookup s.subsOf j := by
  by_cases hj : j = k
  · subst hj
    cases hp : ilookup s.peers j <;> cases hf : ilookup s.fqStreams j <;> cases hqq : ilookup s.reqRd j <;>
      cases ht : s.typ <;>
      simp_all [peerDisconnected, fqRemove, ilookup_ierase_same]
  · right; exact pd_subsOf_other ps s k j hj

/-- subscription lists only ever disappear (with their peer) inside the fair queue's `poll_next` -/
theorem fqPoll_subsOf (fuel : Nat) (ps : Pipes) (sid : Nat) (s : Socket) (j : Ident) :
    ilookup (fqPoll fuel ps sid s).2.2.subsOf j = none ∨
    ilookup (fqPoll fuel ps sid s).2.2.subsOf j = ilookup s.subsOf j := by
  induction fuel generalizing ps s with
  | zero => right; rfl
  | succ fuel ih =>
    unfold fqPoll
    cases popMinE s.fqHeap with
    | none => right; rfl
    | some e =>
      obtain ⟨⟨t, k⟩, rest⟩ := e
      simp only
      cases ilookup s.fqStreams k with
      | none => exact ih ps { s with fqHeap := rest }
      | some rd =>
        simp only
        rcases readerPoll (readFuel ps rd) ps rd (.fq sid t k) with ⟨r, ps0, rd0⟩
        cases r with
        | pending => exact ih ps0 _
        | eof =>
          simp only
          have h1 := ih (peerDisconnected (dropR ps0 rd0.pipe) { s with fqHeap := rest, fqStreams := ierase s.fqStreams k } k).1
            (peerDisconnected (dropR ps0 rd0.pipe) { s with fqHeap := rest, fqStreams := ierase s.fqStreams k } k).2
          have h2 := pd_subsOf (dropR ps0 rd0.pipe) { s with fqHeap := rest, fqStreams := ierase s.fqStreams k } k j
          rcases h1 with h1 | h1
          · left; exact h1
          · rcases h2 with h2 | h2
            · left; rw [h1, h2]
            · right; rw [h1, h2]
        | item i => right; rfl
        | err e => right; rfl

theorem fqPoll_typ (fuel : Nat) (ps : Pipes) (sid : Nat) (s : Socket) :
    (fqPoll fuel ps sid s).2.2.typ = s.typ := by
  induction fuel generalizing ps s with
  | zero => rfl
  | succ fuel ih =>
    unfold fqPoll
    cases popMinE s.fqHeap with
    | none => rfl
    | some e =>
      obtain ⟨⟨t, k⟩, rest⟩ := e
      simp only
      cases ilookup s.fqStreams k with
      | none => exact ih ps { s with fqHeap := rest }
      | some rd =>
        simp only
        rcases readerPoll (readFuel ps rd) ps rd (.fq sid t k) with ⟨r, ps0, rd0⟩
        cases r with
        | pending => exact ih ps0 _
        | eof =>
          simp only
          rw [ih, pd_typ]
        | item i => rfl
        | err e => rfl

/-- `a ∨ b` through one more step that itself only removes or keeps -/
theorem keep_or_gone_trans {α} {x y z : Option α} (h1 : x = none ∨ x = y) (h2 : y = none ∨ y = z) : x = none ∨ x = z := by
  rcases h1 with h1 | h1
  · left; exact h1
  · rcases h2 with h2 | h2
    · left; rw [h1, h2]
    · right; rw [h1, h2]

/-- **XPUB keeps its subscribers' lists exactly as PUB does, inside `recv`.**  After one poll of an XPUB `recv`:
every subscriber's list is what it was, or gone with its peer — except that when the poll returns a message, the
list of ONE subscriber (the sender, by `C05_world_recv`) has `onMsg` applied to exactly that message, which is handed
to the application verbatim. -/
theorem recvPoll_xpub_subs (fuel : Nat) (w : World) (sid : Nat) (s : Socket) (hs : getSock w sid = some s)
    (ht : s.typ = .xpub) (w' : World) (o : POut) (h : recvPoll fuel w sid = (w', o)) :
    ∃ s', getSock w' sid = some s' ∧
      (match (generalizing := false) o with
       | .ready (.okMsg m) => ∃ k, ∀ j,
           ilookup s'.subsOf j = none ∨ ilookup s'.subsOf j = ilookup s.subsOf j ∨
           (j = k ∧ ∃ old, ilookup s.subsOf k = some old ∧ ilookup s'.subsOf k = some (onMsg old m))
       | _ => ∀ j, ilookup s'.subsOf j = none ∨ ilookup s'.subsOf j = ilookup s.subsOf j) := by
  induction fuel generalizing w s with
  | zero =>
    simp only [recvPoll, Prod.mk.injEq] at h
    obtain ⟨rfl, rfl⟩ := h
    exact ⟨s, hs, fun _ => Or.inr rfl⟩
  | succ fuel ih =>
    unfold recvPoll at h
    simp only [hs] at h
    have hsub := fqPoll_subsOf (s.fqHeap.length + 2) w.pipes sid s
    have htyp := fqPoll_typ (s.fqHeap.length + 2) w.pipes sid s
    cases hq : fqPoll (s.fqHeap.length + 2) w.pipes sid s with
    | mk r rest =>
      obtain ⟨ps1, s1⟩ := rest
      rw [hq] at hsub htyp
      simp only at hsub htyp
      simp only [hq] at h
      have ht1 : s1.typ = .xpub := htyp.trans ht
      cases r with
      | pending =>
        simp only [Prod.mk.injEq] at h
        obtain ⟨rfl, rfl⟩ := h
        exact ⟨s1, getSock_setSock_same _ _ _, hsub⟩
      | got k rr =>
        cases rr with
        | pending =>
          simp only [Prod.mk.injEq] at h
          obtain ⟨rfl, rfl⟩ := h
          exact ⟨s1, getSock_setSock_same _ _ _, hsub⟩
        | eof =>
          simp only [Prod.mk.injEq] at h
          obtain ⟨rfl, rfl⟩ := h
          exact ⟨s1, getSock_setSock_same _ _ _, hsub⟩
        | err e =>
          simp only [setSock_pipes] at h
          have hpdsub := fun j => pd_subsOf ps1 s1 k j
          have hne : (peerDisconnected ps1 s1 k).2.typ ≠ .router := by rw [pd_typ, ht1]; simp
          simp only [hne, ↓reduceIte, Prod.mk.injEq] at h
          obtain ⟨rfl, rfl⟩ := h
          exact ⟨_, getSock_setSock_same _ _ _, fun j => keep_or_gone_trans (hpdsub j) (hsub j)⟩
        | item i =>
          cases i with
          | message m =>
            simp only [ht1] at h
            simp only [Prod.mk.injEq] at h
            obtain ⟨rfl, rfl⟩ := h
            refine ⟨_, getSock_setSock_same _ _ _, k, fun j => ?_⟩
            cases hk : ilookup s1.subsOf k with
            | none =>
              simp only [hk, Option.isSome_none, Bool.false_eq_true, ↓reduceIte]
              rcases hsub j with h1 | h1
              · left; exact h1
              · right; left; exact h1
            | some old =>
              simp only [hk, Option.isSome_some, ↓reduceIte, Option.getD_some]
              by_cases hj : j = k
              · subst hj
                rcases hsub j with h1 | h1
                · rw [hk] at h1; cases h1
                · right; right
                  exact ⟨rfl, old, by rw [← h1, hk], ilookup_iinsert_same _ _ _⟩
              · rw [ilookup_iinsert_other _ _ _ _ hj]
                rcases hsub j with h1 | h1
                · left; exact h1
                · right; left; exact h1
          | greeting g =>
            simp only at h
            obtain ⟨s', g1, g2⟩ := ih _ s1 (getSock_setSock_same _ _ _) ht1 h
            refine ⟨s', g1, ?_⟩
            cases o with
            | pending => exact fun j => keep_or_gone_trans (g2 j) (hsub j)
            | ready v =>
              cases v with
              | okMsg m =>
                obtain ⟨k', hk'⟩ := g2
                refine ⟨k', fun j => ?_⟩
                rcases hk' j with a | a | ⟨a, old, b, c⟩
                · left; exact a
                · rcases hsub j with b | b
                  · left; rw [a, b]
                  · right; left; rw [a, b]
                · subst a
                  rcases hsub j with d | d
                  · rw [b] at d; cases d
                  · right; right; exact ⟨rfl, old, by rw [← d, b], c⟩
              | okUnit => exact fun j => keep_or_gone_trans (g2 j) (hsub j)
              | okId i => exact fun j => keep_or_gone_trans (g2 j) (hsub j)
              | okErrs n => exact fun j => keep_or_gone_trans (g2 j) (hsub j)
              | err e => exact fun j => keep_or_gone_trans (g2 j) (hsub j)
              | errReturn m => exact fun j => keep_or_gone_trans (g2 j) (hsub j)
              | panic => exact fun j => keep_or_gone_trans (g2 j) (hsub j)
          | command p =>
            simp only at h
            obtain ⟨s', g1, g2⟩ := ih _ s1 (getSock_setSock_same _ _ _) ht1 h
            refine ⟨s', g1, ?_⟩
            cases o with
            | pending => exact fun j => keep_or_gone_trans (g2 j) (hsub j)
            | ready v =>
              cases v with
              | okMsg m =>
                obtain ⟨k', hk'⟩ := g2
                refine ⟨k', fun j => ?_⟩
                rcases hk' j with a | a | ⟨a, old, b, c⟩
                · left; exact a
                · rcases hsub j with b | b
                  · left; rw [a, b]
                  · right; left; rw [a, b]
                · subst a
                  rcases hsub j with d | d
                  · rw [b] at d; cases d
                  · right; right; exact ⟨rfl, old, by rw [← d, b], c⟩
              | okUnit => exact fun j => keep_or_gone_trans (g2 j) (hsub j)
              | okId i => exact fun j => keep_or_gone_trans (g2 j) (hsub j)
              | okErrs n => exact fun j => keep_or_gone_trans (g2 j) (hsub j)
              | err e => exact fun j => keep_or_gone_trans (g2 j) (hsub j)
              | errReturn m => exact fun j => keep_or_gone_trans (g2 j) (hsub j)
              | panic => exact fun j => keep_or_gone_trans (g2 j) (hsub j)

end Zmq.W
