import ZmqVerif.Model.FairQueue
namespace Zmq.FQ


@[simp] theorem cnt_nil (k) : cnt [] k = 0 := rfl
@[simp] theorem cnt_cons (e : Nat × Nat) (h k) : cnt (e :: h) k = (if e.2 = k then 1 else 0) + cnt h k := by
  unfold cnt; by_cases hk : e.2 = k <;> simp [List.filter_cons, hk]; omega

theorem evs_eq (s : St) (k) : evs s k = cnt s.heap k := rfl

theorem popMin_none {h} (hp : popMin h = none) : h = [] := by
  cases h with
  | nil => rfl
  | cons e es =>
    simp only [popMin] at hp
    split at hp
    · simp at hp
    · split at hp <;> simp at hp

theorem popMin_cnt {h e rest} (hp : popMin h = some (e, rest)) (k : Nat) :
    cnt h k = (if e.2 = k then 1 else 0) + cnt rest k := by
  induction h generalizing e rest with
  | nil => simp [popMin] at hp
  | cons x xs ih =>
    simp only [popMin] at hp
    split at hp
    · simp at hp; obtain ⟨rfl, rfl⟩ := hp
      rename_i hn; have := popMin_none hn; subst this; simp
    · rename_i m r hm
      split at hp
      · simp at hp; obtain ⟨rfl, rfl⟩ := hp; simp
      · simp at hp; obtain ⟨rfl, rfl⟩ := hp
        have := ih hm
        simp [this]; omega

end Zmq.FQ

namespace Zmq.FQ

theorem handKey_outKey (pc : Pc) (k : Nat) (h : handKey pc = some k) : outKey pc = some k := by
  cases pc with
  | c t k' r => cases r <;> simp_all [handKey, outKey]
  | _ => simp_all [handKey, outKey]

theorem inHand_of_not_out {s : St} (h : Inv s) (k : Nat) (hk : s.reg k ≠ .out) : inHand s k = 0 := by
  unfold inHand
  split
  · rename_i hh; exact absurd ((h.outPc k).2 (handKey_outKey _ _ hh)) hk
  · rfl

theorem inv_insert (s : St) (k : Nat) (h : Inv s) : Inv (doInsert s k) := by
  unfold doInsert
  by_cases habs : s.reg k = .absent
  · simp only [habs, ↓reduceIte]
    refine ⟨?_, ?_, ?_, ?_, ?_⟩
    · intro hp hn
      simp at hp hn
      have := h.i1 hp hn.1
      simp_all
    · intro j hj
      by_cases hjk : j = k
      · subst hjk
        have hc := h.absentClean j habs
        have hh := inHand_of_not_out h j (by simp [habs])
        simp [evs, armedN, inHand, hc] at *
        exact hh
      · have := h.tok j (by simpa [upd, hjk] using hj)
        have hkj : ¬ k = j := fun e => hjk e.symm
        simp [evs, armedN, inHand, hjk, hkj] at *
        exact this
    · intro j hj; exact h.armedEmpty j hj
    · intro j hj
      have hjk : j ≠ k := by intro e; subst e; simp at hj
      have hkj : ¬ k = j := fun e => hjk e.symm
      have := h.absentClean j (by simpa [upd, hjk] using hj)
      simp [hkj]; exact this
    · intro j
      by_cases hjk : j = k
      · subst hjk; simp
        have := (h.outPc j)
        simp [habs] at this
        exact this
      · simp [upd, hjk]; exact h.outPc j
  · simp only [habs, ↓reduceIte]; exact h

theorem inv_remove (s : St) (k : Nat) (h : Inv s) : Inv (doRemove s k) := by
  unfold doRemove
  by_cases hin : s.reg k = .inMap
  · simp only [hin, ↓reduceIte]
    refine ⟨?_, ?_, ?_, ?_, ?_⟩
    · intro hp hn; exact h.i1 hp hn
    · intro j hj
      by_cases hjk : j = k
      · subst hjk; simp at hj
      · have := h.tok j (by simpa [upd, hjk] using hj)
        simp [evs, armedN, inHand, hjk, upd] at *
        exact this
    · intro j hj
      by_cases hjk : j = k
      · subst hjk; simp at hj
      · simp [upd, hjk] at hj ⊢; exact h.armedEmpty j hj
    · intro j hj
      by_cases hjk : j = k
      · subst hjk; simp at hj
      · simp [upd, hjk] at hj ⊢; exact h.absentClean j hj
    · intro j
      by_cases hjk : j = k
      · subst hjk; simp
        have := (h.outPc j); simp [hin] at this; exact this
      · simp [upd, hjk]; exact h.outPc j
  · simp only [hin, ↓reduceIte]; exact h

theorem inv_pollStart (s : St) (h : Inv s) : Inv (doPollStart s) := by
  unfold doPollStart
  split
  · rename_i hpc
    refine ⟨?_, ?_, ?_, ?_, ?_⟩
    · intro hp; simp at hp
    · intro j hj; have := h.tok j hj; simp [evs, armedN, inHand, hpc, handKey] at *; exact this
    · exact h.armedEmpty
    · exact h.absentClean
    · intro j; have := h.outPc j; simp [hpc, outKey] at *; exact this
  · rename_i hpc
    refine ⟨?_, ?_, ?_, ?_, ?_⟩
    · intro hp; simp at hp
    · intro j hj; have := h.tok j hj; simp [evs, armedN, inHand, hpc, handKey] at *; exact this
    · exact h.armedEmpty
    · exact h.absentClean
    · intro j; have := h.outPc j; simp [hpc, outKey] at *; exact this
  · exact h


theorem popMin_cnt_le {h e rest} (hp : popMin h = some (e, rest)) (k : Nat) : cnt rest k ≤ cnt h k := by
  have := popMin_cnt hp k; omega

theorem inv_A (s : St) (h : Inv s) (hpc : s.pc = .a) : Inv (doAcore s) := by
  unfold doAcore
  have hnoout : ∀ j, s.reg j ≠ .out := by
    intro j hj; have := (h.outPc j).1 hj; simp [hpc, outKey] at this
  split
  · rename_i hnone
    have hnil := popMin_none hnone
    refine ⟨?_, ?_, ?_, ?_, ?_⟩
    · intro _ _; simp [hnil]
    · intro j hj; have := h.tok j hj; simp [evs, armedN, inHand, hpc, handKey] at *; exact this
    · exact h.armedEmpty
    · exact h.absentClean
    · intro j; have := h.outPc j; simp [hpc, outKey] at *; exact this
  · rename_i t k rest hsome
    by_cases hin : s.reg k = .inMap
    · simp only [hin, ↓reduceIte]
      refine ⟨?_, ?_, ?_, ?_, ?_⟩
      · intro hp; simp at hp
      · intro j hj
        have hc := popMin_cnt hsome j
        by_cases hjk : j = k
        · subst hjk
          have := h.tok j (Or.inl hin)
          simp only [evs, armedN, inHand, hpc, handKey] at this ⊢
          simp at this hc ⊢
          cases ha : (s.peer j).armed <;> simp [ha] at this ⊢ <;> omega
        · have := h.tok j (by simpa [upd, hjk] using hj)
          have hkj : ¬ k = j := fun e => hjk e.symm
          simp only [evs, armedN, inHand, hpc, handKey] at this ⊢
          simp [hkj] at this hc ⊢
          omega
      · exact h.armedEmpty
      · intro j hj
        have hjk : j ≠ k := by intro e; subst e; simp at hj
        have := h.absentClean j (by simpa [upd, hjk] using hj)
        have hle := popMin_cnt_le hsome j
        refine ⟨?_, this.2⟩
        have := this.1
        show cnt rest j = 0
        omega
      · intro j
        by_cases hjk : j = k
        · subst hjk; simp [outKey]
        · have hkj : ¬ k = j := fun e => hjk e.symm
          simp [upd, hjk, outKey, hkj]; exact hnoout j
    · simp only [hin, ↓reduceIte]
      refine ⟨?_, ?_, ?_, ?_, ?_⟩
      · intro hp; simp [hpc] at hp
      · intro j hj
        have hjk : j ≠ k := by
          intro e; subst e
          rcases hj with hj | hj
          · exact hin hj
          · exact hnoout _ hj
        have hkj : ¬ k = j := fun e => hjk e.symm
        have hc := popMin_cnt hsome j
        have := h.tok j hj
        simp only [evs, armedN, inHand, hpc, handKey] at this ⊢
        simp [hkj] at this hc ⊢
        omega
      · exact h.armedEmpty
      · intro j hj
        have := h.absentClean j hj
        have hle := popMin_cnt_le hsome j
        refine ⟨?_, this.2⟩
        have := this.1
        show cnt rest j = 0
        omega
      · intro j; have := h.outPc j; simp [hpc, outKey] at *; exact this


theorem inv_B (s : St) (t k : Nat) (h : Inv s) (hpc : s.pc = .b t k) : Inv (doBcore s t k) := by
  have hout : s.reg k = .out := (h.outPc k).2 (by simp [hpc, outKey])
  have htk := h.tok k (Or.inr hout)
  have harm : (s.peer k).armed = none := by
    cases ha : (s.peer k).armed with
    | none => rfl
    | some x => simp [evs, armedN, inHand, hpc, handKey, ha] at htk
  cases hq : (s.peer k).q with
  | cons item q' =>
    simp only [doBcore, hq]
    refine ⟨?_, ?_, ?_, ?_, ?_⟩
    · intro hp; simp at hp
    · intro j hj
      have := h.tok j hj
      by_cases hjk : j = k
      · subst hjk; simp [evs, armedN, inHand, hpc, handKey, harm] at this ⊢; exact this
      · simp only [evs, armedN, inHand, hpc, handKey, upd, hjk] at this ⊢; exact this
    · intro j hj
      by_cases hjk : j = k
      · subst hjk; simp [harm] at hj
      · simp [upd, hjk] at hj ⊢; exact h.armedEmpty j hj
    · intro j hj
      have := h.absentClean j hj
      by_cases hjk : j = k
      · subst hjk; simp [hout] at hj
      · simp [upd, hjk]; exact this
    · intro j; have := h.outPc j; simp [hpc, outKey] at this ⊢; exact this
  | nil =>
    by_cases hcl : (s.peer k).closed = true
    · simp only [doBcore, hq, hcl, ↓reduceIte]
      refine ⟨?_, ?_, ?_, ?_, ?_⟩
      · intro hp; simp at hp
      · intro j hj
        have := h.tok j hj
        simp only [evs, armedN, inHand, hpc, handKey] at this ⊢; exact this
      · exact h.armedEmpty
      · exact h.absentClean
      · intro j; have := h.outPc j; simp [hpc, outKey] at this ⊢; exact this
    · simp only [doBcore, hq, hcl, ↓reduceIte]
      refine ⟨?_, ?_, ?_, ?_, ?_⟩
      · intro hp; simp at hp
      · intro j hj
        have := h.tok j hj
        by_cases hjk : j = k
        · subst hjk; simp [evs, armedN, inHand, hpc, handKey, harm] at this ⊢; exact this
        · have hkj : ¬ k = j := fun e => hjk e.symm
          simp [evs, armedN, inHand, hpc, handKey, upd, hjk, hkj] at this ⊢; exact this
      · intro j hj
        by_cases hjk : j = k
        · subst hjk; simp [hq, hcl]
        · simp [upd, hjk] at hj ⊢; exact h.armedEmpty j hj
      · intro j hj
        have := h.absentClean j hj
        by_cases hjk : j = k
        · subst hjk; simp [hout] at hj
        · simp [upd, hjk]; exact this
      · intro j; have := h.outPc j; simp [hpc, outKey] at this ⊢; exact this

theorem inv_C (s : St) (t k : Nat) (r : Res) (h : Inv s) (hpc : s.pc = .c t k r) : Inv (doC s k r) := by
  have hout : s.reg k = .out := (h.outPc k).2 (by simp [hpc, outKey])
  have htk := h.tok k (Or.inr hout)
  have hothers : ∀ j, j ≠ k → s.reg j ≠ .out := by
    intro j hjk hj; have := (h.outPc j).1 hj; simp [hpc, outKey] at this; exact hjk this.symm
  cases r with
  | some item =>
    simp only [doC]
    have hz : cnt s.heap k = 0 ∧ (s.peer k).armed = none := by
      cases ha : (s.peer k).armed <;> simp [evs, armedN, inHand, hpc, handKey, ha] at htk ⊢ <;> omega
    refine ⟨?_, ?_, ?_, ?_, ?_⟩
    · intro hp; simp at hp
    · intro j hj
      by_cases hjk : j = k
      · subst hjk; simp [evs, armedN, inHand, handKey, hz]
      · have hkj : ¬ k = j := fun e => hjk e.symm
        have hj' : s.reg j = .inMap ∨ s.reg j = .out := by simpa [upd, hjk] using hj
        have := h.tok j hj'
        simp [evs, armedN, inHand, hpc, handKey, hkj] at this ⊢; exact this
    · exact h.armedEmpty
    · intro j hj
      have hjk : j ≠ k := by intro e; subst e; simp at hj
      have hkj : ¬ k = j := fun e => hjk e.symm
      have := h.absentClean j (by simpa [upd, hjk] using hj)
      simp [hkj]; exact this
    · intro j
      by_cases hjk : j = k
      · subst hjk; simp [outKey]
      · simp [upd, hjk, outKey]; exact hothers j hjk
  | none =>
    simp only [doC]
    refine ⟨?_, ?_, ?_, ?_, ?_⟩
    · intro hp; simp at hp
    · intro j hj
      by_cases hjk : j = k
      · subst hjk; simp at hj
      · have hkj : ¬ k = j := fun e => hjk e.symm
        have hj' : s.reg j = .inMap ∨ s.reg j = .out := by simpa [upd, hjk] using hj
        have := h.tok j hj'
        simp [evs, armedN, inHand, hpc, handKey, hkj] at this ⊢; exact this
    · exact h.armedEmpty
    · intro j hj
      have hjk : j ≠ k := by intro e; subst e; simp at hj
      exact h.absentClean j (by simpa [upd, hjk] using hj)
    · intro j
      by_cases hjk : j = k
      · subst hjk; simp [outKey]
      · simp [upd, hjk, outKey]; exact hothers j hjk
  | pend =>
    simp only [doC]
    refine ⟨?_, ?_, ?_, ?_, ?_⟩
    · intro hp; simp at hp
    · intro j hj
      by_cases hjk : j = k
      · subst hjk; simp [evs, armedN, inHand, hpc, handKey] at htk ⊢; exact htk
      · have hj' : s.reg j = .inMap ∨ s.reg j = .out := by simpa [upd, hjk] using hj
        have := h.tok j hj'
        simp [evs, armedN, inHand, hpc, handKey] at this ⊢; exact this
    · exact h.armedEmpty
    · intro j hj
      have hjk : j ≠ k := by intro e; subst e; simp at hj
      exact h.absentClean j (by simpa [upd, hjk] using hj)
    · intro j
      by_cases hjk : j = k
      · subst hjk; simp [outKey]
      · simp [upd, hjk, outKey]; exact hothers j hjk


theorem inv_ready (s : St) (k : Nat) (p' : Peer) (h : Inv s) : Inv (ready s k p') := by
  unfold ready
  cases ha : (s.peer k).armed with
  | none =>
    simp only []
    refine ⟨h.i1, ?_, ?_, ?_, h.outPc⟩
    · intro j hj
      have := h.tok j hj
      by_cases hjk : j = k
      · subst hjk; simp [evs, armedN, inHand, ha] at this ⊢; exact this
      · simp [evs, armedN, inHand, upd, hjk] at this ⊢; exact this
    · intro j hj
      by_cases hjk : j = k
      · subst hjk; simp at hj
      · simp [upd, hjk] at hj ⊢; exact h.armedEmpty j hj
    · intro j hj
      have := h.absentClean j hj
      by_cases hjk : j = k
      · subst hjk; simp; exact this.1
      · simp [upd, hjk]; exact this
  | some t =>
    simp only []
    by_cases hlive : s.reg k = .inMap ∨ s.reg k = .out
    · simp only [hlive, ↓reduceIte, fire]
      refine ⟨?_, ?_, ?_, ?_, h.outPc⟩
      · intro hp hn
        simp at hp hn
        have := h.i1 hp hn.1
        simp_all
      · intro j hj
        have := h.tok j hj
        by_cases hjk : j = k
        · subst hjk; simp [evs, armedN, inHand, ha] at this ⊢; omega
        · have hkj : ¬ k = j := fun e => hjk e.symm
          simp [evs, armedN, inHand, upd, hjk, hkj] at this ⊢; exact this
      · intro j hj
        by_cases hjk : j = k
        · subst hjk; simp at hj
        · simp [upd, hjk] at hj ⊢; exact h.armedEmpty j hj
      · intro j hj
        have := h.absentClean j hj
        have hjk : j ≠ k := by
          intro e; subst e; rcases hlive with hl | hl <;> simp [hl] at hj
        have hkj : ¬ k = j := fun e => hjk e.symm
        simp [upd, hjk, hkj]; exact this
    · simp only [hlive, ↓reduceIte]
      refine ⟨h.i1, ?_, ?_, ?_, h.outPc⟩
      · intro j hj
        have := h.tok j hj
        have hjk : j ≠ k := by intro e; subst e; exact hlive hj
        simp [evs, armedN, inHand, upd, hjk] at this ⊢; exact this
      · intro j hj
        by_cases hjk : j = k
        · subst hjk; simp at hj
        · simp [upd, hjk] at hj ⊢; exact h.armedEmpty j hj
      · intro j hj
        have := h.absentClean j hj
        by_cases hjk : j = k
        · subst hjk; simp; exact this.1
        · simp [upd, hjk]; exact this

/-- the invariant does not mention the ghost history -/
theorem inv_with_hist (s : St) (hh : Nat → List Nat) (h : Inv s) : Inv { s with hist := hh } :=
  ⟨h.i1, h.tok, h.armedEmpty, h.absentClean, h.outPc⟩

/-- yielding keeps every token where it is; the receiver parks NOTIFIED -/
theorem inv_yield (s : St) (h : Inv s) (hpc : s.pc = .a) : Inv (yieldNow s) := by
  refine ⟨?_, ?_, h.armedEmpty, h.absentClean, ?_⟩
  · intro _ hn; simp [yieldNow] at hn
  · intro j hj
    have := h.tok j hj
    simp only [yieldNow, evs, armedN, inHand, handKey, hpc] at this ⊢
    exact this
  · intro j
    have := h.outPc j
    simp only [yieldNow, outKey, hpc] at this ⊢
    exact this

/-- budget exhausted: the token of the stream in hand goes back to the heap (its waker fired) -/
theorem inv_Bex (s : St) (t k : Nat) (h : Inv s) (hpc : s.pc = .b t k) : Inv (doBex s t k) := by
  refine ⟨?_, ?_, ?_, ?_, ?_⟩
  · intro hp; simp [doBex] at hp
  · intro j hj
    have hj' : s.reg j = .inMap ∨ s.reg j = .out := by simpa [doBex, fire] using hj
    have := h.tok j hj'
    by_cases e : k = j
    · subst e
      have hn : ¬ ((none : Option Nat) = some k) := by simp
      simp only [doBex, fire, evs, armedN, inHand, handKey, hpc, cnt_cons, ↓reduceIte, hn] at this ⊢
      omega
    · have e' : ¬ (some k = some j) := by simpa using e
      have hn : ¬ ((none : Option Nat) = some j) := by simp
      simp only [doBex, fire, evs, armedN, inHand, handKey, hpc, cnt_cons, e, e', ↓reduceIte, hn] at this ⊢
      omega
  · intro j hj
    have : (s.peer j).armed.isSome := by simpa [doBex, fire] using hj
    simpa [doBex, fire] using h.armedEmpty j this
  · intro j hj
    have hj' : s.reg j = .absent := by simpa [doBex, fire] using hj
    have := h.absentClean j hj'
    have hout := (h.outPc k).mpr (by simp [hpc, outKey])
    have hjk : k ≠ j := by intro e; subst e; simp [hj'] at hout
    simp only [doBex, fire, cnt_cons, hjk, ↓reduceIte, Nat.zero_add]
    exact this
  · intro j
    have := h.outPc j
    simp only [doBex, fire, outKey, hpc] at this ⊢
    exact this

theorem inv_A' (s : St) (h : Inv s) (hpc : s.pc = .a) : Inv (doA s) := by
  unfold doA
  split
  · split
    · exact inv_yield s h hpc
    · exact inv_A s h hpc
  · exact inv_A s h hpc

theorem inv_B' (s : St) (t k : Nat) (h : Inv s) (hpc : s.pc = .b t k) : Inv (doB s t k) := by
  unfold doB
  split
  · exact inv_Bex s t k h hpc
  · exact inv_B s t k h hpc

theorem inv_exhaust (s : St) (h : Inv s) : Inv { s with exhausted := true } :=
  ⟨h.i1, h.tok, h.armedEmpty, h.absentClean, h.outPc⟩

theorem step_inv (s : St) (op : Op) (h : Inv s) : Inv (step s op) := by
  cases op with
  | insert k => exact inv_insert s k h
  | remove k => exact inv_remove s k h
  | arrive k item =>
    simp only [step, doArrive]; split
    · exact h
    · exact inv_with_hist _ _ (inv_ready s k _ h)
  | close k =>
    simp only [step, doClose]; split
    · exact h
    · exact inv_ready s k _ h
  | pollStart => exact inv_pollStart s h
  | recvStep =>
    simp only [step, doRecv]
    split
    · rename_i hpc; exact inv_A' s h hpc
    · rename_i t k hpc; exact inv_B' s t k h hpc
    · rename_i t k r hpc; exact inv_C s t k r h hpc
    · exact h
  | exhaust => exact inv_exhaust s h
  | setWaker w => exact ⟨h.i1, h.tok, h.armedEmpty, h.absentClean, h.outPc⟩

theorem inv_init : Inv ({} : St) := by
  refine ⟨?_, ?_, ?_, ?_, ?_⟩ <;> simp [outKey]

/-- every reachable state (any interleaving of environment and receiver steps, any number of peers) -/
theorem reachable_inv (ops : List Op) : Inv (ops.foldl step {}) := by
  suffices ∀ s, Inv s → Inv (ops.foldl step s) from this _ inv_init
  induction ops with
  | nil => intro s h; exact h
  | cons op ops ih => intro s h; exact ih _ (step_inv s op h)

/-- I2: a registered stream with something to deliver has an event queued -/
theorem avail_has_event (s : St) (h : Inv s) (k : Nat) (hreg : s.reg k = .inMap)
    (hav : (s.peer k).q ≠ [] ∨ (s.peer k).closed = true) : cnt s.heap k = 1 := by
  have ht := h.tok k (Or.inl hreg)
  have hh := inHand_of_not_out h k (by simp [hreg])
  have harm : (s.peer k).armed = none := by
    cases ha : (s.peer k).armed with
    | none => rfl
    | some t =>
      have := h.armedEmpty k (by simp [ha])
      rcases hav with hq | hc
      · exact absurd this.1 hq
      · simp [this.2] at hc
  simp [evs, armedN, harm, hh] at ht
  exact ht

/-- no lost wake-up, safety form: a parked, un-notified receiver coexists with no deliverable item -/
theorem parked_means_nothing_ready (s : St) (h : Inv s) (hp : s.pc = .parked) (hn : s.notified = false)
    (k : Nat) (hreg : s.reg k = .inMap) : (s.peer k).q = [] ∧ (s.peer k).closed = false := by
  have hheap := (h.i1 hp hn).1
  by_cases hq : (s.peer k).q = []
  · by_cases hc : (s.peer k).closed = true
    · have := avail_has_event s h k hreg (Or.inr hc); simp [hheap] at this
    · exact ⟨hq, by simpa using hc⟩
  · have := avail_has_event s h k hreg (Or.inl hq); simp [hheap] at this

end Zmq.FQ
