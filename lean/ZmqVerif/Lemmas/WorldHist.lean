import ZmqVerif.Lemmas.WorldRecv
/-!
# Histories of the receive path: polls interleaved with bytes arriving

`Reach` = any finite sequence of (a) steps that satisfy `Step` — every `recv` poll does, by
`recvPoll_spec` — and (b) bytes arriving on any pipe.  The invariant relates, for every connection
registered at the start, what has been TAKEN from it so far to what its whole byte stream so far
decodes to.
-/
namespace Zmq.W
open Zmq

/-- a run continued with more bytes (the right-hand side of `run_append`) -/
def _root_.Zmq.RunOut.extend (r : RunOut) (x : Bytes) : RunOut :=
  if r.ended then { r with rest := r.rest ++ x }
  else (run r.dec (r.rest ++ x)).pre r.items

theorem run_extend (d : Dec) (buf x : Bytes) : run d (buf ++ x) = (run d buf).extend x := by
  rw [run_append]
  unfold RunOut.extend RunOut.pre
  split <;> rfl

theorem extend_pre (l : List Item) (r : RunOut) (x : Bytes) :
    (RunOut.pre l r).extend x = RunOut.pre l (r.extend x) := by
  unfold RunOut.extend
  have : (RunOut.pre l r).ended = r.ended := rfl
  rw [this]
  split
  · rfl
  · simp [RunOut.pre]

theorem run_items_prefix (d : Dec) (buf x : Bytes) : (run d buf).items <+: (run d (buf ++ x)).items := by
  rw [run_append]
  by_cases he : (run d buf).ended
  · simp [he]
  · simp [he]

theorem Rd.rem_reveal {ps ps' : Pipes} (rd : Rd) (x : Bytes)
    (h : inbufOf ps' rd.pipe = inbufOf ps rd.pipe ++ x) : rd.rem ps' = (rd.rem ps).extend x := by
  simp only [Rd.rem, h]
  rw [← List.append_assoc, run_extend]

/-- bytes that arrive on pipe `p` -/
def arrive (p : Nat) (x : Bytes) (j : Nat) : Bytes := if j = p then x else []

/-- every state reachable from `(ps0, m0)` by steps that satisfy `Step` (every `recv` poll does)
and by bytes arriving on pipes; `taken k` = everything taken from connection `k` so far, in
order; `rev j` = the bytes that have arrived on pipe `j` since the start -/
inductive Reach (ps0 : Pipes) (m0 : Streams) : Pipes → Streams → (Ident → List Item) → (Nat → Bytes) → Prop
  | init : Reach ps0 m0 ps0 m0 nilC (fun _ => [])
  | poll {ps m taken rev ps' m' c} : Reach ps0 m0 ps m taken rev → Step ps m ps' m' c →
      Reach ps0 m0 ps' m' (fun k => taken k ++ c k) rev
  | reveal {ps m taken rev ps'} (p : Nat) (x : Bytes) : Reach ps0 m0 ps m taken rev →
      (∀ j, inbufOf ps' j = inbufOf ps j ++ arrive p x j) →
      Reach ps0 m0 ps' m taken (fun j => rev j ++ arrive p x j)

/-- what the WHOLE byte stream of a connection so far decodes to: the reader's state at the start,
the bytes that were waiting then, and everything that has arrived since -/
def total (ps0 : Pipes) (rd0 : Rd) (rev : Nat → Bytes) : RunOut :=
  run rd0.dec (rd0.buf ++ inbufOf ps0 rd0.pipe ++ rev rd0.pipe)

theorem total_extend (ps0 : Pipes) (rd0 : Rd) (rev : Nat → Bytes) (y : Bytes) :
    total ps0 rd0 (fun j => rev j ++ (if j = rd0.pipe then y else [])) = (total ps0 rd0 rev).extend y := by
  simp only [total, ↓reduceIte]
  rw [← List.append_assoc, run_extend]

/-- **The invariant of every history.**  For a connection `k` registered at the start: while it is
registered, the decode of its whole byte stream so far is EXACTLY what has been taken from it,
followed by what its reader still has in front of it (same decoder state, same leftover, same
first error); once it is gone, what was taken from it is a prefix of that decode. -/
theorem Reach.inv {ps0 : Pipes} {m0 : Streams} {ps : Pipes} {m : Streams} {taken : Ident → List Item}
    {rev : Nat → Bytes} (h : Reach ps0 m0 ps m taken rev) (k : Ident) (rd0 : Rd) (h0 : ilookup m0 k = some rd0) :
    (∀ rd, ilookup m k = some rd → rd.pipe = rd0.pipe ∧ total ps0 rd0 rev = (rd.rem ps).pre (taken k)) ∧
    (ilookup m k = none → taken k <+: (total ps0 rd0 rev).items) := by
  induction h with
  | init =>
    refine ⟨fun rd hl => ?_, fun hn => by rw [h0] at hn; cases hn⟩
    rw [h0] at hl; cases hl
    exact ⟨rfl, by simp [total, Rd.rem, nilC]⟩
  | @poll ps m taken rev ps' m' c _ hs ih =>
    refine ⟨fun rd' hl => ?_, fun hn => ?_⟩
    · obtain ⟨rd, hm, hp, e⟩ := hs.old k rd' hl
      obtain ⟨hp0, et⟩ := ih.1 rd hm
      exact ⟨hp.trans hp0, by show _ = RunOut.pre (taken k ++ c k) _; rw [et, e, RunOut.pre_pre]⟩
    · show taken k ++ c k <+: _
      cases hm : ilookup m k with
      | none => rw [hs.nil k hm, List.append_nil]; exact ih.2 hm
      | some rd =>
        obtain ⟨_, et⟩ := ih.1 rd hm
        have := hs.gone k rd hm hn
        simp only [Rd.items] at this
        rw [et, RunOut.pre_items, this]
        exact List.prefix_refl _
  | @reveal ps m taken rev ps' p x _ hin ih =>
    refine ⟨fun rd hl => ?_, fun hn => ?_⟩
    · obtain ⟨hp0, et⟩ := ih.1 rd hl
      refine ⟨hp0, ?_⟩
      have e1 : total ps0 rd0 (fun j => rev j ++ arrive p x j) = (total ps0 rd0 rev).extend (arrive p x rd0.pipe) := by
        simp only [total]
        rw [← List.append_assoc, run_extend]
      have e2 : rd.rem ps' = (rd.rem ps).extend (arrive p x rd0.pipe) := by
        rw [← hp0]; exact Rd.rem_reveal rd _ (hin rd.pipe)
      rw [e1, et, extend_pre, e2]
    · have := ih.2 hn
      refine List.IsPrefix.trans this ?_
      simp only [total]
      rw [← List.append_assoc]
      exact run_items_prefix _ _ _

/-! ### the application's view: which message came from which connection -/

theorem msgsOf_append (a b : List Item) : msgsOf (a ++ b) = msgsOf a ++ msgsOf b := by
  simp [msgsOf, List.filterMap_append]

/-- a history of `recv` polls on a socket of type `t` and of bytes arriving.  `log` records, for every
poll that consumed a message, the connection it came from, the message as it was on the wire, and what
`recv` returned for it. -/
inductive RecvRun (t : SockType) (ps0 : Pipes) (m0 : Streams) :
    Pipes → Streams → (Ident → List Item) → (Nat → Bytes) → List (Ident × Msg × POut) → Prop
  | init : RecvRun t ps0 m0 ps0 m0 nilC (fun _ => []) []
  | poll {ps m taken rev log ps' m' c} (o : POut) : RecvRun t ps0 m0 ps m taken rev log →
      Step ps m ps' m' c → RecvPost t c o → (∀ k, msgsOf (c k) = []) →
      RecvRun t ps0 m0 ps' m' (fun k => taken k ++ c k) rev log
  | msg {ps m taken rev log ps' m' c} (o : POut) (k : Ident) (w : Msg) : RecvRun t ps0 m0 ps m taken rev log →
      Step ps m ps' m' c → msgsOf (c k) = [w] → (∀ j, j ≠ k → msgsOf (c j) = []) →
      (match o with
       | .ready (.okMsg r) => deliver t k w = some r
       | .ready (.err _) => deliver t k w = none
       | _ => False) →
      RecvRun t ps0 m0 ps' m' (fun k => taken k ++ c k) rev (log ++ [(k, w, o)])
  | reveal {ps m taken rev log ps'} (p : Nat) (x : Bytes) : RecvRun t ps0 m0 ps m taken rev log →
      (∀ j, inbufOf ps' j = inbufOf ps j ++ arrive p x j) →
      RecvRun t ps0 m0 ps' m taken (fun j => rev j ++ arrive p x j) log

theorem RecvRun.reach {t : SockType} {ps0 : Pipes} {m0 : Streams} {ps : Pipes} {m : Streams}
    {taken : Ident → List Item} {rev : Nat → Bytes} {log : List (Ident × Msg × POut)}
    (h : RecvRun t ps0 m0 ps m taken rev log) : Reach ps0 m0 ps m taken rev := by
  induction h with
  | init => exact .init
  | poll _ _ hs _ _ ih => exact .poll ih hs
  | msg _ _ _ _ hs _ _ _ ih => exact .poll ih hs
  | reveal p x _ hin ih => exact .reveal p x ih hin

/-- every poll of the model's `recv` extends a history by one of the two poll constructors -/
theorem RecvRun.step {t : SockType} {ps0 : Pipes} {m0 : Streams} {ps : Pipes} {m : Streams}
    {taken : Ident → List Item} {rev : Nat → Bytes} {log : List (Ident × Msg × POut)}
    (h : RecvRun t ps0 m0 ps m taken rev log) {ps' : Pipes} {m' : Streams} {c : Ident → List Item} {o : POut}
    (hs : Step ps m ps' m' c) (hp : RecvPost t c o) :
    ∃ log', RecvRun t ps0 m0 ps' m' (fun k => taken k ++ c k) rev log' ∧
      (log' = log ∨ ∃ k w, log' = log ++ [(k, w, o)]) := by
  cases o with
  | pending => exact ⟨log, .poll .pending h hs hp hp, Or.inl rfl⟩
  | ready v =>
    cases v with
    | okMsg r =>
      obtain ⟨k, w, h1, h2, h3⟩ := hp
      exact ⟨_, .msg (.ready (.okMsg r)) k w h hs h1 h3 h2, Or.inr ⟨k, w, rfl⟩⟩
    | err e =>
      rcases hp with hp | ⟨k, w, h1, h2, h3⟩
      · exact ⟨log, .poll (.ready (.err e)) h hs (Or.inl hp) hp, Or.inl rfl⟩
      · exact ⟨_, .msg (.ready (.err e)) k w h hs h1 h3 h2, Or.inr ⟨k, w, rfl⟩⟩
    | okUnit => exact hp.elim
    | okId i => exact hp.elim
    | okErrs n => exact hp.elim
    | errReturn m => exact hp.elim
    | panic => exact hp.elim

/-- the log, connection by connection, IS the messages taken from that connection, in order -/
theorem RecvRun.log_eq {t : SockType} {ps0 : Pipes} {m0 : Streams} {ps : Pipes} {m : Streams}
    {taken : Ident → List Item} {rev : Nat → Bytes} {log : List (Ident × Msg × POut)}
    (h : RecvRun t ps0 m0 ps m taken rev log) (k : Ident) :
    (log.filter (fun e => e.1 == k)).map (·.2.1) = msgsOf (taken k) := by
  induction h with
  | init => rfl
  | poll _ _ _ _ hz ih => rw [msgsOf_append, hz, List.append_nil]; exact ih
  | msg o k' w _ _ h1 h3 _ ih =>
    rw [msgsOf_append, List.filter_append, List.map_append, ih]
    by_cases hk : k = k'
    · subst hk; simp [h1]
    · have : (k' == k) = false := by simpa using fun e => hk e.symm
      simp [h3 k hk, this]
  | reveal _ _ _ _ ih => exact ih

/-- **Exactly once, whole, in order — for every history.**  Take any history of `recv` polls and of bytes
arriving (in any segmentation, on any connection, valid or not).  For a connection `k` that was
registered at the start and still is: the complete messages in `k`'s whole byte stream so far are
EXACTLY the messages `recv` has consumed from `k` (each returned to the application as the socket type
presents it, or — REP — rejected with one error), in the same order, followed by the complete
messages still waiting in front of its reader.  Nothing is lost, duplicated, reordered, merged with
or split across another connection's messages. -/
theorem RecvRun.exactly_once {t : SockType} {ps0 : Pipes} {m0 : Streams} {ps : Pipes} {m : Streams}
    {taken : Ident → List Item} {rev : Nat → Bytes} {log : List (Ident × Msg × POut)}
    (h : RecvRun t ps0 m0 ps m taken rev log) (k : Ident) (rd0 rd : Rd)
    (h0 : ilookup m0 k = some rd0) (hk : ilookup m k = some rd) :
    msgsOf (total ps0 rd0 rev).items =
      (log.filter (fun e => e.1 == k)).map (·.2.1) ++ msgsOf (rd.items ps) := by
  obtain ⟨_, e⟩ := (h.reach.inv k rd0 h0).1 rd hk
  rw [e, RunOut.pre_items, msgsOf_append, h.log_eq k]
  rfl

/-- … and for a connection that is gone (ended, failed, or dropped for a protocol error), what was
consumed from it is a prefix of the complete messages of its byte stream: a message cut short by the
disconnect was never surfaced, none was invented. -/
theorem RecvRun.gone_prefix {t : SockType} {ps0 : Pipes} {m0 : Streams} {ps : Pipes} {m : Streams}
    {taken : Ident → List Item} {rev : Nat → Bytes} {log : List (Ident × Msg × POut)}
    (h : RecvRun t ps0 m0 ps m taken rev log) (k : Ident) (rd0 : Rd)
    (h0 : ilookup m0 k = some rd0) (hk : ilookup m k = none) :
    (log.filter (fun e => e.1 == k)).map (·.2.1) <+: msgsOf (total ps0 rd0 rev).items := by
  rw [h.log_eq k]
  obtain ⟨r, hr⟩ := (h.reach.inv k rd0 h0).2 hk
  rw [← hr, msgsOf_append]
  exact List.prefix_append _ _


/-! ### progress of `poll_next` over the readers; registering under a key that is still registered -/

/-- `QueueInner::insert` under a key that may already be registered: the new stream replaces the old
one, and an event for the key — with the newest ticket — is ALWAYS queued, whatever the old stream's
state was (parked with an armed waker, queued, never polled) -/
theorem fqInsert_queued (s : Socket) (k : Ident) (rd : Rd) :
    ilookup (fqInsert s k rd).fqStreams k = some rd ∧
    (s.fqCounter, k) ∈ (fqInsert s k rd).fqHeap ∧
    (fqInsert s k rd).fqCounter = s.fqCounter + 1 ∧
    ∀ j, j ≠ k → ilookup (fqInsert s k rd).fqStreams j = ilookup s.fqStreams j := by
  refine ⟨ilookup_iinsert_same _ _ _, by simp [fqInsert], rfl, fun j hj => ilookup_iinsert_other _ _ _ _ hj⟩

theorem popMinE_some_of_ne {h : List (Nat × Ident)} (hne : h ≠ []) : ∃ e rest, popMinE h = some (e, rest) := by
  cases h with
  | nil => exact (hne rfl).elim
  | cons e es =>
    unfold popMinE
    cases popMinE es with
    | none => exact ⟨_, _, rfl⟩
    | some mr =>
      obtain ⟨m, rest⟩ := mr
      simp only
      split <;> exact ⟨_, _, rfl⟩

/-- … so the next `poll_next` cannot park: with an event queued, `fqPoll` does not return `Pending`
without having popped it (no lost wake-up for a connection registered under a key that was still
registered — the situation of a peer that reconnects before its old connection's end was seen) -/
theorem fqPoll_pops (fuel : Nat) (ps : Pipes) (sid : Nat) (s : Socket) (hne : s.fqHeap ≠ []) :
    ∃ e rest, popMinE s.fqHeap = some (e, rest) ∧
      fqPoll (fuel + 1) ps sid s =
        (match ilookup s.fqStreams e.2 with
         | none => fqPoll fuel ps sid { s with fqHeap := rest }
         | some rd =>
           let s1 := { s with fqHeap := rest, fqStreams := ierase s.fqStreams e.2 }
           match readerPoll (readFuel ps rd) ps rd (.fq sid e.1 e.2) with
           | (.pending, ps, rd) => fqPoll fuel ps sid { s1 with fqStreams := s1.fqStreams ++ [(e.2, rd)] }
           | (.eof, ps, rd) =>
             let r := peerDisconnected (dropR ps rd.pipe) s1 e.2
             fqPoll fuel r.1 sid r.2
           | (res, ps, rd) =>
             (.got e.2 res, ps, { s1 with fqHeap := (s1.fqCounter, e.2) :: s1.fqHeap, fqCounter := s1.fqCounter + 1,
                                          fqStreams := s1.fqStreams ++ [(e.2, rd)] })) := by
  obtain ⟨e, rest, hp⟩ := popMinE_some_of_ne hne
  refine ⟨e, rest, hp, ?_⟩
  obtain ⟨t, k⟩ := e
  rw [fqPoll]
  simp only [hp]
  cases ilookup s.fqStreams k with
  | none => rfl
  | some rd =>
    simp only
    rcases readerPoll (readFuel ps rd) ps rd (.fq sid t k) with ⟨r, ps', rd'⟩
    cases r <;> rfl

theorem popMinE_spec : ∀ (h : List (Nat × Ident)) (e : Nat × Ident) (rest : List (Nat × Ident)),
    popMinE h = some (e, rest) → rest.length + 1 = h.length ∧ ∀ x, x ∈ h → x = e ∨ x ∈ rest
  | [], e, rest, h => by simp [popMinE] at h
  | a :: es, e, rest, h => by
    unfold popMinE at h
    cases hp : popMinE es with
    | none =>
      simp only [hp, Option.some.injEq, Prod.mk.injEq] at h
      obtain ⟨rfl, rfl⟩ := h
      cases es with
      | nil => simp
      | cons b bs =>
        obtain ⟨e', r', h'⟩ := popMinE_some_of_ne (h := b :: bs) (by simp)
        rw [h'] at hp; cases hp
    | some mr =>
      obtain ⟨m, r⟩ := mr
      obtain ⟨hl, hm⟩ := popMinE_spec es m r hp
      simp only [hp] at h
      split at h
      · simp only [Option.some.injEq, Prod.mk.injEq] at h
        obtain ⟨rfl, rfl⟩ := h
        exact ⟨rfl, fun x hx => by simpa using hx⟩
      · simp only [Option.some.injEq, Prod.mk.injEq] at h
        obtain ⟨rfl, rfl⟩ := h
        refine ⟨by simp [← hl], fun x hx => ?_⟩
        rcases List.mem_cons.mp hx with rfl | hx
        · right; simp
        · rcases hm x hx with rfl | hr
          · left; rfl
          · right; simp [hr]

theorem pd_heap (ps : Pipes) (s : Socket) (k : Ident) : (peerDisconnected ps s k).2.fqHeap = s.fqHeap := by
  cases hp : ilookup s.peers k <;> cases hf : ilookup s.fqStreams k <;> cases hqq : ilookup s.reqRd k <;>
    cases ht : s.typ <;>
    simp_all [peerDisconnected, fqRemove]

/-- **No lost wake-up at socket level.**  If an event is queued for a registered connection whose byte
stream holds a complete item, a call of the fair queue's `poll_next` does not return `Pending`: it
delivers an item (of that connection, or of one served before it) or reports an error — whatever
else is queued (stale events, connections that are `Pending`, connections that have ended). -/
theorem fqPoll_progress (fuel : Nat) (ps : Pipes) (sid : Nat) (s : Socket) (hpd : PD s.fqStreams)
    (k : Ident) (rd : Rd) (t : Nat) (hk : ilookup s.fqStreams k = some rd) (hev : (t, k) ∈ s.fqHeap)
    (hit : rd.items ps ≠ []) (hfuel : s.fqHeap.length < fuel) :
    ∃ k' r, (fqPoll fuel ps sid s).1 = .got k' r := by
  induction fuel generalizing ps s rd with
  | zero => omega
  | succ fuel ih =>
    have hne : s.fqHeap ≠ [] := fun e => by rw [e] at hev; cases hev
    obtain ⟨e, rest, hp⟩ := popMinE_some_of_ne hne
    obtain ⟨hlen, hmem⟩ := popMinE_spec _ _ _ hp
    obtain ⟨t', k'⟩ := e
    rw [fqPoll]
    simp only [hp]
    by_cases hkk : k' = k
    · subst hkk
      simp only [hk]
      cases hrp : readerPoll (readFuel ps rd) ps rd (.fq sid t' k') with
      | mk r0 rest0 =>
        obtain ⟨ps0, rd0⟩ := rest0
        have hsp := readerPoll_spec _ ps rd _ (readFuel_ok ps rd) r0 ps0 rd0 hrp
        cases r0 with
        | item i => exact ⟨_, _, rfl⟩
        | err e => exact ⟨_, _, rfl⟩
        | pending => exact (hit hsp.2.2.2).elim
        | eof => exact (hit hsp.2.2).elim
    · have hrest : (t, k) ∈ rest := by
        rcases hmem _ hev with h | h
        · simp only [Prod.mk.injEq] at h; exact (hkk h.2.symm).elim
        · exact h
      have hkk' : k ≠ k' := fun e => hkk e.symm
      cases hl : ilookup s.fqStreams k' with
      | none =>
        simp only
        exact ih ps { s with fqHeap := rest } hpd rd hk hrest hit (by simp only; omega)
      | some rd' =>
        simp only
        cases hrp : readerPoll (readFuel ps rd') ps rd' (.fq sid t' k') with
        | mk r0 rest0 =>
          obtain ⟨ps0, rd0⟩ := rest0
          have hsp := readerPoll_spec _ ps rd' _ (readFuel_ok ps rd') r0 ps0 rd0 hrp
          have hpipe : rd.pipe ≠ rd'.pipe := hpd k k' rd rd' hk hl hkk'
          have hitems0 : rd.items ps0 ≠ [] := by
            have : rd.rem ps0 = rd.rem ps := Rd.rem_frame rd (hsp.2.1 _ hpipe)
            simp only [Rd.items, this]; exact hit
          cases r0 with
          | item i => exact ⟨_, _, rfl⟩
          | err e => exact ⟨_, _, rfl⟩
          | pending =>
            simp only
            refine ih ps0 _ (PD.putback hpd hl hsp.1) rd ?_ hrest hitems0 (by simp only; omega)
            simp only
            rw [ilookup_putback_other _ _ _ _ hkk']; exact hk
          | eof =>
            simp only
            let s2 : Socket := { s with fqHeap := rest, fqStreams := ierase s.fqStreams k' }
            have b2 := Step.pd_step (dropR ps0 rd0.pipe) s2 k' (fun rd hk => by
              simp only [s2, ilookup_ierase_same] at hk; cases hk)
            have hpd2 : PD (peerDisconnected (dropR ps0 rd0.pipe) s2 k').2.fqStreams := b2.pd (PD.erase hpd k')
            refine ih _ _ hpd2 rd ?_ (by rw [pd_heap]; exact hrest) ?_ (by rw [pd_heap]; simp only [s2]; omega)
            · rw [pd_lookup_other _ _ _ _ hkk']
              simp only [s2]
              rw [ilookup_ierase_other _ _ _ hkk']; exact hk
            · have : rd.rem (peerDisconnected (dropR ps0 rd0.pipe) s2 k').1 = rd.rem ps0 :=
                Rd.rem_frame rd (by rw [pd_inbuf, inbufOf_dropR])
              simp only [Rd.items] at hitems0 ⊢
              rw [this]; exact hitems0



/-- what the application got for every message consumed, over any history: the message as the socket type presents it
(`deliver`), or one error when the type's envelope rule rejects it — nothing else ever enters the log -/
theorem RecvRun.log_spec {t : SockType} {ps0 : Pipes} {m0 : Streams} {ps : Pipes} {m : Streams}
    {taken : Ident → List Item} {rev : Nat → Bytes} {log : List (Ident × Msg × POut)}
    (h : RecvRun t ps0 m0 ps m taken rev log) :
    ∀ e ∈ log, (∃ r, e.2.2 = .ready (.okMsg r) ∧ deliver t e.1 e.2.1 = some r) ∨
               (∃ x, e.2.2 = .ready (.err x) ∧ deliver t e.1 e.2.1 = none) := by
  induction h with
  | init => intro e he; cases he
  | poll _ _ _ _ _ ih => exact ih
  | msg o k w _ _ _ _ ho ih =>
    intro e he
    rcases List.mem_append.mp he with he | he
    · exact ih e he
    · simp only [List.mem_singleton] at he
      subst he
      cases o with
      | pending => exact absurd ho (by simp)
      | ready v =>
        cases v with
        | okMsg r => exact .inl ⟨r, rfl, ho⟩
        | err x => exact .inr ⟨x, rfl, ho⟩
        | _ => exact absurd ho (by simp)
  | reveal _ _ _ _ ih => exact ih

end Zmq.W
