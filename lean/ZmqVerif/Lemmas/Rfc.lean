import ZmqVerif.Model.Wire
import ZmqVerif.Spec.Rfc23
import ZmqVerif.Lemmas.Bytes
namespace Zmq
open Rfc

theorem parseFrame_encodeFrame (more : Bool) (body tail : Bytes) (h : body.length < 2 ^ 64) :
    parseFrame (encodeFrame more body ++ tail)
      = some ({ more := more, command := false, body := body }, tail) := by
  unfold encodeFrame frameHeader
  by_cases hl : body.length > 255
  · simp only [hl, ↓reduceIte, List.cons_append, parseFrame]
    have hfl : ∀ b : Bool, ((if b then (3 : UInt8) else 2) &&& 0xF8 ≠ 0) = False ∧
        (((if b then (3 : UInt8) else 2) &&& 2 ≠ 0) = True) ∧
        (((if b then (3 : UInt8) else 2) &&& 1 ≠ 0) = (b = true)) ∧
        (((if b then (3 : UInt8) else 2) &&& 4 ≠ 0) = False) := by
      intro b; cases b <;> decide
    obtain ⟨h1, h2, h3, h4⟩ := hfl more
    simp only [h1, h2, h3, h4, ↓reduceIte, List.append_assoc, false_and]
    have hlen : ¬ (be 8 body.length ++ (body ++ tail)).length < 8 := by simp
    have htake : (be 8 body.length ++ (body ++ tail)).take 8 = be 8 body.length := by
      rw [List.take_append_of_le_length (by simp)]
      exact List.take_of_length_le (by simp)
    have hdrop : (be 8 body.length ++ (body ++ tail)).drop 8 = body ++ tail := by
      rw [List.drop_append_of_le_length (by simp)]
      rw [List.drop_of_length_le (by simp)]; rfl
    simp only [hlen, ↓reduceIte, htake, hdrop, beNat_be8 _ h]
    have h5 : ¬ body.length ≤ 255 := by omega
    have h6 : ¬ (body ++ tail).length < body.length := by simp
    simp [h5, h6]
  · have hn : body.length ≤ 255 := by omega
    simp only [hl, ↓reduceIte, List.cons_append, List.nil_append, parseFrame]
    have hfl : ∀ b : Bool, ((if b then (1 : UInt8) else 0) &&& 0xF8 ≠ 0) = False ∧
        (((if b then (1 : UInt8) else 0) &&& 2 ≠ 0) = False) ∧
        (((if b then (1 : UInt8) else 0) &&& 1 ≠ 0) = (b = true)) ∧
        (((if b then (1 : UInt8) else 0) &&& 4 ≠ 0) = False) := by
      intro b; cases b <;> decide
    obtain ⟨h1, h2, h3, h4⟩ := hfl more
    simp only [h1, h2, h3, h4, ↓reduceIte, false_and]
    simp [ofNat_toNat_small _ hn]

theorem encodeFrame_ne_nil (more : Bool) (body : Bytes) : encodeFrame more body ≠ [] := by
  simp [encodeFrame, frameHeader]; split <;> simp

theorem encodeMsg_ne_nil (fs : List Bytes) (h : fs ≠ []) : encodeMsg fs ≠ [] := by
  match fs, h with
  | [f], _ => simpa [encodeMsg] using encodeFrame_ne_nil false f
  | f :: g :: gs, _ =>
    simp only [encodeMsg]
    intro hc
    exact encodeFrame_ne_nil true f (List.append_eq_nil_iff.mp hc).1

theorem parseFrames_cons {bs rest : Bytes} {f : RFrame} (hne : bs ≠ [])
    (hp : parseFrame bs = some (f, rest)) :
    parseFrames bs = (parseFrames rest).map (f :: ·) := by
  rw [parseFrames]
  simp only [hne, ↓reduceDIte]
  split
  · rename_i h; rw [hp] at h; simp at h
  · rename_i f' rest' h
    rw [hp] at h; simp at h; obtain ⟨rfl, rfl⟩ := h
    cases parseFrames rest <;> simp

theorem parseFrames_encodeMsg_append (fs : List Bytes) (h64 : ∀ f ∈ fs, f.length < 2 ^ 64)
    (tail : Bytes) :
    parseFrames (encodeMsg fs ++ tail) = (parseFrames tail).map (tagMore fs ++ ·) := by
  induction fs with
  | nil => simp [encodeMsg, tagMore]
  | cons f fs ih =>
    cases fs with
    | nil =>
      have hf := h64 f (by simp)
      simp only [encodeMsg]
      rw [parseFrames_cons (by simp [encodeFrame_ne_nil]) (parseFrame_encodeFrame false f tail hf)]
      simp [tagMore]
    | cons g gs =>
      have hf := h64 f (by simp)
      have ih' := ih (fun x hx => h64 x (by simp [hx]))
      simp only [encodeMsg, List.append_assoc]
      rw [parseFrames_cons (by simp [encodeFrame_ne_nil])
        (parseFrame_encodeFrame true f (encodeMsg (g :: gs) ++ tail) hf), ih']
      cases parseFrames tail <;> simp [tagMore]

end Zmq
