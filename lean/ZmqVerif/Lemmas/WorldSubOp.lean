import ZmqVerif.Lemmas.WorldSend
namespace Zmq.W
open Zmq

/-- what the subscribe/unsubscribe future has handed to peer `k` beyond `base`, by the future's state; `none` = `k` has
been dealt with (told, or its write failed) -/
def subExpect (enc : Bytes) (k : Ident) (todo : List Ident) (cur : Option (Ident × SendSt)) : Option Bytes :=
  if k ∈ todo then some []
  else match cur with
    | some (j, st) => if j = k then some (SendSt.handed enc st) else none
    | none => none

/-- the invariant of a `subscribe`/`unsubscribe` in progress, seen from ONE registered peer `k` (pipe `p`, shared with no
other peer) -/
def SubInv (w : World) (sid : Nat) (k : Ident) (p : Nat) (base enc : Bytes) (todo : List Ident)
    (cur : Option (Ident × SendSt)) (failed : Bool) : Prop :=
  ∃ s wr, getSock w sid = some s ∧ ilookup s.peers k = some wr ∧ wr.pipe = p ∧
    (∀ j wr2, j ≠ k → ilookup s.peers j = some wr2 → wr2.pipe ≠ p) ∧
    todo.Nodup ∧ (∀ j st, cur = some (j, st) → j ∉ todo ∧ (st = .feeding enc ∨ st = .flushing)) ∧
    (match subExpect enc k todo cur with
     | some x => outOf w.pipes wr = base ++ x
     | none => failed = true ∨ outOf w.pipes wr = base ++ enc)

theorem outOf_setSock (w : World) (sid : Nat) (s : Socket) (wr : Wr) : outOf (setSock w sid s).pipes wr = outOf w.pipes wr := rfl

/-- **One poll of `subscribe` / `unsubscribe` (after the set has changed), seen from one peer.**  The future walks the
peers that were registered when it started and announces the change to each with a full `send` (feed + flush).
`SubInv` is kept by every poll, however many peers it gets through, whatever the other peers' connections do
(back-pressure, errors, peers that vanished); when the call completes WITHOUT error, peer `k`'s outgoing stream is
`base` followed by the complete announcement — exactly once, whole. -/
theorem subOpPoll_spec (fuel : Nat) (w : World) (sid : Nat) (isSub : Bool) (topic : Bytes) (k : Ident) (p : Nat) (base : Bytes)
    (todo : List Ident) (cur : Option (Ident × SendSt)) (failed : Bool)
    (hinv : SubInv w sid k p base (encodeMsg (subsMsg isSub topic)) todo cur failed)
    (w' : World) (f' : FutSt) (o : POut)
    (h : subOpPoll fuel w sid isSub topic true todo cur failed = (w', f', o)) :
    match (generalizing := false) f', o with
    | .subOp _ _ _ _ todo' cur' failed', .pending =>
        SubInv w' sid k p base (encodeMsg (subsMsg isSub topic)) todo' cur' failed'
    | _, .ready .okUnit => ∃ s' wr', getSock w' sid = some s' ∧ ilookup s'.peers k = some wr' ∧ wr'.pipe = p ∧
        outOf w'.pipes wr' = base ++ encodeMsg (subsMsg isSub topic)
    | _, .ready (.err _) => True
    | _, _ => False := by
  induction fuel generalizing w todo cur failed with
  | zero =>
    simp only [subOpPoll, Prod.mk.injEq] at h
    obtain ⟨rfl, rfl, rfl⟩ := h
    trivial
  | succ fuel ih =>
    obtain ⟨s, wr, hs, hk, hp, hdist, hnd, hcur, hexp⟩ := hinv
    unfold subOpPoll at h
    simp only [hs, Bool.not_true, Bool.false_eq_true, ↓reduceIte] at h
    cases cur with
    | none =>
      simp only at h
      cases todo with
      | nil =>
        simp only at h
        cases failed with
        | true =>
          simp only [↓reduceIte, Prod.mk.injEq] at h
          obtain ⟨rfl, rfl, rfl⟩ := h
          trivial
        | false =>
          simp only [Bool.false_eq_true, ↓reduceIte, Prod.mk.injEq] at h
          obtain ⟨rfl, rfl, rfl⟩ := h
          simp only [subExpect, List.not_mem_nil, ↓reduceIte] at hexp
          rcases hexp with hf | ho
          · cases hf
          · exact ⟨s, wr, hs, hk, hp, ho⟩
      | cons j rest =>
        simp only at h
        refine ih w rest (some (j, .feeding _)) failed ?_ h
        have hnd' := List.nodup_cons.mp hnd
        refine ⟨s, wr, hs, hk, hp, hdist, hnd'.2, ?_, ?_⟩
        · intro j' st' he
          simp only [Option.some.injEq, Prod.mk.injEq] at he
          obtain ⟨rfl, rfl⟩ := he
          exact ⟨hnd'.1, Or.inl rfl⟩
        · by_cases hjk : j = k
          · subst hjk
            simp only [subExpect, hnd'.1, ↓reduceIte, SendSt.handed, List.append_nil]
            simp only [subExpect, List.mem_cons, true_or, ↓reduceIte, List.append_nil] at hexp
            exact hexp
          · by_cases hkr : k ∈ rest
            · simp only [subExpect, hkr, ↓reduceIte]
              simp only [subExpect, List.mem_cons, hkr, or_true, ↓reduceIte] at hexp
              exact hexp
            · have hkn : k ∉ j :: rest := by
                simp only [List.mem_cons, not_or]; exact ⟨fun e => hjk e.symm, hkr⟩
              simp only [subExpect, hkr, ↓reduceIte, hjk]
              simp only [subExpect, hkn, ↓reduceIte] at hexp
              exact hexp
    | some c =>
      obtain ⟨j, st⟩ := c
      obtain ⟨hjt, hst⟩ := hcur j st rfl
      simp only at h
      have hexp_other : ∀ {c2 : Option (Ident × SendSt)}, j ≠ k → (∀ j2 st2, c2 = some (j2, st2) → j2 ≠ k) →
          subExpect (encodeMsg (subsMsg isSub topic)) k todo c2 = subExpect (encodeMsg (subsMsg isSub topic)) k todo (some (j, st)) := by
        intro c2 hjk hc2
        unfold subExpect
        split
        · rfl
        · simp only [hjk, ↓reduceIte]
          cases c2 with
          | none => rfl
          | some c => obtain ⟨j2, st2⟩ := c; simp [hc2 j2 st2 rfl]
      by_cases hjk : j = k
      · subst hjk
        simp only [hk] at h
        have hout : outOf w.pipes wr = base ++ SendSt.handed (encodeMsg (subsMsg isSub topic)) st := by
          simpa [subExpect, hjt] using hexp
        obtain ⟨h1, h2, h3, h4⟩ := wrSendPoll_spec w.pipes wr base _ st hst hout
        cases hq : wrSendPoll w.pipes wr st with
        | mk ps1 rest1 =>
          obtain ⟨wr1, st1, r⟩ := rest1
          rw [hq] at h1 h2 h3 h4
          simp only at h1 h2 h3 h4
          simp only [hq] at h
          have hdist' : ∀ j' wr2, j' ≠ j → ilookup (iinsert s.peers j wr1) j' = some wr2 → wr2.pipe ≠ p := by
            intro j' wr2 hj' hl
            rw [ilookup_iinsert_other _ _ _ _ hj'] at hl
            exact hdist j' wr2 hj' hl
          cases r with
          | pending =>
            simp only [Prod.mk.injEq] at h
            obtain ⟨rfl, rfl, rfl⟩ := h
            refine ⟨_, wr1, getSock_setSock_same _ _ _, ilookup_iinsert_same _ _ _, h1.trans hp, hdist', hnd, ?_, ?_⟩
            · intro j' st' he
              simp only [Option.some.injEq, Prod.mk.injEq] at he
              obtain ⟨rfl, rfl⟩ := he
              exact ⟨hjt, h2⟩
            · simp only [subExpect, hjt, ↓reduceIte]
              exact h3
          | done =>
            simp only at h
            refine ih _ todo none failed ?_ h
            refine ⟨_, wr1, getSock_setSock_same _ _ _, ilookup_iinsert_same _ _ _, h1.trans hp, hdist', hnd, ?_, ?_⟩
            · intro j' st' he; cases he
            · simp only [subExpect, hjt, ↓reduceIte]
              right
              have := h4 rfl
              simp only [outOf, setSock_pipes, this.1, List.append_nil]
              rw [h1]; exact this.2
          | error =>
            simp only at h
            refine ih _ todo none true ?_ h
            refine ⟨_, wr1, getSock_setSock_same _ _ _, ilookup_iinsert_same _ _ _, h1.trans hp, hdist', hnd, ?_, ?_⟩
            · intro j' st' he; cases he
            · simp only [subExpect, hjt, ↓reduceIte]
              exact Or.inl trivial
      · have hne : ∀ j2 st2, (none : Option (Ident × SendSt)) = some (j2, st2) → j2 ≠ k := fun _ _ he => by cases he
        cases hlj : ilookup s.peers j with
        | none =>
          simp only [hlj] at h
          refine ih w todo none failed ?_ h
          refine ⟨s, wr, hs, hk, hp, hdist, hnd, (fun _ _ he => by cases he), ?_⟩
          rw [hexp_other hjk hne]; exact hexp
        | some wrj =>
          simp only [hlj] at h
          have hpj : wrj.pipe ≠ p := hdist j wrj hjk hlj
          obtain ⟨g1, g2, _, _⟩ := wrSendPoll_spec0 w.pipes wrj (encodeMsg (subsMsg isSub topic)) st hst
          have hfrp : getPipe (wrSendPoll w.pipes wrj st).1 p = getPipe w.pipes p :=
            wrSendPoll_frame w.pipes wrj st p (fun e => hpj e.symm)
          cases hq : wrSendPoll w.pipes wrj st with
          | mk ps1 rest1 =>
            obtain ⟨wrj1, st1, r⟩ := rest1
            rw [hq] at g1 g2 hfrp
            simp only at g1 g2 hfrp
            simp only [hq] at h
            have hk' : ilookup (iinsert s.peers j wrj1) k = some wr := by
              rw [ilookup_iinsert_other _ _ _ _ (fun e => hjk e.symm)]; exact hk
            have hdist' : ∀ j' wr2, j' ≠ k → ilookup (iinsert s.peers j wrj1) j' = some wr2 → wr2.pipe ≠ p := by
              intro j' wr2 hj' hl
              by_cases hjj : j' = j
              · subst hjj
                rw [ilookup_iinsert_same] at hl; cases hl
                rw [g1]; exact hpj
              · rw [ilookup_iinsert_other _ _ _ _ hjj] at hl
                exact hdist j' wr2 hj' hl
            have hout' : outOf ps1 wr = outOf w.pipes wr := by
              simp only [outOf, hp, hfrp]
            cases r with
            | pending =>
              simp only [Prod.mk.injEq] at h
              obtain ⟨rfl, rfl, rfl⟩ := h
              refine ⟨_, wr, getSock_setSock_same _ _ _, hk', hp, hdist', hnd, ?_, ?_⟩
              · intro j' st' he
                simp only [Option.some.injEq, Prod.mk.injEq] at he
                obtain ⟨rfl, rfl⟩ := he
                exact ⟨hjt, g2⟩
              · have : subExpect (encodeMsg (subsMsg isSub topic)) k todo (some (j, st1)) =
                    subExpect (encodeMsg (subsMsg isSub topic)) k todo (some (j, st)) :=
                  hexp_other hjk (fun j2 st2 he => by
                    simp only [Option.some.injEq, Prod.mk.injEq] at he; rw [← he.1]; exact hjk)
                rw [this]
                simp only [setSock_pipes, hout']
                exact hexp
            | done =>
              simp only at h
              refine ih _ todo none failed ?_ h
              refine ⟨_, wr, getSock_setSock_same _ _ _, hk', hp, hdist', hnd, (fun _ _ he => by cases he), ?_⟩
              rw [hexp_other hjk hne]
              simp only [setSock_pipes, hout']
              exact hexp
            | error =>
              simp only at h
              refine ih _ todo none true ?_ h
              refine ⟨_, wr, getSock_setSock_same _ _ _, hk', hp, hdist', hnd, (fun _ _ he => by cases he), ?_⟩
              rw [hexp_other hjk hne]
              simp only [setSock_pipes, hout']
              revert hexp
              cases subExpect (encodeMsg (subsMsg isSub topic)) k todo (some (j, st)) with
              | some x => exact id
              | none => exact fun _ => Or.inl trivial

theorem mem_keys_of_ilookup {α} (m : List (Ident × α)) (k : Ident) (v : α) (h : ilookup m k = some v) :
    k ∈ m.map (·.1) := by
  induction m with
  | nil => simp [ilookup] at h
  | cons e t ih =>
    simp only [ilookup] at h
    split at h
    · rename_i he
      have : e.1 = k := by simpa using he
      simp [this]
    · simp [ih h]

/-- the invariant holds when the walk starts: every registered peer is still to be told, nothing has been handed over -/
theorem SubInv.start (w : World) (sid : Nat) (s : Socket) (k : Ident) (wr : Wr) (enc : Bytes) (subs' : List Bytes)
    (hk : ilookup s.peers k = some wr)
    (hdist : ∀ j wr2, j ≠ k → ilookup s.peers j = some wr2 → wr2.pipe ≠ wr.pipe)
    (hnd : (s.peers.map (·.1)).Nodup) :
    SubInv (setSock w sid { s with subs := subs' }) sid k wr.pipe (outOf w.pipes wr) enc (s.peers.map (·.1)) none false := by
  refine ⟨_, wr, getSock_setSock_same _ _ _, hk, rfl, hdist, hnd, (fun _ _ he => by cases he), ?_⟩
  simp only [subExpect, mem_keys_of_ilookup _ _ _ hk, ↓reduceIte, List.append_nil]
  rfl

end Zmq.W
