import ZmqVerif.Lemmas.WorldHist
namespace Zmq.W
open Zmq

theorem inbufOf_wrSendPoll (ps : Pipes) (wr : Wr) (st : SendSt) (j : Nat) :
    inbufOf (wrSendPoll ps wr st).1 j = inbufOf ps j := by
  simp only [wrSendPoll]
  by_cases h : j = wr.pipe
  · subst h; simp [inbufOf, getPipe_setPipe_same]
  · simp [inbufOf, getPipe_setPipe_other _ _ _ _ h]

/-- `negotiate_version` -/
def vok (g : Greeting) : Prop := g.major.toNat > 3 ∨ (g.major.toNat = 3 ∧ g.minor.toNat ≥ 0)

/-- **The handshake invariant.**  `total` is the decode of the connection's WHOLE byte stream so far (from its
first byte).  Whatever stage the handshake future is in, `total` is exactly what the future has consumed so
far followed by what its reader still has in front of it: nothing before the greeting has been judged, then a
greeting of an acceptable version, then a READY whose properties the admission decision (`admitPeer`: Socket-Type
present, known, compatible; Identity ≤ 255) accepts under identity `ident`. -/
def HS (t : SockType) (total : RunOut) (stage : AStage) (rd : Rd) (ps : Pipes) : Prop :=
  match stage with
  | .sendGreeting _ => total = rd.rem ps
  | .readGreeting => total = rd.rem ps
  | .sendReady _ => ∃ g, total = (rd.rem ps).pre [.greeting g] ∧ vok g
  | .readReady => ∃ g, total = (rd.rem ps).pre [.greeting g] ∧ vok g
  | .resub ident _ _ => ∃ g props fresh fresh', total = (rd.rem ps).pre [.greeting g, .command props] ∧ vok g ∧
      admitPeer t props fresh = .ok (ident, fresh')

/-- what an admitted connection's byte stream looks like -/
def Admitted (t : SockType) (total : RunOut) (ident : Ident) : Prop :=
  ∃ g props rest fresh fresh', total.items = .greeting g :: .command props :: rest ∧ vok g ∧
    admitPeer t props fresh = .ok (ident, fresh')

theorem HS.frame {t : SockType} {total : RunOut} {stage : AStage} {rd : Rd} {ps ps' : Pipes}
    (h : HS t total stage rd ps) (hf : inbufOf ps' rd.pipe = inbufOf ps rd.pipe) : HS t total stage rd ps' := by
  have : rd.rem ps' = rd.rem ps := Rd.rem_frame rd hf
  cases stage <;> simp only [HS] at h ⊢ <;> rw [this] <;> exact h

/-- bytes arriving keep the invariant (for the extended stream) -/
theorem HS.reveal {t : SockType} {total : RunOut} {stage : AStage} {rd : Rd} {ps ps' : Pipes} (x : Bytes)
    (h : HS t total stage rd ps) (hin : inbufOf ps' rd.pipe = inbufOf ps rd.pipe ++ x) :
    HS t (total.extend x) stage rd ps' := by
  have e := Rd.rem_reveal rd x hin
  cases stage with
  | sendGreeting st => simp only [HS] at h ⊢; rw [h, e]
  | readGreeting => simp only [HS] at h ⊢; rw [h, e]
  | sendReady st => simp only [HS] at h ⊢; obtain ⟨g, h1, h2⟩ := h; exact ⟨g, by rw [h1, extend_pre, e], h2⟩
  | readReady => simp only [HS] at h ⊢; obtain ⟨g, h1, h2⟩ := h; exact ⟨g, by rw [h1, extend_pre, e], h2⟩
  | resub ident todo cur =>
    simp only [HS] at h ⊢
    obtain ⟨g, props, f1, f2, h1, h2, h3⟩ := h
    exact ⟨g, props, f1, f2, by rw [h1, extend_pre, e], h2, h3⟩

/-- **One poll of the handshake future keeps the invariant; if it completes with `Ok(identity)`, the
connection's byte stream begins with an acceptable greeting and an admissible READY.**  For every stage,
every segmentation, every state of the write side (back-pressure, errors), SUB's re-announcement included. -/
theorem attachPoll_spec (fuel : Nat) (w : World) (sid pid : Nat) (stage : AStage) (rd : Rd) (wr : Wr)
    (s : Socket) (hs : getSock w sid = some s) (total : RunOut) (hinv : HS s.typ total stage rd w.pipes)
    (p : Nat) (hpipe : rd.pipe = p) (w' : World) (f' : FutSt) (o : POut) (h : attachPoll fuel w sid pid stage rd wr = (w', f', o)) :
    match (generalizing := false) f', o with
    | .attach _ _ stage' rd' _, .pending => rd'.pipe = p ∧ HS s.typ total stage' rd' w'.pipes
    | _, .ready (.okId ident) => Admitted s.typ total ident
    | _, .ready (.err _) => True
    | _, _ => False := by
  induction fuel generalizing w stage rd wr with
  | zero =>
    simp only [attachPoll, Prod.mk.injEq] at h
    obtain ⟨rfl, rfl, rfl⟩ := h
    exact ⟨hpipe, hinv⟩
  | succ fuel ih =>
    unfold attachPoll at h
    simp only [hs] at h
    cases stage with
    | sendGreeting st =>
      simp only at h
      cases hq : wrSendPoll w.pipes wr st with
      | mk ps1 rest =>
        obtain ⟨wr1, st1, r⟩ := rest
        have hin : ∀ j, inbufOf ps1 j = inbufOf w.pipes j := fun j => by
          have := inbufOf_wrSendPoll w.pipes wr st j; rw [hq] at this; exact this
        simp only [hq] at h
        cases r with
        | pending =>
          simp only [Prod.mk.injEq] at h
          obtain ⟨rfl, rfl, rfl⟩ := h
          exact ⟨hpipe, HS.frame (show HS s.typ total (.sendGreeting st1) rd w.pipes from hinv) (hin _)⟩
        | error =>
          simp only [Prod.mk.injEq] at h
          obtain ⟨rfl, rfl, rfl⟩ := h
          trivial
        | done =>
          exact ih { w with pipes := ps1 } .readGreeting rd wr1 hs (HS.frame (show HS s.typ total .readGreeting rd w.pipes from hinv) (hin _)) hpipe h
    | readGreeting =>
      simp only at h
      cases hrp : readerPoll (readFuel w.pipes rd) w.pipes rd .user with
      | mk r0 rest0 =>
        obtain ⟨ps0, rd0⟩ := rest0
        obtain ⟨hp, hfr, hres⟩ := readerPoll_spec _ w.pipes rd _ (readFuel_ok w.pipes rd) r0 ps0 rd0 hrp
        simp only [hrp] at h
        simp only [HS] at hinv
        cases r0 with
        | pending =>
          simp only [Prod.mk.injEq] at h
          obtain ⟨rfl, rfl, rfl⟩ := h
          exact ⟨hp.trans hpipe, by simp only [HS]; rw [hinv]; exact hres.1⟩
        | eof =>
          simp only [Prod.mk.injEq] at h
          obtain ⟨rfl, rfl, rfl⟩ := h
          trivial
        | err e =>
          simp only [Prod.mk.injEq] at h
          obtain ⟨rfl, rfl, rfl⟩ := h
          trivial
        | item i =>
          cases i with
          | greeting g =>
            simp only at h hres
            split at h
            · rename_i hv
              refine ih { w with pipes := ps0 } _ rd0 wr hs ?_ (hp.trans hpipe) h
              simp only [HS]; exact ⟨g, by rw [hinv, hres], hv⟩
            · simp only [Prod.mk.injEq] at h
              obtain ⟨rfl, rfl, rfl⟩ := h
              trivial
          | command p =>
            simp only [Prod.mk.injEq] at h
            obtain ⟨rfl, rfl, rfl⟩ := h
            trivial
          | message m =>
            simp only [Prod.mk.injEq] at h
            obtain ⟨rfl, rfl, rfl⟩ := h
            trivial
    | sendReady st =>
      simp only at h
      cases hq : wrSendPoll w.pipes wr st with
      | mk ps1 rest =>
        obtain ⟨wr1, st1, r⟩ := rest
        have hin : ∀ j, inbufOf ps1 j = inbufOf w.pipes j := fun j => by
          have := inbufOf_wrSendPoll w.pipes wr st j; rw [hq] at this; exact this
        simp only [hq] at h
        cases r with
        | pending =>
          simp only [Prod.mk.injEq] at h
          obtain ⟨rfl, rfl, rfl⟩ := h
          exact ⟨hpipe, HS.frame (show HS s.typ total (.sendReady st1) rd w.pipes from hinv) (hin _)⟩
        | error =>
          simp only [Prod.mk.injEq] at h
          obtain ⟨rfl, rfl, rfl⟩ := h
          trivial
        | done =>
          exact ih { w with pipes := ps1 } .readReady rd wr1 hs (HS.frame (show HS s.typ total .readReady rd w.pipes from hinv) (hin _)) hpipe h
    | readReady =>
      simp only at h
      cases hrp : readerPoll (readFuel w.pipes rd) w.pipes rd .user with
      | mk r0 rest0 =>
        obtain ⟨ps0, rd0⟩ := rest0
        obtain ⟨hp, hfr, hres⟩ := readerPoll_spec _ w.pipes rd _ (readFuel_ok w.pipes rd) r0 ps0 rd0 hrp
        simp only [hrp] at h
        simp only [HS] at hinv
        obtain ⟨g, hg, hv⟩ := hinv
        cases r0 with
        | pending =>
          simp only [Prod.mk.injEq] at h
          obtain ⟨rfl, rfl, rfl⟩ := h
          exact ⟨hp.trans hpipe, by simp only [HS]; exact ⟨g, by rw [hg, hres.1], hv⟩⟩
        | eof =>
          simp only [Prod.mk.injEq] at h
          obtain ⟨rfl, rfl, rfl⟩ := h
          trivial
        | err e =>
          simp only [Prod.mk.injEq] at h
          obtain ⟨rfl, rfl, rfl⟩ := h
          trivial
        | item i =>
          cases i with
          | greeting g' =>
            simp only [Prod.mk.injEq] at h
            obtain ⟨rfl, rfl, rfl⟩ := h
            trivial
          | message m =>
            simp only [Prod.mk.injEq] at h
            obtain ⟨rfl, rfl, rfl⟩ := h
            trivial
          | command props =>
            simp only at h hres
            have htot : total = RunOut.pre [.greeting g, .command props] (rd0.rem ps0) := by
              rw [hg, hres, RunOut.pre_pre]; rfl
            cases had : admitPeer s.typ props w.fresh with
            | error e =>
              simp only [had, Prod.mk.injEq] at h
              obtain ⟨rfl, rfl, rfl⟩ := h
              trivial
            | ok r =>
              obtain ⟨ident, fresh'⟩ := r
              simp only [had] at h
              have hadm : Admitted s.typ total ident :=
                ⟨g, props, (rd0.rem ps0).items, w.fresh, fresh', by rw [htot]; rfl, hv, had⟩
              split at h
              · refine ih { w with pipes := ps0, fresh := fresh' } _ rd0 wr hs ?_ (hp.trans hpipe) h
                simp only [HS]
                exact ⟨g, props, w.fresh, fresh', htot, hv, had⟩
              · split at h
                · simp only [Prod.mk.injEq] at h
                  obtain ⟨rfl, rfl, rfl⟩ := h
                  exact hadm
                · simp only [Prod.mk.injEq] at h
                  obtain ⟨rfl, rfl, rfl⟩ := h
                  exact hadm
    | resub ident todo cur =>
      simp only at h
      have hadm : Admitted s.typ total ident := by
        simp only [HS] at hinv
        obtain ⟨g, props, f1, f2, h1, h2, h3⟩ := hinv
        exact ⟨g, props, (rd.rem w.pipes).items, f1, f2, by rw [h1]; rfl, h2, h3⟩
      cases cur with
      | some st =>
        simp only at h
        cases hq : wrSendPoll w.pipes wr st with
        | mk ps1 rest =>
          obtain ⟨wr1, st1, r⟩ := rest
          have hin : ∀ j, inbufOf ps1 j = inbufOf w.pipes j := fun j => by
            have := inbufOf_wrSendPoll w.pipes wr st j; rw [hq] at this; exact this
          simp only [hq] at h
          cases r with
          | pending =>
            simp only [Prod.mk.injEq] at h
            obtain ⟨rfl, rfl, rfl⟩ := h
            exact ⟨hpipe, HS.frame (show HS s.typ total (.resub ident todo (some st1)) rd w.pipes from hinv) (hin _)⟩
          | error =>
            simp only [Prod.mk.injEq] at h
            obtain ⟨rfl, rfl, rfl⟩ := h
            exact hadm
          | done =>
            exact ih { w with pipes := ps1 } (.resub ident todo none) rd wr1 hs
              (HS.frame (show HS s.typ total (.resub ident todo none) rd w.pipes from hinv) (hin _)) hpipe h
      | none =>
        simp only at h
        cases todo with
        | cons t rest =>
          simp only at h
          exact ih w _ rd wr hs (show HS s.typ total (.resub ident rest (some _)) rd w.pipes from hinv) hpipe h
        | nil =>
          simp only at h
          split at h
          · simp only [Prod.mk.injEq] at h
            obtain ⟨rfl, rfl, rfl⟩ := h
            exact hadm
          · simp only [Prod.mk.injEq] at h
            obtain ⟨rfl, rfl, rfl⟩ := h
            exact hadm

end Zmq.W
