import ZmqVerif.Model.Endpoint
namespace Zmq.Ep
open Zmq.Ip

/-! ### facts about the helpers -/

theorem splitLastColon_append (a b : Str) (hb : ':' ∉ b) : splitLastColon (a ++ ':' :: b) = some (a, b) := by
  have hnone : splitLastColon b = none := by
    induction b with
    | nil => rfl
    | cons c cs ih =>
      simp at hb
      simp [splitLastColon, ih hb.2]
      exact fun h => hb.1 h.symm
  induction a with
  | nil => simp [splitLastColon, hnone]
  | cons c cs ih => simp [splitLastColon, ih]

theorem digitChar_facts : ∀ d : Fin 10,
    isDigit (Char.ofNat (d.val + 48)) = true ∧ digitVal (Char.ofNat (d.val + 48)) = d.val ∧
    Char.ofNat (d.val + 48) ≠ ':' ∧ Char.ofNat (d.val + 48) ≠ '\n' := by decide

theorem digitChar (d : Nat) (h : d < 10) :
    isDigit (Char.ofNat (d + 48)) = true ∧ digitVal (Char.ofNat (d + 48)) = d ∧
    Char.ofNat (d + 48) ≠ ':' ∧ Char.ofNat (d + 48) ≠ '\n' := digitChar_facts ⟨d, h⟩

theorem showNatAux_digits (fuel n : Nat) : ∀ c ∈ showNatAux fuel n, isDigit c = true := by
  induction fuel generalizing n with
  | zero => simp [showNatAux]
  | succ f ih =>
    intro c hc
    simp only [showNatAux] at hc
    split at hc
    · rename_i hlt
      simp at hc; subst hc
      exact (digitChar n hlt).1
    · simp at hc
      rcases hc with hc | hc
      · exact ih _ c hc
      · subst hc
        exact (digitChar (n % 10) (Nat.mod_lt _ (by omega))).1

theorem digitsVal_append (xs : Str) (c : Char) : digitsVal (xs ++ [c]) = digitsVal xs * 10 + digitVal c := by
  simp [digitsVal, List.foldl_append]

theorem digitsVal_showNatAux (fuel n : Nat) (h : n < fuel) : digitsVal (showNatAux fuel n) = n := by
  induction fuel generalizing n with
  | zero => omega
  | succ f ih =>
    simp only [showNatAux]
    split
    · rename_i hlt
      simp [digitsVal, (digitChar n hlt).2.1]
    · rename_i hge
      rw [digitsVal_append, ih (n / 10) (by omega), (digitChar (n % 10) (Nat.mod_lt _ (by omega))).2.1]
      omega

theorem showNatAux_ne_nil (fuel n : Nat) (h : n < fuel) : showNatAux fuel n ≠ [] := by
  cases fuel with
  | zero => omega
  | succ f => simp only [showNatAux]; split <;> simp

theorem parsePort_showNat (n : Nat) (h : n ≤ 65535) : parsePort (showNat n) = some n := by
  unfold parsePort showNat
  have h1 := showNatAux_ne_nil (n + 1) n (by omega)
  have h2 : (showNatAux (n + 1) n).all isDigit = true := by
    rw [List.all_eq_true]; exact showNatAux_digits _ _
  simp [h1, h2, digitsVal_showNatAux (n + 1) n (by omega), h]

theorem isDigit_not_colon (c : Char) (h : isDigit c = true) : c ≠ ':' ∧ c ≠ '\n' := by
  constructor <;> (intro e; subst e; revert h; decide)

theorem showNat_no_colon (n : Nat) : ':' ∉ showNat n := by
  intro h; exact (isDigit_not_colon _ (showNatAux_digits _ _ _ h)).1 rfl

theorem showNat_no_nl (n : Nat) : '\n' ∉ showNat n := by
  intro h; exact (isDigit_not_colon _ (showNatAux_digits _ _ _ h)).2 rfl


/-! ### what is assumed about `std::net` (validated by sampling against the real std) -/

structure Laws (m : IpModel) : Prop where
  rt4 : ∀ a, m.parse4 (m.show4 a) = some a
  rt6 : ∀ a, m.parse6 (m.show6 a) = some a
  chars4 : ∀ s a, m.parse4 s = some a → ∀ c ∈ s, isDigit c = true ∨ c = '.'
  show4_ne : ∀ a, m.show4 a ≠ []
  show6_len : ∀ a, 2 ≤ (m.show6 a).length
  show6_clean : ∀ a, '\n' ∉ m.show6 a

theorem utf8Len_ge (s : Str) : s.length ≤ utf8Len s := by
  unfold utf8Len
  suffices ∀ n, n + s.length ≤ s.foldl (fun n c => n + c.utf8Size) n by simpa using this 0
  induction s with
  | nil => intro n; simp
  | cons c cs ih =>
    intro n
    simp only [List.foldl_cons, List.length_cons]
    have := ih (n + c.utf8Size)
    have hc : 1 ≤ c.utf8Size := Char.utf8Size_pos c
    omega

theorem splitLastColon_eq {s a b : Str} (h : splitLastColon s = some (a, b)) : s = a ++ ':' :: b := by
  induction s generalizing a b with
  | nil => simp [splitLastColon] at h
  | cons c cs ih =>
    simp only [splitLastColon] at h
    split at h
    · rename_i a' b' hr
      simp at h; obtain ⟨rfl, rfl⟩ := h
      simp [ih hr]
    · split at h
      · rename_i hc; simp at h; obtain ⟨rfl, rfl⟩ := h; simp [hc]
      · simp at h

/-- the fields extracted from a successful tcp parse -/
theorem parse_tcp_inv {m : IpModel} {s : Str} {h : Host m} {port : Nat}
    (hp : parseEndpoint m s = .ok (.tcp h port)) :
    ∃ hs, hs ≠ [] ∧ '\n' ∉ hs ∧ port ≤ 65535 ∧ h = parseHost m hs := by
  unfold parseEndpoint at hp
  simp only at hp
  split at hp
  · simp at hp
  · split at hp
    · rename_i addr _
      split at hp
      · simp at hp
      · rename_i haddr
        split at hp
        · split at hp
          · simp at hp
          · rename_i hs p hsplit
            split at hp
            · simp at hp
            · rename_i hne
              split at hp
              · simp at hp
              · rename_i port' hport
                simp at hp
                obtain ⟨rfl, rfl⟩ := hp
                refine ⟨hs, hne, ?_, ?_, rfl⟩
                · have := splitLastColon_eq hsplit
                  intro hmem
                  apply haddr
                  right
                  simp [this]
                  exact Or.inl hmem
                · unfold parsePort at hport
                  split at hport
                  · simp only [] at hport
                    split at hport
                    · simp at hport; omega
                    · simp at hport
                  · simp at hport
        · split at hp <;> simp at hp
    · simp at hp

theorem parse_ipc_inv {m : IpModel} {s path : Str} (hp : parseEndpoint m s = .ok (.ipc path)) :
    path ≠ [] ∧ '\n' ∉ path := by
  unfold parseEndpoint at hp
  simp only at hp
  split at hp
  · simp at hp
  · split at hp
    · rename_i addr _
      split at hp
      · simp at hp
      · rename_i haddr
        split at hp
        · split at hp
          · simp at hp
          · split at hp
            · simp at hp
            · split at hp <;> simp at hp
        · split at hp
          · simp at hp; subst hp
            constructor
            · intro e; exact haddr (Or.inl e)
            · intro e; exact haddr (Or.inr (by simpa using e))
          · simp at hp
    · simp at hp

/-- parsing a canonical tcp text -/
theorem parse_tcp_text (m : IpModel) (hs : Str) (port : Nat) (hne : hs ≠ []) (hnl : '\n' ∉ hs)
    (hport : port ≤ 65535) :
    parseEndpoint m (['t','c','p',':','/','/'] ++ hs ++ [':'] ++ showNat port)
      = .ok (.tcp (parseHost m hs) port) := by
  have htw : (['t','c','p',':','/','/'] ++ hs ++ [':'] ++ showNat port).takeWhile isLower = ['t','c','p'] := by
    simp [List.takeWhile, isLower]
  have hdw : (['t','c','p',':','/','/'] ++ hs ++ [':'] ++ showNat port).dropWhile isLower
      = ':' :: '/' :: '/' :: (hs ++ ':' :: showNat port) := by
    simp [List.dropWhile, isLower]
  unfold parseEndpoint
  simp only [htw, hdw]
  have h1 : ¬ (hs ++ ':' :: showNat port = [] ∨ (hs ++ ':' :: showNat port).any (· = '\n') = true) := by
    intro h
    rcases h with h | h
    · simp at h
    · simp at h
      rcases h with h | h
      · exact hnl h
      · exact showNat_no_nl port h
  simp only [h1, ↓reduceIte, splitLastColon_append hs (showNat port) (showNat_no_colon port), hne,
    parsePort_showNat port hport]
  simp

theorem roundtrip (m : IpModel) (L : Laws m) (s : Str) (e : Endpoint m)
    (hp : parseEndpoint m s = .ok e) : parseEndpoint m (display m e) = .ok e := by
  cases e with
  | ipc path =>
    obtain ⟨hne, hnl⟩ := parse_ipc_inv hp
    have htw : (['i','p','c',':','/','/'] ++ path).takeWhile isLower = ['i','p','c'] := by
      simp [List.takeWhile, isLower]
    have hdw : (['i','p','c',':','/','/'] ++ path).dropWhile isLower = ':' :: '/' :: '/' :: path := by
      simp [List.dropWhile, isLower]
    unfold display parseEndpoint
    simp only [htw, hdw]
    have h1 : ¬ (path = [] ∨ path.any (· = '\n') = true) := by
      intro h; rcases h with h | h
      · exact hne h
      · simp at h; exact hnl h
    simp only [h1, ↓reduceIte]
    simp
  | tcp h port =>
    obtain ⟨hs, hne, hnl, hport, rfl⟩ := parse_tcp_inv hp
    -- case analysis on how the host text was classified
    unfold parseHost
    cases h4 : m.parse4 hs with
    | some a =>
      simp only [display, showHost]
      have hne' := L.show4_ne a
      have hnl' : '\n' ∉ m.show4 a := by
        intro hmem
        rcases L.chars4 _ a (L.rt4 a) _ hmem with hd | hd
        · exact (isDigit_not_colon _ hd).2 rfl
        · simp at hd
      have := parse_tcp_text m (m.show4 a) port hne' hnl' hport
      simp only [List.append_assoc] at this ⊢
      rw [this]
      simp [parseHost, L.rt4]
    | none =>
      simp only
      split
      · rename_i a h6
        -- IPv6: displayed in brackets
        simp only [display]
        have hlen := L.show6_len a
        have hne' : ('[' :: (m.show6 a ++ [']'])) ≠ [] := by simp
        have hnl' : '\n' ∉ ('[' :: (m.show6 a ++ [']'])) := by
          intro hmem; simp at hmem
          exact L.show6_clean a hmem
        have := parse_tcp_text m ('[' :: (m.show6 a ++ [']'])) port hne' hnl' hport
        have heq : ['t','c','p',':','/','/','['] ++ m.show6 a ++ [']',':'] ++ showNat port
            = ['t','c','p',':','/','/'] ++ ('[' :: (m.show6 a ++ [']'])) ++ [':'] ++ showNat port := by simp
        rw [heq, this]
        -- the bracketed text is classified as the same IPv6 address
        have hp4 : m.parse4 ('[' :: (m.show6 a ++ [']'])) = none := by
          cases hh : m.parse4 ('[' :: (m.show6 a ++ [']'])) with
          | none => rfl
          | some b =>
            rcases L.chars4 _ b hh '[' (by simp) with hd | hd
            · exact absurd hd (by decide)
            · exact absurd hd (by decide)
        have hu : 4 ≤ utf8Len ('[' :: (m.show6 a ++ [']'])) := by
          have := utf8Len_ge ('[' :: (m.show6 a ++ [']'])); simp at this; omega
        have hlast : ('[' :: (m.show6 a ++ [']'])).getLast? = some ']' := by
          have : '[' :: (m.show6 a ++ [']']) = ('[' :: m.show6 a) ++ [']'] := by simp
          rw [this, List.getLast?_concat]
        simp [parseHost, hp4, bracketed, hu, hlast, L.rt6]
      · rename_i h6
        -- domain name: printed verbatim, classified the same way again
        simp only [display, showHost]
        have := parse_tcp_text m hs port hne hnl hport
        simp only [List.append_assoc] at this ⊢
        rw [this]
        simp only [parseHost, h4]
        rw [h6]


end Zmq.Ep
