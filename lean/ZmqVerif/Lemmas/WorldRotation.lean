import ZmqVerif.Lemmas.WorldSendStart
namespace Zmq.W
open Zmq

/-! # `send_round_robin` and the rotation queue (C10): WHO is chosen, and where it goes afterwards -/

/-- one poll of a send in progress to `k`: while `Pending` the rotation queue is untouched; on completion `k` is
appended to it -/
theorem sendRRPoll_some_rr (fuel : Nat) (w : World) (sid : Nat) (m : Msg) (k : Ident) (st : SendSt) (s : Socket)
    (hs : getSock w sid = some s) (w' : World) (f' : FutSt) (o : POut)
    (h : sendRRPoll (fuel + 1) w sid m (some (k, st)) = (w', f', o)) :
    (o = .pending → (∃ st', f' = .sendRR sid m (some (k, st'))) ∧ ∃ s', getSock w' sid = some s' ∧ s'.rr = s.rr) ∧
    (o = .ready .okUnit → ∃ s', getSock w' sid = some s' ∧ s'.rr = s.rr ++ [k]) ∧
    (∀ m', o ≠ .ready (.errReturn m')) := by
  unfold sendRRPoll at h
  simp only [hs] at h
  cases hp : ilookup s.peers k with
  | none =>
    simp only [hp, Prod.mk.injEq] at h
    obtain ⟨rfl, rfl, rfl⟩ := h
    exact ⟨(by intro h; cases h), (by intro h; cases h), (by intro m' h; cases h)⟩
  | some wr =>
    simp only [hp] at h
    rcases hw : wrSendPoll w.pipes wr st with ⟨ps, wr', st', r⟩
    simp only [hw] at h
    cases r with
    | pending =>
      simp only [Prod.mk.injEq] at h
      obtain ⟨rfl, rfl, rfl⟩ := h
      exact ⟨fun _ => ⟨⟨_, rfl⟩, _, getSock_setSock_same _ _ _, rfl⟩, (by intro h; cases h), (by intro m' h; cases h)⟩
    | done =>
      simp only [Prod.mk.injEq] at h
      obtain ⟨rfl, rfl, rfl⟩ := h
      exact ⟨(by intro h; cases h), fun _ => ⟨_, getSock_setSock_same _ _ _, rfl⟩, (by intro m' h; cases h)⟩
    | error =>
      simp only [Prod.mk.injEq] at h
      obtain ⟨rfl, rfl, rfl⟩ := h
      exact ⟨(by intro h; cases h), (by intro h; cases h), (by intro m' h; cases h)⟩

/-- the first entry of the rotation queue that is still registered, with what precedes it (all vanished) and what
follows it -/
def FirstLive (s : Socket) (k : Ident) (rest : List Ident) : Prop :=
  ∃ stale, s.rr = stale ++ k :: rest ∧ (∀ j ∈ stale, ilookup s.peers j = none) ∧ (ilookup s.peers k).isSome

/-- **Who is chosen.**  The first poll of a round-robin send walks the rotation queue from its head: entries whose peer
has vanished are dropped; the FIRST entry that is still registered is the peer chosen — whatever follows it in the queue
stays, in order.  While the send to it is in progress the queue holds what followed; when it completes the chosen peer
is appended at the back.  The message is handed back only when NO entry is registered. -/
theorem sendRRStart_choice (fuel : Nat) (w : World) (sid : Nat) (m : Msg) (s : Socket) (hs : getSock w sid = some s)
    (w' : World) (f' : FutSt) (o : POut) (h : sendRRPoll fuel w sid m none = (w', f', o)) :
    (o = .pending → ∃ k st' rest, f' = .sendRR sid m (some (k, st')) ∧ FirstLive s k rest ∧
        ∃ s', getSock w' sid = some s' ∧ s'.rr = rest) ∧
    (o = .ready .okUnit → ∃ k rest, FirstLive s k rest ∧ ∃ s', getSock w' sid = some s' ∧ s'.rr = rest ++ [k]) ∧
    (∀ m', o = .ready (.errReturn m') → ∀ j ∈ s.rr, ilookup s.peers j = none) := by
  induction fuel generalizing w s with
  | zero =>
    simp only [sendRRPoll, Prod.mk.injEq] at h
    obtain ⟨rfl, rfl, rfl⟩ := h
    exact ⟨(by intro h; cases h), (by intro h; cases h), (by intro m' h; cases h)⟩
  | succ fuel ih =>
    unfold sendRRPoll at h
    simp only [hs] at h
    cases hrr : s.rr with
    | nil =>
      simp only [hrr, Prod.mk.injEq] at h
      obtain ⟨rfl, rfl, rfl⟩ := h
      exact ⟨(by intro h; cases h), (by intro h; cases h), (by intro m' _ j hj; cases hj)⟩
    | cons k rest =>
      simp only [hrr] at h
      cases hp : ilookup s.peers k with
      | none =>
        simp only [hp, Option.isSome_none, Bool.false_eq_true, ↓reduceIte] at h
        obtain ⟨a, b, c⟩ := ih (setSock w sid { s with rr := rest }) { s with rr := rest } (getSock_setSock_same _ _ _) h
        -- one more vanished entry in front
        have lift : ∀ k' rest', FirstLive { s with rr := rest } k' rest' → FirstLive s k' rest' := by
          rintro k' rest' ⟨stale, h1, h2, h3⟩
          refine ⟨k :: stale, ?_, ?_, h3⟩
          · simp only at h1; rw [hrr, h1]; rfl
          · intro j hj
            rcases List.mem_cons.mp hj with rfl | hj
            · exact hp
            · exact h2 j hj
        refine ⟨?_, ?_, ?_⟩
        · intro ho
          obtain ⟨k', st', rest', h1, h2, h3⟩ := a ho
          exact ⟨k', st', rest', h1, lift _ _ h2, h3⟩
        · intro ho
          obtain ⟨k', rest', h2, h3⟩ := b ho
          exact ⟨k', rest', lift _ _ h2, h3⟩
        · intro m' ho j hj
          rcases List.mem_cons.mp hj with rfl | hj
          · exact hp
          · exact c m' ho j hj
      | some wr =>
        simp only [hp, Option.isSome_some, ↓reduceIte] at h
        have hfl : FirstLive s k rest := ⟨[], (by simp [hrr]), (by intro j hj; cases hj), (by simp [hp])⟩
        cases fuel with
        | zero =>
          simp only [sendRRPoll, Prod.mk.injEq] at h
          obtain ⟨rfl, rfl, rfl⟩ := h
          exact ⟨(by intro h; cases h), (by intro h; cases h), (by intro m' h; cases h)⟩
        | succ fuel =>
          obtain ⟨a, b, c⟩ := sendRRPoll_some_rr fuel _ sid m k _ { s with rr := rest } (getSock_setSock_same _ _ _) w' f' o h
          refine ⟨?_, ?_, ?_⟩
          · intro ho
            obtain ⟨⟨st', h1⟩, s', h2, h3⟩ := a ho
            exact ⟨k, st', rest, h1, hfl, s', h2, h3⟩
          · intro ho
            obtain ⟨s', h2, h3⟩ := b ho
            exact ⟨k, rest, hfl, s', h2, h3⟩
          · intro m' ho
            exact absurd ho (c m')


/-- … and when that first poll already completes the send: the peer whose connection received the whole encoding IS
the first registered entry of the rotation queue, and it is the one appended at the back -/
theorem sendRRStart_done_who (fuel : Nat) (w : World) (sid : Nat) (m : Msg) (s : Socket) (hs : getSock w sid = some s)
    (w' : World) (f' : FutSt) (h : sendRRPoll fuel w sid m none = (w', f', .ready .okUnit)) :
    ∃ k rest wr, FirstLive s k rest ∧ ilookup s.peers k = some wr ∧
      (wOf w'.pipes wr.pipe).wire = outOf w.pipes wr ++ encodeMsg m ∧
      (∀ j, j ≠ wr.pipe → wOf w'.pipes j = wOf w.pipes j) ∧
      ∃ s', getSock w' sid = some s' ∧ s'.rr = rest ++ [k] := by
  induction fuel generalizing w s with
  | zero => simp [sendRRPoll] at h
  | succ fuel ih =>
    unfold sendRRPoll at h
    simp only [hs] at h
    cases hrr : s.rr with
    | nil => simp [hrr] at h
    | cons k rest =>
      simp only [hrr] at h
      cases hp : ilookup s.peers k with
      | none =>
        simp only [hp, Option.isSome_none, Bool.false_eq_true, ↓reduceIte] at h
        obtain ⟨k', rest', wr, ⟨stale, h1, h2, h3⟩, h4, h5, h6, h7⟩ :=
          ih (setSock w sid { s with rr := rest }) { s with rr := rest } (getSock_setSock_same _ _ _) h
        refine ⟨k', rest', wr, ⟨k :: stale, ?_, ?_, h3⟩, h4, h5, h6, h7⟩
        · simp only at h1; rw [hrr, h1]; rfl
        · intro j hj
          rcases List.mem_cons.mp hj with rfl | hj
          · exact hp
          · exact h2 j hj
      | some wr =>
        simp only [hp, Option.isSome_some, ↓reduceIte] at h
        cases fuel with
        | zero => simp [sendRRPoll] at h
        | succ fuel =>
          have hinv : SendInv (setSock w sid { s with rr := rest }) sid k wr.pipe (outOf w.pipes wr)
              (encodeMsg m) (.feeding (encodeMsg m)) :=
            SendInv.start _ sid { s with rr := rest } k wr _ (getSock_setSock_same _ _ _) hp
          obtain ⟨h1, h2⟩ := sendRRPoll_spec fuel _ sid m k wr.pipe _ _ _ hinv w' f' _ h
          simp only [setSock_pipes] at h1
          obtain ⟨_, b, _⟩ := sendRRPoll_some_rr fuel _ sid m k _ { s with rr := rest } (getSock_setSock_same _ _ _) w' f' _ h
          have hsh := sendRRPoll_some_shape fuel (setSock w sid { s with rr := rest }) sid m k (.feeding (encodeMsg m))
          rw [h] at hsh
          rcases hsh with ⟨st', hq⟩ | hq | ⟨e, hq⟩
          · simp at hq
          · simp only [Prod.mk.injEq] at hq
            obtain ⟨rfl, _⟩ := hq
            simp only at h2
            exact ⟨k, rest, wr, ⟨[], (by simp [hrr]), (by intro j hj; cases hj), (by simp [hp])⟩, hp, h2, h1, b rfl⟩
          · simp at hq

end Zmq.W
