import ZmqVerif.Lemmas.WorldHandshake
namespace Zmq.W
open Zmq

/-! # The deciding step of the handshake, in the "if" direction (C04)

`HS` (Lemmas/WorldHandshake) gives "only if": `Ok(identity)` implies an acceptable greeting and an admissible READY at the
head of the connection's byte stream.  Here: once the handshake future waits for the peer's READY and the next item of
the connection's byte stream IS a command, ONE poll decides — and it decides exactly as `admitPeer` says. -/

/-- registering a peer puts it in the peer table under its identity, whatever the socket type -/
theorem register_peers (ps : Pipes) (s : Socket) (k : Ident) (rd : Rd) (wr : Wr) :
    ilookup (register ps s k rd wr).2.peers k = some wr := by
  unfold register
  cases ht : s.typ <;> simp only [] <;> (try unfold fqInsert) <;> simp [ilookup_iinsert_same]

/-- **The deciding poll.**  The handshake future is waiting for the peer's READY (`readReady`) and the rest of the
connection's byte stream begins with a complete command carrying `props` (in whatever segmentation it arrived).  Then
this poll does not stay `Pending`: if `admitPeer` refuses `props` the future fails with exactly that error; if it
admits them under `ident` then — for every socket type but SUB, whose registration first announces its subscriptions —
the future completes with `Ok(ident)` and (the socket being alive) the peer IS in the socket's peer table under
`ident`, with this connection's write half. -/
theorem attachPoll_readReady_decides (fuel : Nat) (w : World) (sid pid : Nat) (rd : Rd) (wr : Wr) (s : Socket)
    (hs : getSock w sid = some s) (props : List (Bytes × Bytes)) (rest : List Item)
    (hitems : rd.items w.pipes = .command props :: rest) (w' : World) (f' : FutSt) (o : POut)
    (h : attachPoll (fuel + 1) w sid pid .readReady rd wr = (w', f', o)) :
    match (generalizing := false) admitPeer s.typ props w.fresh with
    | .error e => o = .ready (.err e) ∧ f' = .done
    | .ok (ident, _) =>
        s.typ ≠ .sub → o = .ready (.okId ident) ∧ f' = .done ∧
          (s.dead = false → ∃ s', getSock w' sid = some s' ∧ ilookup s'.peers ident = some wr) := by
  unfold attachPoll at h
  simp only [hs] at h
  rcases hr : readerPoll (readFuel w.pipes rd) w.pipes rd .user with ⟨r, ps, rd'⟩
  have hsp := readerPoll_spec (readFuel w.pipes rd) w.pipes rd .user
    (by simp only [readFuel, inbufOf]; omega) r ps rd' hr
  simp only [hr] at h
  obtain ⟨_, _, h3⟩ := hsp
  cases r with
  | pending => simp only at h3; rw [h3.2] at hitems; cases hitems
  | eof => simp only at h3; rw [h3] at hitems; cases hitems
  | err e => simp only at h3; rw [h3] at hitems; cases hitems
  | item i =>
    simp only at h3
    have hi : i = .command props := by
      have : rd.items w.pipes = i :: rd'.items ps := by
        simp only [Rd.items, h3, RunOut.pre_items, List.singleton_append]
      rw [this] at hitems
      exact (List.cons.inj hitems).1
    subst hi
    simp only at h
    cases ha : admitPeer s.typ props w.fresh with
    | error e =>
      simp only [ha, Prod.mk.injEq] at h
      obtain ⟨_, rfl, rfl⟩ := h
      exact ⟨rfl, rfl⟩
    | ok v =>
      rcases v with ⟨ident, fresh'⟩
      simp only [ha] at h
      intro hsub
      simp only [hsub, if_false] at h
      by_cases hd : s.dead = true
      · simp only [hd, if_true, Prod.mk.injEq] at h
        obtain ⟨_, rfl, rfl⟩ := h
        exact ⟨rfl, rfl, fun hf => by rw [hd] at hf; cases hf⟩
      · simp only [hd, Bool.false_eq_true, if_false, Prod.mk.injEq] at h
        obtain ⟨rfl, rfl, rfl⟩ := h
        refine ⟨rfl, rfl, fun _ => ⟨_, getSock_setSock_same _ _ _, ?_⟩⟩
        exact register_peers _ _ _ _ _


/-- the poll that reads the peer's greeting: when the rest of the connection's byte stream begins with a complete item,
a greeting of a version below 3.0 fails the handshake with `UnsupportedVersion`, and anything that is not a greeting
fails it too — in this poll, whatever follows in the stream -/
theorem attachPoll_readGreeting_rejects (fuel : Nat) (w : World) (sid pid : Nat) (rd : Rd) (wr : Wr) (s : Socket)
    (hs : getSock w sid = some s) (i : Item) (rest : List Item)
    (hitems : rd.items w.pipes = i :: rest) (w' : World) (f' : FutSt) (o : POut)
    (h : attachPoll (fuel + 1) w sid pid .readGreeting rd wr = (w', f', o)) :
    match (generalizing := false) i with
    | .greeting g =>
        ¬ (g.major.toNat > 3 ∨ (g.major.toNat = 3 ∧ g.minor.toNat ≥ 0)) → o = .ready (.err .unsupportedVersion) ∧ f' = .done
    | _ => o = .ready (.err .other) ∧ f' = .done := by
  unfold attachPoll at h
  simp only [hs] at h
  rcases hr : readerPoll (readFuel w.pipes rd) w.pipes rd .user with ⟨r, ps, rd'⟩
  have hsp := readerPoll_spec (readFuel w.pipes rd) w.pipes rd .user
    (by simp only [readFuel, inbufOf]; omega) r ps rd' hr
  simp only [hr] at h
  obtain ⟨_, _, h3⟩ := hsp
  cases r with
  | pending => simp only at h3; rw [h3.2] at hitems; cases hitems
  | eof => simp only at h3; rw [h3] at hitems; cases hitems
  | err e => simp only at h3; rw [h3] at hitems; cases hitems
  | item j =>
    simp only at h3
    have hi : j = i := by
      have : rd.items w.pipes = j :: rd'.items ps := by
        simp only [Rd.items, h3, RunOut.pre_items, List.singleton_append]
      rw [this] at hitems
      exact (List.cons.inj hitems).1
    subst hi
    cases j with
    | greeting g =>
      simp only at h ⊢
      intro hv
      simp only [hv, if_false, Prod.mk.injEq] at h
      obtain ⟨_, rfl, rfl⟩ := h
      exact ⟨rfl, rfl⟩
    | command p =>
      simp only [Prod.mk.injEq] at h ⊢
      obtain ⟨_, rfl, rfl⟩ := h
      exact ⟨rfl, rfl⟩
    | message m =>
      simp only [Prod.mk.injEq] at h ⊢
      obtain ⟨_, rfl, rfl⟩ := h
      exact ⟨rfl, rfl⟩

end Zmq.W
