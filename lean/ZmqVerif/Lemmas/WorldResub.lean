import ZmqVerif.Lemmas.WorldAdmit
import ZmqVerif.Lemmas.WorldSend
import ZmqVerif.Lemmas.WorldHandshakeIf
namespace Zmq.W
open Zmq

/-! # A late joiner of a SUB socket is told the whole set, then registered (C13)

The last stage of a SUB socket's handshake future (`resub`): it announces every subscription of the snapshot `todo` to the
new connection with a full `send` each (feed + flush, resumable), and only then registers the peer. -/

/-- the announcements of a list of topics, as bytes -/
def annc (ts : List Bytes) : Bytes := (ts.map (fun t => encodeMsg (subsMsg true t))).flatten

@[simp] theorem annc_nil : annc [] = [] := rfl
@[simp] theorem annc_cons (t : Bytes) (ts : List Bytes) : annc (t :: ts) = encodeMsg (subsMsg true t) ++ annc ts := by
  simp [annc]

/-- where the joiner's outgoing stream stands, by the state of the announcement in progress -/
def ResubAt (ps : Pipes) (wr : Wr) (base enc : Bytes) : Option SendSt → Prop
  | none => wr.buf = [] ∧ outOf ps wr = base
  | some st => (st = .feeding enc ∨ st = .flushing) ∧ outOf ps wr = base ++ SendSt.handed enc st

/-- what is still owed to the joiner beyond `base` -/
def owed (enc : Bytes) (cur : Option SendSt) (todo : List Bytes) : Bytes :=
  (match cur with | some _ => enc | none => []) ++ annc todo

theorem register_wOf (ps : Pipes) (s : Socket) (k : Ident) (rd : Rd) (wr : Wr) (j : Nat) :
    wOf (register ps s k rd wr).1 j = wOf ps j := by
  unfold register
  cases s.typ <;> simp only [] <;>
    (repeat' split) <;> simp only [wOf_dropR, wOf_dropW]

/-- **Every poll of the re-announcement stage.**  `ResubAt … base enc cur` says where the joiner's outgoing stream
stands.  If the poll stays `Pending`, the future is again in this stage, for the same identity and pipe, and what is
owed beyond the new base is what was owed before minus what has been handed over — nothing skipped, nothing repeated.
If it completes, it completes with `Ok(ident)` and EITHER the socket is untouched (the connection failed during the
announcement, or the socket is gone: the joiner is dropped unregistered) OR the joiner has been registered under `ident`
with an empty write buffer and its connection carries `base` followed by EVERYTHING that was owed: the announcement in
progress and one announcement per topic of the snapshot, in order, each whole, each once. -/
theorem attachPoll_resub_spec (fuel : Nat) (w : World) (sid pid : Nat) (ident : Ident) (todo : List Bytes)
    (cur : Option SendSt) (rd : Rd) (wr : Wr) (base enc : Bytes) (hat : ResubAt w.pipes wr base enc cur)
    (w' : World) (f' : FutSt) (o : POut)
    (h : attachPoll fuel w sid pid (.resub ident todo cur) rd wr = (w', f', o)) :
    (o = .pending → ∃ todo' cur' wr' base' enc', f' = .attach sid pid (.resub ident todo' cur') rd wr' ∧
        wr'.pipe = wr.pipe ∧ ResubAt w'.pipes wr' base' enc' cur' ∧
        base' ++ owed enc' cur' todo' = base ++ owed enc cur todo) ∧
    (∀ v, o = .ready v → (v = .okId ident ∨ ∃ e, v = .err e) ∧
        (getSock w' sid = getSock w sid ∨
         ∃ s' wr', getSock w' sid = some s' ∧ ilookup s'.peers ident = some wr' ∧ wr'.pipe = wr.pipe ∧ wr'.buf = [] ∧
           (wOf w'.pipes wr.pipe).wire = base ++ owed enc cur todo)) := by
  induction fuel generalizing w todo cur wr base enc with
  | zero =>
    simp only [attachPoll, Prod.mk.injEq] at h
    obtain ⟨rfl, rfl, rfl⟩ := h
    exact ⟨fun _ => ⟨todo, cur, wr, base, enc, rfl, rfl, hat, rfl⟩, fun v hv => (by cases hv)⟩
  | succ fuel ih =>
    unfold attachPoll at h
    cases hs : getSock w sid with
    | none =>
      simp only [hs, Prod.mk.injEq] at h
      obtain ⟨rfl, rfl, rfl⟩ := h
      refine ⟨fun hp => (by cases hp), fun v hv => ?_⟩
      cases hv
      exact ⟨.inr ⟨_, rfl⟩, .inl hs⟩
    | some s =>
      simp only [hs] at h
      cases cur with
      | some st =>
        obtain ⟨hst, hout⟩ := hat
        simp only at h
        have hsp := wrSendPoll_spec w.pipes wr base enc st hst hout
        rcases hw : wrSendPoll w.pipes wr st with ⟨ps1, wr1, st1, r⟩
        rw [hw] at hsp
        simp only at hsp
        obtain ⟨h1, h2, h3, h4⟩ := hsp
        simp only [hw] at h
        cases r with
        | pending =>
          simp only [Prod.mk.injEq] at h
          obtain ⟨rfl, rfl, rfl⟩ := h
          exact ⟨fun _ => ⟨todo, some st1, wr1, base, enc, rfl, h1, ⟨h2, h3⟩, rfl⟩, fun v hv => (by cases hv)⟩
        | error =>
          simp only [Prod.mk.injEq] at h
          obtain ⟨rfl, rfl, rfl⟩ := h
          refine ⟨fun hp => (by cases hp), fun v hv => ?_⟩
          cases hv
          exact ⟨.inl rfl, .inl hs⟩
        | done =>
          simp only at h
          obtain ⟨hb, hwire⟩ := h4 rfl
          have hat' : ResubAt ({ w with pipes := ps1 } : World).pipes wr1 (base ++ enc) enc none := by
            refine ⟨hb, ?_⟩
            simp only [outOf, hb, List.append_nil, h1]
            exact hwire
          obtain ⟨a, b⟩ := ih { w with pipes := ps1 } todo none wr1 (base ++ enc) enc hat' h
          refine ⟨fun hp => ?_, fun v hv => ?_⟩
          · obtain ⟨todo', cur', wr', base', enc', e1, e2, e3, e4⟩ := a hp
            exact ⟨todo', cur', wr', base', enc', e1, e2.trans h1, e3, (by
              rw [e4]; simp [owed, List.append_assoc])⟩
          · obtain ⟨c1, c2⟩ := b v hv
            refine ⟨c1, ?_⟩
            rcases c2 with c2 | ⟨s', wr', d1, d2, d3, d4, d5⟩
            · exact .inl (c2.trans hs)
            · refine .inr ⟨s', wr', d1, d2, d3.trans h1, d4, ?_⟩
              rw [← h1, d5]; simp [owed, List.append_assoc]
      | none =>
        simp only [ResubAt] at hat
        simp only at h
        cases todo with
        | cons t rest =>
          simp only at h
          have hat' : ResubAt w.pipes wr base (encodeMsg (subsMsg true t)) (some (.feeding (encodeMsg (subsMsg true t)))) :=
            ⟨.inl rfl, (by simp [SendSt.handed, hat.2])⟩
          obtain ⟨a, b⟩ := ih w rest (some (.feeding (encodeMsg (subsMsg true t)))) wr base _ hat' h
          refine ⟨fun hp => ?_, fun v hv => ?_⟩
          · obtain ⟨todo', cur', wr', base', enc', e1, e2, e3, e4⟩ := a hp
            exact ⟨todo', cur', wr', base', enc', e1, e2, e3, (by rw [e4]; simp [owed])⟩
          · obtain ⟨c1, c2⟩ := b v hv
            refine ⟨c1, ?_⟩
            rcases c2 with c2 | ⟨s', wr', d1, d2, d3, d4, d5⟩
            · exact .inl (c2.trans hs)
            · exact .inr ⟨s', wr', d1, d2, d3, d4, (by rw [d5]; simp [owed])⟩
        | nil =>
          simp only at h
          by_cases hd : s.dead = true
          · simp only [hd, if_true, Prod.mk.injEq] at h
            obtain ⟨rfl, rfl, rfl⟩ := h
            refine ⟨fun hp => (by cases hp), fun v hv => ?_⟩
            cases hv
            exact ⟨.inl rfl, .inl hs⟩
          · simp only [hd, Bool.false_eq_true, if_false, Prod.mk.injEq] at h
            obtain ⟨rfl, rfl, rfl⟩ := h
            refine ⟨fun hp => (by cases hp), fun v hv => ?_⟩
            cases hv
            refine ⟨.inl rfl, .inr ⟨_, wr, getSock_setSock_same _ _ _, register_peers _ _ _ _ _, rfl, ?_, ?_⟩⟩
            · exact hat.1
            · simp only [setSock_pipes, register_wOf, owed, annc_nil, List.append_nil]
              have := hat.2
              simp only [outOf, hat.1, List.append_nil] at this
              exact this


/-- **On a connection that takes everything at once the re-announcement completes in one poll**: the joiner is registered
and its connection carries one announcement per topic of the snapshot — all of them, in order. -/
theorem attachPoll_resub_free (todo : List Bytes) (n : Nat) (w : World) (sid pid : Nat) (ident : Ident) (rd : Rd) (wr : Wr)
    (s : Socket) (hs : getSock w sid = some s) (halive : s.dead = false) (hb : wr.buf = []) (hfree : Free w.pipes wr.pipe) :
    ∃ w' s' wr', attachPoll (n + 2 * todo.length + 1) w sid pid (.resub ident todo none) rd wr = (w', .done, .ready (.okId ident)) ∧
      getSock w' sid = some s' ∧ ilookup s'.peers ident = some wr' ∧ wr'.pipe = wr.pipe ∧ wr'.buf = [] ∧
      (wOf w'.pipes wr.pipe).wire = (wOf w.pipes wr.pipe).wire ++ annc todo := by
  induction todo generalizing w wr with
  | nil =>
    refine ⟨setSock { w with pipes := (register w.pipes s ident rd wr).1 } sid (register w.pipes s ident rd wr).2,
      (register w.pipes s ident rd wr).2, wr, ?_, getSock_setSock_same _ _ _, register_peers _ _ _ _ _, rfl, hb, ?_⟩
    · conv => lhs; unfold attachPoll
      simp only [hs, halive, Bool.false_eq_true, if_false]
    · simp only [setSock_pipes, register_wOf, annc_nil, List.append_nil]
  | cons t rest ih =>
    obtain ⟨ps1, wr1, h1, h2, h3, h4, h5, _⟩ := wrSendPoll_free w.pipes wr (encodeMsg (subsMsg true t)) hb hfree
    have hs1 : getSock ({ w with pipes := ps1 } : World) sid = some s := hs
    have hfree1 : Free ({ w with pipes := ps1 } : World).pipes wr1.pipe := by rw [h2]; exact h4
    obtain ⟨w', s', wr', e1, e2, e3, e4, e5, e6⟩ := ih { w with pipes := ps1 } wr1 hs1 h3 hfree1
    refine ⟨w', s', wr', ?_, e2, e3, e4.trans h2, e5, ?_⟩
    · have : n + 2 * (t :: rest).length + 1 = (n + 2 * rest.length + 1) + 1 + 1 := by simp only [List.length_cons]; omega
      rw [this]
      conv => lhs; unfold attachPoll
      simp only [hs]
      conv => lhs; unfold attachPoll
      simp only [hs, h1]
      exact e1
    · rw [h2] at e6
      rw [e6]
      simp only [h5, annc_cons, List.append_assoc]


/-- for a SUB socket the deciding poll hands an admitted peer over to the re-announcement stage, with the snapshot of
the subscription set taken at that moment -/
theorem attachPoll_readReady_sub (fuel : Nat) (w : World) (sid pid : Nat) (rd : Rd) (wr : Wr) (s : Socket)
    (hs : getSock w sid = some s) (hsub : s.typ = .sub) (props : List (Bytes × Bytes)) (rest : List Item)
    (hitems : rd.items w.pipes = .command props :: rest)
    (ident : Ident) (fresh' : Nat) (hadm : admitPeer s.typ props w.fresh = .ok (ident, fresh')) :
    ∃ ps' rd', attachPoll (fuel + 1) w sid pid .readReady rd wr =
        attachPoll fuel { w with pipes := ps', fresh := fresh' } sid pid (.resub ident s.subs none) rd' wr ∧
      ∀ j, wOf ps' j = wOf w.pipes j := by
  rcases hr : readerPoll (readFuel w.pipes rd) w.pipes rd .user with ⟨r, ps, rd'⟩
  have hsp := readerPoll_spec (readFuel w.pipes rd) w.pipes rd .user (by simp only [readFuel, inbufOf]; omega) r ps rd' hr
  obtain ⟨_, _, h3⟩ := hsp
  have hw : ∀ j, wOf ps j = wOf w.pipes j := by
    intro j; have := wOf_readerPoll (readFuel w.pipes rd) w.pipes rd .user j; rw [hr] at this; exact this
  cases r with
  | pending => simp only at h3; rw [h3.2] at hitems; cases hitems
  | eof => simp only at h3; rw [h3] at hitems; cases hitems
  | err e => simp only at h3; rw [h3] at hitems; cases hitems
  | item i =>
    simp only at h3
    have hi : i = .command props := by
      have : rd.items w.pipes = i :: rd'.items ps := by
        simp only [Rd.items, h3, RunOut.pre_items, List.singleton_append]
      rw [this] at hitems
      exact (List.cons.inj hitems).1
    subst hi
    refine ⟨ps, rd', ?_, hw⟩
    conv => lhs; unfold attachPoll
    rw [hsub] at hadm
    simp only [hs, hr, hsub, if_true, hadm]

/-- **A SUB socket's handshake completes when everything is there — and the joiner has been told the whole set.**  As
`attachPoll_completes`, for SUB: ONE poll completes with `Ok(ident)`, the peer is registered, and behind the socket's
greeting and READY its connection carries one announcement per subscription active at that moment, in order. -/
theorem attachPoll_completes_sub (n : Nat) (w : World) (sid pid : Nat) (rd : Rd) (wr : Wr) (s : Socket) (encG : Bytes)
    (hs : getSock w sid = some s) (hsub : s.typ = .sub) (halive : s.dead = false)
    (hb : wr.buf = []) (hfree : Free w.pipes wr.pipe)
    (g : Greeting) (props : List (Bytes × Bytes)) (rest : List Item)
    (hitems : rd.items w.pipes = .greeting g :: .command props :: rest) (hv : vOk g)
    (ident : Ident) (fresh' : Nat) (hadm : admitPeer s.typ props w.fresh = .ok (ident, fresh')) :
    ∃ w' s' wr', attachPoll (n + 2 * s.subs.length + 5) w sid pid (.sendGreeting (.feeding encG)) rd wr
        = (w', .done, .ready (.okId ident)) ∧
      getSock w' sid = some s' ∧ ilookup s'.peers ident = some wr' ∧ wr'.pipe = wr.pipe ∧ wr'.buf = [] ∧
      (wOf w'.pipes wr.pipe).wire =
        (wOf w.pipes wr.pipe).wire ++ encG ++ encodeReady s.typ s.ident false ++ annc s.subs := by
  obtain ⟨psC, rdB, wrC, e, hitC, hC1, hC2, hC3, hC4⟩ :=
    attachPoll_to_readReady (n + 2 * s.subs.length + 2) w sid pid rd wr s encG hs hb hfree g _ hitems hv
  have hsC : getSock ({ w with pipes := psC } : World) sid = some s := hs
  obtain ⟨psD, rdD, e2, hwD⟩ := attachPoll_readReady_sub (n + 2 * s.subs.length + 1) { w with pipes := psC } sid pid rdB wrC s
    hsC hsub props rest hitC ident fresh' hadm
  have hsD : getSock ({ w with pipes := psD, fresh := fresh' } : World) sid = some s := hs
  have hfreeD : Free ({ w with pipes := psD, fresh := fresh' } : World).pipes wrC.pipe := by
    rw [hC1]; obtain ⟨c1, c2⟩ := hC3
    exact ⟨by show (wOf psD wr.pipe).credit = none; rw [hwD]; exact c1,
           by show (wOf psD wr.pipe).wrerr = false; rw [hwD]; exact c2⟩
  obtain ⟨w', s', wr', e3, f1, f2, f3, f4, f5⟩ :=
    attachPoll_resub_free s.subs n { w with pipes := psD, fresh := fresh' } sid pid ident rdD wrC s hsD halive hC2 hfreeD
  refine ⟨w', s', wr', ?_, f1, f2, f3.trans hC1, f4, ?_⟩
  · have : n + 2 * s.subs.length + 5 = (n + 2 * s.subs.length + 2) + 3 := by omega
    rw [this, e, e2, e3]
  · rw [hC1] at f5
    rw [f5]
    show (wOf psD wr.pipe).wire ++ annc s.subs = _
    rw [hwD, hC4]

end Zmq.W
