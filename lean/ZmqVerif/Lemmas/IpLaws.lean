import ZmqVerif.Lemmas.Endpoint
/-! The `std::net` laws that `C19_roundtrip` needs, PROVED for the executable IP text models of
`Model.Ip` — everything except the IPv6 print/parse round trip (RFC 5952 compression against the
recursive-descent parser), which stays a hypothesis validated by sampling against the real std.

IPv4: `parse4 (show4 a) = some a` for every address (the 256 octet texts are checked by
`decide`, the composition is a proof), a parsed text consists of digits and dots only, the text is
never empty.  IPv6: the text is at least two characters long and never contains a newline. -/
namespace Zmq.Ip

theorem char_le_iff (a b : Char) : a ≤ b ↔ a.toNat ≤ b.toNat := by
  rw [Char.le_def, UInt32.le_iff_toNat_le]; rfl

/-- the character class `read_number(10, ..)` consumes -/
def isDig10 (c : Char) : Bool := (digVal 10 c).isSome

theorem isDig10_eq (c : Char) : isDig10 c = isDigit c := by
  unfold isDig10 digVal hexVal isDigit
  have e0 : ('0' : Char).toNat = 48 := rfl
  have e9 : ('9' : Char).toNat = 57 := rfl
  have ea : ('a' : Char).toNat = 97 := rfl
  have ef : ('f' : Char).toNat = 102 := rfl
  have eA : ('A' : Char).toNat = 65 := rfl
  have eF : ('F' : Char).toNat = 70 := rfl
  simp only [char_le_iff, e0, e9, ea, ef, eA, eF]
  by_cases h1 : 48 ≤ c.toNat ∧ c.toNat ≤ 57
  · have : c.toNat - 48 < 10 := by omega
    simp [h1, this]
  · simp only [h1, ↓reduceIte]
    by_cases h2 : 97 ≤ c.toNat ∧ c.toNat ≤ 102
    · have : ¬ (c.toNat - 87 < 10) := by omega
      simp [h2, this]; omega
    · simp only [h2, ↓reduceIte]
      by_cases h3 : 65 ≤ c.toNat ∧ c.toNat ≤ 70
      · have : ¬ (c.toNat - 55 < 10) := by omega
        simp [h3, this]; omega
      · simp [h3]; omega

theorem dot_not_dig : isDig10 '.' = false := by decide

/-! ### `takeWhile` / `dropWhile` across a boundary -/

/-- the text continues with something that is not consumed: end of input, or a non-member -/
def Stops (p : Char → Bool) (rest : Str) : Prop := rest = [] ∨ ∃ c r, rest = c :: r ∧ p c = false

theorem takeWhile_app {p : Char → Bool} {ds rest : Str} (hd : ds.all p = true) (hr : Stops p rest) :
    (ds ++ rest).takeWhile p = ds ∧ (ds ++ rest).dropWhile p = rest := by
  induction ds with
  | nil =>
    rcases hr with rfl | ⟨c, r, rfl, hc⟩
    · simp
    · simp [List.takeWhile, List.dropWhile, hc]
  | cons d ds ih =>
    simp only [List.all_cons, Bool.and_eq_true] at hd
    obtain ⟨h1, h2⟩ := ih hd.2
    simp [List.takeWhile, List.dropWhile, hd.1, h1, h2]

/-- what `read_number(10, Some(3), false)` makes of the digit string it has consumed -/
def evalD (ds : Str) : Option Nat :=
  if ds.length = 0 ∨ ds.length > 3 then none
  else if !false && ds.head? == some '0' && ds.length > 1 then none
  else
    let v := ds.foldl (fun acc c => acc * 10 + ((digVal 10 c).getD 0)) 0
    if v < 256 then some v else none

theorem readNumber_app {ds rest : Str} (hd : ds.all isDig10 = true) (hr : Stops isDig10 rest) :
    readNumber 10 3 256 false (ds ++ rest) = (evalD ds).map (fun v => (v, rest)) := by
  obtain ⟨h1, h2⟩ := takeWhile_app hd hr
  unfold readNumber evalD
  have h1' : List.takeWhile (fun c => (digVal 10 c).isSome) (ds ++ rest) = ds := h1
  have h2' : List.dropWhile (fun c => (digVal 10 c).isSome) (ds ++ rest) = rest := h2
  simp only [h1', h2']
  split
  · rfl
  · split
    · rfl
    · split <;> rfl

/-- every octet prints as digits only and reads back as itself (all 256 checked by the kernel) -/
theorem octet_ok : ∀ n : Fin 256, (showNat n.val).all isDig10 = true ∧ evalD (showNat n.val) = some n.val := by
  decide +kernel

theorem readOctet (n : Nat) (hn : n < 256) (rest : Str) (hr : Stops isDig10 rest) :
    readNumber 10 3 256 false (showNat n ++ rest) = some (n, rest) := by
  obtain ⟨h1, h2⟩ := octet_ok ⟨n, hn⟩
  rw [readNumber_app h1 hr, h2]; rfl

theorem stops_dot (r : Str) : Stops isDig10 ('.' :: r) := Or.inr ⟨'.', r, rfl, dot_not_dig⟩

theorem readIpv4_show (a b c d : Nat) (ha : a < 256) (hb : b < 256) (hc : c < 256) (hd : d < 256)
    (rest : Str) (hr : Stops isDig10 rest) :
    readIpv4 (showNat a ++ ('.' :: (showNat b ++ ('.' :: (showNat c ++ ('.' :: (showNat d ++ rest))))))) =
      some ([a, b, c, d], rest) := by
  unfold readIpv4
  rw [readOctet _ ha _ (stops_dot _)]
  simp only []
  rw [readOctet _ hb _ (stops_dot _)]
  simp only []
  rw [readOctet _ hc _ (stops_dot _)]
  simp only []
  rw [readOctet _ hd _ hr]

/-- **IPv4 round trip**: `Ipv4Addr::from_str(addr.to_string()) == Ok(addr)`, for every address -/
theorem rt4 (x : Ip4) : parse4 (show4 x) = some x := by
  obtain ⟨a, b, c, d⟩ := x
  have ha : a.toNat < 256 := a.toNat_lt
  have hb : b.toNat < 256 := b.toNat_lt
  have hc : c.toNat < 256 := c.toNat_lt
  have hd : d.toNat < 256 := d.toNat_lt
  have hshape : show4 ⟨a, b, c, d⟩ =
      showNat a.toNat ++ ('.' :: (showNat b.toNat ++ ('.' :: (showNat c.toNat ++ ('.' :: (showNat d.toNat ++ [])))))) := by
    simp [show4]
  unfold parse4
  rw [hshape]
  unfold readIpv4
  rw [readOctet _ ha _ (stops_dot _)]
  simp only []
  rw [readOctet _ hb _ (stops_dot _)]
  simp only []
  rw [readOctet _ hc _ (stops_dot _)]
  simp only []
  rw [readOctet _ hd _ (Or.inl rfl)]
  simp

/-! ### a parsed IPv4 text consists of digits and dots -/

theorem readNumber_split {radix maxD bound : Nat} {z : Bool} {s : Str} {v : Nat} {rest : Str}
    (h : readNumber radix maxD bound z s = some (v, rest)) :
    s = s.takeWhile (fun c => (digVal radix c).isSome) ++ rest := by
  unfold readNumber at h
  simp only [] at h
  split at h
  · simp at h
  · split at h
    · simp at h
    · split at h
      · simp at h
        rw [← h.2]; exact (List.takeWhile_append_dropWhile).symm
      · simp at h

theorem mem_takeWhile_imp {p : Char → Bool} {s : Str} {c : Char} (h : c ∈ s.takeWhile p) : p c = true := by
  induction s with
  | nil => simp at h
  | cons x xs ih =>
    simp only [List.takeWhile] at h
    split at h
    · rename_i hx
      simp only [List.mem_cons] at h
      rcases h with rfl | h
      · exact hx
      · exact ih h
    · simp at h

/-- the characters one successful `read_number(10, ..)` consumes are decimal digits -/
theorem readNumber10_chars {maxD bound : Nat} {z : Bool} {s : Str} {v : Nat} {rest : Str}
    (h : readNumber 10 maxD bound z s = some (v, rest)) :
    ∃ ds, s = ds ++ rest ∧ ∀ c ∈ ds, isDigit c = true := by
  refine ⟨_, readNumber_split h, ?_⟩
  intro c hc
  have := mem_takeWhile_imp hc
  rw [← isDig10_eq]; exact this

theorem readIpv4_chars {s : Str} {l : List Nat} {rest : Str} (h : readIpv4 s = some (l, rest)) :
    ∃ body, s = body ++ rest ∧ ∀ c ∈ body, isDigit c = true ∨ c = '.' := by
  unfold readIpv4 at h
  split at h
  · simp at h
  · rename_i a r1 h1
    obtain ⟨d1, e1, p1⟩ := readNumber10_chars h1
    split at h
    · rename_i r1'
      split at h
      · simp at h
      · rename_i b r2 h2
        obtain ⟨d2, e2, p2⟩ := readNumber10_chars h2
        split at h
        · rename_i r2'
          split at h
          · simp at h
          · rename_i c r3 h3
            obtain ⟨d3, e3, p3⟩ := readNumber10_chars h3
            split at h
            · rename_i r3'
              split at h
              · simp at h
              · rename_i d r4 h4
                obtain ⟨d4, e4, p4⟩ := readNumber10_chars h4
                simp at h
                obtain ⟨_, rfl⟩ := h
                refine ⟨d1 ++ '.' :: (d2 ++ '.' :: (d3 ++ '.' :: d4)), ?_, ?_⟩
                · rw [e1, e2, e3, e4]; simp
                · intro ch hch
                  simp only [List.mem_append, List.mem_cons] at hch
                  rcases hch with h | rfl | h | rfl | h | rfl | h
                  · exact Or.inl (p1 _ h)
                  · exact Or.inr rfl
                  · exact Or.inl (p2 _ h)
                  · exact Or.inr rfl
                  · exact Or.inl (p3 _ h)
                  · exact Or.inr rfl
                  · exact Or.inl (p4 _ h)
            · simp at h
        · simp at h
    · simp at h

theorem chars4 (s : Str) (a : Ip4) (h : parse4 s = some a) : ∀ c ∈ s, isDigit c = true ∨ c = '.' := by
  unfold parse4 at h
  split at h
  · rename_i x y z w hr
    obtain ⟨body, e, p⟩ := readIpv4_chars hr
    rw [e]; simpa using p
  · simp at h

theorem show4_ne (a : Ip4) : show4 a ≠ [] := by
  simp [show4]

/-! ### IPv6 text: at least two characters, no newline -/

theorem showHexAux_ne (fuel n : Nat) : showHexAux (fuel + 1) n ≠ [] := by
  simp only [showHexAux]; split <;> simp

theorem showHex_ne (n : Nat) : showHex n ≠ [] := showHexAux_ne n n

theorem showHex_len (n : Nat) : 1 ≤ (showHex n).length := by
  have := showHex_ne n
  cases h : showHex n with
  | nil => exact absurd h this
  | cons _ _ => simp

theorem joinColon_len : ∀ l : List Nat, l.length ≤ (joinColon l).length
  | [] => by simp [joinColon]
  | [x] => by simp only [joinColon, List.length_singleton]; exact showHex_len x
  | x :: y :: r => by
    have := joinColon_len (y :: r)
    have h1 := showHex_len x
    simp only [joinColon, List.length_append, List.length_cons, List.length_nil] at this ⊢
    omega

theorem show6_len (x : Ip6) : 2 ≤ (show6 x).length := by
  unfold show6
  simp only []
  split
  · simp
  · split
    · simp; omega
    · have := joinColon_len (x.segs.map UInt16.toNat)
      have h8 : (x.segs.map UInt16.toNat).length = 8 := by simp [x.len8]
      omega

theorem hexDigitChar_ne_nl : ∀ n : Fin 16, hexDigitChar n.val ≠ '\n' := by decide +kernel
theorem decDigitChar_ne_nl : ∀ n : Fin 10, Char.ofNat (n.val + 48) ≠ '\n' := by decide +kernel

theorem showHexAux_clean : ∀ (fuel n : Nat), '\n' ∉ showHexAux fuel n
  | 0, _ => by simp [showHexAux]
  | fuel + 1, n => by
    simp only [showHexAux]
    split
    · rename_i h
      simp only [List.mem_singleton]
      exact fun e => hexDigitChar_ne_nl ⟨n, h⟩ e.symm
    · simp only [List.mem_append, List.mem_singleton, not_or]
      refine ⟨showHexAux_clean fuel (n / 16), ?_⟩
      exact fun e => hexDigitChar_ne_nl ⟨n % 16, Nat.mod_lt _ (by omega)⟩ e.symm

theorem showNatAux_clean : ∀ (fuel n : Nat), '\n' ∉ showNatAux fuel n
  | 0, _ => by simp [showNatAux]
  | fuel + 1, n => by
    simp only [showNatAux]
    split
    · rename_i h
      simp only [List.mem_singleton]
      exact fun e => decDigitChar_ne_nl ⟨n, h⟩ e.symm
    · simp only [List.mem_append, List.mem_singleton, not_or]
      refine ⟨showNatAux_clean fuel (n / 10), ?_⟩
      exact fun e => decDigitChar_ne_nl ⟨n % 10, Nat.mod_lt _ (by omega)⟩ e.symm

theorem joinColon_clean : ∀ l : List Nat, '\n' ∉ joinColon l
  | [] => by simp [joinColon]
  | [x] => by simp only [joinColon]; exact showHexAux_clean _ _
  | x :: y :: r => by
    have := joinColon_clean (y :: r)
    simp only [joinColon, List.mem_append, List.mem_singleton, not_or]
    exact ⟨⟨showHexAux_clean _ _, by decide⟩, this⟩

theorem show6_clean (x : Ip6) : '\n' ∉ show6 x := by
  unfold show6
  simp only []
  split
  · simp only [List.mem_append, List.mem_singleton, not_or]
    refine ⟨⟨⟨⟨⟨⟨⟨by decide, showNatAux_clean _ _⟩, by decide⟩, showNatAux_clean _ _⟩, by decide⟩,
      showNatAux_clean _ _⟩, by decide⟩, showNatAux_clean _ _⟩
  · split
    · simp only [List.mem_append, List.mem_cons, List.not_mem_nil, or_false, not_or]
      exact ⟨⟨joinColon_clean _, by decide, by decide⟩, joinColon_clean _⟩
    · exact joinColon_clean _

end Zmq.Ip

namespace Zmq.Ep
open Zmq.Ip

/-- all the laws `C19_roundtrip` needs hold of the executable std models, given only the IPv6
print/parse round trip -/
theorem stdLaws (h6 : ∀ a : Ip.Ip6, Ip.parse6 (Ip.show6 a) = some a) : Laws stdModel where
  rt4 := Ip.rt4
  rt6 := h6
  chars4 := Ip.chars4
  show4_ne := Ip.show4_ne
  show6_len := Ip.show6_len
  show6_clean := Ip.show6_clean

end Zmq.Ep
