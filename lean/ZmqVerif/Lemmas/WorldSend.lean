import ZmqVerif.Lemmas.SinkStream
import ZmqVerif.Lemmas.WorldRecv
namespace Zmq.W
open Zmq

theorem flushBuf_done_empty (p : WPipe) (buf : Bytes) (p' : WPipe) (b' : Bytes)
    (h : flushBuf p buf = (p', b', .done)) : b' = [] := by
  unfold flushBuf at h
  split at h
  · simp only [Prod.mk.injEq] at h; obtain ⟨_, rfl, _⟩ := h; simp_all
  · split at h
    · simp at h
    · split at h
      · simp only [Prod.mk.injEq] at h; obtain ⟨_, rfl, _⟩ := h; rfl
      · simp only at h
        split at h
        · simp only [Prod.mk.injEq] at h; obtain ⟨_, rfl, _⟩ := h; rfl
        · simp at h

/-- bytes the transport has taken or that wait in the write buffer: the connection's outgoing stream so far -/
def outOf (ps : Pipes) (wr : Wr) : Bytes := (getPipe ps wr.pipe).w.wire ++ wr.buf

/-- what a `SinkExt::send(item)` future has handed to the connection so far -/
def SendSt.handed (enc : Bytes) : SendSt → Bytes
  | .feeding _ => []
  | .flushing => enc

/-- **One poll of `SinkExt::send`** (feed + flush, resumable): the connection's outgoing stream grows by the
WHOLE encoding exactly once — at the poll in which the item is accepted — never by a part of it, never twice;
`Ready(Ok)` is returned only when nothing of it is left in the write buffer. -/
theorem wrSendPoll_spec0 (ps : Pipes) (wr : Wr) (enc : Bytes) (st : SendSt)
    (hst : st = .feeding enc ∨ st = .flushing) :
    let r := wrSendPoll ps wr st
    r.2.1.pipe = wr.pipe ∧
    (r.2.2.1 = .feeding enc ∨ r.2.2.1 = .flushing) ∧
    outOf r.1 r.2.1 ++ SendSt.handed enc st = outOf ps wr ++ SendSt.handed enc r.2.2.1 ∧
    (r.2.2.2 = .done → r.2.1.buf = [] ∧ r.2.2.1 = .flushing) := by
  simp only [wrSendPoll, outOf, getPipe_setPipe_same]
  rcases hst with rfl | rfl
  · simp only [sendPoll]
    have hs := Sink.pollReady_stream hwmDefault (getPipe ps wr.pipe).w wr.buf
    cases hq : pollReady hwmDefault (getPipe ps wr.pipe).w wr.buf with
    | mk p1 rest =>
      obtain ⟨b1, r1⟩ := rest
      rw [hq] at hs
      simp only at hs
      cases r1 with
      | pending => simp [SendSt.handed, hs]
      | error => simp [SendSt.handed, hs]
      | done =>
        simp only
        have hf := Sink.flushBuf_stream p1 (b1 ++ enc)
        cases hq2 : flushBuf p1 (b1 ++ enc) with
        | mk p2 rest2 =>
          obtain ⟨b2, r2⟩ := rest2
          rw [hq2] at hf
          simp only at hf
          refine ⟨trivial, Or.inr trivial, ?_, fun hd => ⟨?_, trivial⟩⟩
          · simp only [SendSt.handed, List.append_nil]
            rw [hf, ← List.append_assoc, hs]
          · simp only at hd; subst hd
            exact flushBuf_done_empty _ _ _ _ hq2
  · simp only [sendPoll]
    have hf := Sink.flushBuf_stream (getPipe ps wr.pipe).w wr.buf
    cases hq2 : flushBuf (getPipe ps wr.pipe).w wr.buf with
    | mk p2 rest2 =>
      obtain ⟨b2, r2⟩ := rest2
      rw [hq2] at hf
      simp only at hf
      refine ⟨trivial, Or.inr trivial, by simp only [SendSt.handed]; rw [hf], fun hd => ⟨?_, trivial⟩⟩
      simp only at hd; subst hd
      exact flushBuf_done_empty _ _ _ _ hq2

theorem wrSendPoll_flushing (ps : Pipes) (wr : Wr) : (wrSendPoll ps wr .flushing).2.2.1 = .flushing := by
  simp [wrSendPoll, sendPoll]

/-- the same, relative to where the outgoing stream stood when the send began (`base`) -/
theorem wrSendPoll_spec (ps : Pipes) (wr : Wr) (base enc : Bytes) (st : SendSt)
    (hst : st = .feeding enc ∨ st = .flushing) (hout : outOf ps wr = base ++ SendSt.handed enc st) :
    let r := wrSendPoll ps wr st
    r.2.1.pipe = wr.pipe ∧
    (r.2.2.1 = .feeding enc ∨ r.2.2.1 = .flushing) ∧
    outOf r.1 r.2.1 = base ++ SendSt.handed enc r.2.2.1 ∧
    (r.2.2.2 = .done → r.2.1.buf = [] ∧ (getPipe r.1 wr.pipe).w.wire = base ++ enc) := by
  obtain ⟨h1, h2, h3, h4⟩ := wrSendPoll_spec0 ps wr enc st hst
  refine ⟨h1, h2, ?_, fun hd => ?_⟩
  · rcases hst with rfl | rfl
    · simpa [SendSt.handed, hout] using h3
    · rw [wrSendPoll_flushing] at h3 ⊢
      simp only [SendSt.handed] at h3 hout ⊢
      rw [hout] at h3
      exact List.append_cancel_right h3
  · obtain ⟨hb, hf⟩ := h4 hd
    refine ⟨hb, ?_⟩
    have : outOf (wrSendPoll ps wr st).1 (wrSendPoll ps wr st).2.1 = base ++ enc := by
      rcases hst with rfl | rfl
      · have := h3; simp only [SendSt.handed, List.append_nil, hf, hout] at this; exact this
      · have := h3; rw [wrSendPoll_flushing] at this
        simp only [SendSt.handed] at this hout
        rw [hout] at this
        exact List.append_cancel_right this
    simp only [outOf, hb, List.append_nil, h1] at this
    exact this

def wOf (ps : Pipes) (j : Nat) : WPipe := (getPipe ps j).w

theorem wOf_dropR (ps : Pipes) (a j : Nat) : wOf (dropR ps a) j = wOf ps j := by
  by_cases h : j = a
  · subst h; simp [dropR, wOf, getPipe_setPipe_same]
  · simp [dropR, wOf, getPipe_setPipe_other _ _ _ _ h]

theorem wOf_dropW (ps : Pipes) (a j : Nat) : wOf (dropW ps a) j = wOf ps j := by
  by_cases h : j = a
  · subst h; simp [dropW, wOf, getPipe_setPipe_same]
  · simp [dropW, wOf, getPipe_setPipe_other _ _ _ _ h]

theorem pd_wOf (ps : Pipes) (s : Socket) (k : Ident) (j : Nat) :
    wOf (peerDisconnected ps s k).1 j = wOf ps j := by
  cases hp : ilookup s.peers k <;> cases hf : ilookup s.fqStreams k <;> cases hqq : ilookup s.reqRd k <;>
    cases ht : s.typ <;>
    simp_all [peerDisconnected, fqRemove, wOf_dropR, wOf_dropW]

/-- the invariant of a send future that writes to peer `k` (pipe `p`): beyond `base`, the connection has been
handed nothing yet (`feeding`) or the whole encoding `enc` (`flushing`) -/
def SendInv (w : World) (sid : Nat) (k : Ident) (p : Nat) (base enc : Bytes) (st : SendSt) : Prop :=
  ∃ s wr, getSock w sid = some s ∧ ilookup s.peers k = some wr ∧ wr.pipe = p ∧
    (st = .feeding enc ∨ st = .flushing) ∧ outOf w.pipes wr = base ++ SendSt.handed enc st

/-- **One poll of a send that writes to a chosen peer** (REQ, REP, ROUTER — `peer.send_queue.send(msg).await`):
`Pending` keeps the invariant; `Ready(Ok)` means the connection's wire is EXACTLY what it was when the send began
followed by the complete encoding; no other connection's write side is touched — also when the write fails and
the peer is forgotten. -/
theorem sendToPoll_spec (w : World) (sid : Nat) (k : Ident) (p : Nat) (base enc : Bytes) (st : SendSt) (sc : Bool)
    (hinv : SendInv w sid k p base enc st) (w' : World) (f' : FutSt) (o : POut)
    (h : sendToPoll w sid k st sc = (w', f', o)) :
    (∀ j, j ≠ p → wOf w'.pipes j = wOf w.pipes j) ∧
    (match (generalizing := false) f', o with
     | .sendTo _ k' st' _, .pending => k' = k ∧ SendInv w' sid k p base enc st'
     | _, .ready .okUnit => (wOf w'.pipes p).wire = base ++ enc
     | _, .ready (.err _) => True
     | _, _ => False) := by
  obtain ⟨s, wr, hs, hp, rfl, hst, hout⟩ := hinv
  unfold sendToPoll at h
  simp only [hs, hp] at h
  obtain ⟨h1, h2, h3, h4⟩ := wrSendPoll_spec w.pipes wr base enc st hst hout
  have hfr : ∀ j, j ≠ wr.pipe → wOf (wrSendPoll w.pipes wr st).1 j = wOf w.pipes j := fun j hj => by
    simp only [wOf, wrSendPoll_frame w.pipes wr st j hj]
  cases hq : wrSendPoll w.pipes wr st with
  | mk ps1 rest =>
    obtain ⟨wr1, st1, r⟩ := rest
    rw [hq] at h1 h2 h3 h4 hfr
    simp only at h1 h2 h3 h4 hfr
    simp only [hq] at h
    cases r with
    | pending =>
      simp only [Prod.mk.injEq] at h
      obtain ⟨rfl, rfl, rfl⟩ := h
      refine ⟨fun j hj => by simp only [setSock_pipes]; exact hfr j hj, rfl, ?_⟩
      exact ⟨_, wr1, getSock_setSock_same _ _ _, ilookup_iinsert_same _ _ _, h1, h2, by simp only [setSock_pipes]; exact h3⟩
    | error =>
      simp only [Prod.mk.injEq] at h
      obtain ⟨rfl, rfl, rfl⟩ := h
      refine ⟨fun j hj => ?_, trivial⟩
      simp only [setSock_pipes]
      rw [pd_wOf]; exact hfr j hj
    | done =>
      simp only [Prod.mk.injEq] at h
      obtain ⟨rfl, rfl, rfl⟩ := h
      refine ⟨fun j hj => by simp only [setSock_pipes]; exact hfr j hj, ?_⟩
      simp only [setSock_pipes, wOf]
      exact (h4 rfl).2

/-- **One poll of a round-robin send whose peer has been chosen** (PUSH, DEALER — `send_round_robin`): the same
statement — the complete encoding on exactly one wire when it returns `Ok`, nothing on any other. -/
theorem sendRRPoll_spec (fuel : Nat) (w : World) (sid : Nat) (m : Msg) (k : Ident) (p : Nat) (base enc : Bytes) (st : SendSt)
    (hinv : SendInv w sid k p base enc st) (w' : World) (f' : FutSt) (o : POut)
    (h : sendRRPoll (fuel + 1) w sid m (some (k, st)) = (w', f', o)) :
    (∀ j, j ≠ p → wOf w'.pipes j = wOf w.pipes j) ∧
    (match (generalizing := false) f', o with
     | .sendRR _ _ (some (k', st')), .pending => k' = k ∧ SendInv w' sid k p base enc st'
     | _, .ready .okUnit => (wOf w'.pipes p).wire = base ++ enc
     | _, .ready (.err _) => True
     | _, _ => False) := by
  obtain ⟨s, wr, hs, hp, rfl, hst, hout⟩ := hinv
  unfold sendRRPoll at h
  simp only [hs, hp] at h
  obtain ⟨h1, h2, h3, h4⟩ := wrSendPoll_spec w.pipes wr base enc st hst hout
  have hfr : ∀ j, j ≠ wr.pipe → wOf (wrSendPoll w.pipes wr st).1 j = wOf w.pipes j := fun j hj => by
    simp only [wOf, wrSendPoll_frame w.pipes wr st j hj]
  cases hq : wrSendPoll w.pipes wr st with
  | mk ps1 rest =>
    obtain ⟨wr1, st1, r⟩ := rest
    rw [hq] at h1 h2 h3 h4 hfr
    simp only at h1 h2 h3 h4 hfr
    simp only [hq] at h
    cases r with
    | pending =>
      simp only [Prod.mk.injEq] at h
      obtain ⟨rfl, rfl, rfl⟩ := h
      refine ⟨fun j hj => by simp only [setSock_pipes]; exact hfr j hj, rfl, ?_⟩
      exact ⟨_, wr1, getSock_setSock_same _ _ _, ilookup_iinsert_same _ _ _, h1, h2, by simp only [setSock_pipes]; exact h3⟩
    | error =>
      simp only [Prod.mk.injEq] at h
      obtain ⟨rfl, rfl, rfl⟩ := h
      refine ⟨fun j hj => ?_, trivial⟩
      simp only [setSock_pipes]
      rw [pd_wOf]; exact hfr j hj
    | done =>
      simp only [Prod.mk.injEq] at h
      obtain ⟨rfl, rfl, rfl⟩ := h
      refine ⟨fun j hj => by simp only [setSock_pipes]; exact hfr j hj, ?_⟩
      simp only [setSock_pipes, wOf]
      exact (h4 rfl).2

/-- the environment may change a pipe's write credit or make its writes fail between two polls: the invariant of a
send in progress does not care (what has been handed to the connection stays handed) -/
theorem SendInv.env {w : World} {sid : Nat} {k : Ident} {p : Nat} {base enc : Bytes} {st : SendSt}
    (h : SendInv w sid k p base enc st) (w' : World) (hs : getSock w' sid = getSock w sid)
    (hw : (wOf w'.pipes p).wire = (wOf w.pipes p).wire) : SendInv w' sid k p base enc st := by
  obtain ⟨s, wr, h1, h2, rfl, h4, h5⟩ := h
  refine ⟨s, wr, hs.trans h1, h2, rfl, h4, ?_⟩
  simp only [outOf, wOf] at hw h5 ⊢
  rw [hw]; exact h5

/-- a send that is about to start: nothing handed over yet, `base` = the connection's outgoing stream now -/
theorem SendInv.start (w : World) (sid : Nat) (s : Socket) (k : Ident) (wr : Wr) (enc : Bytes)
    (hs : getSock w sid = some s) (hp : ilookup s.peers k = some wr) :
    SendInv w sid k wr.pipe (outOf w.pipes wr) enc (.feeding enc) :=
  ⟨s, wr, hs, hp, rfl, Or.inl rfl, by simp [SendSt.handed]⟩

end Zmq.W
