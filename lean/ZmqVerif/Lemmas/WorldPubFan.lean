import ZmqVerif.Lemmas.WorldSend
namespace Zmq.W
open Zmq

/-- one subscriber's step of the publish loop, as a function of the pipes it meets -/
def pubStep (s : Socket) (topic enc : Bytes) (acc : Pipes × List (Ident × Wr) × List Ident) (e : Ident × Wr) :
    Pipes × List (Ident × Wr) × List Ident :=
  let (ps, peers, dead) := acc
  let subs := (ilookup s.subsOf e.1).getD []
  if hit subs topic then
    let (ps, wr, r) := wrTrySend ps e.2 enc
    let dead := match r with
      | .ioError => if (getPipe ps wr.pipe).wrBroken then dead ++ [e.1] else dead
      | _ => dead
    (ps, peers ++ [(e.1, wr)], dead)
  else (ps, peers ++ [e], dead)

theorem wrTrySend_pipe (ps : Pipes) (wr : Wr) (enc : Bytes) : (wrTrySend ps wr enc).2.1.pipe = wr.pipe := by
  simp [wrTrySend]

theorem wrTrySend_frame (ps : Pipes) (wr : Wr) (enc : Bytes) (j : Nat) (h : j ≠ wr.pipe) :
    getPipe (wrTrySend ps wr enc).1 j = getPipe ps j := by
  simp only [wrTrySend]
  exact getPipe_setPipe_other _ _ _ _ h

/-- `try_send` on a connection: its outgoing stream grows by the WHOLE encoding or not at all -/
theorem wrTrySend_out (ps : Pipes) (wr : Wr) (enc : Bytes) :
    outOf (wrTrySend ps wr enc).1 (wrTrySend ps wr enc).2.1 =
      outOf ps wr ++ (if (wrTrySend ps wr enc).2.2 = .ok then enc else []) := by
  have := Sink.trySend_stream hwmDefault (getPipe ps wr.pipe).w wr.buf enc
  simp only [wrTrySend, outOf, getPipe_setPipe_same]
  exact this

/-- the publish loop over a list of subscribers whose connections are pairwise distinct and distinct from the pipe `p`
under observation leaves `p` alone -/
theorem pubFold_frame (s : Socket) (topic enc : Bytes) (l : List (Ident × Wr)) (acc : Pipes × List (Ident × Wr) × List Ident)
    (p : Nat) (hp : ∀ e ∈ l, e.2.pipe ≠ p) :
    getPipe (l.foldl (pubStep s topic enc) acc).1 p = getPipe acc.1 p := by
  induction l generalizing acc with
  | nil => rfl
  | cons e t ih =>
    simp only [List.foldl_cons]
    rw [ih _ (fun x hx => hp x (List.mem_cons_of_mem _ hx))]
    obtain ⟨ps, peers, dead⟩ := acc
    simp only [pubStep]
    split
    · exact wrTrySend_frame _ _ _ _ (fun h => hp e (List.mem_cons_self ..) h.symm)
    · rfl

theorem pubFold_mem (s : Socket) (topic enc : Bytes) (l : List (Ident × Wr)) (acc : Pipes × List (Ident × Wr) × List Ident)
    (x : Ident × Wr) (hx : x ∈ acc.2.1) : x ∈ (l.foldl (pubStep s topic enc) acc).2.1 := by
  induction l generalizing acc with
  | nil => exact hx
  | cons e t ih =>
    simp only [List.foldl_cons]
    apply ih
    obtain ⟨ps, peers, dead⟩ := acc
    simp only [pubStep]
    split <;> simp [hx]

/-- `try_send` looks only at its own connection -/
theorem wrTrySend_congr (ps ps2 : Pipes) (wr : Wr) (enc : Bytes) (h : getPipe ps wr.pipe = getPipe ps2 wr.pipe) :
    (wrTrySend ps wr enc).2 = (wrTrySend ps2 wr enc).2 ∧
    getPipe (wrTrySend ps wr enc).1 wr.pipe = getPipe (wrTrySend ps2 wr enc).1 wr.pipe := by
  simp only [wrTrySend, h, getPipe_setPipe_same, and_self]

theorem outOf_congr (ps ps2 : Pipes) (wr : Wr) (h : getPipe ps wr.pipe = getPipe ps2 wr.pipe) : outOf ps wr = outOf ps2 wr := by
  simp [outOf, h]

/-- **One publish, subscriber by subscriber.**  For a subscriber `(k, wr)` at any position of the table whose connection
is shared with no other subscriber: after the loop it is still in the table, on the same connection, and its
outgoing stream (wire ++ write buffer) is the old one followed by the WHOLE encoding — iff one of its subscriptions is
a prefix of the topic AND `try_send` accepted it (`C12_stream`: not at its high-water mark, no write error) — or by
nothing at all.  Never a part, never twice, whatever happens to the other subscribers (stalled, full, broken). -/
theorem pubFold_sub (s : Socket) (topic enc : Bytes) (pre post : List (Ident × Wr)) (k : Ident) (wr : Wr)
    (acc : Pipes × List (Ident × Wr) × List Ident)
    (hpre : ∀ e ∈ pre, e.2.pipe ≠ wr.pipe) (hpost : ∀ e ∈ post, e.2.pipe ≠ wr.pipe) :
    let r := (pre ++ (k, wr) :: post).foldl (pubStep s topic enc) acc
    ∃ wr', (k, wr') ∈ r.2.1 ∧ wr'.pipe = wr.pipe ∧
      outOf r.1 wr' = outOf acc.1 wr ++
        (if hit ((ilookup s.subsOf k).getD []) topic ∧ (wrTrySend acc.1 wr enc).2.2 = .ok then enc else []) := by
  simp only [List.foldl_append, List.foldl_cons]
  have hfr1 := pubFold_frame s topic enc pre acc wr.pipe hpre
  generalize hA : pre.foldl (pubStep s topic enc) acc = A at hfr1
  obtain ⟨psA, peersA, deadA⟩ := A
  simp only at hfr1
  by_cases hh : hit ((ilookup s.subsOf k).getD []) topic
  · have hstep : pubStep s topic enc (psA, peersA, deadA) (k, wr) =
        ((wrTrySend psA wr enc).1, peersA ++ [(k, (wrTrySend psA wr enc).2.1)],
          (match (wrTrySend psA wr enc).2.2 with
           | .ioError => if (getPipe (wrTrySend psA wr enc).1 (wrTrySend psA wr enc).2.1.pipe).wrBroken then deadA ++ [k] else deadA
           | _ => deadA)) := by
      simp only [pubStep, hh, ↓reduceIte]
    rw [hstep]
    obtain ⟨hc1, hc2⟩ := wrTrySend_congr psA acc.1 wr enc hfr1
    refine ⟨(wrTrySend psA wr enc).2.1, pubFold_mem _ _ _ _ _ _ (by simp), wrTrySend_pipe _ _ _, ?_⟩
    have hfr2 := pubFold_frame s topic enc post
      ((wrTrySend psA wr enc).1, peersA ++ [(k, (wrTrySend psA wr enc).2.1)],
        (match (wrTrySend psA wr enc).2.2 with
         | .ioError => if (getPipe (wrTrySend psA wr enc).1 (wrTrySend psA wr enc).2.1.pipe).wrBroken then deadA ++ [k] else deadA
         | _ => deadA)) wr.pipe hpost
    simp only at hfr2
    rw [outOf_congr _ (wrTrySend psA wr enc).1 _ (by rw [wrTrySend_pipe]; exact hfr2)]
    rw [wrTrySend_out, outOf_congr psA acc.1 wr hfr1]
    have : (wrTrySend psA wr enc).2.2 = (wrTrySend acc.1 wr enc).2.2 := by rw [hc1]
    simp [hh, this]
  · have hstep : pubStep s topic enc (psA, peersA, deadA) (k, wr) = (psA, peersA ++ [(k, wr)], deadA) := by
      simp only [pubStep, hh, Bool.false_eq_true, ↓reduceIte]
    rw [hstep]
    refine ⟨wr, pubFold_mem _ _ _ _ _ _ (by simp), rfl, ?_⟩
    have hfr2 := pubFold_frame s topic enc post (psA, peersA ++ [(k, wr)], deadA) wr.pipe hpost
    simp only at hfr2
    rw [outOf_congr _ psA _ hfr2, outOf_congr psA acc.1 wr hfr1]
    simp [hh]

/-- `PubSocket::send` / `XPubSocket::send` IS that loop, followed by forgetting the subscribers whose pipe is broken -/
theorem pubSend_fold (w : World) (sid : Nat) (m : Msg) (s : Socket) (hs : getSock w sid = some s) :
    pubSend w sid m =
      (let r := s.peers.foldl (pubStep s (m.headD []) (encodeMsg m)) (w.pipes, [], [])
       let s1 := { s with peers := r.2.1 }
       let q := r.2.2.foldl (fun (acc : Pipes × Socket) k => peerDisconnected acc.1 acc.2 k) (r.1, s1)
       (setSock { w with pipes := q.1 } sid q.2, .ready .okUnit)) := by
  unfold pubSend
  simp only [hs]
  rfl

theorem pdFold_wOf (dead : List Ident) (acc : Pipes × Socket) (j : Nat) :
    wOf (dead.foldl (fun (acc : Pipes × Socket) k => peerDisconnected acc.1 acc.2 k) acc).1 j = wOf acc.1 j := by
  induction dead generalizing acc with
  | nil => rfl
  | cons k t ih => simp only [List.foldl_cons]; rw [ih, pd_wOf]

/-- … and that last phase changes no connection's write side: what a subscriber's connection carries after `send`
returned is what the loop left there. -/
theorem pubSend_wOf (w : World) (sid : Nat) (m : Msg) (s : Socket) (hs : getSock w sid = some s) (j : Nat) :
    wOf (pubSend w sid m).1.pipes j =
      wOf (s.peers.foldl (pubStep s (m.headD []) (encodeMsg m)) (w.pipes, [], [])).1 j := by
  rw [pubSend_fold w sid m s hs]
  simp only [setSock_pipes]
  exact pdFold_wOf _ _ _

end Zmq.W
