import ZmqVerif.Model.Lifecycle
namespace Zmq.Own
open Node

/-- the leak (D15): with an armed waker and no repair, dropping the socket frees neither half -/
theorem cycle_leaks (g : Cfg) (c : Nat) (hreg : g.registered c = true) (harm : g.armed c = true)
    (hfix : g.fqDropsStreams = false) :
    ¬ Freed g (rhalf c) ∧ ¬ Freed g (transport c) ∧ ¬ Freed g (waker c) ∧ ¬ Freed g qinner := by
  -- no node of the cycle rhalf → transport → waker → qinner → rhalf can be freed
  have key : ∀ x, Freed g x → x ≠ rhalf c ∧ x ≠ transport c ∧ x ≠ waker c ∧ x ≠ qinner := by
    intro x hx
    induction hx with
    | intro x hroot howners ih =>
      refine ⟨?_, ?_, ?_, ?_⟩
      · rintro rfl
        exact (ih qinner (by simp [owns, hreg, hfix])).2.2.2 rfl
      · rintro rfl
        exact (ih (rhalf c) (by simp [owns])).1 rfl
      · rintro rfl
        exact (ih (transport c) (by simp [owns, harm])).2.1 rfl
      · rintro rfl
        exact (ih (waker c) (by simp [owns])).2.2.1 rfl
  exact ⟨fun h => (key _ h).1 rfl, fun h => (key _ h).2.1 rfl, fun h => (key _ h).2.2.1 rfl,
         fun h => (key _ h).2.2.2 rfl⟩

/-- after the repair: once the socket is dropped and no handshake is pending, every registered
connection is closed (its transport is freed), whatever wakers were armed -/
theorem dropped_closes (g : Cfg) (hdrop : g.sockHeld = false) (hfix : g.fqDropsStreams = true)
    (hnohs : ∀ c, g.handshaking c = false) (c : Nat) : Freed g (transport c) := by
  have fsock : Freed g sock := ⟨_, by simp [root, hdrop], by intro y hy; cases y <;> simp [owns] at hy⟩
  have fhs : ∀ c, Freed g (hsTask c) := fun c =>
    ⟨_, by simp [root, hnohs], by intro y hy; cases y <;> simp [owns, hnohs] at hy⟩
  have fstop : ∀ e, Freed g (stopTx e) := fun e =>
    ⟨_, by simp [root], by intro y hy; cases y <;> simp [owns] at hy; exact fsock⟩
  have faccept : ∀ e, Freed g (acceptTask e) := fun e =>
    ⟨_, by simp [root], by
      intro y hy; cases y <;> simp [owns] at hy
      subst hy; exact fstop _⟩
  have fback : Freed g backend :=
    ⟨_, by simp [root], by
      intro y hy; cases y <;> simp [owns] at hy
      · exact fsock
      · exact faccept _
      · exact fhs _⟩
  have frh : ∀ c, Freed g (rhalf c) := fun c =>
    ⟨_, by simp [root], by
      intro y hy; cases y <;> simp [owns, hfix, hdrop] at hy
      · exact fhs _⟩
  have fwh : ∀ c, Freed g (whalf c) := fun c =>
    ⟨_, by simp [root], by
      intro y hy; cases y <;> simp [owns] at hy
      · exact fback
      · exact fhs _⟩
  exact ⟨_, by simp [root], by
    intro y hy; cases y <;> simp [owns] at hy
    · subst hy; exact frh _
    · subst hy; exact fwh _⟩

/-- before the repair (D14): a pending handshake is *not* closed by dropping/closing the socket —
the detached task keeps both halves alive for as long as the peer stalls -/
theorem pending_handshake_survives (g : Cfg) (c : Nat) (hhs : g.handshaking c = true)
    (hfix : g.hsStops = false) : ¬ Freed g (rhalf c) := by
  intro h
  cases h with
  | intro _ _ howners =>
    have := howners (hsTask c) (by simp [owns, hhs])
    cases this with
    | intro _ hroot _ => exact hroot (by simp [root, hhs, hfix])

/-- after the repair: a handshake task is owned by its listener's stop sender, so once the socket
is dropped (or closed) a connection still in its handshake is closed too -/
theorem pending_handshake_closed (g : Cfg) (hdrop : g.sockHeld = false) (hfix : g.hsStops = true)
    (c : Nat) (hhs : g.handshaking c = true) (hnr : g.registered c = false) :
    Freed g (transport c) := by
  have fsock : Freed g sock := ⟨_, by simp [root, hdrop], by intro y hy; cases y <;> simp [owns] at hy⟩
  have fstop : ∀ e, Freed g (stopTx e) := fun e =>
    ⟨_, by simp [root], by intro y hy; cases y <;> simp [owns] at hy; exact fsock⟩
  have fhs : Freed g (hsTask c) :=
    ⟨_, by simp [root, hfix], by
      intro y hy; cases y <;> simp [owns] at hy
      exact fstop _⟩
  have frh : Freed g (rhalf c) :=
    ⟨_, by simp [root], by
      intro y hy; cases y <;> simp [owns, hnr] at hy
      · obtain ⟨rfl, _⟩ := hy; exact fhs⟩
  have fwh : Freed g (whalf c) :=
    ⟨_, by simp [root], by
      intro y hy; cases y <;> simp [owns, hnr] at hy
      · obtain ⟨rfl, _⟩ := hy; exact fhs⟩
  exact ⟨_, by simp [root], by
    intro y hy; cases y <;> simp [owns] at hy
    · subst hy; exact frh
    · subst hy; exact fwh⟩

/-- both repairs together: once the socket is dropped or closed EVERY connection is closed —
registered or still in its handshake, whatever wakers were armed -/
theorem dropped_closes_all (g : Cfg) (hdrop : g.sockHeld = false) (hfix : g.fqDropsStreams = true)
    (hfix14 : g.hsStops = true) (c : Nat) : Freed g (transport c) := by
  have fsock : Freed g sock := ⟨_, by simp [root, hdrop], by intro y hy; cases y <;> simp [owns] at hy⟩
  have fstop : ∀ e, Freed g (stopTx e) := fun e =>
    ⟨_, by simp [root], by intro y hy; cases y <;> simp [owns] at hy; exact fsock⟩
  have fhs : ∀ c, Freed g (hsTask c) := fun c =>
    ⟨_, by simp [root, hfix14], by
      intro y hy; cases y <;> simp [owns] at hy
      exact fstop _⟩
  have faccept : ∀ e, Freed g (acceptTask e) := fun e =>
    ⟨_, by simp [root], by
      intro y hy; cases y <;> simp [owns] at hy
      subst hy; exact fstop _⟩
  have fback : Freed g backend :=
    ⟨_, by simp [root], by
      intro y hy; cases y <;> simp [owns] at hy
      · exact fsock
      · exact faccept _
      · exact fhs _⟩
  have frh : ∀ c, Freed g (rhalf c) := fun c =>
    ⟨_, by simp [root], by
      intro y hy; cases y <;> simp [owns, hfix, hdrop] at hy
      · exact fhs _⟩
  have fwh : ∀ c, Freed g (whalf c) := fun c =>
    ⟨_, by simp [root], by
      intro y hy; cases y <;> simp [owns] at hy
      · exact fback
      · exact fhs _⟩
  exact ⟨_, by simp [root], by
    intro y hy; cases y <;> simp [owns] at hy
    · subst hy; exact frh _
    · subst hy; exact fwh _⟩

end Zmq.Own

