import ZmqVerif.Lemmas.FQProgress
/-! WHICH waker is woken: the queue publishes the waker of the call in progress on every turn
of section A, so a wake-up always goes to the most recent caller — never to the waker left
behind by an earlier, abandoned call made from another task. -/
namespace Zmq.FQ

/-- once the receiver is past section A (checked out a stream, or parked), the published waker
is the one the current / last `poll_next` call was made with -/
def PubCur (s : St) : Prop := s.pc ≠ .idle → s.pc ≠ .a → s.pubW = s.polledW

theorem pubCur_init : PubCur ({} : St) := by intro h; simp at h

theorem pubW_ready (s : St) (k : Nat) (p' : Peer) :
    (ready s k p').pubW = s.pubW ∧ (ready s k p').polledW = s.polledW ∧ (ready s k p').pc = s.pc := by
  unfold ready; split <;> (try split) <;> simp [fire]

theorem pubCur_step (s : St) (op : Op) (h : PubCur s) : PubCur (step s op) := by
  cases op with
  | insert k => simp only [step, doInsert]; split <;> exact h
  | remove k => simp only [step, doRemove]; split <;> exact h
  | arrive k item =>
    simp only [step, doArrive]; split
    · exact h
    · intro h1 h2
      obtain ⟨e1, e2, e3⟩ := pubW_ready s k { s.peer k with q := (s.peer k).q ++ [item] }
      simp only [e3] at h1 h2
      simp only [e1, e2]
      exact h h1 h2
  | close k =>
    simp only [step, doClose]; split
    · exact h
    · intro h1 h2
      obtain ⟨e1, e2, e3⟩ := pubW_ready s k { s.peer k with closed := true }
      simp only [e3] at h1 h2
      simp only [e1, e2]
      exact h h1 h2
  | pollStart =>
    simp only [step, doPollStart]; split
    · intro _ h2; simp at h2
    · intro _ h2; simp at h2
    · exact h
  | recvStep =>
    cases hp : s.pc with
    | idle => simp only [step, doRecv, hp]; exact h
    | parked => simp only [step, doRecv, hp]; exact h
    | a =>
      simp only [step, doRecv, hp]
      unfold doA
      split
      · split
        · intro _ _; simp [yieldNow]
        · unfold doAcore; split
          · intro _ _; rfl
          · split
            · intro _ _; rfl
            · intro _ h2; simp [hp] at h2
      · unfold doAcore; split
        · intro _ _; rfl
        · split
          · intro _ _; rfl
          · intro _ h2; simp [hp] at h2
    | b t k =>
      have hb := h (by simp [hp]) (by simp [hp])
      simp only [step, doRecv, hp]
      unfold doB
      split
      · intro _ _; simpa [doBex, fire] using hb
      · simp only [doBcore]
        cases (s.peer k).q with
        | cons item q' => intro _ _; exact hb
        | nil =>
          simp only []
          split
          · intro _ _; exact hb
          · intro _ _; exact hb
    | c t k r =>
      simp only [step, doRecv, hp]
      cases r with
      | some item => intro h1 _; simp [doC] at h1
      | none => intro _ h2; simp [doC] at h2
      | pend => intro _ h2; simp [doC] at h2
  | exhaust => exact h
  | setWaker w => exact h

theorem reachable_pubCur (ops : List Op) : PubCur (ops.foldl step {}) := by
  suffices h : ∀ s, PubCur s → PubCur (ops.foldl step s) from h _ pubCur_init
  induction ops with
  | nil => intro s h; exact h
  | cons op ops ih => intro s h; exact ih _ (pubCur_step s op h)

/-- **the wake-up goes to the latest caller**: a parked, un-notified receiver is woken by the
next arrival on a registered stream — and the waker that is woken is the one the last
`poll_next` call was made with -/
theorem wake_latest_on_arrive (s : St) (hinv : Inv s) (hpub : PubCur s) (hp : s.pc = .parked)
    (hn : s.notified = false) (k item : Nat) (hreg : s.reg k = .inMap) :
    (step s (.arrive k item)).woken = s.woken ++ [s.polledW] := by
  obtain ⟨hheap, hw⟩ := hinv.i1 hp hn
  have hcl := (parked_means_nothing_ready s hinv hp hn k hreg).2
  have ht := hinv.tok k (Or.inl hreg)
  have hh := inHand_of_not_out hinv k (by simp [hreg])
  have harm : ∃ t, (s.peer k).armed = some t := by
    cases ha : (s.peer k).armed with
    | some t => exact ⟨t, rfl⟩
    | none => simp [evs, cnt, hheap, armedN, ha, hh] at ht
  obtain ⟨t, ha⟩ := harm
  have hpw : s.pubW = s.polledW := hpub (by simp [hp]) (by simp [hp])
  simp [step, doArrive, hcl, ready, ha, hreg, fire, hw, hpw]

theorem wake_latest_on_insert (s : St) (hinv : Inv s) (hpub : PubCur s) (hp : s.pc = .parked)
    (hn : s.notified = false) (k : Nat) (hreg : s.reg k = .absent) :
    (step s (.insert k)).woken = s.woken ++ [s.polledW] := by
  obtain ⟨_, hw⟩ := hinv.i1 hp hn
  have hpw : s.pubW = s.polledW := hpub (by simp [hp]) (by simp [hp])
  simp [step, doInsert, hreg, hw, hpw]

end Zmq.FQ
