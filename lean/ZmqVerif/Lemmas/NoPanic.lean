import ZmqVerif.Model.Decoder
namespace Zmq

theorem parseMechanism_no_panic (f : Bytes) : (parseMechanism f).isPanic = false := by
  unfold parseMechanism
  simp only []
  split
  · rfl
  · split
    · rfl
    · split <;> rfl

theorem index_ok {v : Bytes} {i : Nat} (h : i < v.length) : index v i = .ok v[i] := by
  simp [index, List.getElem?_eq_getElem h]

/-- `ZmqGreeting::try_from` indexes bytes 0, 9, 10, 11, 12..32 and 32 — all guarded by `len == 64` -/
theorem parseGreeting_no_panic (v : Bytes) : (parseGreeting v).isPanic = false := by
  unfold parseGreeting
  by_cases hl : v.length = 64
  · simp only [hl, ne_eq, not_true_eq_false, ↓reduceIte]
    rw [index_ok (by omega), index_ok (by omega)]
    simp only [bind, Out.bind]
    split
    · rfl
    · rw [index_ok (by omega), index_ok (by omega)]
      simp only []
      have : ¬ (64 < 32) := by omega
      simp only [this, ↓reduceIte]
      have hm := parseMechanism_no_panic ((v.drop 12).take 20)
      cases hp : parseMechanism ((v.drop 12).take 20) with
      | ok m => simp only []; rw [index_ok (by omega)]; rfl
      | err e => rfl
      | panic s => simp [hp, Out.isPanic] at hm
  · simp [hl, Out.isPanic]

theorem parseProps_no_panic (fuel : Nat) (buf : Bytes) (acc : Props) :
    (parseProps fuel buf acc).isPanic = false := by
  induction fuel generalizing buf acc with
  | zero => simp [parseProps, Out.isPanic]
  | succ f ih =>
    unfold parseProps
    split
    · rfl
    · cases buf with
      | nil => simp at *
      | cons n rest =>
        simp only [getU8, bind, Out.bind]
        split
        · rfl
        · rename_i hlen
          simp only [splitTo, hlen, ↓reduceIte]
          split
          · rfl
          · split
            · rfl
            · rename_i h4
              simp only [getU32, List.length_drop] at h4 ⊢
              have : ¬ (rest.length - n.toNat < 4) := by simpa using h4
              simp only [this, ↓reduceIte]
              split
              · rfl
              · rename_i hv
                simp only [hv, ↓reduceIte]
                exact ih _ _

/-- the READY parser never reaches a panic site, whatever bytes the peer sent as a command body -/
theorem parseCommand_no_panic (body : Bytes) : (parseCommand body).isPanic = false := by
  unfold parseCommand
  split
  · rfl
  · cases body with
    | nil => simp at *
    | cons n rest =>
      simp only [getU8, bind, Out.bind]
      split
      · rfl
      · rename_i hlen
        simp only [sliceTo, splitTo, hlen, ↓reduceIte]
        split
        · rfl
        · exact parseProps_no_panic _ _ _

theorem ofOut_panic {o : Out Item} {d : Dec} {b : Bytes} {s : Site}
    (h : StepOut.ofOut o d b = .panic s) : o = .panic s := by
  cases o <;> simp [StepOut.ofOut] at h
  exact congrArg _ h

/-- the guard `src.len() >= waiting_for` keeps `src[0]`, `get_u8`, `get_u64`, `split_to` in range,
and the parsers behind them never panic -/
theorem step_no_panic (d : Dec) (buf : Bytes) (h : ¬ buf.length < d.st.need) (s : Site) :
    step d buf ≠ .panic s := by
  unfold step
  cases hs : d.st with
  | greeting =>
    simp only [hs, DState.need] at h
    cases buf with
    | nil => simp at h
    | cons b t =>
      simp only []
      split
      · simp
      · intro hc
        have := ofOut_panic hc
        generalize (List.take 64 (b :: t)) = v at this
        have hp := parseGreeting_no_panic v
        cases hg : parseGreeting v <;>
          simp [hg, bind, Out.bind, Out.isPanic] at this hp
  | header =>
    simp only [hs, DState.need] at h
    cases buf with
    | nil => simp at h
    | cons b t => simp
  | len f =>
    simp only [hs, DState.need] at h
    by_cases hl : f.long
    · simp only [hl, ↓reduceIte] at h ⊢
      simp [h]
    · simp only [hl, Bool.false_eq_true, ↓reduceIte] at h ⊢
      cases buf with
      | nil => simp at h
      | cons b t => simp
  | body f n =>
    simp only [hs, DState.need] at h
    simp only [h, ↓reduceIte]
    split
    · intro hc
      have := ofOut_panic hc
      generalize (List.take n buf) = v at this
      have hp := parseCommand_no_panic v
      cases hg : parseCommand v <;>
        simp [hg, bind, Out.bind, Out.isPanic] at this hp
    · split <;> simp

theorem decode_no_panic (d : Dec) (buf : Bytes) (s : Site) (d' : Dec) (b' : Bytes) :
    decode d buf ≠ .panic s d' b' := by
  fun_induction decode d buf with
  | case1 => simp
  | case2 d buf hge d1 b1 hs ih => exact ih
  | case3 => simp
  | case4 => simp
  | case5 d buf hge s1 hs => exact absurd hs (step_no_panic d buf hge s1)

theorem run_no_panic (d : Dec) (buf : Bytes) : (run d buf).panic = none := by
  fun_induction run d buf with
  | case1 => rfl
  | case2 => rfl
  | case3 d buf s d' buf' h => exact absurd h (decode_no_panic d buf s d' buf')
  | case4 d buf i d' buf' h r ih => exact ih

end Zmq
