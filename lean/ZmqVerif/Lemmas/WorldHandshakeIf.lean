import ZmqVerif.Lemmas.WorldAdmit
import ZmqVerif.Lemmas.WorldSend
namespace Zmq.W
open Zmq

/-! # The handshake completes when everything is there (C04, the "if" direction end to end) -/

/-- reading never touches the write side of any pipe -/
theorem wOf_readerPoll (fuel : Nat) (ps : Pipes) (rd : Rd) (who : RWaker) (j : Nat) :
    wOf (readerPoll fuel ps rd who).2.1 j = wOf ps j := by
  induction fuel generalizing ps rd with
  | zero => rfl
  | succ fuel ih =>
    unfold readerPoll
    cases decodeOnce rd with
    | item i d b => rfl
    | fail e d b => rfl
    | panic s d b => rfl
    | none d b =>
      simp only
      split
      · split
        · rfl
        · split
          · split
            · rfl
            · cases decodeOnce { rd with dec := d, buf := b } with
              | item i d b => rfl
              | fail e d b => rfl
              | panic s d b => rfl
              | none d b => simp only; split <;> rfl
          · simp only [wOf]
            by_cases hj : j = rd.pipe
            · subst hj; simp [getPipe_setPipe_same]
            · rw [getPipe_setPipe_other _ _ _ _ hj]
      · rw [ih]
        simp only [wOf]
        by_cases hj : j = rd.pipe
        · subst hj; simp [getPipe_setPipe_same]
        · rw [getPipe_setPipe_other _ _ _ _ hj]

/-- a pipe whose write side takes everything at once -/
def Free (ps : Pipes) (p : Nat) : Prop := (wOf ps p).credit = none ∧ (wOf ps p).wrerr = false

/-- a full `send` on a free pipe with an empty write buffer completes in one poll: the whole encoding is on the wire,
the buffer is empty again, the pipe is still free, and nothing else about any pipe's read side changes -/
theorem wrSendPoll_free (ps : Pipes) (wr : Wr) (enc : Bytes) (hb : wr.buf = []) (hf : Free ps wr.pipe) :
    ∃ ps' wr', wrSendPoll ps wr (.feeding enc) = (ps', wr', .flushing, .done) ∧ wr'.pipe = wr.pipe ∧ wr'.buf = [] ∧
      Free ps' wr.pipe ∧ (wOf ps' wr.pipe).wire = (wOf ps wr.pipe).wire ++ enc ∧ ∀ j, inbufOf ps' j = inbufOf ps j := by
  obtain ⟨hc, he⟩ := hf
  simp only [wOf] at hc he
  have hin := inbufOf_wrSendPoll ps wr (.feeding enc)
  unfold wrSendPoll at hin ⊢
  simp only [sendPoll, hb, pollReady, hwmDefault, List.length_nil, Nat.zero_lt_succ, ↓reduceIte, List.nil_append,
    flushBuf, he, hc, Bool.false_eq_true] at hin ⊢
  by_cases hne : enc.isEmpty
  · simp only [hne, ↓reduceIte] at hin ⊢
    refine ⟨_, _, rfl, rfl, ?_, ?_, ?_, hin⟩
    · simpa using hne
    · simp [Free, wOf, getPipe_setPipe_same, hc, he]
    · have : enc = [] := by simpa using hne
      simp [wOf, getPipe_setPipe_same, this]
  · simp only [hne, Bool.false_eq_true, ↓reduceIte] at hin ⊢
    refine ⟨_, _, rfl, rfl, rfl, ?_, ?_, hin⟩
    · simp [Free, wOf, getPipe_setPipe_same, hc, he]
    · simp [wOf, getPipe_setPipe_same]


/-- what the rest of a connection's byte stream decodes to depends on the pipe's waiting bytes only -/
theorem Rd.items_congr (ps ps' : Pipes) (rd : Rd) (h : inbufOf ps' rd.pipe = inbufOf ps rd.pipe) :
    rd.items ps' = rd.items ps := by
  simp only [Rd.items, Rd.rem, h]

/-- the version rule of `negotiate_version` -/
def vOk (g : Greeting) : Prop := g.major.toNat > 3 ∨ (g.major.toNat = 3 ∧ g.minor.toNat ≥ 0)

/-- the first three stages on a free connection with the peer's greeting and READY there: greeting out, greeting in,
READY out — the same poll goes on, in the stage that reads the peer's READY, with that READY at the head of the stream -/
theorem attachPoll_to_readReady (m : Nat) (w : World) (sid pid : Nat) (rd : Rd) (wr : Wr) (s : Socket) (encG : Bytes)
    (hs : getSock w sid = some s) (hb : wr.buf = []) (hfree : Free w.pipes wr.pipe)
    (g : Greeting) (items : List Item) (hitems : rd.items w.pipes = .greeting g :: items) (hv : vOk g) :
    ∃ psC rdB wrC, attachPoll (m + 3) w sid pid (.sendGreeting (.feeding encG)) rd wr =
        attachPoll m { w with pipes := psC } sid pid .readReady rdB wrC ∧
      rdB.items psC = items ∧ wrC.pipe = wr.pipe ∧ wrC.buf = [] ∧ Free psC wr.pipe ∧
      (wOf psC wr.pipe).wire = (wOf w.pipes wr.pipe).wire ++ encG ++ encodeReady s.typ s.ident false := by
  obtain ⟨psA, wrA, hA, hA1, hA2, hA3, hA4, hA5⟩ := wrSendPoll_free w.pipes wr encG hb hfree
  have e1 : attachPoll (m + 3) w sid pid (.sendGreeting (.feeding encG)) rd wr =
      attachPoll (m + 2) { w with pipes := psA } sid pid .readGreeting rd wrA := by
    conv => lhs; unfold attachPoll
    simp only [hs, hA]
  have hitA : rd.items psA = .greeting g :: items := by
    rw [Rd.items_congr w.pipes psA rd (hA5 _)]; exact hitems
  rcases hr : readerPoll (readFuel psA rd) psA rd .user with ⟨r, psB, rdB⟩
  have hsp := readerPoll_spec (readFuel psA rd) psA rd .user (by simp only [readFuel, inbufOf]; omega) r psB rdB hr
  obtain ⟨_, _, h3⟩ := hsp
  have hwB : ∀ j, wOf psB j = wOf psA j := by
    intro j; have := wOf_readerPoll (readFuel psA rd) psA rd .user j; rw [hr] at this; exact this
  cases r with
  | pending => simp only at h3; rw [h3.2] at hitA; cases hitA
  | eof => simp only at h3; rw [h3] at hitA; cases hitA
  | err e => simp only at h3; rw [h3] at hitA; cases hitA
  | item i =>
    simp only at h3
    have hcons : rd.items psA = i :: rdB.items psB := by
      simp only [Rd.items, h3, RunOut.pre_items, List.singleton_append]
    rw [hcons] at hitA
    obtain ⟨hi, hrestB⟩ := List.cons.inj hitA
    subst hi
    have hsA : getSock ({ w with pipes := psA } : World) sid = some s := hs
    have e2 : attachPoll (m + 2) { w with pipes := psA } sid pid .readGreeting rd wrA =
        attachPoll (m + 1) { w with pipes := psB } sid pid (.sendReady (.feeding (encodeReady s.typ s.ident false))) rdB wrA := by
      conv => lhs; unfold attachPoll
      simp only [hsA, hr]
      have hv' : g.major.toNat > 3 ∨ (g.major.toNat = 3 ∧ g.minor.toNat ≥ 0) := hv
      simp only [hv', if_true]
    have hfreeB : Free psB wrA.pipe := by
      rw [hA1]; obtain ⟨c1, c2⟩ := hA3; exact ⟨by rw [hwB]; exact c1, by rw [hwB]; exact c2⟩
    obtain ⟨psC, wrC, hC, hC1, hC2, hC3, hC4, hC5⟩ := wrSendPoll_free psB wrA (encodeReady s.typ s.ident false) hA2 hfreeB
    have hsB : getSock ({ w with pipes := psB } : World) sid = some s := hs
    have e3 : attachPoll (m + 1) { w with pipes := psB } sid pid (.sendReady (.feeding (encodeReady s.typ s.ident false))) rdB wrA =
        attachPoll m { w with pipes := psC } sid pid .readReady rdB wrC := by
      conv => lhs; unfold attachPoll
      simp only [hsB, hC]
    have hitC : rdB.items psC = items := by
      rw [Rd.items_congr psB psC rdB (hC5 _)]; exact hrestB
    refine ⟨psC, rdB, wrC, by rw [e1, e2, e3], hitC, hC1.trans hA1, hC2, by rw [← hA1]; exact hC3, ?_⟩
    rw [hA1] at hC4
    rw [hC4, hwB, hA4]

/-- **The handshake completes when everything is there.**  A socket (not SUB, alive) starts the handshake on a connection
whose write side takes everything at once, and the connection's byte stream — in whatever segmentation it arrived —
begins with a greeting of an acceptable version followed by a READY that `admitPeer` admits under `ident`.  Then ONE
poll of the handshake future completes with `Ok(ident)`, and the peer is in the socket's peer table under `ident`. -/
theorem attachPoll_completes (n : Nat) (w : World) (sid pid : Nat) (rd : Rd) (wr : Wr) (s : Socket) (encG : Bytes)
    (hs : getSock w sid = some s) (hns : s.typ ≠ .sub) (halive : s.dead = false)
    (hb : wr.buf = []) (hfree : Free w.pipes wr.pipe)
    (g : Greeting) (props : List (Bytes × Bytes)) (rest : List Item)
    (hitems : rd.items w.pipes = .greeting g :: .command props :: rest) (hv : vOk g)
    (ident : Ident) (fresh' : Nat) (hadm : admitPeer s.typ props w.fresh = .ok (ident, fresh')) :
    ∃ w' s' wr', attachPoll (n + 4) w sid pid (.sendGreeting (.feeding encG)) rd wr = (w', .done, .ready (.okId ident)) ∧
      getSock w' sid = some s' ∧ ilookup s'.peers ident = some wr' ∧ wr'.pipe = wr.pipe := by
  obtain ⟨psC, rdB, wrC, e, hitC, hC1, _, _, _⟩ :=
    attachPoll_to_readReady (n + 1) w sid pid rd wr s encG hs hb hfree g _ hitems hv
  have hsC : getSock ({ w with pipes := psC } : World) sid = some s := hs
  rcases hfin : attachPoll (n + 1) { w with pipes := psC } sid pid .readReady rdB wrC with ⟨w', f', o⟩
  have hd := attachPoll_readReady_decides n { w with pipes := psC } sid pid rdB wrC s hsC props rest hitC w' f' o hfin
  have hadm' : admitPeer s.typ props ({ w with pipes := psC } : World).fresh = .ok (ident, fresh') := hadm
  simp only [hadm'] at hd
  obtain ⟨ho, hf, hreg⟩ := hd hns
  obtain ⟨s', hs', hl⟩ := hreg halive
  subst ho hf
  exact ⟨w', s', wrC, by rw [e, hfin], hs', hl, hC1⟩

end Zmq.W
