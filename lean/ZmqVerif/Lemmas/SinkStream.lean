import ZmqVerif.Lemmas.WorldMaps
/-!
# Stream continuity of the framed writer (`Model.Sink`): what `poll_ready`, `poll_flush` and `try_send` do to
`wire ++ write buffer` — used by C12 (publishers) and by the send-path lemmas of the composition
-/
namespace Zmq.Sink
open Zmq Zmq.W

/-- stream continuity of one write burst: bytes leave the buffer for the wire in order -/
theorem flushBuf_stream (p : WPipe) (buf : Bytes) :
    (flushBuf p buf).1.wire ++ (flushBuf p buf).2.1 = p.wire ++ buf := by
  unfold flushBuf
  by_cases h1 : buf.isEmpty
  · simp [h1]
  · by_cases h2 : p.wrerr
    · simp [h1, h2]
    · cases hc : p.credit with
      | none => simp [h1, h2, hc]
      | some c =>
        simp only [h1, h2, hc, Bool.false_eq_true, ↓reduceIte]
        by_cases h3 : min c buf.length = buf.length
        · simp only [h3, ↓reduceIte, List.append_nil]
          rw [List.take_of_length_le (by omega)]
        · simp only [h3, ↓reduceIte, List.append_assoc, List.take_append_drop]

theorem pollReady_stream (hwm : Nat) (p : WPipe) (buf : Bytes) :
    (pollReady hwm p buf).1.wire ++ (pollReady hwm p buf).2.1 = p.wire ++ buf := by
  unfold pollReady
  by_cases h1 : buf.length < hwm
  · simp [h1]
  · by_cases h2 : p.wrerr
    · simp [h1, h2]
    · cases hc : p.credit with
      | none => simp [h1, h2, hc]
      | some c =>
        simp only [h1, h2, hc, Bool.false_eq_true, ↓reduceIte]
        split <;> simp only [List.append_assoc, List.take_append_drop]

/-- **Stream**: whatever the pipe does, after `try_send` the bytes on the wire followed by the
bytes still buffered are the previous ones followed by the WHOLE encoding of the message if
it was accepted, and by nothing if it was dropped — never half a message, never reordered. -/
theorem trySend_stream (hwm : Nat) (p : WPipe) (buf enc : Bytes) :
    (trySend hwm p buf enc).1.wire ++ (trySend hwm p buf enc).2.1
      = p.wire ++ buf ++ (if (trySend hwm p buf enc).2.2 = .ok then enc else []) := by
  have h1 := pollReady_stream hwm p buf
  unfold trySend
  match hq : pollReady hwm p buf with
  | (p1, b1, .pending) => rw [hq] at h1; simpa using h1
  | (p1, b1, .error) => rw [hq] at h1; simpa using h1
  | (p1, b1, .done) =>
    rw [hq] at h1
    have h2 := flushBuf_stream p1 (b1 ++ enc)
    simp only at h1
    simp only [↓reduceIte]
    rw [h2, ← List.append_assoc, h1]


end Zmq.Sink
