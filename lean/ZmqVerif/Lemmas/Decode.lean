import ZmqVerif.Model.Decoder
import ZmqVerif.Lemmas.Bytes
namespace Zmq

/-! ### unfolding `decode` one transition at a time -/

theorem decode_header (p : List Bytes) (b : UInt8) (rest : Bytes) :
    decode ⟨.header, p⟩ (b :: rest) = decode ⟨.len (Flags.ofByte b), p⟩ rest := by
  rw [decode.eq_1]
  simp only [DState.need, List.length_cons]
  have : ¬ (rest.length + 1 < 1) := by omega
  simp only [this, ↓reduceIte]
  split <;> rename_i h <;> simp [step] at h
  obtain ⟨rfl, rfl⟩ := h; rfl

theorem decode_len_short (f : Flags) (hf : f.long = false) (p : List Bytes) (b : UInt8) (rest : Bytes) :
    decode ⟨.len f, p⟩ (b :: rest) = decode ⟨.body f b.toNat, p⟩ rest := by
  rw [decode.eq_1]
  simp only [DState.need, hf, List.length_cons]
  have : ¬ (rest.length + 1 < 1) := by omega
  simp only [Bool.false_eq_true, ↓reduceIte, this]
  split <;> rename_i h <;> simp [step, hf] at h
  obtain ⟨rfl, rfl⟩ := h; rfl

theorem decode_len_long (f : Flags) (hf : f.long = true) (p : List Bytes) (buf : Bytes)
    (h8 : 8 ≤ buf.length) :
    decode ⟨.len f, p⟩ buf = decode ⟨.body f (beNat (buf.take 8)), p⟩ (buf.drop 8) := by
  rw [decode.eq_1]
  simp only [DState.need, hf]
  have : ¬ (buf.length < 8) := by omega
  simp only [↓reduceIte, this]
  split <;> rename_i h <;> simp [step, hf, this] at h
  obtain ⟨rfl, rfl⟩ := h; rfl

theorem decode_body_more (f : Flags) (hc : f.command = false) (hm : f.more = true) (n : Nat)
    (p : List Bytes) (buf : Bytes) (hn : n ≤ buf.length) :
    decode ⟨.body f n, p⟩ buf = decode ⟨.header, p ++ [buf.take n]⟩ (buf.drop n) := by
  rw [decode.eq_1]
  simp only [DState.need]
  have : ¬ (buf.length < n) := by omega
  simp only [this, ↓reduceIte]
  split <;> rename_i h <;> simp [step, hc, hm, this] at h
  obtain ⟨rfl, rfl⟩ := h; rfl

theorem decode_body_last (f : Flags) (hc : f.command = false) (hm : f.more = false) (n : Nat)
    (p : List Bytes) (buf : Bytes) (hn : n ≤ buf.length) :
    decode ⟨.body f n, p⟩ buf = .item (.message (p ++ [buf.take n])) ⟨.header, []⟩ (buf.drop n) := by
  rw [decode.eq_1]
  simp only [DState.need]
  have : ¬ (buf.length < n) := by omega
  simp only [this, ↓reduceIte]
  split <;> rename_i h <;> simp [step, hc, hm, this] at h
  obtain ⟨rfl, rfl, rfl⟩ := h; rfl

theorem decode_body_command (f : Flags) (hc : f.command = true) (n : Nat)
    (p : List Bytes) (buf : Bytes) (hn : n ≤ buf.length) :
    decode ⟨.body f n, p⟩ buf =
      match parseCommand (buf.take n) with
      | .ok ps => .item (.command ps) ⟨.header, p⟩ (buf.drop n)
      | .err e => .fail e ⟨.header, p⟩ (buf.drop n)
      | .panic s => .panic s ⟨.body f n, p⟩ buf := by
  rw [decode.eq_1]
  simp only [DState.need]
  have : ¬ (buf.length < n) := by omega
  simp only [this, ↓reduceIte]
  cases hp : parseCommand (buf.take n) <;>
    (split <;> rename_i h <;>
      simp [step, hc, this, hp, StepOut.ofOut, bind, Out.bind] at h <;> simp [h])

/-! ### flags of the headers the encoder writes -/

theorem ofByte_short (more : Bool) :
    Flags.ofByte (if more then 1 else 0) = { command := false, long := false, more := more } := by
  cases more <;> decide

theorem ofByte_long (more : Bool) :
    Flags.ofByte (if more then 3 else 2) = { command := false, long := true, more := more } := by
  cases more <;> decide

/-- decoding one encoded frame from the header state -/
theorem decode_encodeFrame (more : Bool) (body tail : Bytes) (p : List Bytes)
    (h64 : body.length < 2 ^ 64) :
    decode ⟨.header, p⟩ (encodeFrame more body ++ tail) =
      if more then decode ⟨.header, p ++ [body]⟩ tail
      else .item (.message (p ++ [body])) ⟨.header, []⟩ tail := by
  unfold encodeFrame frameHeader
  by_cases hl : body.length > 255
  · simp only [hl, ↓reduceIte, List.cons_append]
    rw [decode_header, ofByte_long]
    rw [decode_len_long _ rfl _ _ (by simp)]
    have htake : (be 8 body.length ++ body ++ tail).take 8 = be 8 body.length := by
      rw [List.append_assoc, List.take_append_of_le_length (by simp)]
      exact List.take_of_length_le (by simp)
    have hdrop : (be 8 body.length ++ body ++ tail).drop 8 = body ++ tail := by
      rw [List.append_assoc, List.drop_append_of_le_length (by simp)]
      rw [List.drop_of_length_le (by simp)]; rfl
    rw [htake, hdrop, beNat_be8 _ h64]
    have ht : (body ++ tail).take body.length = body := by simp
    have hd : (body ++ tail).drop body.length = tail := by simp
    cases more
    · rw [decode_body_last _ rfl rfl _ _ _ (by simp), ht, hd]; simp
    · rw [decode_body_more _ rfl rfl _ _ _ (by simp), ht, hd]; simp
  · have hn : body.length ≤ 255 := by omega
    simp only [hl, ↓reduceIte, List.cons_append, List.nil_append]
    rw [decode_header, ofByte_short, decode_len_short _ rfl, ofNat_toNat_small _ hn]
    have ht : (body ++ tail).take body.length = body := by simp
    have hd : (body ++ tail).drop body.length = tail := by simp
    cases more
    · rw [decode_body_last _ rfl rfl _ _ _ (by simp), ht, hd]; simp
    · rw [decode_body_more _ rfl rfl _ _ _ (by simp), ht, hd]; simp

/-- decoding a whole encoded message yields exactly that message and leaves the tail -/
theorem decode_encodeMsg (fs : List Bytes) (hne : fs ≠ []) (h64 : ∀ f ∈ fs, f.length < 2 ^ 64)
    (p : List Bytes) (tail : Bytes) :
    decode ⟨.header, p⟩ (encodeMsg fs ++ tail) = .item (.message (p ++ fs)) ⟨.header, []⟩ tail := by
  induction fs generalizing p with
  | nil => exact absurd rfl hne
  | cons f fs ih =>
    cases fs with
    | nil =>
      simp only [encodeMsg]
      rw [decode_encodeFrame false f tail p (h64 f (by simp))]; simp
    | cons g gs =>
      simp only [encodeMsg, List.append_assoc]
      rw [decode_encodeFrame true f _ p (h64 f (by simp))]
      simp only [↓reduceIte]
      rw [ih (by simp) (fun x hx => h64 x (by simp [hx])) (p ++ [f])]
      simp

theorem run_nil (d : Dec) (h : 0 < d.st.need) : run d [] = ⟨[], none, none, d, []⟩ := by
  rw [run.eq_1]
  have : decode d [] = .none d [] := by rw [decode.eq_1]; simp [h]
  split <;> rename_i hd <;> rw [this] at hd <;> simp at hd
  obtain ⟨rfl, rfl⟩ := hd; rfl

theorem run_item {d : Dec} {buf : Bytes} {i : Item} {d' : Dec} {buf' : Bytes}
    (h : decode d buf = .item i d' buf') :
    run d buf = { run d' buf' with items := i :: (run d' buf').items } := by
  rw [run.eq_1]
  split <;> rename_i hd <;> rw [h] at hd <;> simp at hd
  obtain ⟨rfl, rfl, rfl⟩ := hd; rfl

/-- a whole stream of encoded messages decodes to exactly those messages, in order -/
theorem run_encodeMsgs (ms : List (List Bytes)) (hne : ∀ m ∈ ms, m ≠ [])
    (h64 : ∀ m ∈ ms, ∀ f ∈ m, f.length < 2 ^ 64) :
    run Dec.framing (ms.map encodeMsg).flatten
      = ⟨ms.map Item.message, none, none, Dec.framing, []⟩ := by
  induction ms with
  | nil => simpa [Dec.framing] using run_nil ⟨.header, []⟩ (by simp [DState.need])
  | cons m ms ih =>
    simp only [List.map_cons, List.flatten_cons]
    have h := decode_encodeMsg m (hne m (by simp)) (h64 m (by simp)) [] (ms.map encodeMsg).flatten
    simp only [List.nil_append] at h
    rw [Dec.framing, run_item h]
    have := ih (fun m' hm => hne m' (by simp [hm])) (fun m' hm => h64 m' (by simp [hm]))
    rw [Dec.framing] at this
    rw [this]

end Zmq
