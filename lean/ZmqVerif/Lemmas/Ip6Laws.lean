import ZmqVerif.Lemmas.IpLaws
/-! The IPv6 print/parse round trip of the executable std models, PROVED: `parse6 (show6 a) = some a`
for all 2^128 addresses — RFC 5952 printing (`::ffff:a.b.c.d` for mapped addresses, the longest run
of two or more zero groups compressed, first on ties) against the recursive-descent parser with its
atomic back-tracking and its embedded-IPv4 attempt at every group. -/
namespace Zmq.Ip

/-! ### hexadecimal groups -/

def isHex16 (c : Char) : Bool := (digVal 16 c).isSome

def hval (ds : Str) : Nat := ds.foldl (fun acc c => acc * 16 + ((digVal 16 c).getD 0)) 0

theorem hval_snoc (ds : Str) (c : Char) : hval (ds ++ [c]) = hval ds * 16 + (digVal 16 c).getD 0 := by
  simp [hval, List.foldl_append]

theorem digVal16_hd : ∀ d : Fin 16, digVal 16 (hexDigitChar d.val) = some d.val := by decide +kernel

theorem showHexAux_spec : ∀ (fuel n : Nat), n < 16 ^ fuel →
    hval (showHexAux fuel n) = n ∧ (showHexAux fuel n).all isHex16 = true
  | 0, n, h => by
    have : n = 0 := by simpa using h
    subst this; simp [showHexAux, hval]
  | fuel + 1, n, h => by
    simp only [showHexAux]
    split
    · rename_i hn
      have := digVal16_hd ⟨n, hn⟩
      simp only [] at this
      simp [hval, isHex16, this]
    · rename_i hn
      have hdiv : n / 16 < 16 ^ fuel := by
        rw [Nat.pow_succ] at h
        exact Nat.div_lt_of_lt_mul (by omega)
      obtain ⟨h1, h2⟩ := showHexAux_spec fuel (n / 16) hdiv
      have hm : n % 16 < 16 := Nat.mod_lt _ (by omega)
      have := digVal16_hd ⟨n % 16, hm⟩
      simp only [] at this
      refine ⟨?_, ?_⟩
      · rw [hval_snoc, h1, this]; simp; omega
      · simp [List.all_append, h2, isHex16, this]

theorem lt_pow16_succ (n : Nat) : n < 16 ^ (n + 1) := by
  have h1 : n < 2 ^ n := Nat.lt_two_pow_self
  have h2 : 2 ^ n ≤ 16 ^ n := Nat.pow_le_pow_left (by omega) n
  have h3 : 16 ^ n ≤ 16 ^ (n + 1) := Nat.pow_le_pow_right (by omega) (by omega)
  omega

theorem showHex_spec (n : Nat) : hval (showHex n) = n ∧ (showHex n).all isHex16 = true :=
  showHexAux_spec (n + 1) n (lt_pow16_succ n)

theorem showHexAux_len : ∀ (fuel n k : Nat), n < 16 ^ k → 1 ≤ k → (showHexAux fuel n).length ≤ k
  | 0, _, _, _, _ => by simp [showHexAux]
  | fuel + 1, n, k, h, hk => by
    simp only [showHexAux]
    split
    · simpa using hk
    · rename_i hn
      have hk2 : 2 ≤ k := by
        rcases Nat.lt_or_ge k 2 with h1 | h1
        · have : k = 1 := by omega
          subst this; simp at h; omega
        · exact h1
      have hdiv : n / 16 < 16 ^ (k - 1) := by
        have : 16 ^ k = 16 ^ (k - 1) * 16 := by
          rw [← Nat.pow_succ]; congr 1; omega
        rw [this] at h
        exact Nat.div_lt_of_lt_mul (by omega)
      have := showHexAux_len fuel (n / 16) (k - 1) hdiv (by omega)
      simp only [List.length_append, List.length_singleton]
      omega

theorem showHex_len4 (n : Nat) (h : n < 65536) : (showHex n).length ≤ 4 :=
  showHexAux_len _ n 4 (by simpa using h) (by omega)

/-- what `read_number(16, Some(4), true)` makes of the digit string it has consumed -/
def evalH (ds : Str) : Option Nat :=
  if ds.length = 0 ∨ ds.length > 4 then none
  else if hval ds < 65536 then some (hval ds) else none

theorem readNumber16_app {ds rest : Str} (hd : ds.all isHex16 = true) (hr : Stops isHex16 rest) :
    readNumber 16 4 65536 true (ds ++ rest) = (evalH ds).map (fun v => (v, rest)) := by
  obtain ⟨h1, h2⟩ := takeWhile_app hd hr
  unfold readNumber evalH
  have h1' : List.takeWhile (fun c => (digVal 16 c).isSome) (ds ++ rest) = ds := h1
  have h2' : List.dropWhile (fun c => (digVal 16 c).isSome) (ds ++ rest) = rest := h2
  simp only [h1', h2', hval]
  split
  · rfl
  · simp only [Bool.not_true, Bool.false_and, Bool.false_eq_true, ↓reduceIte]
    split
    · rename_i h; simp [h]
    · rename_i h; simp [h]

theorem readGroupHex (g : Nat) (hg : g < 65536) (rest : Str) (hr : Stops isHex16 rest) :
    readNumber 16 4 65536 true (showHex g ++ rest) = some (g, rest) := by
  obtain ⟨hv, ha⟩ := showHex_spec g
  rw [readNumber16_app ha hr]
  have hl := showHex_len4 g hg
  have hne := showHex_len g
  have : evalH (showHex g) = some g := by
    unfold evalH
    have h1 : ¬ ((showHex g).length = 0 ∨ (showHex g).length > 4) := by omega
    rw [if_neg h1, hv, if_pos hg]
  rw [this]; rfl

/-! ### the embedded-IPv4 attempt fails on a hexadecimal group -/

/-- the text does not start with a dot -/
def NoDotStart (s : Str) : Prop := ∀ r, s ≠ '.' :: r

theorem readNumber_rest {radix maxD bound : Nat} {z : Bool} {s : Str} {v : Nat} {rest : Str}
    (h : readNumber radix maxD bound z s = some (v, rest)) :
    rest = s.dropWhile (fun c => (digVal radix c).isSome) := by
  unfold readNumber at h
  simp only [] at h
  split at h
  · simp at h
  · split at h
    · simp at h
    · split at h
      · simp at h; exact h.2.symm
      · simp at h

theorem readIpv4_none {s : Str} (h : NoDotStart (s.dropWhile isDig10)) : readIpv4 s = none := by
  unfold readIpv4
  split
  · rfl
  · rename_i a r h1
    have hr := readNumber_rest h1
    split
    · rename_i r'
      exact absurd hr.symm (h r')
    · rfl

/-- what may follow a group: the end of the text, or a colon -/
def ColonOrEnd (rest : Str) : Prop := rest = [] ∨ ∃ r, rest = ':' :: r

theorem colon_not_dig : isDig10 ':' = false := by decide
theorem colon_not_hex : isHex16 ':' = false := by decide
theorem dot_not_hex : isHex16 '.' = false := by decide

theorem stopsHex_of_colonOrEnd {rest : Str} (h : ColonOrEnd rest) : Stops isHex16 rest := by
  rcases h with rfl | ⟨r, rfl⟩
  · exact Or.inl rfl
  · exact Or.inr ⟨':', r, rfl, colon_not_hex⟩

theorem dropWhile_noDot {xs rest : Str} (hx : '.' ∉ xs) (hr : ColonOrEnd rest) :
    NoDotStart ((xs ++ rest).dropWhile isDig10) := by
  induction xs with
  | nil =>
    rcases hr with rfl | ⟨r, rfl⟩
    · intro r e; simp at e
    · intro r' e
      simp [List.dropWhile, colon_not_dig] at e
  | cons x xs ih =>
    simp only [List.mem_cons, not_or] at hx
    simp only [List.cons_append, List.dropWhile]
    split
    · exact ih hx.2
    · intro r e
      simp at e
      exact hx.1 e.1.symm

theorem hex_no_dot {ds : Str} (h : ds.all isHex16 = true) : '.' ∉ ds := by
  intro hm
  have := List.all_eq_true.1 h '.' hm
  simp [dot_not_hex] at this

theorem v4_fails_on_group (g : Nat) {rest : Str} (hr : ColonOrEnd rest) : readIpv4 (showHex g ++ rest) = none :=
  readIpv4_none (dropWhile_noDot (hex_no_dot (showHex_spec g).2) hr)

/-! ### `read_groups` over a run of hexadecimal groups -/

/-- what may follow a run of groups in IPv6 text: the end, or the `::` of a compressed run -/
def EndsGroups (after : Str) : Prop := after = [] ∨ ∃ more, after = ':' :: ':' :: more

theorem joinColon_cons (g : Nat) (gs : List Nat) :
    joinColon (g :: gs) = showHex g ++ (if gs = [] then [] else ':' :: joinColon gs) := by
  cases gs with
  | nil => simp [joinColon]
  | cons y r => simp [joinColon]

/-- the separator `read_groups` expects before the next group -/
def sepBefore (acc gs : List Nat) : Str := if acc = [] ∨ gs = [] then [] else [':']

theorem readGroups_stop (fuel limit : Nat) (acc : List Nat) (after : Str) (h : EndsGroups after) :
    readGroups (fuel + 1) limit after acc = (acc, false, after) := by
  unfold readGroups
  simp only []
  split
  · rfl
  · rcases h with rfl | ⟨more, rfl⟩
    · by_cases h0 : acc.length = 0
      · simp [h0, readIpv4_none (s := []) (by intro r e; simp at e), readNumber]
      · simp [h0]
    · by_cases h0 : acc.length = 0
      · have hv : readIpv4 (':' :: ':' :: more) = none :=
          readIpv4_none (by intro r e; simp [List.dropWhile, colon_not_dig] at e)
        have hn : readNumber 16 4 65536 true (':' :: ':' :: more) = none := by
          have : (digVal 16 ':').isSome = false := colon_not_hex
          simp [readNumber, List.takeWhile, this]
        simp [h0, hv, hn]
      · have hv : readIpv4 (':' :: more) = none :=
          readIpv4_none (by intro r e; simp [List.dropWhile, colon_not_dig] at e)
        have hn : readNumber 16 4 65536 true (':' :: more) = none := by
          have : (digVal 16 ':').isSome = false := colon_not_hex
          simp [readNumber, List.takeWhile, this]
        simp [h0, hv, hn]

theorem readGroups_hex : ∀ (gs : List Nat), (∀ g ∈ gs, g < 65536) →
    ∀ (fuel limit : Nat) (acc : List Nat) (after : Str),
      gs.length < fuel → acc.length + gs.length ≤ limit → EndsGroups after →
      readGroups fuel limit (sepBefore acc gs ++ joinColon gs ++ after) acc = (acc ++ gs, false, after)
  | [], _, fuel, limit, acc, after, hf, _, he => by
    obtain ⟨f, rfl⟩ : ∃ f, fuel = f + 1 := ⟨fuel - 1, by simp at hf; omega⟩
    simp only [sepBefore, or_true, ↓reduceIte, joinColon, List.nil_append, List.append_nil]
    exact readGroups_stop f limit acc after he
  | g :: gs, hg, fuel, limit, acc, after, hf, hl, he => by
    obtain ⟨f, rfl⟩ : ∃ f, fuel = f + 1 := ⟨fuel - 1, by simp at hf; omega⟩
    have hgl : g < 65536 := hg g (by simp)
    -- the text after this group
    let rest' : Str := sepBefore (acc ++ [g]) gs ++ joinColon gs ++ after
    have hrest : ColonOrEnd rest' := by
      by_cases hgs : gs = []
      · subst hgs
        simp only [rest', sepBefore, or_true, ↓reduceIte, joinColon, List.nil_append]
        rcases he with rfl | ⟨more, rfl⟩
        · exact Or.inl rfl
        · exact Or.inr ⟨_, rfl⟩
      · have : sepBefore (acc ++ [g]) gs = [':'] := by simp [sepBefore, hgs]
        simp only [rest', this]
        exact Or.inr ⟨_, rfl⟩
    have htext : sepBefore acc (g :: gs) ++ joinColon (g :: gs) ++ after =
        sepBefore acc (g :: gs) ++ (showHex g ++ rest') := by
      rw [joinColon_cons]
      by_cases hgs : gs = []
      · subst hgs; simp [rest', sepBefore, joinColon]
      · have : sepBefore (acc ++ [g]) gs = [':'] := by simp [sepBefore, hgs]
        simp [rest', this, hgs]
    rw [htext]
    have hv4 := v4_fails_on_group g hrest
    have hnum := readGroupHex g hgl rest' (stopsHex_of_colonOrEnd hrest)
    have hlim : ¬ acc.length ≥ limit := by simp at hl; omega
    have ih := readGroups_hex gs (fun x hx => hg x (by simp [hx])) f limit (acc ++ [g]) after
      (by simp at hf; omega) (by simp at hl ⊢; omega) he
    unfold readGroups
    simp only [hlim, ↓reduceIte]
    by_cases h0 : acc = []
    · subst h0
      simp only [sepBefore, true_or, ↓reduceIte, List.nil_append, List.length_nil]
      simp only [hv4, hnum, ite_self]
      simpa [rest'] using ih
    · have hne : acc.length ≠ 0 := by simpa using h0
      have hs : sepBefore acc (g :: gs) = [':'] := by simp [sepBefore, h0]
      simp only [hs, List.singleton_append, hne, ↓reduceIte]
      simp only [hv4, hnum, ite_self]
      simpa [rest'] using ih

/-! ### the run chosen for compression is a run of zero groups -/

/-- `(a, l)` names a run of zero groups of `segs` ending at or before position `i` (or no run) -/
def ZRun (segs : List Nat) (i : Nat) (r : Nat × Nat) : Prop :=
  r.2 = 0 ∨ (r.1 + r.2 ≤ i ∧ ∀ j, r.1 ≤ j → j < r.1 + r.2 → segs[j]? = some 0)

theorem go_spec (segs : List Nat) : ∀ (xs : List Nat) (i : Nat) (cur longest : Nat × Nat),
    segs.drop i = xs → i ≤ segs.length →
    ZRun segs i cur → (cur.2 = 0 ∨ cur.1 + cur.2 = i) → ZRun segs i longest →
    ZRun segs segs.length (longestZeroRun.go xs i cur longest)
  | [], i, cur, longest, hx, hi, _, _, hl => by
    have hlen : segs.length ≤ i := by
      have := congrArg List.length hx
      simp at this; omega
    have : i = segs.length := by omega
    subst this
    simpa [longestZeroRun.go] using hl
  | x :: xs, i, cur, longest, hx, hi, hc, hce, hl => by
    have hlt : i < segs.length := by
      have := congrArg List.length hx
      simp at this; omega
    have hxi : segs[i]? = some x := by
      have : (segs.drop i)[0]? = some x := by rw [hx]; rfl
      simpa using this
    have hx' : segs.drop (i + 1) = xs := by
      have : segs.drop (i + 1) = (segs.drop i).drop 1 := by simp
      rw [this, hx]; rfl
    simp only [longestZeroRun.go]
    -- weakening: a run known up to i is a run known up to i + 1
    have weaken : ∀ r, ZRun segs i r → ZRun segs (i + 1) r := by
      intro r hr
      rcases hr with h | ⟨h1, h2⟩
      · exact Or.inl h
      · exact Or.inr ⟨by omega, h2⟩
    by_cases hz : x = 0
    · subst hz
      simp only [↓reduceIte]
      by_cases h0 : cur.2 = 0
      · simp only [h0, ↓reduceIte]
        have hcur' : ZRun segs (i + 1) (i, 1) := by
          refine Or.inr ⟨by simp, ?_⟩
          intro j hj1 hj2
          simp only [] at hj1 hj2
          have : j = i := by omega
          subst this; exact hxi
        refine go_spec segs xs (i + 1) (i, 1) _ hx' (by omega) hcur' (Or.inr (by simp)) ?_
        split
        · exact hcur'
        · exact weaken _ hl
      · simp only [h0, ↓reduceIte]
        have he : cur.1 + cur.2 = i := by
          rcases hce with h | h
          · exact absurd h h0
          · exact h
        have hcur' : ZRun segs (i + 1) (cur.1, cur.2 + 1) := by
          rcases hc with h | ⟨h1, h2⟩
          · exact absurd h h0
          · refine Or.inr ⟨by simp only []; omega, ?_⟩
            intro j hj1 hj2
            simp only [] at hj1 hj2
            by_cases hji : j = i
            · subst hji; exact hxi
            · exact h2 j hj1 (by omega)
        refine go_spec segs xs (i + 1) (cur.1, cur.2 + 1) _ hx' (by omega) hcur'
          (Or.inr (by simp only []; omega)) ?_
        split
        · exact hcur'
        · exact weaken _ hl
    · simp only [hz, ↓reduceIte]
      exact go_spec segs xs (i + 1) (0, 0) longest hx' (by omega) (Or.inl rfl) (Or.inl rfl) (weaken _ hl)

theorem longestZeroRun_spec (segs : List Nat) :
    (longestZeroRun segs).2 = 0 ∨
    ((longestZeroRun segs).1 + (longestZeroRun segs).2 ≤ segs.length ∧
     ∀ j, (longestZeroRun segs).1 ≤ j → j < (longestZeroRun segs).1 + (longestZeroRun segs).2 → segs[j]? = some 0) :=
  go_spec segs segs 0 (0, 0) (0, 0) (by simp) (by omega) (Or.inl rfl) (Or.inl rfl) (Or.inl rfl)

/-- putting the zero run back gives the original groups -/
theorem refill (segs : List Nat) (st ln : Nat) (h1 : st + ln ≤ segs.length)
    (h2 : ∀ j, st ≤ j → j < st + ln → segs[j]? = some 0) :
    segs.take st ++ List.replicate ln 0 ++ segs.drop (st + ln) = segs := by
  apply List.ext_getElem?
  intro j
  have hl0 : (segs.take st).length = st := by simp; omega
  by_cases hj1 : j < st
  · rw [List.append_assoc, List.getElem?_append_left (by omega)]
    simp [List.getElem?_take, hj1]
  · by_cases hj2 : j < st + ln
    · rw [List.append_assoc, List.getElem?_append_right (by omega), hl0,
        List.getElem?_append_left (by simp; omega)]
      rw [h2 j (by omega) hj2]
      simp [List.getElem?_replicate]; omega
    · have hl1 : (segs.take st ++ List.replicate ln 0).length = st + ln := by simp; omega
      rw [List.getElem?_append_right (by omega), hl1, List.getElem?_drop]
      congr 1; omega

/-! ### the round trip -/

theorem list8 {α} (l : List α) (h : l.length = 8) :
    ∃ a b c d e f g h', l = [a, b, c, d, e, f, g, h'] := by
  match l, h with
  | [a, b, c, d, e, f, g, h'], _ => exact ⟨a, b, c, d, e, f, g, h', rfl⟩

theorem mkIp6_segs (x : Ip6) : mkIp6 (x.segs.map UInt16.toNat) = x := by
  obtain ⟨segs, h8⟩ := x
  obtain ⟨a, b, c, d, e, f, g, h', rfl⟩ := list8 segs h8
  have hr : List.range 8 = [0, 1, 2, 3, 4, 5, 6, 7] := by decide
  simp [mkIp6, hr]

theorem mkIp6_of_eq (x : Ip6) (l : List Nat) (h : l = x.segs.map UInt16.toNat) : mkIp6 l = x := by
  subst h; exact mkIp6_segs x

/-- the plain form: eight groups, no compression -/
theorem parse6_plain (x : Ip6) : parse6 (joinColon (x.segs.map UInt16.toNat)) = some x := by
  have h8 : (x.segs.map UInt16.toNat).length = 8 := by simp [x.len8]
  have hlt : ∀ g ∈ x.segs.map UInt16.toNat, g < 65536 := by
    intro g hg
    obtain ⟨u, _, rfl⟩ := List.mem_map.1 hg
    exact u.toNat_lt
  have hr := readGroups_hex _ hlt 9 8 [] [] (by omega) (by simp [h8]) (Or.inl rfl)
  simp only [sepBefore, true_or, ↓reduceIte, List.nil_append, List.append_nil] at hr
  unfold parse6
  simp only [hr, h8, ↓reduceIte]
  simp [mkIp6_segs]

/-- the compressed form -/
theorem parse6_compressed (x : Ip6) (st ln : Nat) (hln : 1 < ln)
    (h1 : st + ln ≤ (x.segs.map UInt16.toNat).length)
    (h2 : ∀ j, st ≤ j → j < st + ln → (x.segs.map UInt16.toNat)[j]? = some 0) :
    parse6 (joinColon ((x.segs.map UInt16.toNat).take st) ++ [':', ':'] ++
            joinColon ((x.segs.map UInt16.toNat).drop (st + ln))) = some x := by
  generalize hsegs : x.segs.map UInt16.toNat = segs at h1 h2 ⊢
  have h8 : segs.length = 8 := by rw [← hsegs]; simp [x.len8]
  have hlt : ∀ g ∈ segs, g < 65536 := by
    intro g hg
    rw [← hsegs] at hg
    obtain ⟨u, _, rfl⟩ := List.mem_map.1 hg
    exact u.toNat_lt
  have hA : ∀ g ∈ segs.take st, g < 65536 := fun g hg => hlt g (List.mem_of_mem_take hg)
  have hB : ∀ g ∈ segs.drop (st + ln), g < 65536 := fun g hg => hlt g (List.mem_of_mem_drop hg)
  have hAl : (segs.take st).length = st := by simp; omega
  have hBl : (segs.drop (st + ln)).length = 8 - (st + ln) := by simp [h8]
  have hr1 := readGroups_hex _ hA 9 8 [] (':' :: ':' :: joinColon (segs.drop (st + ln)))
    (by omega) (by simp; omega) (Or.inr ⟨_, rfl⟩)
  simp only [sepBefore, true_or, ↓reduceIte, List.nil_append] at hr1
  have hr2 := readGroups_hex _ hB 9 (8 - (st + 1)) [] [] (by omega) (by simp [hBl]; omega) (Or.inl rfl)
  simp only [sepBefore, true_or, ↓reduceIte, List.nil_append, List.append_nil] at hr2
  have htext : joinColon (segs.take st) ++ [':', ':'] ++ joinColon (segs.drop (st + ln)) =
      joinColon (segs.take st) ++ (':' :: ':' :: joinColon (segs.drop (st + ln))) := by simp
  unfold parse6
  rw [htext]
  simp only [hr1, hAl]
  have hne : ¬ st = 8 := by omega
  simp only [hne, ↓reduceIte, Bool.false_eq_true, hr2, hBl]
  have hk : 8 - st - (8 - (st + ln)) = ln := by omega
  rw [hk, refill segs st ln (by omega) h2]
  simp [mkIp6_of_eq x segs hsegs.symm]

/-- the dotted-quad text of two groups -/
def v4text (a b c d : Nat) : Str :=
  showNat a ++ ('.' :: (showNat b ++ ('.' :: (showNat c ++ ('.' :: (showNat d ++ []))))))

theorem readGroups_mapped (a b c d : Nat) (ha : a < 256) (hb : b < 256) (hc : c < 256) (hd : d < 256) :
    readGroups 9 7 (['f', 'f', 'f', 'f'] ++ (':' :: v4text a b c d)) [] =
      ([65535, a * 256 + b, c * 256 + d], true, []) := by
  have hv0 : readIpv4 (['f', 'f', 'f', 'f'] ++ (':' :: v4text a b c d)) = none :=
    readIpv4_none (dropWhile_noDot (by decide) (Or.inr ⟨_, rfl⟩))
  have hn0 : readNumber 16 4 65536 true (['f', 'f', 'f', 'f'] ++ (':' :: v4text a b c d)) =
      some (65535, ':' :: v4text a b c d) := by
    rw [readNumber16_app (by decide) (Or.inr ⟨':', _, rfl, colon_not_hex⟩)]
    have : evalH ['f', 'f', 'f', 'f'] = some 65535 := by decide
    rw [this]; rfl
  have hv1 : readIpv4 (v4text a b c d) = some ([a, b, c, d], []) :=
    readIpv4_show a b c d ha hb hc hd [] (Or.inl rfl)
  unfold readGroups
  have c1 : ¬ ([] : List Nat).length ≥ 7 := by simp
  have c2 : ([] : List Nat).length + 1 < 7 := by simp
  simp only [c1, c2, ↓reduceIte, List.length_nil, hv0, hn0, List.nil_append]
  unfold readGroups
  have c3 : ¬ ([65535] : List Nat).length ≥ 7 := by simp
  have c4 : ([65535] : List Nat).length + 1 < 7 := by simp
  have c5 : ¬ ([65535] : List Nat).length = 0 := by simp
  simp only [c3, c4, c5, ↓reduceIte, hv1]
  simp

/-- the IPv4-mapped form `::ffff:a.b.c.d` -/
theorem parse6_mapped (x : Ip6)
    (h : (x.segs.map UInt16.toNat).take 5 = [0, 0, 0, 0, 0] ∧ (x.segs.map UInt16.toNat).getD 5 0 = 0xffff) :
    parse6 ("::ffff:".toList ++ showNat ((x.segs.map UInt16.toNat).getD 6 0 / 256) ++ ['.'] ++
            showNat ((x.segs.map UInt16.toNat).getD 6 0 % 256) ++ ['.'] ++
            showNat ((x.segs.map UInt16.toNat).getD 7 0 / 256) ++ ['.'] ++
            showNat ((x.segs.map UInt16.toNat).getD 7 0 % 256)) = some x := by
  generalize hsegs : x.segs.map UInt16.toNat = segs at h ⊢
  have h8 : segs.length = 8 := by rw [← hsegs]; simp [x.len8]
  have hlt : ∀ g ∈ segs, g < 65536 := by
    intro g hg
    rw [← hsegs] at hg
    obtain ⟨u, _, rfl⟩ := List.mem_map.1 hg
    exact u.toNat_lt
  obtain ⟨s0, s1, s2, s3, s4, s5, s6, s7, rfl⟩ := list8 segs h8
  simp only [List.take, List.getD_cons_succ, List.getD_cons_zero] at h ⊢
  obtain ⟨h05, h5⟩ := h
  simp only [List.cons.injEq, and_true] at h05
  obtain ⟨rfl, rfl, rfl, rfl, rfl⟩ := h05
  subst h5
  have h6 : s6 < 65536 := hlt s6 (by simp)
  have h7 : s7 < 65536 := hlt s7 (by simp)
  have htext : "::ffff:".toList ++ showNat (s6 / 256) ++ ['.'] ++ showNat (s6 % 256) ++ ['.'] ++
      showNat (s7 / 256) ++ ['.'] ++ showNat (s7 % 256) =
      ':' :: ':' :: (['f', 'f', 'f', 'f'] ++ (':' :: v4text (s6 / 256) (s6 % 256) (s7 / 256) (s7 % 256))) := by
    have : "::ffff:".toList = [':', ':', 'f', 'f', 'f', 'f', ':'] := by decide
    simp [this, v4text]
  rw [htext]
  have hstop := readGroups_stop 8 8 []
    (':' :: ':' :: (['f', 'f', 'f', 'f'] ++ (':' :: v4text (s6 / 256) (s6 % 256) (s7 / 256) (s7 % 256))))
    (Or.inr ⟨_, rfl⟩)
  have hmap := readGroups_mapped (s6 / 256) (s6 % 256) (s7 / 256) (s7 % 256)
    (Nat.div_lt_of_lt_mul (by omega)) (Nat.mod_lt _ (by omega))
    (Nat.div_lt_of_lt_mul (by omega)) (Nat.mod_lt _ (by omega))
  have e6 : s6 / 256 * 256 + s6 % 256 = s6 := Nat.div_add_mod' s6 256
  have e7 : s7 / 256 * 256 + s7 % 256 = s7 := Nat.div_add_mod' s7 256
  rw [e6, e7] at hmap
  unfold parse6
  have d0 : ¬ ([] : List Nat).length = 8 := by simp
  have d1 : 8 - (([] : List Nat).length + 1) = 7 := by simp
  simp only [hstop, d0, ↓reduceIte, Bool.false_eq_true, d1, hmap]
  have d2 : 8 - ([] : List Nat).length - [65535, s6, s7].length = 5 := by simp
  rw [d2]
  have d3 : ([] : List Nat) ++ List.replicate 5 0 ++ [65535, s6, s7] = [0, 0, 0, 0, 0, 65535, s6, s7] := by
    simp [List.replicate]
  rw [d3]
  exact congrArg some (mkIp6_of_eq x _ hsegs.symm)

/-- **IPv6 round trip**: `Ipv6Addr::from_str(addr.to_string()) == Ok(addr)`, for every address -/
theorem rt6 (x : Ip6) : parse6 (show6 x) = some x := by
  unfold show6
  simp only []
  split
  · rename_i h
    exact parse6_mapped x h
  · split
    · rename_i hln
      rcases longestZeroRun_spec (x.segs.map UInt16.toNat) with h0 | ⟨h1, h2⟩
      · omega
      · exact parse6_compressed x _ _ hln h1 h2
    · exact parse6_plain x

end Zmq.Ip

namespace Zmq.Ep
open Zmq.Ip

/-- every law `C19_roundtrip` needs holds of the executable std models — no hypothesis left -/
theorem stdLawsFull : Laws stdModel := stdLaws Ip.rt6

end Zmq.Ep
