import ZmqVerif.Model.Decoder
import ZmqVerif.Model.Tables
/-!
# L8b — listeners, per-connection handshake tasks, bind table (`src/lib.rs` `bind`/`unbind`/
`close`, `src/transport/{tcp,ipc}.rs`, `src/task_handle.rs`) — the bookkeeping

OS outcomes are inputs of the model with the assumptions spelled out: a successful bind of a
wildcard port resolves to an endpoint that is not currently bound (the OS does not hand out a
listening address twice); a bind of an address that IS currently bound fails; a connect to an
endpoint succeeds iff a listener is running on it.  Each accepted connection gets its OWN
handshake task (`async_rt::task::spawn(cback(..))`), a small automaton over the bytes its own
peer has supplied; registration happens only at its end; a failure emits `AcceptFailed`.
-/
namespace Zmq.Net
open Zmq

inductive Kind | tcp4 | tcp6 | localhost | ipc
deriving DecidableEq, Repr, Inhabited

/-- state of one accepted connection's handshake task -/
inductive HsState
  | running            -- still waiting for bytes from its peer
  | registered         -- handshake complete: the peer is in the socket's tables
  | failed             -- handshake failed: connection dropped, `AcceptFailed` emitted
deriving DecidableEq, Repr, Inhabited

structure RawC where
  ep : Nat
  sock : Nat
  sent : Bytes := []           -- everything the raw client has written so far
  hs : HsState := .running
  /-- the library has closed its end -/
  closedByLib : Bool := false
  /-- the raw client closed its end -/
  closedByPeer : Bool := false
deriving Repr, Inhabited

structure NSock where
  typ : SockType
  binds : List Nat := []
  alive : Bool := true
  monitor : Bool := false
  events : List String := []
  inbox : List (List Bytes) := []
deriving Repr, Inhabited

structure St where
  socks : List (Nat × NSock) := []
  /-- endpoints resolved so far: id ↦ kind (ids in order of first appearance) -/
  eps : List (Nat × Kind) := []
  raws : List (Nat × RawC) := []
deriving Repr

def lookupN {α} : List (Nat × α) → Nat → Option α
  | [], _ => none
  | e :: t, k => if e.1 == k then some e.2 else lookupN t k
def insertN {α} : List (Nat × α) → Nat → α → List (Nat × α)
  | [], k, v => [(k, v)]
  | e :: t, k, v => if e.1 == k then (k, v) :: t else e :: insertN t k v

/-- the socket whose listener currently runs on endpoint `e` -/
def ownerOf (s : St) (e : Nat) : Option Nat :=
  (s.socks.find? (fun x => x.2.alive && x.2.binds.contains e)).map (·.1)

def emit (s : St) (sid : Nat) (ev : String) : St :=
  match lookupN s.socks sid with
  | some so => if so.monitor then { s with socks := insertN s.socks sid { so with events := so.events ++ [ev] } } else s
  | none => s

/-! ### bind / unbind / close — the bind table -/

inductive BindReq
  | fresh (k : Kind)           -- wildcard port / new ipc path: resolves to a NEW endpoint
  | again (e : Nat)            -- the text form of an endpoint seen before
  | badSyntax

inductive BindOut | ok (e : Nat) | errNetwork | errSyntax | noSock
deriving DecidableEq, Repr

def bind (s : St) (sid : Nat) (r : BindReq) : St × BindOut :=
  match lookupN s.socks sid with
  | none => (s, .noSock)
  | some so =>
    match r with
    | .badSyntax => (s, .errSyntax)
    | .fresh k =>
      let e := s.eps.length
      let s := { s with eps := s.eps ++ [(e, k)], socks := insertN s.socks sid { so with binds := so.binds ++ [e] } }
      (emit s sid "Listening", .ok e)
    | .again e =>
      if (ownerOf s e).isSome then (s, .errNetwork)          -- address in use: nothing changes
      else
        let s := { s with socks := insertN s.socks sid { so with binds := so.binds ++ [e] } }
        (emit s sid "Listening", .ok e)

inductive UnbindOut | ok | noSuchBind | noSock
deriving DecidableEq, Repr

def unbind (s : St) (sid : Nat) (e : Option Nat) : St × UnbindOut :=
  match lookupN s.socks sid with
  | none => (s, .noSock)
  | some so =>
    match e with
    | none => (s, .noSuchBind)
    | some e =>
      if so.binds.contains e then
        -- the listener stops — and with it the handshakes it had started that are still running
        -- (since fix D14 a handshake task also waits for its listener's stop signal); nothing is
        -- reported for them: the task is simply dropped
        let raws := s.raws.map (fun x =>
          if x.2.sock == sid && x.2.ep == e && x.2.hs == .running
          then (x.1, { x.2 with hs := .failed, closedByLib := true }) else x)
        ({ s with socks := insertN s.socks sid { so with binds := so.binds.filter (· != e) }, raws := raws }, .ok)
      else (s, .noSuchBind)

/-- `close()` / `drop`: every listener of the socket stops; every registered connection is
closed, and so is every connection still in its handshake (fix D14) -/
def closeSock (s : St) (sid : Nat) : St :=
  match lookupN s.socks sid with
  | none => s
  | some so =>
    let raws := s.raws.map (fun e =>
      if e.2.sock == sid && e.2.hs == .registered then (e.1, { e.2 with closedByLib := true })
      else if e.2.sock == sid && e.2.hs == .running then (e.1, { e.2 with hs := .failed, closedByLib := true })
      else e)
    { s with socks := insertN s.socks sid { so with binds := [], alive := false }, raws := raws }

/-! ### one connection's handshake task -/

def kSocketTypeN : Bytes := kSocketType

/-- what the handshake task of a connection concludes from the bytes its peer has supplied so
far: still waiting, registered, or failed -/
def judge (localT : SockType) (sent : Bytes) : HsState :=
  let r := run Dec.init sent
  if r.error.isSome || r.panic.isSome then
    -- a decode error surfaces only if it comes before the handshake is complete
    match r.items with
    | .greeting _ :: .command _ :: _ => .registered     -- (judged below; errors after READY belong to the socket)
    | _ => .failed
  else
    match r.items with
    | [] => .running
    | [.greeting g] => if g.major.toNat ≥ 3 then .running else .failed
    | .greeting g :: .command props :: _ =>
      if g.major.toNat < 3 then .failed else
      match (props.reverse.find? (·.1 == kSocketType)).map (·.2) with
      | none => .failed
      | some tn =>
        match SockType.parse tn with
        | none => .failed
        | some other =>
          match (props.reverse.find? (·.1 == kIdentity)).map (·.2) with
          | some i => if i.length > 255 then .failed else
            (if compatible localT other == some true then .registered else .failed)
          | none => if compatible localT other == some true then .registered else .failed
    | .greeting _ :: _ => .failed                      -- first item after the greeting is not READY
    | _ => .failed

/-- the raw client `c` writes `b`: ONLY its own task looks at the bytes -/
def rawWrite (s : St) (c : Nat) (b : Bytes) : St :=
  match lookupN s.raws c with
  | none => s
  | some rc =>
    if rc.hs != .running then { s with raws := insertN s.raws c { rc with sent := rc.sent ++ b } }
    else
      match lookupN s.socks rc.sock with
      | none => s
      | some so =>
        let sent := rc.sent ++ b
        let st := judge so.typ sent
        let rc := { rc with sent := sent, hs := st, closedByLib := rc.closedByLib || st == .failed }
        let s := { s with raws := insertN s.raws c rc }
        match st with
        | .registered => emit s rc.sock "Accepted"
        | .failed => emit s rc.sock "AcceptFailed"
        | .running => s

/-- the raw client closes its end: a connection still in its handshake fails -/
def rawClose (s : St) (c : Nat) : St :=
  match lookupN s.raws c with
  | none => s
  | some rc =>
    let rc' := { rc with closedByPeer := true }
    if rc.hs == .running then
      emit { s with raws := insertN s.raws c { rc' with hs := .failed, closedByLib := true } } rc.sock "AcceptFailed"
    else { s with raws := insertN s.raws c rc' }

/-- a raw client connects to endpoint `e` -/
def rawConnect (s : St) (c : Nat) (e : Nat) : St × Bool :=
  match ownerOf s e with
  | none => (s, false)
  | some sid => ({ s with raws := insertN s.raws c { ep := e, sock := sid } }, true)

/-- `connect()`: the socket connects OUT to a listener of the peer (raw client `c` is that
listener's end of the connection).  The same handshake decides — what the peer sends, judged
against the local socket type; success registers the peer and reports `Connected`, failure is
returned to the caller and the connection is closed.  (The id `1000000 + c` stands for the peer's
own endpoint: no socket of the library ever has it in its bind set.) -/
def connectOut (s : St) (sid c : Nat) (peerBytes : Bytes) : St × Bool :=
  match lookupN s.socks sid with
  | none => (s, false)
  | some so =>
    let st := judge so.typ peerBytes
    let rc : RawC := { ep := 1000000 + c, sock := sid, sent := peerBytes, hs := st,
                       closedByLib := st != .registered }
    let s := { s with raws := insertN s.raws c rc }
    if st == .registered then (emit s sid "Connected", true) else (s, false)

end Zmq.Net
