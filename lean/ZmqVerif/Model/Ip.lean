/-!
# L9a — executable models of `std::net` address text: `Ipv4Addr`/`Ipv6Addr` `FromStr` and `Display`

Mirrors `core::net::parser` (recursive descent with atomic back-tracking) and
`impl Display for Ipv6Addr` (RFC 5952 compression, `::ffff:a.b.c.d` for mapped
addresses).  These are models of Rust's standard library, not of zmq.rs; the
correspondence check samples them against the real `std`.
-/
namespace Zmq.Ip

abbrev Str := List Char

def isDigit (c : Char) : Bool := '0' ≤ c && c ≤ '9'

def hexVal (c : Char) : Option Nat :=
  if '0' ≤ c ∧ c ≤ '9' then some (c.toNat - 48)
  else if 'a' ≤ c ∧ c ≤ 'f' then some (c.toNat - 87)
  else if 'A' ≤ c ∧ c ≤ 'F' then some (c.toNat - 55)
  else none

def digVal (radix : Nat) (c : Char) : Option Nat :=
  match hexVal c with
  | some v => if v < radix then some v else none
  | none => none

/-- `Parser::read_number(radix, Some(maxDigits), allowZeroPrefix)` with result type of `bound`
values (`u8`: 256, `u16`: 65536): `some (value, rest)` or `none` (nothing consumed) -/
def readNumber (radix maxDigits bound : Nat) (allowZeroPrefix : Bool) (s : Str) : Option (Nat × Str) :=
  let digits := s.takeWhile (fun c => (digVal radix c).isSome)
  let rest := s.dropWhile (fun c => (digVal radix c).isSome)
  if digits.length = 0 ∨ digits.length > maxDigits then none
  else if !allowZeroPrefix && digits.head? == some '0' && digits.length > 1 then none
  else
    let v := digits.foldl (fun acc c => acc * radix + ((digVal radix c).getD 0)) 0
    if v < bound then some (v, rest) else none

/-- `read_ipv4_addr`: four decimal octets separated by dots -/
def readIpv4 (s : Str) : Option (List Nat × Str) :=
  match readNumber 10 3 256 false s with
  | none => none
  | some (a, r) =>
    match r with
    | '.' :: r =>
      match readNumber 10 3 256 false r with
      | none => none
      | some (b, r) =>
        match r with
        | '.' :: r =>
          match readNumber 10 3 256 false r with
          | none => none
          | some (c, r) =>
            match r with
            | '.' :: r =>
              match readNumber 10 3 256 false r with
              | none => none
              | some (d, r) => some ([a, b, c, d], r)
            | _ => none
        | _ => none
    | _ => none

structure Ip4 where
  a : UInt8
  b : UInt8
  c : UInt8
  d : UInt8
deriving DecidableEq, Repr

/-- `Ipv4Addr::from_str` (the whole input must be consumed) -/
def parse4 (s : Str) : Option Ip4 :=
  match readIpv4 s with
  | some ([a, b, c, d], []) => some ⟨UInt8.ofNat a, UInt8.ofNat b, UInt8.ofNat c, UInt8.ofNat d⟩
  | _ => none

def showNatAux : Nat → Nat → Str
  | 0, _ => []
  | fuel+1, n => if n < 10 then [Char.ofNat (n + 48)] else showNatAux fuel (n / 10) ++ [Char.ofNat (n % 10 + 48)]

/-- decimal, no leading zeros -/
def showNat (n : Nat) : Str := showNatAux (n + 1) n

def show4 (x : Ip4) : Str :=
  showNat x.a.toNat ++ ['.'] ++ showNat x.b.toNat ++ ['.'] ++ showNat x.c.toNat ++ ['.'] ++ showNat x.d.toNat

/-- `read_groups`: up to `limit` 16-bit groups, `:`-separated, possibly ending in an embedded
IPv4 address; returns (groups read, ended with ipv4, rest) -/
def readGroups : Nat → Nat → Str → List Nat → (List Nat × Bool × Str)
  | 0, _, s, acc => (acc, false, s)
  | fuel+1, limit, s, acc =>
    let i := acc.length
    if i ≥ limit then (acc, false, s) else
    -- separator (only after the first group)
    let afterSep : Option Str :=
      if i = 0 then some s else match s with
        | ':' :: r => some r
        | _ => none
    match afterSep with
    | none => (acc, false, s)
    | some r =>
      let v4 := if i + 1 < limit then readIpv4 r else none
      match v4 with
      | some ([a, b, c, d], r') => (acc ++ [a * 256 + b, c * 256 + d], true, r')
      | _ =>
        match readNumber 16 4 65536 true r with
        | some (g, r') => readGroups fuel limit r' (acc ++ [g])
        | none => (acc, false, s)

structure Ip6 where
  segs : List UInt16
  len8 : segs.length = 8
deriving DecidableEq

def mkIp6 (l : List Nat) : Ip6 :=
  ⟨(List.range 8).map (fun i => UInt16.ofNat (l.getD i 0)), by simp⟩

/-- `Ipv6Addr::from_str` -/
def parse6 (s : Str) : Option Ip6 :=
  let (head, headV4, r) := readGroups 9 8 s []
  if head.length = 8 then (if r = [] then some (mkIp6 head) else none)
  else if headV4 then none
  else match r with
    | ':' :: ':' :: r =>
      let limit := 8 - (head.length + 1)
      let (tail, _, r') := readGroups 9 limit r []
      if r' = [] then some (mkIp6 (head ++ List.replicate (8 - head.length - tail.length) 0 ++ tail))
      else none
    | _ => none

def hexDigitChar (n : Nat) : Char := if n < 10 then Char.ofNat (48 + n) else Char.ofNat (87 + n)

def showHexAux : Nat → Nat → Str
  | 0, _ => []
  | fuel+1, n => if n < 16 then [hexDigitChar n] else showHexAux fuel (n / 16) ++ [hexDigitChar (n % 16)]

/-- `{:x}` -/
def showHex (n : Nat) : Str := showHexAux (n + 1) n

def joinColon : List Nat → Str
  | [] => []
  | [x] => showHex x
  | x :: y :: r => showHex x ++ [':'] ++ joinColon (y :: r)

/-- longest run of zero groups (first one on ties): (start, len) -/
def longestZeroRun (segs : List Nat) : Nat × Nat :=
  let rec go : List Nat → Nat → (Nat × Nat) → (Nat × Nat) → (Nat × Nat)
    | [], _, _, longest => longest
    | x :: xs, i, cur, longest =>
      if x = 0 then
        let cur := if cur.2 = 0 then (i, 1) else (cur.1, cur.2 + 1)
        let longest := if cur.2 > longest.2 then cur else longest
        go xs (i + 1) cur longest
      else go xs (i + 1) (0, 0) longest
  go segs 0 (0, 0) (0, 0)

/-- `impl Display for Ipv6Addr` -/
def show6 (x : Ip6) : Str :=
  let segs := x.segs.map UInt16.toNat
  if segs.take 5 = [0, 0, 0, 0, 0] ∧ segs.getD 5 0 = 0xffff then
    "::ffff:".toList ++ showNat (segs.getD 6 0 / 256) ++ ['.'] ++ showNat (segs.getD 6 0 % 256) ++ ['.']
      ++ showNat (segs.getD 7 0 / 256) ++ ['.'] ++ showNat (segs.getD 7 0 % 256)
  else
    let (start, len) := longestZeroRun segs
    if len > 1 then joinColon (segs.take start) ++ [':', ':'] ++ joinColon (segs.drop (start + len))
    else joinColon segs

end Zmq.Ip
