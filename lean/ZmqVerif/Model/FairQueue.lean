/-!
# L4 — the fair queue (`src/fair_queue.rs`) at the granularity of its lock sections

Receiver `poll_next` = a loop of three sections:

* **A** (lock held): publish the receiver's waker, pop the minimum-ticket event, check the
  stream out of the map (`pc := b`), or park if the heap is empty;
* **B** (lock released): poll that one stream with a `StreamWaker` carrying the event;
* **C** (lock held): on an item, re-ticket and put the stream back (`Ready`); on `None` drop
  it; on `Pending` put it back and loop.

Environment steps (`insert`, `remove`, `arrive`, `close`) can land between any two of them —
in particular inside the window where the lock is released.  Stream wakers follow the
discipline of a kernel socket / of the scripted pipe: a `Pending` poll arms exactly one
waker, a readiness change fires and consumes it.  `out` (what `poll_next` returned) and
`hist` (what each stream was given) are the observables the properties speak about.
-/
namespace Zmq.FQ

structure Peer where
  q : List Nat := []          -- items the stream can still yield
  closed : Bool := false
  armed : Option Nat := none  -- ticket carried by the armed stream waker
deriving Repr, DecidableEq

inductive Reg | absent | inMap | out | gone
deriving Repr, DecidableEq

inductive Res | some (item : Nat) | none | pend
deriving Repr, DecidableEq

/-- receiver program counter -/
inductive Pc
  | idle                       -- no poll in progress, not parked
  | parked                     -- returned Pending
  | a                          -- about to run lock section A
  | b (t k : Nat)              -- stream k checked out with event ticket t, about to poll it
  | c (t k : Nat) (r : Res)    -- polled, about to run lock section C
deriving Repr, DecidableEq

structure St where
  counter : Nat := 0
  heap : List (Nat × Nat) := []     -- (ticket, key) multiset
  reg : Nat → Reg := fun _ => .absent
  peer : Nat → Peer := fun _ => {}
  waker : Bool := false
  pc : Pc := .idle
  notified : Bool := false
  wakes : Nat := 0
  /-- what `poll_next` has returned so far: (key, item), oldest first -/
  out : List (Nat × Nat) := []
  /-- everything each stream was ever given to yield (ghost) -/
  hist : Nat → List Nat := fun _ => []
  /-- keys of the streams that returned `Pending` during the CURRENT `poll_next` call -/
  seen : List Nat := []
  /-- environment: the executor's cooperative budget is exhausted for the rest of the current
  call — every stream poll returns `Pending` and wakes itself at once (tokio's coop budget when
  `recv` is awaited directly in `block_on` of a multi-thread runtime) -/
  exhausted : Bool := false
  /-- the waker (task context) the application will poll with next -/
  curW : Nat := 0
  /-- the waker of the `poll_next` call in progress / last made -/
  polledW : Nat := 0
  /-- the waker currently published in the queue (`inner.waker`), meaningful while `waker` -/
  pubW : Nat := 0
  /-- every receiver wake-up so far: WHICH waker was woken, oldest first (ghost) -/
  woken : List Nat := []

def upd {α} (f : Nat → α) (k : Nat) (v : α) : Nat → α := fun j => if j = k then v else f j
@[simp] theorem upd_same {α} (f : Nat → α) k v : upd f k v k = v := by simp [upd]
@[simp] theorem upd_other {α} (f : Nat → α) k v j (h : j ≠ k) : upd f k v j = f j := by simp [upd, h]

/-- extract an event with minimal ticket -/
def popMin : List (Nat × Nat) → Option ((Nat × Nat) × List (Nat × Nat))
  | [] => none
  | e :: es =>
    match popMin es with
    | none => some (e, [])
    | some (m, rest) => if e.1 ≤ m.1 then some (e, es) else some (m, e :: rest)

inductive Op
  | insert (k : Nat)
  | remove (k : Nat)
  | arrive (k item : Nat)
  | close (k : Nat)
  | pollStart            -- application (re)polls: idle → a, or parked∧notified → a
  | recvStep             -- receiver executes its next section
  | exhaust              -- the cooperative budget runs out (until the current/next call returns)
  | setWaker (w : Nat)   -- the application moves to another task / future: later polls use waker `w`
deriving Repr, DecidableEq

/-- a stream waker with ticket t for key k fires: lock; push; take+wake receiver waker -/
def fire (s : St) (t k : Nat) : St :=
  { s with heap := (t, k) :: s.heap,
           waker := false,
           notified := s.notified || s.waker,
           wakes := if s.waker then s.wakes + 1 else s.wakes,
           woken := if s.waker then s.woken ++ [s.pubW] else s.woken }

def doInsert (s : St) (k : Nat) : St :=
  if s.reg k = .absent then
    { s with reg := upd s.reg k .inMap, heap := (s.counter, k) :: s.heap, counter := s.counter + 1,
             notified := s.notified || s.waker, wakes := if s.waker then s.wakes + 1 else s.wakes,
             woken := if s.waker then s.woken ++ [s.pubW] else s.woken }
  else s

def doRemove (s : St) (k : Nat) : St :=
  if s.reg k = .inMap then
    { s with reg := upd s.reg k .gone, peer := upd s.peer k { s.peer k with armed := none } }
  else s

/-- readiness change on stream k (new item or EOF): fires the armed waker, if any -/
def ready (s : St) (k : Nat) (p' : Peer) : St :=
  let s1 := { s with peer := upd s.peer k { p' with armed := none } }
  match (s.peer k).armed with
  | some t => if s.reg k = .inMap ∨ s.reg k = .out then fire s1 t k else s1
  | none => s1

def doArrive (s : St) (k item : Nat) : St :=
  let p := s.peer k
  if p.closed then s else { ready s k { p with q := p.q ++ [item] } with hist := upd s.hist k (s.hist k ++ [item]) }

def doClose (s : St) (k : Nat) : St :=
  let p := s.peer k
  if p.closed then s else ready s k { p with closed := true }

def doPollStart (s : St) : St :=
  match s.pc with
  | .idle => { s with pc := .a, notified := false, seen := [], polledW := s.curW }
  | .parked => { s with pc := .a, notified := false, seen := [], polledW := s.curW }     -- spurious polls are legal
  | _ => s

/-- lock section A proper: publish the waker, pop the minimum-ticket event, check the stream out -/
def doAcore (s : St) : St :=
  match popMin s.heap with
  | none => { s with waker := true, pubW := s.polledW, pc := .parked, exhausted := false }
  | some ((t, k), rest) =>
    if s.reg k = .inMap then
      { s with waker := true, pubW := s.polledW, heap := rest, reg := upd s.reg k .out, pc := .b t k }
    else { s with waker := true, pubW := s.polledW, heap := rest }

/-- give the executor a chance to run: keep every event, wake the receiver's own waker, return
`Pending` -/
def yieldNow (s : St) : St :=
  { s with waker := true, pubW := s.polledW, pc := .parked, notified := true, wakes := s.wakes + 1,
           woken := s.woken ++ [s.polledW], exhausted := false }

/-- lock section A: if the next event belongs to a stream that ALREADY returned `Pending` during
this very `poll_next` call (it woke itself — e.g. the executor's cooperative budget is exhausted —
or an event for it landed in the window), polling it again now could spin for ever: yield. -/
def doA (s : St) : St :=
  match popMin s.heap with
  | some ((_, k), _) => if s.seen.contains k then yieldNow s else doAcore s
  | none => doAcore s

/-- section B when the cooperative budget is exhausted: the stream returns `Pending` after
waking itself — its waker (carrying ticket `t`) fires at once -/
def doBex (s : St) (t k : Nat) : St := { fire s t k with pc := .c t k .pend }

def doBcore (s : St) (t k : Nat) : St :=
  let p := s.peer k
  match p.q with
  | item :: q' => { s with peer := upd s.peer k { p with q := q' }, pc := .c t k (.some item) }
  | [] =>
    if p.closed then { s with pc := .c t k .none }
    else { s with peer := upd s.peer k { p with armed := some t }, pc := .c t k .pend }

def doB (s : St) (t k : Nat) : St := if s.exhausted then doBex s t k else doBcore s t k

def doC (s : St) (k : Nat) : Res → St
  | .some item => { s with heap := (s.counter, k) :: s.heap, counter := s.counter + 1, reg := upd s.reg k .inMap,
                           pc := .idle, out := s.out ++ [(k, item)], exhausted := false }
  | .none => { s with reg := upd s.reg k .gone, pc := .a }
  | .pend => { s with reg := upd s.reg k .inMap, pc := .a, seen := k :: s.seen }

def doRecv (s : St) : St :=
  match s.pc with
  | .a => doA s
  | .b t k => doB s t k
  | .c _ k r => doC s k r
  | _ => s

def step (s : St) : Op → St
  | .insert k => doInsert s k
  | .remove k => doRemove s k
  | .arrive k item => doArrive s k item
  | .close k => doClose s k
  | .pollStart => doPollStart s
  | .recvStep => doRecv s
  | .exhaust => { s with exhausted := true }
  | .setWaker w => { s with curW := w }

/-- number of heap events for key k -/
def cnt (h : List (Nat × Nat)) (k : Nat) : Nat := (h.filter (fun e => e.2 = k)).length
def evs (s : St) (k : Nat) : Nat := cnt s.heap k

/-- key of the stream that is checked out and whose token the receiver holds -/
def handKey : Pc → Option Nat
  | .b _ k => some k
  | .c _ k (.some _) => some k
  | .c _ k .none => some k
  | _ => none

/-- key of the stream that is checked out -/
def outKey : Pc → Option Nat
  | .b _ k => some k
  | .c _ k _ => some k
  | _ => none

def inHand (s : St) (k : Nat) : Nat := if handKey s.pc = some k then 1 else 0

def armedN (s : St) (k : Nat) : Nat := if (s.peer k).armed.isSome then 1 else 0

structure Inv (s : St) : Prop where
  /-- I1: parked and not notified ⇒ nothing is ready and the waker is published -/
  i1 : s.pc = .parked → s.notified = false → s.heap = [] ∧ s.waker = true
  /-- one token per live stream -/
  tok : ∀ k, (s.reg k = .inMap ∨ s.reg k = .out) → evs s k + armedN s k + inHand s k = 1
  /-- armed ⇒ nothing available (an arrival fires and disarms) -/
  armedEmpty : ∀ k, (s.peer k).armed.isSome → (s.peer k).q = [] ∧ (s.peer k).closed = false
  /-- a key that was never inserted owns nothing -/
  absentClean : ∀ k, s.reg k = .absent → cnt s.heap k = 0 ∧ (s.peer k).armed = none
  /-- at most the stream named by the pc is checked out -/
  outPc : ∀ k, s.reg k = .out ↔ outKey s.pc = some k

end Zmq.FQ
