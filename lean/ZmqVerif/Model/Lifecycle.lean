/-!
# L8 — lifecycle: who owns what, with reference-count (`Arc`) semantics

Nodes are the objects of one fair-queue socket; strong edges are the ones the code creates.
`Freed` is the **inductive** least fixpoint "not a root and every owner is freed", so a strong
cycle that no root reaches is a *leak*, exactly as with `Arc`.  A connection is closed when its
`transport` node (shared by the two halves) is freed.
-/
namespace Zmq.Own

/-- objects of one fair-queue socket with connections indexed by `Nat` -/
inductive Node
  | sock                    -- the socket value held by the application
  | backend                 -- Arc<…Backend>
  | fq                      -- the FairQueue value inside the socket
  | qinner                  -- Arc<Mutex<QueueInner>>
  | rhalf (c : Nat)         -- framed read half of connection c
  | whalf (c : Nat)         -- framed write half of connection c
  | transport (c : Nat)     -- the shared transport object (closed when freed)
  | waker (c : Nat)         -- StreamWaker registered inside transport c
  | acceptTask (e : Nat)    -- accept loop for bound endpoint e
  | stopTx (e : Nat)        -- its stop-channel sender, stored in the socket's bind table
  | hsTask (c : Nat)        -- handshake task of accepted connection c
deriving DecidableEq, Repr

/-- the part of the socket state that determines who owns what -/
structure Cfg where
  sockHeld : Bool                 -- the application still holds the socket
  registered : Nat → Bool         -- connection c: read half in the fair queue, write half in the peer table
  armed : Nat → Bool              -- a recv returned Pending on c: its StreamWaker sits in the transport
  handshaking : Nat → Bool        -- connection c is still in its detached handshake task
  bound : Nat → Bool              -- endpoint e is in the bind table
  fqDropsStreams : Bool           -- (the D15 repair) dropping the FairQueue clears the stream map
  hsEp : Nat → Nat                -- the endpoint whose accept loop started connection c's handshake
  hsStops : Bool                  -- (the D14 repair) a handshake task also waits for its listener's stop signal

open Node

/-- strong references `owner → owned`, as the code creates them -/
def owns (g : Cfg) : Node → Node → Prop
  | sock, backend => True
  | sock, fq => True
  | sock, stopTx e => g.bound e
  | fq, qinner => True
  | backend, qinner => True                       -- `fair_queue_inner`
  | backend, whalf c => g.registered c            -- peer table
  | qinner, rhalf c => g.registered c ∧ ¬ (g.fqDropsStreams ∧ ¬ g.sockHeld)   -- stream map (cleared by the repaired Drop)
  | rhalf c, transport c' => c = c'
  | whalf c, transport c' => c = c'
  | transport c, waker c' => c = c' ∧ g.armed c
  | waker _, qinner => True                       -- StreamWaker.inner
  | stopTx e, acceptTask e' => e = e'             -- the task runs until its sender is dropped or fired
  | stopTx e, hsTask c => g.hsStops ∧ g.handshaking c ∧ g.hsEp c = e   -- (repair) … and so do the handshakes it started
  | acceptTask _, backend => True                 -- the accept callback captured a clone
  | hsTask c, backend => g.handshaking c
  | hsTask c, rhalf c' => c = c' ∧ g.handshaking c
  | hsTask c, whalf c' => c = c' ∧ g.handshaking c
  | _, _ => False

/-- roots: things kept alive by the outside world -/
def root (g : Cfg) : Node → Prop
  | sock => g.sockHeld
  | hsTask c => g.handshaking c ∧ ¬ g.hsStops     -- a DETACHED task is alive until it finishes (before the repair)
  | _ => False

/-- reference-count semantics: an object is freed when it is not a root and every owner is freed -/
inductive Freed (g : Cfg) : Node → Prop
  | intro (x : Node) (hroot : ¬ root g x) (howners : ∀ y, owns g y x → Freed g y) : Freed g x

end Zmq.Own
