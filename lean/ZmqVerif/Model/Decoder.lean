import ZmqVerif.Model.Wire
/-!
# L2 — the decoder: `ZmqCodec::decode`, the greeting / mechanism / command parsers,
and the `FramedRead2::poll_next` loop of asynchronous-codec 0.7

Every Rust operation that can abort is modelled with its abort condition
(`Out.panic site`); the guards are the ones in the code.  `Dec` mirrors the
fields of `ZmqCodec` (`state` + `waiting_for` merged into `DState`, and
`buffered_message`).
-/
namespace Zmq

structure Flags where
  command : Bool
  long : Bool
  more : Bool
deriving Repr, DecidableEq, Inhabited

def Flags.ofByte (b : UInt8) : Flags :=
  { command := b &&& 4 != 0, long := b &&& 2 != 0, more := b &&& 1 != 0 }

/-- `DecoderState` together with `waiting_for` -/
inductive DState
  | greeting
  | header
  | len (f : Flags)
  | body (f : Flags) (n : Nat)
deriving Repr, DecidableEq, Inhabited

/-- `waiting_for` -/
def DState.need : DState → Nat
  | .greeting => 64
  | .header => 1
  | .len f => if f.long then 8 else 1
  | .body _ n => n

def DState.rank : DState → Nat
  | .greeting => 0
  | .header => 0
  | .len _ => 1
  | .body _ _ => 2

structure Dec where
  st : DState
  /-- `buffered_message` (`None` = `[]`) -/
  part : List Bytes
deriving Repr, DecidableEq, Inhabited

/-- `ZmqCodec::new()` -/
def Dec.init : Dec := { st := .greeting, part := [] }
/-- the decoder of a connection whose greeting has been consumed -/
def Dec.framing : Dec := { st := .header, part := [] }

inductive Item
  | greeting (g : Greeting)
  | command (props : Props)            -- name is always READY when parsing succeeds
  | message (frames : List Bytes)
deriving Repr, DecidableEq, Inhabited

/-! ### parsers of the fixed-size and command bodies -/

/-- `ZmqMechanism::try_from(&[u8])` -/
def parseMechanism (field : Bytes) : Out Mechanism :=
  let m := field.takeWhile (· != 0)
  if m = Mechanism.null.name then .ok .null
  else if m = Mechanism.plain.name then .ok .plain
  else if m = Mechanism.curve.name then .ok .curve
  else .err .mechanism

/-- `ZmqGreeting::try_from(Bytes)` -/
def parseGreeting (v : Bytes) : Out Greeting :=
  if v.length ≠ 64 then .err .greeting else do
  let b0 ← index v 0
  let b9 ← index v 9
  if !(b0 == 0xff && b9 == 0x7f) then .err .greeting else do
  let maj ← index v 10
  let min ← index v 11
  if v.length < 32 then .panic .slice else do
  let mech ← parseMechanism ((v.drop 12).take 20)
  let s ← index v 32
  .ok { major := maj, minor := min, mech := mech, asServer := s == 1 }

def validUtf8 (b : Bytes) : Bool := (ByteArray.mk b.toArray).validateUTF8

/-- the `while !buf.is_empty()` loop of `ZmqCommand::try_from`, with the guards of the code -/
def parseProps : Nat → Bytes → Props → Out Props
  | 0, _, acc => .ok acc                       -- unreachable: fuel = length + 1
  | fuel+1, buf, acc =>
    if buf.isEmpty then .ok acc else do
    let (n, buf) ← getU8 buf
    if buf.length < n.toNat then .err .decode else do
    let (name, buf) ← splitTo buf n.toNat
    if !validUtf8 name then .err .decode else do
    if buf.length < 4 then .err .decode else do
    let (vlen, buf) ← getU32 buf
    if buf.length < vlen then .err .decode else do
    let (val, buf) ← splitTo buf vlen
    parseProps fuel buf (acc ++ [(name, val)])

/-- `ZmqCommand::try_from(Bytes)` -/
def parseCommand (body : Bytes) : Out Props :=
  if body.isEmpty then .err .command else do
  let (n, buf) ← getU8 body
  if buf.length < n.toNat then .err .command else do
  let name ← sliceTo buf n.toNat
  if name ≠ kReady then .err .command else do
  let (_, buf) ← splitTo buf n.toNat            -- `buf.advance(command_len)`
  parseProps (buf.length + 1) buf []

/-! ### one transition, one `decode` call, and the run to exhaustion -/

inductive StepOut
  | cont (d : Dec) (buf : Bytes)
  | item (i : Item) (d : Dec) (buf : Bytes)
  | fail (e : Err) (d : Dec) (buf : Bytes)
  | panic (s : Site)
deriving Repr, DecidableEq

/-- lift a parser outcome that happens *after* the decoder already moved on -/
def StepOut.ofOut (o : Out Item) (d : Dec) (buf : Bytes) : StepOut :=
  match o with
  | .ok i => .item i d buf
  | .err e => .fail e d buf
  | .panic s => .panic s

/-- one arm of the `match self.state`.  Written with the abort conditions of the
`bytes` primitives it uses (`src[0]`, `get_u8`, `get_u64`, `split_to`) inlined, so
that "the guard `src.len() >= waiting_for` keeps them in range" is a theorem
(`step_no_panic_of_need`), not an assumption. -/
def step (d : Dec) (buf : Bytes) : StepOut :=
  match d.st with
  | .greeting =>
    match buf with
    | [] => .panic .index
    | b0 :: _ =>
      if b0 != 0xff then .fail .decode d buf
      else if buf.length < 64 then .panic .splitTo
      else StepOut.ofOut (parseGreeting (buf.take 64) >>= fun g => .ok (.greeting g))
             { d with st := .header } (buf.drop 64)
  | .header =>
    match buf with
    | [] => .panic .getU8
    | b :: rest => .cont { d with st := .len (Flags.ofByte b) } rest
  | .len f =>
    if f.long then
      if buf.length < 8 then .panic .getU64
      else .cont { d with st := .body f (beNat (buf.take 8)) } (buf.drop 8)
    else
      match buf with
      | [] => .panic .getU8
      | b :: rest => .cont { d with st := .body f b.toNat } rest
  | .body f n =>
    if buf.length < n then .panic .splitTo
    else if f.command then
      StepOut.ofOut (parseCommand (buf.take n) >>= fun p => .ok (.command p))
        { d with st := .header } (buf.drop n)
    else if f.more then
      .cont { st := .header, part := d.part ++ [buf.take n] } (buf.drop n)
    else
      .item (.message (d.part ++ [buf.take n])) { st := .header, part := [] } (buf.drop n)

def mu (d : Dec) (buf : Bytes) : Nat := 3 * buf.length + d.st.rank

theorem step_cont_mu {d : Dec} {buf : Bytes} {d' : Dec} {buf' : Bytes}
    (hs : step d buf = .cont d' buf') : mu d' buf' < mu d buf := by
  unfold step at hs
  unfold mu
  split at hs
  · split at hs
    · simp at hs
    · split at hs
      · simp at hs
      · split at hs
        · simp at hs
        · unfold StepOut.ofOut at hs; split at hs <;> simp at hs
  · split at hs
    · simp at hs
    · simp at hs; obtain ⟨rfl, rfl⟩ := hs; simp_all [DState.rank]; omega
  · split at hs
    · split at hs
      · simp at hs
      · simp at hs; obtain ⟨rfl, rfl⟩ := hs; simp_all [DState.rank]; omega
    · split at hs
      · simp at hs
      · simp at hs; obtain ⟨rfl, rfl⟩ := hs; simp_all [DState.rank]; omega
  · split at hs
    · simp at hs
    · split at hs
      · unfold StepOut.ofOut at hs; split at hs <;> simp at hs
      · split at hs
        · simp at hs; obtain ⟨rfl, rfl⟩ := hs; simp_all [DState.rank]; omega
        · simp at hs

theorem step_item_mu {d : Dec} {buf : Bytes} {i : Item} {d' : Dec} {buf' : Bytes}
    (hs : step d buf = .item i d' buf') : mu d' buf' < mu d buf := by
  unfold step at hs
  unfold mu
  split at hs
  · split at hs
    · simp at hs
    · split at hs
      · simp at hs
      · split at hs
        · simp at hs
        · unfold StepOut.ofOut at hs
          split at hs <;> simp at hs
          obtain ⟨_, rfl, rfl⟩ := hs
          simp_all [DState.rank]; omega
  · split at hs <;> simp at hs
  · split at hs
    · split at hs <;> simp at hs
    · split at hs <;> simp at hs
  · split at hs
    · simp at hs
    · split at hs
      · unfold StepOut.ofOut at hs
        split at hs <;> simp at hs
        obtain ⟨_, rfl, rfl⟩ := hs
        simp_all [DState.rank]; omega
      · split at hs
        · simp at hs
        · simp at hs; obtain ⟨_, rfl, rfl⟩ := hs; simp_all [DState.rank]; omega

/-- result of one `decode(&mut self, src)` call -/
inductive DecodeOut
  | none (d : Dec) (buf : Bytes)                  -- `Ok(None)`
  | item (i : Item) (d : Dec) (buf : Bytes)       -- `Ok(Some(i))`
  | fail (e : Err) (d : Dec) (buf : Bytes)        -- `Err(e)`
  | panic (s : Site) (d : Dec) (buf : Bytes)      -- aborted in state `d` with `buf` buffered
deriving Repr, DecidableEq

/-- `ZmqCodec::decode` (the loop form): run transitions until an item, an error,
or fewer than `waiting_for` bytes are buffered -/
def decode (d : Dec) (buf : Bytes) : DecodeOut :=
  if buf.length < d.st.need then .none d buf
  else
    match hs : step d buf with
    | .cont d' buf' => decode d' buf'
    | .item i d' buf' => .item i d' buf'
    | .fail e d' buf' => .fail e d' buf'
    | .panic s => .panic s d buf
termination_by mu d buf
decreasing_by exact step_cont_mu hs

theorem decode_item_mu {d : Dec} {buf : Bytes} {i : Item} {d' : Dec} {buf' : Bytes}
    (h : decode d buf = .item i d' buf') : mu d' buf' < mu d buf := by
  fun_induction decode d buf with
  | case1 d buf hlt => simp at h
  | case2 d buf hge d1 b1 hs ih => have := step_cont_mu hs; have := ih h; omega
  | case3 d buf hge i1 d1 b1 hs => simp at h; obtain ⟨rfl, rfl, rfl⟩ := h; exact step_item_mu hs
  | case4 => simp at h
  | case5 => simp at h

/-- what repeated `decode` calls over one buffer produced -/
structure RunOut where
  items : List Item
  /-- the first error (the stream is abandoned there) -/
  error : Option Err
  panic : Option Site
  dec : Dec
  rest : Bytes
deriving Repr, DecidableEq

/-- call `decode` until it returns `Ok(None)` or fails: what `FramedRead2::poll_next`
yields, poll after poll, from the bytes buffered so far -/
def run (d : Dec) (buf : Bytes) : RunOut :=
  match h : decode d buf with
  | .none d' buf' => { items := [], error := none, panic := none, dec := d', rest := buf' }
  | .fail e d' buf' => { items := [], error := some e, panic := none, dec := d', rest := buf' }
  | .panic s d' buf' => { items := [], error := none, panic := some s, dec := d', rest := buf' }
  | .item i d' buf' => let r := run d' buf'; { r with items := i :: r.items }
termination_by mu d buf
decreasing_by exact decode_item_mu h

end Zmq

namespace Zmq

/-! ### a connection's read side: decoder + read buffer, fed chunk by chunk

`feed` = "a read returned `chunk`; poll the framed reader until it is `Pending`".
The first error (or panic) ends the stream, as it does for a connection whose
socket drops it on error. -/

structure Conn where
  dec : Dec
  buf : Bytes
  error : Option Err
  panic : Option Site
deriving Repr, DecidableEq

def Conn.init : Conn := ⟨Dec.init, [], none, none⟩

def Conn.dead (c : Conn) : Bool := c.error.isSome || c.panic.isSome

def Conn.feed (c : Conn) (chunk : Bytes) : List Item × Conn :=
  if c.dead then ([], { c with buf := c.buf ++ chunk })
  else
    let r := run c.dec (c.buf ++ chunk)
    (r.items, ⟨r.dec, r.rest, r.error, r.panic⟩)

def Conn.feedAll : Conn → List Bytes → List Item × Conn
  | c, [] => ([], c)
  | c, ch :: chs =>
    let r1 := c.feed ch
    let r2 := Conn.feedAll r1.2 chs
    (r1.1 ++ r2.1, r2.2)

end Zmq
