import ZmqVerif.Model.Basic
/-!
# L1 — what the library writes: frames, messages, greeting, commands

Mirrors `encode_frame` / `Encoder::encode` (`src/codec/zmq_codec.rs`),
`From<ZmqCommand> for BytesMut` (`src/codec/command.rs`) and
`From<ZmqGreeting> for BytesMut` (`src/codec/greeting.rs`).
-/
namespace Zmq

/-- `encode_frame`: flags, 1- or 8-byte size, body -/
def frameHeader (more : Bool) (n : Nat) : Bytes :=
  if n > 255 then (if more then 3 else 2) :: be 8 n
  else [if more then 1 else 0, UInt8.ofNat n]

def encodeFrame (more : Bool) (body : Bytes) : Bytes := frameHeader more body.length ++ body

/-- `Encoder::encode(Message::Message(m))`: MORE on every frame but the last -/
def encodeMsg : List Bytes → Bytes
  | [] => []
  | [f] => encodeFrame false f
  | f :: g :: fs => encodeFrame true f ++ encodeMsg (g :: fs)

/-- property list of a command, in the order the hash map happens to iterate -/
abbrev Props := List (Bytes × Bytes)

def encodeProps : Props → Bytes
  | [] => []
  | (k, v) :: ps => UInt8.ofNat k.length :: k ++ be 4 v.length ++ v ++ encodeProps ps

def commandBody (name : Bytes) (props : Props) : Bytes :=
  UInt8.ofNat name.length :: name ++ encodeProps props

/-- `From<ZmqCommand> for BytesMut` -/
def encodeCommand (name : Bytes) (props : Props) : Bytes :=
  let body := commandBody name props
  if body.length > 255 then 6 :: be 8 body.length ++ body
  else [4, UInt8.ofNat body.length] ++ body

inductive Mechanism | null | plain | curve
deriving Repr, DecidableEq, Inhabited

def Mechanism.name : Mechanism → Bytes
  | .null => [78, 85, 76, 76]          -- "NULL"
  | .plain => [80, 76, 65, 73, 78]     -- "PLAIN"
  | .curve => [67, 85, 82, 86, 69]     -- "CURVE"

structure Greeting where
  major : UInt8
  minor : UInt8
  mech : Mechanism
  asServer : Bool
deriving Repr, DecidableEq, Inhabited

/-- `ZmqGreeting::default()` -/
def Greeting.default : Greeting := { major := 3, minor := 0, mech := .null, asServer := false }

def zeros (n : Nat) : Bytes := List.replicate n 0

/-- `From<ZmqGreeting> for BytesMut`: 64 bytes -/
def encodeGreeting (g : Greeting) : Bytes :=
  [0xff] ++ zeros 8 ++ [0x7f, g.major, g.minor] ++ g.mech.name ++ zeros (20 - g.mech.name.length)
    ++ [if g.asServer then 1 else 0] ++ zeros 31

/-- the twelve socket type names of RFC 23/28/… in the order of `enum SocketType` -/
inductive SockType
  | pair | pub | sub | req | rep | dealer | router | pull | push | xpub | xsub | stream
deriving Repr, DecidableEq, Inhabited

def SockType.all : List SockType :=
  [.pair, .pub, .sub, .req, .rep, .dealer, .router, .pull, .push, .xpub, .xsub, .stream]

def SockType.toNat : SockType → Nat
  | .pair => 0 | .pub => 1 | .sub => 2 | .req => 3 | .rep => 4 | .dealer => 5
  | .router => 6 | .pull => 7 | .push => 8 | .xpub => 9 | .xsub => 10 | .stream => 11

def SockType.ofNat? : Nat → Option SockType
  | 0 => some .pair | 1 => some .pub | 2 => some .sub | 3 => some .req | 4 => some .rep
  | 5 => some .dealer | 6 => some .router | 7 => some .pull | 8 => some .push
  | 9 => some .xpub | 10 => some .xsub | 11 => some .stream | _ => none

/-- `SocketType::as_str` as bytes -/
def SockType.name : SockType → Bytes
  | .pair => [80, 65, 73, 82]
  | .pub => [80, 85, 66]
  | .sub => [83, 85, 66]
  | .req => [82, 69, 81]
  | .rep => [82, 69, 80]
  | .dealer => [68, 69, 65, 76, 69, 82]
  | .router => [82, 79, 85, 84, 69, 82]
  | .pull => [80, 85, 76, 76]
  | .push => [80, 85, 83, 72]
  | .xpub => [88, 80, 85, 66]
  | .xsub => [88, 83, 85, 66]
  | .stream => [83, 84, 82, 69, 65, 77]

/-- `TryFrom<&[u8]> for SocketType` -/
def SockType.parse (b : Bytes) : Option SockType :=
  SockType.all.find? (fun t => t.name = b)

def kReady : Bytes := [82, 69, 65, 68, 89]                                   -- "READY"
def kSocketType : Bytes := [83, 111, 99, 107, 101, 116, 45, 84, 121, 112, 101] -- "Socket-Type"
def kIdentity : Bytes := [73, 100, 101, 110, 116, 105, 116, 121]             -- "Identity"

/-- the READY command `ready_exchange` sends. `idFirst` is the hash-map iteration
order, which the code does not control: theorems hold for both values. -/
def readyProps (t : SockType) (ident : Option Bytes) (idFirst : Bool) : Props :=
  match ident with
  | none => [(kSocketType, t.name)]
  | some i => if idFirst then [(kIdentity, i), (kSocketType, t.name)]
              else [(kSocketType, t.name), (kIdentity, i)]

def encodeReady (t : SockType) (ident : Option Bytes) (idFirst : Bool) : Bytes :=
  encodeCommand kReady (readyProps t ident idFirst)

end Zmq
