import ZmqVerif.Model.Ip
/-!
# L9b — `Endpoint::from_str`, `Host::try_from`, `Display` (`src/endpoint/*.rs`)

The two regexes' semantics are spelled out over `List Char`:

* `^([[:lower:]]+)://(.+)$` — scheme = the maximal leading run of ASCII lower-case letters
  (non-empty), then `://`, then one or more characters none of which is `\n`;
* `^(.+):(\d+)$` — split at the **last** `:`; host non-empty; the port is a non-empty run of
  digits.  `\d` is Unicode-aware, but a non-ASCII digit then fails `u16::from_str`, the same
  error class (`Syntax`), so the model tests ASCII digits and value ≤ 65535.

`IpModel` abstracts `std::net`; `stdModel` instantiates it with the executable models of
`Model.Ip`.
-/
namespace Zmq.Ep
open Zmq.Ip

def isLower (c : Char) : Bool := 'a' ≤ c && c ≤ 'z'

/-- split at the last ':' -/
def splitLastColon : Str → Option (Str × Str)
  | [] => none
  | c :: cs =>
    match splitLastColon cs with
    | some (a, b) => some (c :: a, b)
    | none => if c = ':' then some ([], cs) else none

def digitVal (c : Char) : Nat := c.toNat - '0'.toNat

def digitsVal (ds : Str) : Nat := ds.foldl (fun acc c => acc * 10 + digitVal c) 0

/-- `(\d+)` then `u16::from_str` -/
def parsePort (p : Str) : Option Nat :=
  if p ≠ [] ∧ p.all isDigit then
    let v := digitsVal p
    if v ≤ 65535 then some v else none
  else none

structure IpModel where
  Ip4 : Type
  Ip6 : Type
  parse4 : Str → Option Ip4
  show4 : Ip4 → Str
  parse6 : Str → Option Ip6
  show6 : Ip6 → Str

@[reducible] def stdModel : IpModel :=
  { Ip4 := Ip.Ip4, Ip6 := Ip.Ip6, parse4 := Ip.parse4, show4 := Ip.show4, parse6 := Ip.parse6, show6 := Ip.show6 }

inductive Host (m : IpModel)
  | v4 (a : m.Ip4)
  | v6 (a : m.Ip6)
  | domain (s : Str)

inductive Endpoint (m : IpModel)
  | tcp (h : Host m) (port : Nat)
  | ipc (path : Str)

inductive Err
  | syntax
  | unknownTransport (s : Str)
deriving DecidableEq, Repr

/-- `str::len()` -/
def utf8Len (s : Str) : Nat := s.foldl (fun n c => n + c.utf8Size) 0

/-- the guard of `Host::try_from` before it slices `&s[1..s.len() - 1]` -/
def bracketed (h : Str) : Bool := h.head? == some '[' && decide (4 ≤ utf8Len h) && h.getLast? == some ']'

/-- `Host::try_from(String)` for a non-empty string -/
def parseHost (m : IpModel) (h : Str) : Host m :=
  match m.parse4 h with
  | some a => .v4 a
  | none =>
    let sub := if bracketed h then (h.drop 1).dropLast else h
    match m.parse6 sub with
    | some a => .v6 a
    | none => .domain h

/-- `Endpoint::from_str` -/
def parseEndpoint (m : IpModel) (s : Str) : Except Err (Endpoint m) :=
  let scheme := s.takeWhile isLower
  let rest := s.dropWhile isLower
  if scheme = [] then .error .syntax else
  match rest with
  | ':' :: '/' :: '/' :: addr =>
    if addr = [] ∨ addr.any (· = '\n') then .error .syntax
    else if scheme = ['t','c','p'] then
      match splitLastColon addr with
      | none => .error .syntax
      | some (h, p) =>
        if h = [] then .error .syntax else
        match parsePort p with
        | none => .error .syntax
        | some port => .ok (.tcp (parseHost m h) port)
    else if scheme = ['i','p','c'] then .ok (.ipc addr)
    else .error (.unknownTransport scheme)
  | _ => .error .syntax

def showHost (m : IpModel) : Host m → Str
  | .v4 a => m.show4 a
  | .v6 a => m.show6 a
  | .domain s => s

/-- `impl Display for Endpoint` (IPv6 hosts in brackets) -/
def display (m : IpModel) : Endpoint m → Str
  | .tcp h port =>
    match h with
    | .v6 a => ['t','c','p',':','/','/','['] ++ m.show6 a ++ [']',':'] ++ showNat port
    | _ => ['t','c','p',':','/','/'] ++ showHost m h ++ [':'] ++ showNat port
  | .ipc path => ['i','p','c',':','/','/'] ++ path

end Zmq.Ep
