import ZmqVerif.Model.Wire
/-!
# L6a — the pure cores of the socket types

Envelope handling of REQ / REP / ROUTER (`src/req.rs`, `src/rep.rs`, `src/router.rs`), the
subscription bookkeeping and matching of PUB / XPUB (`src/pub.rs`, `src/xpub.rs`), the SUB
subscription set (`src/sub.rs`) and the round-robin rotation (`src/backend.rs`) — as plain
functions on frame lists.  `Model.World` composes exactly these functions.
-/
namespace Zmq

abbrev Msg := List Bytes

/-! ### REQ -/

/-- `ReqSocket::send`: `message.push_front(Bytes::new())` -/
def reqWrap (p : Msg) : Msg := [] :: p

/-- `ReqSocket::recv` on a reply: at least two frames, the first one empty, which is removed -/
def reqUnwrap (m : Msg) : Option Msg :=
  match m with
  | [] => none
  | [_] => none
  | d :: rest => if d.isEmpty then some rest else none

/-! ### REP -/

/-- index just past the first empty frame, else 1 (`let mut at = 1; for … if frame.is_empty()`) -/
def repCut (m : Msg) : Nat :=
  match m.findIdx? (·.isEmpty) with
  | some i => i + 1
  | none => 1

/-- `RepSocket::recv` on a request: (envelope incl. delimiter, payload); `none` = rejected -/
def repSplit (m : Msg) : Option (Msg × Msg) :=
  if m.length < 2 then none
  else
    let cut := repCut m
    if cut ≥ m.length then none          -- nothing follows the delimiter
    else some (m.take cut, m.drop cut)

/-- `RepSocket::send`: `message.prepend(&envelope)` -/
def repReply (envelope reply : Msg) : Msg := envelope ++ reply

/-! ### ROUTER -/

/-- `RouterSocket::recv`: `message.push_front(peer_id)` -/
def routerIn (ident : Bytes) (m : Msg) : Msg := ident :: m

/-- `RouterSocket::send`: first frame = target, the rest is written -/
def routerOut (m : Msg) : Option (Bytes × Msg) :=
  match m with
  | t :: r => some (t, r)
  | [] => none

/-! ### PUB / XPUB subscriptions -/

/-- `message_received` on the single data frame of a subscription message -/
def onData (subs : List Bytes) : Bytes → List Bytes
  | [] => subs
  | b :: t => if b = 1 then subs ++ [t] else if b = 0 then subs.erase t else subs

/-- `message_received`: only single-frame messages count -/
def onMsg (subs : List Bytes) (frames : Msg) : List Bytes :=
  match frames with
  | [d] => onData subs d
  | _ => subs

/-- `send`: is some subscription a byte-prefix of the first frame? -/
def hit (subs : List Bytes) (topic : Bytes) : Bool := subs.any (fun s => s.isPrefixOf topic)

/-- copies of one published message written to one subscriber (`break` after the first match) -/
def copies (subs : List Bytes) (topic : Bytes) : Nat := if hit subs topic then 1 else 0

/-! ### SUB: what it tells its peers -/

/-- `create_subs_message`: `01 topic` / `00 topic`, one frame -/
def subsMsg (isSub : Bool) (topic : Bytes) : Msg := [(if isSub then 1 else 0) :: topic]

/-- `subscribe`: the set changes (and the change is announced) only if the topic is new -/
def subAdd (subs : List Bytes) (t : Bytes) : List Bytes × Bool :=
  if t ∈ subs then (subs, false) else (subs ++ [t], true)

/-- `unsubscribe`: the set changes (and the change is announced) only if the topic was in it -/
def subDel (subs : List Bytes) (t : Bytes) : List Bytes × Bool :=
  if t ∈ subs then (subs.erase t, true) else (subs, false)

/-! ### round robin -/

/-- one successful round-robin send over a queue whose entries are all live:
pop the front, push it back -/
def rrNext {α} : List α → Option (α × List α)
  | [] => none
  | x :: xs => some (x, xs ++ [x])

end Zmq
