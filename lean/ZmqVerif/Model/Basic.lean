/-!
# L0 — bytes, big-endian numbers, and the explicit-outcome monad

`Out` makes the three ways a Rust function can end explicit: a value, an
`Err(..)`, or a **panic** at a named site.  The `bytes` crate primitives used by
the codec (`get_u8`, `get_u32`, `get_u64`, `split_to`, slicing, indexing) are
modelled as functions that *panic* exactly where the Rust ones do, so that
"the parser never panics" is a theorem about the guards in the code and not an
artefact of Lean's totality.
-/
namespace Zmq

abbrev Bytes := List UInt8

/-- `k` bytes, network order (`put_u8`/`put_u32`/`put_u64`; truncating like `as u8`). -/
def be : Nat → Nat → Bytes
  | 0, _ => []
  | k+1, n => (UInt8.ofNat (n / 256 ^ k % 256)) :: be k n

/-- big-endian value of a byte string (`get_u8`/`get_u32`/`get_u64`). -/
def beNat : Bytes → Nat
  | [] => 0
  | b :: bs => b.toNat * 256 ^ bs.length + beNat bs

/-- where a Rust panic would come from -/
inductive Site
  | getU8 | getU32 | getU64 | splitTo | slice | index | expectNone | emptyMessage | assertLen
deriving Repr, DecidableEq, Inhabited

/-- the library's error variants, by name only (never by text) -/
inductive Err
  | command | greeting | mechanism | decode | io | other
  | unsupportedVersion | peerIdentity | noMessage | returnToSender | bufferFull
  | network | codecOther
deriving Repr, DecidableEq, Inhabited

inductive Out (α : Type) where
  | ok (a : α)
  | err (e : Err)
  | panic (s : Site)
deriving Repr, DecidableEq

namespace Out
@[inline] def bind {α β} (x : Out α) (f : α → Out β) : Out β :=
  match x with
  | .ok a => f a
  | .err e => .err e
  | .panic s => .panic s
instance : Monad Out where
  pure := .ok
  bind := Out.bind
def isPanic {α} : Out α → Bool
  | .panic _ => true
  | _ => false
def isOk {α} : Out α → Bool
  | .ok _ => true
  | _ => false
end Out

/-! ### `bytes::Buf` primitives with their panic conditions -/

/-- `buf.get_u8()` — panics on an empty buffer -/
def getU8 (buf : Bytes) : Out (UInt8 × Bytes) :=
  match buf with
  | [] => .panic .getU8
  | b :: r => .ok (b, r)

/-- `buf.get_u32()` — panics with fewer than 4 bytes -/
def getU32 (buf : Bytes) : Out (Nat × Bytes) :=
  if buf.length < 4 then .panic .getU32 else .ok (beNat (buf.take 4), buf.drop 4)

/-- `buf.get_u64()` — panics with fewer than 8 bytes -/
def getU64 (buf : Bytes) : Out (Nat × Bytes) :=
  if buf.length < 8 then .panic .getU64 else .ok (beNat (buf.take 8), buf.drop 8)

/-- `buf.split_to(n)` — panics when `n > len` -/
def splitTo (buf : Bytes) (n : Nat) : Out (Bytes × Bytes) :=
  if buf.length < n then .panic .splitTo else .ok (buf.take n, buf.drop n)

/-- `&buf[..n]` — panics when `n > len` -/
def sliceTo (buf : Bytes) (n : Nat) : Out Bytes :=
  if buf.length < n then .panic .slice else .ok (buf.take n)

/-- `buf[i]` — panics when out of range -/
def index (buf : Bytes) (i : Nat) : Out UInt8 :=
  match buf[i]? with
  | some b => .ok b
  | none => .panic .index

def ascii (s : String) : Bytes := s.toUTF8.toList

end Zmq
