import ZmqVerif.Model.Decoder
import ZmqVerif.Model.Sink
import ZmqVerif.Model.Sockets
import ZmqVerif.Model.Tables
/-!
# The executable composition: sockets + scripted pipes + user futures, one poll at a time

`World.step : World → Op → World × String` is nothing but the composition of the small
sub-models the property theorems are about — `decode` (L2), `sendPoll`/`trySend` (L3), the
fair-queue algorithm (L4), the handshake (L5), the socket cores of `Model.Sockets` (L6) — so
that the correspondence check exercises the very definitions the theorems speak of, through
the same entry points the real sockets use.  It mirrors **the code that exists**, including
the recorded defects (EOF swallowed by the fair queue leaves the write half registered; REQ
never forgets a peer; write errors in REQ/ROUTER/REP `send` leave the peer registered).

Hash-map iteration orders (`scc::HashMap`, `HashSet`) are abstracted by insertion order; the
generators compare only what does not depend on them (per-pipe wires at quiescent points,
sorted where a set is announced).
-/
namespace Zmq.W
open Zmq

/-- a peer identity.  Auto-assigned identities (random UUIDs in the real code) are the
placeholders `autoId n`; the harness translates between the real random bytes and the
placeholder at every boundary (results, wire taps, revealed bytes). -/
abbrev Ident := Bytes

def autoId (n : Nat) : Ident := List.replicate 15 0xA7 ++ [UInt8.ofNat n]

/-- who is registered to be woken when a pipe becomes readable -/
inductive RWaker
  | user
  | fq (sock : Nat) (ticket : Nat) (key : Ident)
deriving DecidableEq, Repr

structure Pipe where
  inbuf : Bytes := []
  eof : Bool := false
  rderr : Bool := false
  w : WPipe := {}
  seen : Nat := 0
  rDropped : Bool := false
  wDropped : Bool := false
  rwaker : Option RWaker := none
  /-- kind of the scripted write error: `BrokenPipe` (true) or anything else -/
  wrBroken : Bool := true
deriving Repr

/-- `FramedRead`: the transport's read half + decoder + read buffer -/
structure Rd where
  pipe : Nat
  dec : Dec := Dec.init
  buf : Bytes := []
deriving Repr

/-- `FramedWrite`: the transport's write half + write buffer -/
structure Wr where
  pipe : Nat
  buf : Bytes := []
deriving Repr

/-! ### tiny association maps -/

def lookup {α} : List (Nat × α) → Nat → Option α
  | [], _ => none
  | e :: t, k => if e.1 == k then some e.2 else lookup t k
/-- replace in place or append -/
def insert {α} : List (Nat × α) → Nat → α → List (Nat × α)
  | [], k, v => [(k, v)]
  | e :: t, k, v => if e.1 == k then (k, v) :: t else e :: insert t k v
def erase {α} (m : List (Nat × α)) (k : Nat) : List (Nat × α) := m.filter (·.1 != k)

def ilookup {α} : List (Ident × α) → Ident → Option α
  | [], _ => none
  | e :: t, k => if e.1 == k then some e.2 else ilookup t k
/-- `upsert`: replace in place or append -/
def iinsert {α} : List (Ident × α) → Ident → α → List (Ident × α)
  | [], k, v => [(k, v)]
  | e :: t, k, v => if e.1 == k then (k, v) :: t else e :: iinsert t k v
def ierase {α} (m : List (Ident × α)) (k : Ident) : List (Ident × α) := m.filter (·.1 != k)

abbrev Pipes := List (Nat × Pipe)

def getPipe (ps : Pipes) (k : Nat) : Pipe := (lookup ps k).getD {}
def setPipe (ps : Pipes) (k : Nat) (p : Pipe) : Pipes := insert ps k p

def dropR (ps : Pipes) (k : Nat) : Pipes :=
  let p := getPipe ps k; setPipe ps k { p with rDropped := true, rwaker := none }
def dropW (ps : Pipes) (k : Nat) : Pipes :=
  let p := getPipe ps k; setPipe ps k { p with wDropped := true }

/-! ### reading: `FramedRead2::poll_next` -/

inductive ReadRes
  | item (i : Item)
  | pending
  | eof                      -- `Ready(None)`
  | err (e : Err)            -- `Ready(Some(Err(e)))`
deriving Repr

def decodeOnce (rd : Rd) : DecodeOut := decode rd.dec rd.buf

/-- one `poll_next` of a framed reader; on `Pending` the pipe's read waker is `who` -/
def readerPoll : Nat → Pipes → Rd → RWaker → ReadRes × Pipes × Rd
  | 0, ps, rd, _ => (.pending, ps, rd)
  | fuel+1, ps, rd, who =>
    match decodeOnce rd with
    | .item i d b => (.item i, ps, { rd with dec := d, buf := b })
    | .fail e d b => (.err e, ps, { rd with dec := d, buf := b })
    | .panic _ d b => (.err .other, ps, { rd with dec := d, buf := b })   -- unreachable (C03)
    | .none d b =>
      let rd := { rd with dec := d, buf := b }
      let p := getPipe ps rd.pipe
      if p.inbuf.isEmpty then
        if p.rderr then (.err .io, ps, rd)
        else if p.eof then
          if rd.buf.isEmpty then (.eof, ps, rd)
          else match decodeOnce rd with      -- `decode_eof`
            | .item i d b => (.item i, ps, { rd with dec := d, buf := b })
            | .fail e d b => (.err e, ps, { rd with dec := d, buf := b })
            | .panic _ d b => (.err .other, ps, { rd with dec := d, buf := b })
            | .none d b =>
              if b.isEmpty then (.eof, ps, { rd with dec := d, buf := b })
              else (.err .io, ps, { rd with dec := d, buf := b })   -- "bytes remaining in stream"
        else (.pending, setPipe ps rd.pipe { p with rwaker := some who }, rd)
      else
        let n := min 8192 p.inbuf.length
        readerPoll fuel (setPipe ps rd.pipe { p with inbuf := p.inbuf.drop n })
          { rd with buf := rd.buf ++ p.inbuf.take n } who

def readFuel (ps : Pipes) (rd : Rd) : Nat := (getPipe ps rd.pipe).inbuf.length + 4

/-! ### writing through a `Wr` -/

def wrSendPoll (ps : Pipes) (wr : Wr) (st : SendSt) : Pipes × Wr × SendSt × IoRes :=
  let p := getPipe ps wr.pipe
  let (w', b', st', r) := sendPoll hwmDefault p.w wr.buf st
  (setPipe ps wr.pipe { p with w := w' }, { wr with buf := b' }, st', r)

def wrTrySend (ps : Pipes) (wr : Wr) (enc : Bytes) : Pipes × Wr × TrySendRes :=
  let p := getPipe ps wr.pipe
  let (w', b', r) := trySend hwmDefault p.w wr.buf enc
  (setPipe ps wr.pipe { p with w := w' }, { wr with buf := b' }, r)

/-! ### sockets -/

structure Socket where
  typ : SockType
  ident : Option Bytes := none
  /-- peer table: write halves (`peers` / `subscribers`) -/
  peers : List (Ident × Wr) := []
  /-- REQ keeps the read half inside the peer -/
  reqRd : List (Ident × Rd) := []
  rr : List Ident := []
  fqCounter : Nat := 0
  fqHeap : List (Nat × Ident) := []
  fqStreams : List (Ident × Rd) := []
  current : Option Ident := none
  envelope : Option Msg := none
  /-- PUB / XPUB: subscriptions per subscriber -/
  subsOf : List (Ident × List Bytes) := []
  /-- PUB: one spawned reader task per subscriber, with its read half; `false` = told to stop -/
  readers : List (Nat × Ident × Rd × Bool) := []
  readerSeq : Nat := 0
  /-- SUB: the subscription set -/
  subs : List Bytes := []
  /-- the application dropped the socket; only futures that still hold its backend see it -/
  dead : Bool := false
deriving Repr

def hasFq (t : SockType) : Bool :=
  match t with
  | .pull | .sub | .dealer | .router | .rep | .xpub => true
  | _ => false

def popMinE : List (Nat × Ident) → Option ((Nat × Ident) × List (Nat × Ident))
  | [] => none
  | e :: es =>
    match popMinE es with
    | none => some (e, [])
    | some (m, rest) => if e.1 ≤ m.1 then some (e, es) else some (m, e :: rest)

/-- `QueueInner::insert` -/
def fqInsert (s : Socket) (k : Ident) (rd : Rd) : Socket :=
  { s with fqStreams := iinsert s.fqStreams k rd, fqHeap := (s.fqCounter, k) :: s.fqHeap,
           fqCounter := s.fqCounter + 1 }

/-- `QueueInner::remove`: the stream (and with it the read half) is dropped -/
def fqRemove (ps : Pipes) (s : Socket) (k : Ident) : Pipes × Socket :=
  match ilookup s.fqStreams k with
  | some rd => (dropR ps rd.pipe, { s with fqStreams := ierase s.fqStreams k })
  | none => (ps, s)

/-- `peer_disconnected`, per backend, as coded -/
def peerDisconnected (ps : Pipes) (s : Socket) (k : Ident) : Pipes × Socket :=
  let ps := match ilookup s.peers k with
    | some wr => dropW ps wr.pipe
    | none => ps
  let s := { s with peers := ierase s.peers k }
  match s.typ with
  | .req =>
    match ilookup s.reqRd k with
    | some rd => (dropR ps rd.pipe, { s with reqRd := ierase s.reqRd k })
    | none => (ps, s)
  | .pub =>
    -- the subscriber entry owns the stop channel: its reader task ends at the next drain
    (ps, { s with subsOf := ierase s.subsOf k,
                  readers := s.readers.map (fun e => if e.2.1 == k then (e.1, e.2.1, e.2.2.1, false) else e) })
  | .xpub => let (ps, s) := fqRemove ps s k; (ps, { s with subsOf := ierase s.subsOf k })
  | .push => (ps, s)
  | _ => fqRemove ps s k

inductive FqRes
  | pending
  | got (k : Ident) (r : ReadRes)     -- `Ready(Some((k, res)))`: an item or an error
deriving Repr

/-- `FairQueue::poll_next` (`block_on_no_clients = true`).

Since fix D17 the real loop YIELDS (wakes its caller, returns `Pending`) when the next event
belongs to a stream that already returned `Pending` in this call, instead of polling that stream
again; the caller is then polled again at once.  In this engine a poll is one uninterrupted step
(no byte arrives inside it) and the harness re-polls a future that woke itself, so "yield and be
re-polled" and "go on in the same call" are observationally the same here: the model goes on.
The yield itself — the waker, the bound on sections per call — is the subject of `Model.FairQueue`
and of the `fq` engine, where it is modelled exactly. -/
def fqPoll : Nat → Pipes → Nat → Socket → FqRes × Pipes × Socket
  | 0, ps, _, s => (.pending, ps, s)
  | fuel+1, ps, sid, s =>
    match popMinE s.fqHeap with
    | none => (.pending, ps, s)
    | some ((t, k), rest) =>
      let s := { s with fqHeap := rest }
      match ilookup s.fqStreams k with
      | none => fqPoll fuel ps sid s                       -- stale event
      | some rd =>
        let s := { s with fqStreams := ierase s.fqStreams k }
        let (r, ps, rd) := readerPoll (readFuel ps rd) ps rd (.fq sid t k)
        match r with
        | .pending => fqPoll fuel ps sid { s with fqStreams := s.fqStreams ++ [(k, rd)] }
        | .eof =>
          -- peer gone: the stream is not put back, and the queue's owner is told
          -- (`on_stream_end` → the backend's `peer_disconnected`): the peer is forgotten
          let (ps, s) := peerDisconnected (dropR ps rd.pipe) s k
          fqPoll fuel ps sid s
        | res =>
          (.got k res, ps, { s with fqHeap := (s.fqCounter, k) :: s.fqHeap, fqCounter := s.fqCounter + 1,
                                    fqStreams := s.fqStreams ++ [(k, rd)] })

/-- registration at the end of a successful handshake (`MultiPeerBackend::peer_connected`),
after SUB has re-announced its subscriptions -/
def register (ps : Pipes) (s : Socket) (k : Ident) (rd : Rd) (wr : Wr) : Pipes × Socket :=
  -- `upsert`: an existing entry with the same identity is replaced (its write half dropped)
  let ps := match ilookup s.peers k with
    | some old => dropW ps old.pipe
    | none => ps
  let s := { s with peers := iinsert s.peers k wr }
  match s.typ with
  | .req =>
    let ps := match ilookup s.reqRd k with
      | some old => dropR ps old.pipe
      | none => ps
    (ps, { s with reqRd := iinsert s.reqRd k rd, rr := s.rr ++ [k] })
  | .rep =>
    let ps := match ilookup s.fqStreams k with
      | some old => dropR ps old.pipe
      | none => ps
    (ps, fqInsert s k rd)
  | .pub =>
    -- a replaced subscriber entry drops its stop channel: the old reader task ends at the next drain
    (ps, { s with subsOf := iinsert s.subsOf k [],
                  readers := s.readers.map (fun e => if e.2.1 == k then (e.1, e.2.1, e.2.2.1, false) else e)
                    ++ [(s.readerSeq, k, rd, true)],
                  readerSeq := s.readerSeq + 1 })
  | .xpub =>
    let ps := match ilookup s.fqStreams k with
      | some old => dropR ps old.pipe
      | none => ps
    (ps, fqInsert { s with subsOf := iinsert s.subsOf k [] } k rd)
  | .push => (dropR ps rd.pipe, { s with rr := s.rr ++ [k] })      -- no fair queue: the read half is dropped
  | _ =>
    let ps := match ilookup s.fqStreams k with
      | some old => dropR ps old.pipe
      | none => ps
    (ps, fqInsert { s with rr := s.rr ++ [k] } k rd)

/-! ### handshake (`util::peer_connected`) -/

inductive AStage
  | sendGreeting (st : SendSt)
  | readGreeting
  | sendReady (st : SendSt)
  | readReady
  | resub (ident : Ident) (todo : List Bytes) (st : Option SendSt)    -- SUB re-announces its set
deriving Repr

/-- result of a user future, as the harness prints it -/
abbrev Res := String

def errS (e : Err) : String :=
  match e with
  | .command => "Codec.Command" | .greeting => "Codec.Greeting" | .mechanism => "Codec.Mechanism"
  | .decode => "Codec.Decode" | .io => "Codec.Io" | .codecOther => "Codec.Other"
  | .other => "Other" | .unsupportedVersion => "UnsupportedVersion" | .peerIdentity => "PeerIdentity"
  | .noMessage => "NoMessage" | .returnToSender => "ReturnToSender" | .bufferFull => "BufferFull"
  | .network => "Network"

def propLookup (ps : Props) (k : Bytes) : Option Bytes :=
  -- a `HashMap`: the last occurrence of a key wins
  (ps.reverse.find? (·.1 == k)).map (·.2)

/-- `ready_exchange` on the peer's READY: the identity under which it is admitted, or the error.
`fresh` is the next auto-assigned identity. -/
def admitPeer (localT : SockType) (props : Props) (fresh : Nat) : Except Err (Ident × Nat) :=
  match propLookup props kSocketType with
  | none => .error .other
  | some tn =>
    match SockType.parse tn with
    | none => .error .other
    | some other =>
      let ident : Except Err (Ident × Nat) :=
        match propLookup props kIdentity with
        | none => .ok (autoId fresh, fresh + 1)
        | some i =>
          if i.isEmpty then .ok (autoId fresh, fresh + 1)
          else if i.length > 255 then .error .peerIdentity
          else .ok (i, fresh)
      match ident with
      | .error e => .error e
      | .ok r =>
        match compatible localT other with
        | some true => .ok r
        | some false => .error .other
        | none => .error .other     -- the real call panicked (C03/C04 obligations forbid it)

inductive FutSt
  | attach (sock pipe : Nat) (stage : AStage) (rd : Rd) (wr : Wr)
  | recv (sock : Nat)
  | reqRecv (sock : Nat)
  /-- round-robin send (PUSH / DEALER): message, and the peer being written to -/
  | sendRR (sock : Nat) (m : Msg) (cur : Option (Ident × SendSt))
  /-- REQ / REP / ROUTER: target chosen, writing -/
  | sendTo (sock : Nat) (k : Ident) (st : SendSt) (setCurrent : Bool)
  | reqSend (sock : Nat) (m : Msg)
  | repSend (sock : Nat) (m : Msg)
  | routerSend (sock : Nat) (m : Msg)
  | pubSend (sock : Nat) (m : Msg)
  | subOp (sock : Nat) (isSub : Bool) (topic : Bytes) (started : Bool) (todo : List Ident)
      (cur : Option (Ident × SendSt)) (failed : Bool)
  | close (sock : Nat)
  /-- `proxy(front, back, capture)`: `phase` 0 = in `select!`, 1 = writing the copy to the capture
  socket, 2 = forwarding; `fromFront`/`m` = the message in hand; `sub` = the send in progress -/
  | proxy (front back : Nat) (cap : Option Nat) (phase : Nat) (fromFront : Bool) (m : Msg) (sub : FutSt)
  | fail (r : Res)
  | done
deriving Repr

structure World where
  pipes : Pipes := []
  socks : List (Nat × Socket) := []
  futs : List (Nat × FutSt) := []
  fresh : Nat := 0
deriving Repr

def getSock (w : World) (k : Nat) : Option Socket := lookup w.socks k
def setSock (w : World) (k : Nat) (s : Socket) : World := { w with socks := insert w.socks k s }

/-- value of a user future -/
inductive Val
  | okUnit
  | okMsg (m : Msg)
  | okId (i : Ident)
  | okErrs (n : Nat)
  | err (e : Err)
  | errReturn (m : Msg)
  | panic
deriving Repr

inductive POut
  | pending
  | ready (v : Val)
deriving Repr

/-- run one poll of the handshake future -/
def attachPoll : Nat → World → Nat → Nat → AStage → Rd → Wr → World × FutSt × POut
  | 0, w, sid, pid, st, rd, wr => (w, .attach sid pid st rd wr, .pending)
  | fuel+1, w, sid, pid, stage, rd, wr =>
    let failWith (w : World) (e : Err) : World × FutSt × POut :=
      -- the `FramedIo` is dropped with the future's locals: both halves are released
      ({ w with pipes := dropW (dropR w.pipes rd.pipe) wr.pipe }, .done, .ready (.err e))
    match getSock w sid with
    | none => failWith w .other
    | some s =>
    match stage with
    | .sendGreeting st =>
      let (ps, wr, st, r) := wrSendPoll w.pipes wr st
      let w := { w with pipes := ps }
      match r with
      | .pending => (w, .attach sid pid (.sendGreeting st) rd wr, .pending)
      | .error => failWith w .io
      | .done => attachPoll fuel w sid pid .readGreeting rd wr
    | .readGreeting =>
      let (r, ps, rd) := readerPoll (readFuel w.pipes rd) w.pipes rd .user
      let w := { w with pipes := ps }
      match r with
      | .pending => (w, .attach sid pid .readGreeting rd wr, .pending)
      | .eof => failWith w .other
      | .err e => failWith w e
      | .item (.greeting g) =>
        -- `negotiate_version`: peer.version >= (3, 0), lexicographically
        if g.major.toNat > 3 ∨ (g.major.toNat = 3 ∧ g.minor.toNat ≥ 0) then
          let enc := encodeReady s.typ s.ident false
          attachPoll fuel w sid pid (.sendReady (.feeding enc)) rd wr
        else failWith w .unsupportedVersion
      | .item _ => failWith w .other
    | .sendReady st =>
      let (ps, wr, st, r) := wrSendPoll w.pipes wr st
      let w := { w with pipes := ps }
      match r with
      | .pending => (w, .attach sid pid (.sendReady st) rd wr, .pending)
      | .error => failWith w .io
      | .done => attachPoll fuel w sid pid .readReady rd wr
    | .readReady =>
      let (r, ps, rd) := readerPoll (readFuel w.pipes rd) w.pipes rd .user
      let w := { w with pipes := ps }
      match r with
      | .pending => (w, .attach sid pid .readReady rd wr, .pending)
      | .eof => failWith w .other
      | .err e => failWith w e
      | .item (.command props) =>
        match admitPeer s.typ props w.fresh with
        | .error e => failWith w e
        | .ok (ident, fresh') =>
          let w := { w with fresh := fresh' }
          if s.typ = .sub then attachPoll fuel w sid pid (.resub ident s.subs none) rd wr
          else if s.dead then
            -- the backend dies with this future: what it registered is released at once
            ({ w with pipes := dropW (dropR w.pipes rd.pipe) wr.pipe }, .done, .ready (.okId ident))
          else
            let (ps, s) := register w.pipes s ident rd wr
            (setSock { w with pipes := ps } sid s, .done, .ready (.okId ident))
      | .item _ => failWith w .other
    | .resub ident todo cur =>
      match cur with
      | some st =>
        let (ps, wr, st, r) := wrSendPoll w.pipes wr st
        let w := { w with pipes := ps }
        match r with
        | .pending => (w, .attach sid pid (.resub ident todo (some st)) rd wr, .pending)
        | .error =>
          -- the connection failed before it could be told the subscriptions: dropped, not registered
          ({ w with pipes := dropW (dropR w.pipes rd.pipe) wr.pipe }, .done, .ready (.okId ident))
        | .done => attachPoll fuel w sid pid (.resub ident todo none) rd wr
      | none =>
        match todo with
        | t :: rest =>
          attachPoll fuel w sid pid (.resub ident rest (some (.feeding (encodeMsg (subsMsg true t))))) rd wr
        | [] =>
          if s.dead then
            ({ w with pipes := dropW (dropR w.pipes rd.pipe) wr.pipe }, .done, .ready (.okId ident))
          else
            let (ps, s) := register w.pipes s ident rd wr
            (setSock { w with pipes := ps } sid s, .done, .ready (.okId ident))

/-- `recv` of the fair-queue sockets: one poll -/
def recvPoll : Nat → World → Nat → World × POut
  | 0, w, _ => (w, .pending)
  | fuel+1, w, sid =>
    match getSock w sid with
    | none => (w, .ready (.err .other))
    | some s =>
      let (r, ps, s) := fqPoll (s.fqHeap.length + 2) w.pipes sid s
      let w := setSock { w with pipes := ps } sid s
      match r with
      | .pending => (w, .pending)
      | .got k (.item (.message m)) =>
        match s.typ with
        | .router => (w, .ready (.okMsg (routerIn k m)))
        | .rep =>
          match repSplit m with
          | none => (w, .ready (.err .other))
          | some (env, data) =>
            (setSock w sid { s with envelope := some env, current := some k }, .ready (.okMsg data))
        | .xpub =>
          let subs := (ilookup s.subsOf k).getD []
          let s := if (ilookup s.subsOf k).isSome then { s with subsOf := iinsert s.subsOf k (onMsg subs m) } else s
          (setSock w sid s, .ready (.okMsg m))
        | _ => (w, .ready (.okMsg m))
      | .got _ (.item _) => recvPoll fuel w sid          -- greeting / command items are ignored
      | .got k (.err e) =>
        let (ps, s) := peerDisconnected w.pipes s k
        let w := setSock { w with pipes := ps } sid s
        if s.typ = .router then recvPoll fuel w sid      -- ROUTER swallows the error and goes on
        else (w, .ready (.err e))
      | .got _ _ => (w, .pending)

/-- enough fuel for one poll of `recv`: every ignored item (command, greeting) consumes at least
two buffered bytes of some stream, every swallowed error removes a stream — the loop cannot turn
more often than there are bytes waiting (a flood of commands in one read is consumed in ONE poll) -/
def recvFuel (w : World) (sid : Nat) : Nat :=
  match getSock w sid with
  | none => 1
  | some s =>
    64 + s.fqStreams.length +
      (s.fqStreams.map (fun e => e.2.buf.length + (getPipe w.pipes e.2.pipe).inbuf.length)).sum

/-! ### REQ `recv` -/

def reqRecvPoll (w : World) (sid : Nat) : World × POut :=
  match getSock w sid with
  | none => (w, .ready (.err .other))
  | some s =>
    match s.current with
    | none => (w, .ready (.err .other))                       -- no request in progress
    | some k =>
      match ilookup s.reqRd k with
      | none => (setSock w sid { s with current := none }, .ready (.err .other))    -- "Server disconnected"
      | some rd =>
        let (r, ps, rd) := readerPoll (readFuel w.pipes rd) w.pipes rd .user
        let s := { s with reqRd := iinsert s.reqRd k rd }
        let w := { w with pipes := ps }
        match r with
        | .pending => (setSock w sid s, .pending)            -- the marker stays: the recv is still owed
        | res =>
          let w := setSock w sid { s with current := none }
          match res with
          | .item (.message m) =>
            match reqUnwrap m with
            | some r => (w, .ready (.okMsg r))
            | none => (w, .ready (.err .other))
          | .item _ => (w, .ready (.err .other))              -- "Received non-message frame"
          | .err e =>
            -- the connection has failed: the peer is forgotten (both halves released)
            let (ps, s') := peerDisconnected w.pipes { s with current := none } k
            (setSock { w with pipes := ps } sid s', .ready (.err e))
          | _ =>
            -- … or ended
            let (ps, s') := peerDisconnected w.pipes { s with current := none } k
            (setSock { w with pipes := ps } sid s', .ready (.err .noMessage))

/-! ### sends -/

/-- writing to a chosen peer (REQ / REP / ROUTER): `peer.send_queue.send(msg).await?` -/
def sendToPoll (w : World) (sid : Nat) (k : Ident) (st : SendSt) (setCurrent : Bool) :
    World × FutSt × POut :=
  match getSock w sid with
  | none => (w, .done, .ready (.err .other))
  | some s =>
    match ilookup s.peers k with
    | none => (w, .done, .ready (.err .other))
    | some wr =>
      let (ps, wr, st, r) := wrSendPoll w.pipes wr st
      let s := { s with peers := iinsert s.peers k wr }
      let w := { w with pipes := ps }
      match r with
      | .pending => (setSock w sid s, .sendTo sid k st setCurrent, .pending)
      | .error =>
        -- the connection has failed: the peer is forgotten, as in the round-robin senders
        let (ps, s') := peerDisconnected w.pipes s k
        (setSock { w with pipes := ps } sid s', .done, .ready (.err .io))
      | .done =>
        let s := if setCurrent then { s with current := some k } else s
        (setSock w sid s, .done, .ready .okUnit)

/-- `ReqSocket::send`, first poll -/
def reqSendStart : Nat → World → Nat → Msg → World × FutSt × POut
  | 0, w, _, _ => (w, .done, .ready (.err .other))
  | fuel+1, w, sid, m =>
    match getSock w sid with
    | none => (w, .done, .ready (.err .other))
    | some s =>
      if s.current.isSome then (w, .done, .ready (.errReturn m))
      else match s.rr with
        | [] => (w, .done, .ready (.errReturn m))
        | k :: rest =>
          if (ilookup s.peers k).isSome then
            let w := setSock w sid { s with rr := rest ++ [k] }          -- pushed back BEFORE writing
            sendToPoll w sid k (.feeding (encodeMsg (reqWrap m))) true
          else reqSendStart fuel (setSock w sid { s with rr := rest }) sid m

/-- `RepSocket::send`, first poll -/
def repSendStart (w : World) (sid : Nat) (m : Msg) : World × FutSt × POut :=
  match getSock w sid with
  | none => (w, .done, .ready (.err .other))
  | some s =>
    match s.current with
    | none => (w, .done, .ready (.errReturn m))
    | some k =>
      let s := { s with current := none }
      if (ilookup s.peers k).isSome then
        let env := s.envelope.getD []
        let w := setSock w sid { s with envelope := none }
        sendToPoll w sid k (.feeding (encodeMsg (repReply env m))) false
      else (setSock w sid s, .done, .ready (.errReturn m))

/-- `RouterSocket::send`, first poll -/
def routerSendStart (w : World) (sid : Nat) (m : Msg) : World × FutSt × POut :=
  if m.length ≤ 1 then (w, .done, .ready (.err .other))   -- an error since fix D19 (was `assert!(message.len() > 1)`)
  else match routerOut m with
    | none => (w, .done, .ready .panic)
    | some (t, rest) =>
      if t.isEmpty then (w, .done, .ready (.err .other))   -- empty → a fresh random identity → not found
      else if t.length > 255 then (w, .done, .ready (.err .peerIdentity))
      else match getSock w sid with
        | none => (w, .done, .ready (.err .other))
        | some s =>
          if (ilookup s.peers t).isSome then sendToPoll w sid t (.feeding (encodeMsg rest)) false
          else (w, .done, .ready (.err .other))

/-- `send_round_robin` (PUSH / DEALER) -/
def sendRRPoll : Nat → World → Nat → Msg → Option (Ident × SendSt) → World × FutSt × POut
  | 0, w, _, _, _ => (w, .done, .ready (.err .other))
  | fuel+1, w, sid, m, cur =>
    match getSock w sid with
    | none => (w, .done, .ready (.err .other))
    | some s =>
      match cur with
      | none =>
        match s.rr with
        | [] => (w, .done, .ready (.errReturn m))
        | k :: rest =>
          let w := setSock w sid { s with rr := rest }
          if (ilookup s.peers k).isSome then sendRRPoll fuel w sid m (some (k, .feeding (encodeMsg m)))
          else sendRRPoll fuel w sid m none                 -- a vanished peer is skipped
      | some (k, st) =>
        match ilookup s.peers k with
        | none => (w, .done, .ready (.err .other))
        | some wr =>
          let (ps, wr, st, r) := wrSendPoll w.pipes wr st
          let s := { s with peers := iinsert s.peers k wr }
          let w := { w with pipes := ps }
          match r with
          | .pending => (setSock w sid s, .sendRR sid m (some (k, st)), .pending)
          | .done => (setSock w sid { s with rr := s.rr ++ [k] }, .done, .ready .okUnit)
          | .error =>
            let (ps, s) := peerDisconnected w.pipes s k
            (setSock { w with pipes := ps } sid s, .done, .ready (.err .io))

/-- `PubSocket::send` / `XPubSocket::send`: never waits -/
def pubSend (w : World) (sid : Nat) (m : Msg) : World × POut :=
  match getSock w sid with
  | none => (w, .ready (.err .other))
  | some s =>
    let topic := m.headD []
    let enc := encodeMsg m
    let (ps, peers, dead) := s.peers.foldl (fun (acc : Pipes × List (Ident × Wr) × List Ident) e =>
      let (ps, peers, dead) := acc
      let subs := (ilookup s.subsOf e.1).getD []
      if hit subs topic then
        let (ps, wr, r) := wrTrySend ps e.2 enc
        let dead := match r with
          | .ioError => if (getPipe ps wr.pipe).wrBroken then dead ++ [e.1] else dead
          | _ => dead
        (ps, peers ++ [(e.1, wr)], dead)
      else (ps, peers ++ [e], dead)) (w.pipes, [], [])
    let s := { s with peers := peers }
    let (ps, s) := dead.foldl (fun (acc : Pipes × Socket) k => peerDisconnected acc.1 acc.2 k) (ps, s)
    (setSock { w with pipes := ps } sid s, .ready .okUnit)

/-- `SubSocket::subscribe` / `unsubscribe` -/
def subOpPoll : Nat → World → Nat → Bool → Bytes → Bool → List Ident → Option (Ident × SendSt) → Bool →
    World × FutSt × POut
  | 0, w, _, _, _, _, _, _, _ => (w, .done, .ready (.err .other))
  | fuel+1, w, sid, isSub, topic, started, todo, cur, failed =>
    match getSock w sid with
    | none => (w, .done, .ready (.err .other))
    | some s =>
      if !started then
        let (subs, changed) := if isSub then subAdd s.subs topic else subDel s.subs topic
        let w := setSock w sid { s with subs := subs }
        if changed then subOpPoll fuel w sid isSub topic true (s.peers.map (·.1)) none false
        else (w, .done, .ready .okUnit)
      else match cur with
        | some (k, st) =>
          match ilookup s.peers k with
          | none => subOpPoll fuel w sid isSub topic true todo none failed
          | some wr =>
            let (ps, wr, st, r) := wrSendPoll w.pipes wr st
            let w := setSock { w with pipes := ps } sid { s with peers := iinsert s.peers k wr }
            match r with
            | .pending => (w, .subOp sid isSub topic true todo (some (k, st)) failed, .pending)
            | .done => subOpPoll fuel w sid isSub topic true todo none failed
            | .error => subOpPoll fuel w sid isSub topic true todo none true     -- go on with the others
        | none =>
          match todo with
          | k :: rest =>
            subOpPoll fuel w sid isSub topic true rest (some (k, .feeding (encodeMsg (subsMsg isSub topic)))) failed
          | [] => (w, .done, .ready (if failed then .err .io else .okUnit))

/-! ### dropping a socket, draining spawned tasks, pipe events -/

/-- `Drop` (= `backend.shutdown()` + dropping the fair queue, which releases its streams) -/
def dropSocket (w : World) (sid : Nat) : World :=
  match getSock w sid with
  | none => w
  | some s =>
    let ps := s.peers.foldl (fun ps e => dropW ps e.2.pipe) w.pipes
    let ps := s.fqStreams.foldl (fun ps e => dropR ps e.2.pipe) ps
    let ps := s.reqRd.foldl (fun ps e => dropR ps e.2.pipe) ps
    let s := { s with peers := [], fqStreams := [], reqRd := [], subsOf := [], dead := true,
                      readers := s.readers.map (fun e => (e.1, e.2.1, e.2.2.1, false)) }
    setSock { w with pipes := ps } sid s

/-- run one PUB reader task until it is `Pending` or ends -/
def readerTask : Nat → Pipes → Socket → Ident → Rd → Pipes × Socket × Option Rd
  | 0, ps, s, _, rd => (ps, s, some rd)
  | fuel+1, ps, s, k, rd =>
    let (r, ps, rd) := readerPoll (readFuel ps rd) ps rd .user
    match r with
    | .pending => (ps, s, some rd)
    | .item (.message m) =>
      let s := match ilookup s.subsOf k with
        | some subs => { s with subsOf := iinsert s.subsOf k (onMsg subs m) }
        | none => s
      readerTask fuel ps s k rd
    | .item _ => readerTask fuel ps s k rd
    | _ =>
      let (ps, s) := peerDisconnected ps s k
      (dropR ps rd.pipe, s, none)

/-- let every spawned task run to quiescence -/
def drainSock (ps : Pipes) (s : Socket) : Pipes × Socket :=
  let (ps, s) := s.readers.foldl (fun (acc : Pipes × Socket) e =>
    let (ps, s) := acc
    let (seq, k, _, _) := e
    -- state of this task NOW (an earlier task of the same drain may have stopped it)
    match s.readers.find? (·.1 == seq) with
    | none => (ps, s)
    | some (_, _, rd, alive) =>
      if !alive then (dropR ps rd.pipe, { s with readers := s.readers.filter (·.1 != seq) })
      else
        let (ps, s, r) := readerTask (((getPipe ps rd.pipe).inbuf.length + rd.buf.length) + 4) ps s k rd
        match r with
        | some rd => (ps, { s with readers := s.readers.map (fun x => if x.1 == seq then (seq, k, rd, x.2.2.2) else x) })
        | none => (ps, { s with readers := s.readers.filter (·.1 != seq) })) (ps, s)
  (ps, s)

def drain (w : World) : World :=
  w.socks.foldl (fun w e =>
    match getSock w e.1 with
    | some s => let (ps, s) := drainSock w.pipes s; setSock { w with pipes := ps } e.1 s
    | none => w) w

/-- readiness change on the read side of pipe `k`: the armed waker fires and is consumed -/
def fireRead (w : World) (k : Nat) : World :=
  let p := getPipe w.pipes k
  let w := { w with pipes := setPipe w.pipes k { p with rwaker := none } }
  match p.rwaker with
  | some (.fq sid t key) =>
    match getSock w sid with
    | some s => setSock w sid { s with fqHeap := (t, key) :: s.fqHeap }
    | none => w
  | _ => w

def reveal (w : World) (k : Nat) (b : Bytes) : World :=
  let p := getPipe w.pipes k
  fireRead { w with pipes := setPipe w.pipes k { p with inbuf := p.inbuf ++ b } } k

def setEof (w : World) (k : Nat) : World :=
  let p := getPipe w.pipes k
  fireRead { w with pipes := setPipe w.pipes k { p with eof := true } } k

def setRdErr (w : World) (k : Nat) : World :=
  let p := getPipe w.pipes k
  fireRead { w with pipes := setPipe w.pipes k { p with rderr := true } } k

def setCredit (w : World) (k : Nat) (c : Option Nat) : World :=
  let p := getPipe w.pipes k
  { w with pipes := setPipe w.pipes k { p with w := { p.w with credit := c } } }

def setWrErr (w : World) (k : Nat) (broken : Bool) : World :=
  let p := getPipe w.pipes k
  { w with pipes := setPipe w.pipes k { p with w := { p.w with wrerr := true }, wrBroken := broken } }

/-- a TRANSIENT write error: the next write on the pipe fails (with `BrokenPipe` iff `broken`), later ones succeed -/
def setWrErrOnce (w : World) (k : Nat) (broken : Bool) : World :=
  let p := getPipe w.pipes k
  { w with pipes := setPipe w.pipes k { p with w := { p.w with wrerr := true, once := true }, wrBroken := broken } }

/-- bytes written since the last look -/
def takeWire (w : World) (k : Nat) : World × Bytes :=
  let p := getPipe w.pipes k
  ({ w with pipes := setPipe w.pipes k { p with seen := p.w.wire.length } }, p.w.wire.drop p.seen)

/-! ### one poll of a user future -/

def pollFut (w : World) (f : FutSt) : World × FutSt × POut :=
  match f with
  | .attach sid pid st rd wr => attachPoll 64 w sid pid st rd wr
  | .recv sid => let (w, o) := recvPoll (recvFuel w sid) w sid; (w, (match o with | .pending => .recv sid | _ => .done), o)
  | .reqRecv sid => let (w, o) := reqRecvPoll w sid; (w, (match o with | .pending => .reqRecv sid | _ => .done), o)
  | .sendRR sid m cur => sendRRPoll 64 w sid m cur
  | .sendTo sid k st sc => sendToPoll w sid k st sc
  | .reqSend sid m => reqSendStart 64 w sid m
  | .repSend sid m => repSendStart w sid m
  | .routerSend sid m => routerSendStart w sid m
  | .pubSend sid m => let (w, o) := pubSend w sid m; (w, .done, o)
  | .subOp sid isSub topic started todo cur failed => subOpPoll 64 w sid isSub topic started todo cur failed
  | .close sid => (dropSocket w sid, .done, .ready (.okErrs 0))
  | .proxy _ _ _ _ _ _ _ => (w, .done, .ready (.err .other))     -- handled by `pollAny`
  | .fail _ => (w, .done, .ready (.err .other))
  | .done => (w, .done, .pending)

/-! ### `proxy()` (`src/lib.rs`) -/

/-- the future a `send(m)` on socket `sid` starts as -/
def sendStartFut (w : World) (sid : Nat) (m : Msg) : FutSt :=
  match getSock w sid with
  | none => .fail "no-sock"
  | some s =>
    match s.typ with
    | .pub | .xpub => .pubSend sid m
    | .req => .reqSend sid m
    | .rep => .repSend sid m
    | .router => .routerSend sid m
    | .dealer | .push => .sendRR sid m none
    | _ => .fail "no-send"

/-- the proxy returned (with an error): it owned the sockets, which are dropped with it -/
def proxyEnd (w : World) (a b : Nat) (c : Option Nat) : World :=
  let w := dropSocket (dropSocket w a) b
  match c with
  | some k => dropSocket w k
  | none => w

/-- one poll of the proxy future.  `select!` starts with a pseudo-randomly chosen branch; the
model always tries the frontend first — when no send blocks, every ready message of both
sides has been forwarded by the time the poll returns `Pending`, in either order. -/
def proxyPoll : Nat → World → Nat → Nat → Option Nat → Nat → Bool → Msg → FutSt → World × FutSt × POut
  | 0, w, a, b, c, ph, ff, m, sub => (w, .proxy a b c ph ff m sub, .pending)
  | fuel+1, w, a, b, c, ph, ff, m, sub =>
    if ph = 0 then
      -- select! { frontend.recv(), backend.recv() }
      let (w, o) := recvPoll (recvFuel w a) w a
      match o with
      | .ready (.okMsg msg) =>
        match c with
        | some k => proxyPoll fuel w a b c 1 true msg (sendStartFut w k msg)
        | none => proxyPoll fuel w a b c 2 true msg (sendStartFut w b msg)
      | .ready v => (proxyEnd w a b c, .done, .ready v)
      | .pending =>
        let (w, o) := recvPoll (recvFuel w b) w b
        match o with
        | .ready (.okMsg msg) =>
          match c with
          | some k => proxyPoll fuel w a b c 1 false msg (sendStartFut w k msg)
          | none => proxyPoll fuel w a b c 2 false msg (sendStartFut w a msg)
        | .ready v => (proxyEnd w a b c, .done, .ready v)
        | .pending => (w, .proxy a b c 0 ff m sub, .pending)
    else
      let (w, sub', o) := pollFut w sub
      match o with
      | .pending => (w, .proxy a b c ph ff m sub', .pending)
      | .ready .okUnit =>
        if ph = 1 then proxyPoll fuel w a b c 2 ff m (sendStartFut w (if ff then b else a) m)
        else proxyPoll fuel w a b c 0 ff [] .done
      | .ready v => (proxyEnd w a b c, .done, .ready v)

/-- one poll of any user future -/
def pollAny (w : World) (f : FutSt) : World × FutSt × POut :=
  match f with
  | .proxy a b c ph ff m sub => proxyPoll 64 w a b c ph ff m sub
  | f => pollFut w f

end Zmq.W
