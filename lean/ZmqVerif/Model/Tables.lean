import ZmqVerif.Model.Wire
import ZmqVerif.Gen.Tables
/-! Accessors over the REGENERATED tables (`Gen.Tables`, dumped from the real code on every run). -/
namespace Zmq

/-- `SocketType::compatible(a, b)` as observed on the real code; `none` = the call panicked
or the pair is missing from the dump -/
def compatAt (a b : Nat) : Option Bool :=
  match Gen.compat.find? (fun e => e.1 == a && e.2.1 == b) with
  | some e => e.2.2
  | none => none

def compatible (a b : SockType) : Option Bool := compatAt a.toNat b.toNat

end Zmq
