import ZmqVerif.Model.Wire
/-!
# L3 — the write side of a connection

`FramedWrite2` of asynchronous-codec 0.7 (buffer + high-water mark), `SinkExt::send`
(= `feed` then `flush`, resumable across polls) and the crate's `TrySend::try_send`
(`src/codec/mod.rs`), over a pipe that accepts bytes by *credit*:
`credit = none` accepts everything, `some n` accepts `n` more bytes and then returns
`Pending`; `wrerr` makes every write fail.
-/
namespace Zmq

/-- `DEFAULT_SEND_HIGH_WATER_MARK` of asynchronous-codec (2^17) -/
def hwmDefault : Nat := 131072

/-- the write half of a scripted pipe -/
structure WPipe where
  wire : Bytes := []
  credit : Option Nat := none
  wrerr : Bool := false
  /-- the write error is TRANSIENT (`Interrupted`, `TimedOut` … once): the write that reports it clears it -/
  once : Bool := false
deriving Repr, DecidableEq

/-- the pipe after a write has reported its error -/
def WPipe.afterErr (p : WPipe) : WPipe := if p.once then { p with wrerr := false, once := false } else p

@[simp] theorem WPipe.afterErr_wire (p : WPipe) : p.afterErr.wire = p.wire := by
  unfold WPipe.afterErr; split <;> rfl
@[simp] theorem WPipe.afterErr_credit (p : WPipe) : p.afterErr.credit = p.credit := by
  unfold WPipe.afterErr; split <;> rfl

inductive IoRes | done | pending | error
deriving Repr, DecidableEq

/-- offer the whole buffer to `poll_write` until it is empty, the pipe stalls or fails
(the loop of `poll_flush`) -/
def flushBuf (p : WPipe) (buf : Bytes) : WPipe × Bytes × IoRes :=
  if buf.isEmpty then (p, buf, .done)
  else if p.wrerr then (p.afterErr, buf, .error)
  else match p.credit with
    | none => ({ p with wire := p.wire ++ buf }, [], .done)
    | some c =>
      let n := min c buf.length
      let p' := { p with wire := p.wire ++ buf.take n, credit := some (c - n) }
      if n = buf.length then (p', [], .done) else (p', buf.drop n, .pending)

/-- `poll_ready`: write while the buffer is at or above the high-water mark -/
def pollReady (hwm : Nat) (p : WPipe) (buf : Bytes) : WPipe × Bytes × IoRes :=
  if buf.length < hwm then (p, buf, .done)
  else if p.wrerr then (p.afterErr, buf, .error)
  else match p.credit with
    | none => ({ p with wire := p.wire ++ buf }, [], .done)
    | some c =>
      let n := min c buf.length
      let p' := { p with wire := p.wire ++ buf.take n, credit := some (c - n) }
      let rest := buf.drop n
      if rest.length < hwm then (p', rest, .done) else (p', rest, .pending)

inductive TrySendRes | ok | bufferFull | ioError
deriving Repr, DecidableEq

/-- `TrySend::try_send`: `poll_ready` with a no-op waker; on `Pending` the message is dropped
(`BufferFull`); otherwise the WHOLE encoding is queued and a best-effort flush follows whose
result is ignored.  It never waits. -/
def trySend (hwm : Nat) (p : WPipe) (buf : Bytes) (enc : Bytes) : WPipe × Bytes × TrySendRes :=
  match pollReady hwm p buf with
  | (p1, b1, .pending) => (p1, b1, .bufferFull)
  | (p1, b1, .error) => (p1, b1, .ioError)
  | (p1, b1, .done) =>
    let (p2, b2, _) := flushBuf p1 (b1 ++ enc)
    (p2, b2, .ok)

/-- progress of a `SinkExt::send` future -/
inductive SendSt
  | feeding (enc : Bytes)     -- item not yet handed to `start_send`
  | flushing
deriving Repr, DecidableEq

/-- one poll of `SinkExt::send(item)` -/
def sendPoll (hwm : Nat) (p : WPipe) (buf : Bytes) (st : SendSt) : WPipe × Bytes × SendSt × IoRes :=
  match st with
  | .feeding enc =>
    match pollReady hwm p buf with
    | (p1, b1, .pending) => (p1, b1, .feeding enc, .pending)
    | (p1, b1, .error) => (p1, b1, .feeding enc, .error)
    | (p1, b1, .done) =>
      let (p2, b2, r) := flushBuf p1 (b1 ++ enc)
      (p2, b2, .flushing, r)
  | .flushing =>
    let (p2, b2, r) := flushBuf p buf
    (p2, b2, .flushing, r)

end Zmq
