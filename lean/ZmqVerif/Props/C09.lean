import ZmqVerif.Lemmas.WorldMaps
import ZmqVerif.Lemmas.WorldHist
import ZmqVerif.Lemmas.WorldSendStart
/-!
# C09 — ROUTER labels inbound messages with the true sender and routes by first frame

On the functions `Model.World` runs for `RouterSocket::send` (`routerSendStart`) and for the
ROUTER arm of `recv` (`routerIn` applied to the fair-queue key, which `register` set to the
identity admitted by the handshake).  Hypothesis kept explicit: identities of simultaneously
registered peers are distinct (two peers announcing the same identity replace each other —
outside the statement).
-/
namespace Zmq.C09
open Zmq Zmq.W

/-- Unknown target (no connected peer has that identity — including the identity of a peer that
has gone): the send fails and the WHOLE world (every wire) is unchanged. -/
theorem C09_unknown (w : World) (sid : Nat) (s : Socket) (t : Bytes) (m : Msg)
    (hs : getSock w sid = some s) (hm : m ≠ []) (hp : ilookup s.peers t = none) :
    routerSendStart w sid (t :: m) = (w, .done, .ready (.err .other)) ∨
    routerSendStart w sid (t :: m) = (w, .done, .ready (.err .peerIdentity)) := by
  unfold routerSendStart
  have hl : ¬ (t :: m).length ≤ 1 := by
    cases m with
    | nil => exact absurd rfl hm
    | cons a r => simp
  simp only [hl, ↓reduceIte, routerOut]
  by_cases h1 : t.isEmpty
  · left; simp [h1]
  · by_cases h2 : t.length > 255
    · right; simp [h1, h2]
    · left; simp [h1, h2, hs, hp]

/-- Known target: the message, minus its first frame, goes to exactly the peer whose identity
equals that frame — no pipe of the world other than that peer's connection (its write half
`wr.pipe`; and, when the write fails and the peer is forgotten, the read half the socket holds
for the same identity) is touched. -/
theorem C09_route_only (w : World) (sid : Nat) (s : Socket) (t : Bytes) (m : Msg) (wr : Wr)
    (hs : getSock w sid = some s) (hm : m ≠ []) (ht : t ≠ []) (hlen : t.length ≤ 255)
    (hp : ilookup s.peers t = some wr) (j : Nat) (hj : j ≠ wr.pipe)
    (hjr : ∀ rd, ilookup s.fqStreams t = some rd → j ≠ rd.pipe)
    (hjq : ∀ rd, ilookup s.reqRd t = some rd → j ≠ rd.pipe) :
    getPipe (routerSendStart w sid (t :: m)).1.pipes j = getPipe w.pipes j := by
  unfold routerSendStart
  have hl : ¬ (t :: m).length ≤ 1 := by
    cases m with
    | nil => exact absurd rfl hm
    | cons a r => simp
  have h1 : t.isEmpty = false := by cases t <;> simp_all
  have h2 : ¬ t.length > 255 := by omega
  simp only [hl, ↓reduceIte, routerOut, h1, Bool.false_eq_true, h2, hs, hp, Option.isSome_some]
  unfold sendToPoll
  simp only [hs, hp]
  have hframe := wrSendPoll_frame w.pipes wr (.feeding (encodeMsg m)) j hj
  have hpipe := wrSendPoll_pipe w.pipes wr (.feeding (encodeMsg m))
  generalize wrSendPoll w.pipes wr (.feeding (encodeMsg m)) = q at hframe hpipe
  obtain ⟨ps, wr', st', r⟩ := q
  simp only at hframe hpipe ⊢
  cases r with
  | pending => simp [setSock, hframe]
  | done => simp [setSock, hframe]
  | error =>
    simp only [setSock]
    refine Eq.trans (peerDisconnected_frame _ _ _ _ ?_ ?_ ?_) hframe
    · intro wr2 h2
      simp only [ilookup_iinsert_same] at h2
      injection h2 with h2; subst h2; rw [hpipe]; exact hj
    · exact hjr
    · exact hjq

/-- … and what is written there is exactly the encoding of the remaining frames (here: on a
connection that accepts every write and has nothing buffered — the general case is C10/C12's
sink law). -/
theorem C09_route_bytes (w : World) (sid : Nat) (s : Socket) (t : Bytes) (m : Msg) (wr : Wr)
    (hs : getSock w sid = some s) (hm : m ≠ []) (ht : t ≠ []) (hlen : t.length ≤ 255)
    (hp : ilookup s.peers t = some wr) (hbuf : wr.buf = [])
    (hcr : (getPipe w.pipes wr.pipe).w.credit = none) (herr : (getPipe w.pipes wr.pipe).w.wrerr = false) :
    (getPipe (routerSendStart w sid (t :: m)).1.pipes wr.pipe).w.wire
      = (getPipe w.pipes wr.pipe).w.wire ++ encodeMsg m ∧
    (routerSendStart w sid (t :: m)).2.2 = .ready .okUnit := by
  unfold routerSendStart
  have hl : ¬ (t :: m).length ≤ 1 := by
    cases m with
    | nil => exact absurd rfl hm
    | cons a r => simp
  have h1 : t.isEmpty = false := by cases t <;> simp_all
  have h2 : ¬ t.length > 255 := by omega
  simp only [hl, ↓reduceIte, routerOut, h1, Bool.false_eq_true, h2, hs, hp, Option.isSome_some]
  unfold sendToPoll
  simp only [hs, hp]
  have hne : (encodeMsg m).isEmpty = false := by
    cases m with
    | nil => exact absurd rfl hm
    | cons a r =>
      cases r with
      | nil => simp [encodeMsg, encodeFrame, frameHeader]; split <;> simp
      | cons b r' => simp [encodeMsg, encodeFrame, frameHeader]; split <;> simp
  simp only [wrSendPoll, sendPoll, hbuf, pollReady, hwmDefault, List.length_nil, Nat.zero_lt_succ,
    ↓reduceIte, List.nil_append, flushBuf, hne, Bool.false_eq_true, herr, hcr]
  simp [setSock, getPipe_setPipe_same]

/-- Label: the message ROUTER hands to the application is the received frames prefixed with
the key under which the stream that produced it is registered — nothing else is modified. -/
theorem C09_label (k : Ident) (m : Msg) : routerIn k m = k :: m ∧ (routerIn k m).tail = m := ⟨rfl, rfl⟩

/-- non-vacuity: a message of fewer than two frames is not routable (an error since fix D19; the code asserted before) -/
example (w : World) : (routerSendStart w 1 [[1]]).2.2 = .ready (.err .other) := rfl

/-- **`RouterSocket::send` against the wires**: a message of two or more frames goes — minus its first frame — to
EXACTLY the connected peer whose identity equals that frame; if no such peer is connected (or the frame cannot be an
identity) the send fails and NOTHING is written to any connection. -/
theorem C09_world_router_send (w : World) (sid : Nat) (t : Bytes) (rest : Msg) (hne : rest ≠ []) (s : Socket)
    (hs : getSock w sid = some s) (w' : World) (f' : FutSt) (o : POut)
    (h : routerSendStart w sid (t :: rest) = (w', f', o)) :
    match (generalizing := false) f', o with
    | .sendTo _ k st _, .pending =>
        k = t ∧ ∃ wr, ilookup s.peers t = some wr ∧
          SendInv w' sid t wr.pipe (outOf w.pipes wr) (encodeMsg rest) st ∧
          ∀ j, j ≠ wr.pipe → wOf w'.pipes j = wOf w.pipes j
    | _, .ready .okUnit =>
        ∃ wr, ilookup s.peers t = some wr ∧
          (wOf w'.pipes wr.pipe).wire = outOf w.pipes wr ++ encodeMsg rest ∧
          ∀ j, j ≠ wr.pipe → wOf w'.pipes j = wOf w.pipes j
    | _, .ready (.err _) => (ilookup s.peers t = none ∨ t = [] ∨ t.length > 255) → ∀ j, wOf w'.pipes j = wOf w.pipes j
    | _, _ => False :=
  routerSendStart_spec w sid t rest hne s hs w' f' o h


/-- **Every message a ROUTER hands to the application, over every history** of `recv` polls and arriving bytes: it is
labelled with the identity of the connection it was READ FROM — `log` pairs each consumed message `w` with the key `k` of
the connection whose byte stream it came out of (`C05_world_exactly_once`: those are exactly the messages of `k`'s
stream, in order) and with what `recv` returned: `k` as the first frame, then `w` unchanged; never an error. -/
theorem C09_world_label {ps0 : Pipes} {m0 : Streams} {ps : Pipes} {m : Streams}
    {taken : Ident → List Item} {rev : Nat → Bytes} {log : List (Ident × Msg × POut)}
    (h : RecvRun .router ps0 m0 ps m taken rev log) :
    ∀ e ∈ log, e.2.2 = .ready (.okMsg (e.1 :: e.2.1)) := by
  intro e he
  rcases h.log_spec e he with ⟨r, h1, h2⟩ | ⟨x, _, h2⟩
  · simp only [deliver, Option.some.injEq] at h2
    rw [h1, ← h2]; rfl
  · simp [deliver] at h2

end Zmq.C09
