import ZmqVerif.Lemmas.Endpoint
import ZmqVerif.Lemmas.IpLaws
import ZmqVerif.Lemmas.Ip6Laws
import ZmqVerif.Spec.EndpointGrammar
/-!
# C19 — endpoint parsing is total, strict, and round-trips through its text form

`parseEndpoint`/`display` mirror `Endpoint::from_str`/`Display` (`Model.Endpoint`), over
an abstract `IpModel` of `std::net`; `Laws` is exactly what is assumed of `std::net`.  For the
executable models of `Model.Ip` (which the correspondence check runs against the real `std`)
every law is PROVED (`Lemmas.IpLaws`, `Lemmas.Ip6Laws`), including both print/parse round trips:
`C19_roundtrip_std` has no hypothesis left.
-/
namespace Zmq.C19
open Zmq.Ep Zmq.Ip

/-- Round trip: for every endpoint obtained by parsing, formatting it and parsing the result
yields an equal endpoint (IPv6 hosts are bracketed in the text form). -/
theorem C19_roundtrip (m : IpModel) (L : Laws m) (s : Str) (e : Endpoint m)
    (hp : parseEndpoint m s = .ok e) : parseEndpoint m (display m e) = .ok e :=
  roundtrip m L s e hp

/-- The same for the executable models of `std::net`'s address text, with NO hypothesis: every law —
the IPv4 round trip of all 2^32 addresses, the IPv6 round trip of all 2^128 addresses (RFC 5952
printing against the recursive-descent parser), character sets, text shapes — is a theorem
(`Lemmas.IpLaws`, `Lemmas.Ip6Laws`).  What remains trusted is that these executable models ARE
`std::net` (sampled against the real std by the correspondence check). -/
theorem C19_roundtrip_std (s : Str) (e : Endpoint stdModel) (hp : parseEndpoint stdModel s = .ok e) :
    parseEndpoint stdModel (display stdModel e) = .ok e :=
  roundtrip stdModel stdLawsFull s e hp

/-- IPv6 literals: every address's text form parses back to it … -/
theorem C19_ipv6_roundtrip (a : Ip.Ip6) : Ip.parse6 (Ip.show6 a) = some a := Ip.rt6 a

/-- IPv4 literals: every address's text form parses back to it (no hypothesis) … -/
theorem C19_ipv4_roundtrip (a : Ip.Ip4) : Ip.parse4 (Ip.show4 a) = some a := Ip.rt4 a

/-- … the corner cases of RFC 5952 printing, evaluated by the kernel: all-zero,
loopback, a run in the middle, two equal runs (first wins), a run at the end, no run, v4-mapped. -/
example : ∀ a ∈ ([mkIp6 [0,0,0,0,0,0,0,0], mkIp6 [0,0,0,0,0,0,0,1], mkIp6 [1,0,0,0,5,6,7,8],
                  mkIp6 [1,0,0,4,0,0,7,8], mkIp6 [1,2,3,4,5,6,0,0], mkIp6 [1,2,3,4,5,6,7,8],
                  mkIp6 [0,0,0,0,0,0xffff,0x0102,0x0304], mkIp6 [0xfe80,0,0,0,0,0,0,1]] : List Ip.Ip6),
    Ip.parse6 (Ip.show6 a) = some a := by decide +kernel

theorem takeWhile_dropWhile_eq (s : Str) (p : Char → Bool) : s = s.takeWhile p ++ s.dropWhile p :=
  (List.takeWhile_append_dropWhile).symm

/-- Strict (⇒): whatever parses has exactly the shape the grammar allows. -/
theorem C19_strict_sound (m : IpModel) (s : Str) (e : Endpoint m)
    (hp : parseEndpoint m s = .ok e) : EndpointOk m s e := by
  have hs := takeWhile_dropWhile_eq s isLower
  unfold parseEndpoint at hp
  simp only at hp
  split at hp
  · simp at hp
  · split at hp
    · rename_i addr hrest
      split at hp
      · simp at hp
      · rename_i haddr
        have hnl : '\n' ∉ addr := by
          intro hm; exact haddr (Or.inr (by simpa using hm))
        split at hp
        · rename_i htcp
          split at hp
          · simp at hp
          · rename_i hh p hsplit
            split at hp
            · simp at hp
            · rename_i hne
              split at hp
              · simp at hp
              · rename_i port hport
                simp at hp; subst hp
                have haddr_eq := splitLastColon_eq hsplit
                unfold parsePort at hport
                split at hport
                · rename_i hpd
                  simp only at hport
                  split at hport
                  · rename_i hv
                    simp at hport; subst hport
                    have hseq : s = ['t','c','p',':','/','/'] ++ hh ++ [':'] ++ p := by
                      rw [hs, htcp, hrest, haddr_eq]; simp
                    rw [hseq]
                    refine EndpointOk.tcp hh p hne ?_ hpd.1 ?_ hv
                    · intro hm; apply hnl; rw [haddr_eq]; simp [hm]
                    · intro c hc; exact (List.all_eq_true.mp hpd.2) c hc
                  · simp at hport
                · simp at hport
        · split at hp
          · rename_i hipc
            simp at hp; subst hp
            have hseq : s = ['i','p','c',':','/','/'] ++ addr := by
              rw [hs, hipc, hrest]; simp
            rw [hseq]
            exact EndpointOk.ipc addr (fun e => haddr (Or.inl e)) hnl
          · simp at hp
    · simp at hp

/-- Strict (⇐): everything of that shape parses, to exactly that endpoint. -/
theorem C19_strict_complete (m : IpModel) (s : Str) (e : Endpoint m)
    (h : EndpointOk m s e) : parseEndpoint m s = .ok e := by
  cases h with
  | tcp hh ps hne hnl pne pdig pval =>
    have htw : (['t','c','p',':','/','/'] ++ hh ++ [':'] ++ ps).takeWhile isLower = ['t','c','p'] := by
      simp [List.takeWhile, isLower]
    have hdw : (['t','c','p',':','/','/'] ++ hh ++ [':'] ++ ps).dropWhile isLower
        = ':' :: '/' :: '/' :: (hh ++ ':' :: ps) := by
      simp [List.dropWhile, isLower]
    have hpc : ':' ∉ ps := fun hm => (isDigit_not_colon _ (pdig _ hm)).1 rfl
    have hpn : '\n' ∉ ps := fun hm => (isDigit_not_colon _ (pdig _ hm)).2 rfl
    unfold parseEndpoint
    simp only [htw, hdw]
    have h1 : ¬ (hh ++ ':' :: ps = [] ∨ (hh ++ ':' :: ps).any (· = '\n') = true) := by
      intro h
      rcases h with h | h
      · simp at h
      · simp at h
        rcases h with h | h
        · exact hnl h
        · exact hpn h
    have hport : parsePort ps = some (digitsVal ps) := by
      unfold parsePort
      have : ps.all isDigit = true := List.all_eq_true.mpr pdig
      simp [pne, this, pval]
    simp only [h1, ↓reduceIte, splitLastColon_append hh ps hpc, hne, hport]
    simp
  | ipc path hne hnl =>
    have htw : (['i','p','c',':','/','/'] ++ path).takeWhile isLower = ['i','p','c'] := by
      simp [List.takeWhile, isLower]
    have hdw : (['i','p','c',':','/','/'] ++ path).dropWhile isLower = ':' :: '/' :: '/' :: path := by
      simp [List.dropWhile, isLower]
    unfold parseEndpoint
    simp only [htw, hdw]
    have h1 : ¬ (path = [] ∨ path.any (· = '\n') = true) := by
      intro h; rcases h with h | h
      · exact hne h
      · simp at h; exact hnl h
    simp only [h1, ↓reduceIte]
    simp

/-- Strict: the parser accepts exactly the grammar of the property. -/
theorem C19_strict (m : IpModel) (s : Str) (e : Endpoint m) :
    parseEndpoint m s = .ok e ↔ EndpointOk m s e :=
  ⟨C19_strict_sound m s e, C19_strict_complete m s e⟩

/-- Total: the only operation of the parser that can abort is the slice
`&s[1..s.len() - 1]` in `Host::try_from`; its guard puts both cut points in range and on
character boundaries (a one-byte `[` in front, a one-byte `]` at the end). -/
theorem C19_total_slice (h : Str) (hb : bracketed h = true) :
    ∃ inner, h = '[' :: inner ++ [']'] ∧ ('[' : Char).utf8Size = 1 ∧ (']' : Char).utf8Size = 1 ∧
      (h.drop 1).dropLast = inner := by
  simp only [bracketed, Bool.and_eq_true, beq_iff_eq, decide_eq_true_eq] at hb
  obtain ⟨⟨hh, hlen⟩, hl⟩ := hb
  cases h with
  | nil => simp at hh
  | cons c t =>
    simp at hh; subst hh
    have ht : t ≠ [] := by
      intro e; subst e
      simp [utf8Len] at hlen
      have : ('[' : Char).utf8Size = 1 := by decide
      omega
    have hl' : t.getLast? = some ']' := by
      cases t with
      | nil => exact absurd rfl ht
      | cons x xs => simpa using hl
    obtain ⟨init, rfl⟩ := List.getLast?_eq_some_iff.mp hl'
    exact ⟨init, by simp, by decide, by decide, by simp⟩

/-- IPv4 literals and IPv6 literals (bare or in brackets) become addresses, not domain names. -/
theorem C19_ip_literals (m : IpModel) (L : Laws m) :
    (∀ hs a, m.parse4 hs = some a → parseHost m hs = .v4 a) ∧
    (∀ hs a, m.parse4 hs = none → bracketed hs = false → m.parse6 hs = some a → parseHost m hs = .v6 a) ∧
    (∀ a, parseHost m ('[' :: (m.show6 a ++ [']'])) = .v6 a) := by
  refine ⟨?_, ?_, ?_⟩
  · intro hs a h; simp [parseHost, h]
  · intro hs a h4 hb h6; simp [parseHost, h4, hb, h6]
  · intro a
    have hlen := L.show6_len a
    have hp4 : m.parse4 ('[' :: (m.show6 a ++ [']'])) = none := by
      cases hh : m.parse4 ('[' :: (m.show6 a ++ [']'])) with
      | none => rfl
      | some b =>
        rcases L.chars4 _ b hh '[' (by simp) with hd | hd
        · exact absurd hd (by decide)
        · exact absurd hd (by decide)
    have hu : 4 ≤ utf8Len ('[' :: (m.show6 a ++ [']'])) := by
      have := utf8Len_ge ('[' :: (m.show6 a ++ [']'])); simp at this; omega
    have hlast : ('[' :: (m.show6 a ++ [']'])).getLast? = some ']' := by
      have : '[' :: (m.show6 a ++ [']']) = ('[' :: m.show6 a) ++ [']'] := by simp
      rw [this, List.getLast?_concat]
    simp [parseHost, hp4, bracketed, hu, hlast, L.rt6]

/-- non-vacuity: the grammar is inhabited on both branches, e.g. `tcp://a:0` and `ipc://x` -/
example (m : IpModel) : EndpointOk m "tcp://a:0".toList (.tcp (parseHost m ['a']) 0) :=
  EndpointOk.tcp ['a'] ['0'] (by simp) (by simp) (by simp) (by simp; decide) (by decide)
example (m : IpModel) : EndpointOk m "ipc://x".toList (.ipc ['x']) :=
  EndpointOk.ipc ['x'] (by simp) (by simp)

end Zmq.C19
