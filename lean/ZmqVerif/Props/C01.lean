import ZmqVerif.Lemmas.Rfc
import ZmqVerif.Lemmas.WorldRotation
import ZmqVerif.Lemmas.Decode
import ZmqVerif.Gen.Tables
import ZmqVerif.Lemmas.Command
/-!
# C01 — message framing conforms to ZMTP 3.0 and round-trips exactly

Property theorems only.  `encodeMsg`/`encodeGreeting`/`encodeReady` mirror what the
library writes (`Model.Wire`); `Rfc.*` is the independent RFC 23 grammar
(`Spec.Rfc23`); `decode`/`run` is the library's decoder (`Model.Decoder`).
The hypothesis `f.length < 2^64` is the width of the size field; every in-memory
buffer satisfies it.
-/
namespace Zmq.C01
open Zmq Rfc

/-- An independent RFC-23 decoder parses the bytes of any message back to exactly its
frames — MORE on every frame but the last, nothing extra, nothing missing. -/
theorem C01_rfc_roundtrip (fs : List Bytes) (h64 : ∀ f ∈ fs, f.length < 2 ^ 64) :
    parseFrames (encodeMsg fs) = some (tagMore fs) := by
  have h0 : parseFrames [] = some [] := by rw [parseFrames]; simp
  have := parseFrames_encodeMsg_append fs h64 []
  rw [List.append_nil, h0] at this
  simpa using this

/-- … and the frames regroup into exactly that one message. -/
theorem C01_rfc_regroup (fs : List Bytes) (hne : fs ≠ []) :
    groupMsgs (tagMore fs) [] = some [fs] := by
  suffices h : ∀ acc, groupMsgs (tagMore fs) acc = some [acc ++ fs] by simpa using h []
  induction fs with
  | nil => exact absurd rfl hne
  | cons f fs ih =>
    intro acc
    cases fs with
    | nil => simp [tagMore, groupMsgs]
    | cons g gs =>
      simp only [tagMore, groupMsgs]
      simp [ih (by simp) (acc ++ [f])]

/-- A sequence of messages on one connection parses to the concatenation of their frames. -/
theorem C01_rfc_stream (ms : List (List Bytes)) (h64 : ∀ m ∈ ms, ∀ f ∈ m, f.length < 2 ^ 64) :
    parseFrames (ms.map encodeMsg).flatten = some (ms.map tagMore).flatten := by
  induction ms with
  | nil => rw [List.map_nil, List.flatten_nil, parseFrames]; simp
  | cons m ms ih =>
    simp only [List.map_cons, List.flatten_cons]
    rw [parseFrames_encodeMsg_append m (h64 m (by simp)), ih (fun m' hm => h64 m' (by simp [hm]))]
    simp

/-- Size width: one-byte size only for bodies of at most 255 bytes (2-byte header, LONG
clear), eight-byte network-order size otherwise (9-byte header, LONG set); MORE is bit 0. -/
theorem C01_size_width (more : Bool) (n : Nat) :
    (n ≤ 255 → frameHeader more n = [if more then 1 else 0, UInt8.ofNat n]) ∧
    (255 < n → frameHeader more n = (if more then 3 else 2) :: be 8 n ∧
               (frameHeader more n).length = 9) := by
  constructor
  · intro h; simp [frameHeader]; omega
  · intro h; simp [frameHeader, h]

/-- No extra or missing bytes: the encoding is exactly header + body per frame. -/
theorem C01_exact_length (more : Bool) (body : Bytes) :
    (encodeFrame more body).length = body.length + (if body.length > 255 then 9 else 2) := by
  simp only [encodeFrame, frameHeader]
  split <;> simp <;> omega

/-- Decoding the bytes of a message with the library's decoder yields the identical message
and consumes exactly those bytes. -/
theorem C01_lib_roundtrip (fs : List Bytes) (hne : fs ≠ []) (h64 : ∀ f ∈ fs, f.length < 2 ^ 64) :
    run Dec.framing (encodeMsg fs) = ⟨[.message fs], none, none, Dec.framing, []⟩ := by
  have h := decode_encodeMsg fs hne h64 [] []
  simp only [List.append_nil, List.nil_append] at h
  rw [Dec.framing, run_item h, run_nil _ (by simp [DState.need])]

/-- … and a whole stream of messages decodes to those messages, in order. -/
theorem C01_lib_roundtrip_stream (ms : List (List Bytes)) (hne : ∀ m ∈ ms, m ≠ [])
    (h64 : ∀ m ∈ ms, ∀ f ∈ m, f.length < 2 ^ 64) :
    run Dec.framing (ms.map encodeMsg).flatten
      = ⟨ms.map Item.message, none, none, Dec.framing, []⟩ :=
  run_encodeMsgs ms hne h64

/-- The greeting: 64 bytes, signature, version, NUL-padded mechanism, zero filler — and the
library's own greeting parser reads it back. -/
theorem C01_greeting (g : Greeting) :
    (encodeGreeting g).length = 64 ∧
    validGreeting (encodeGreeting g) g.major g.minor g.mech.name g.asServer = true ∧
    parseGreeting (encodeGreeting g) = .ok g := by
  obtain ⟨maj, min, mech, srv⟩ := g
  cases mech <;> cases srv <;>
    simp [encodeGreeting, validGreeting, parseGreeting, Mechanism.name, zeros, index,
      parseMechanism, List.replicate, bind, Out.bind] <;> decide

/-- The greeting the library actually emits (regenerated from the code on every run)
is the model's default greeting: version 3.0, NULL, not a server. -/
theorem C01_greeting_gen : encodeGreeting Greeting.default = Gen.greetingBytes := by decide

/-- READY as the library actually emits it for every implemented socket type with no
identity configured (regenerated on every run) equals the model's encoding. -/
theorem C01_ready_gen :
    Gen.readyBytes = ([SockType.pub, .sub, .req, .rep, .dealer, .router, .pull, .push, .xpub].map
      fun t => (t.toNat, encodeReady t none false)) := by decide

theorem readyProps_ok (t : SockType) (ident : Option Bytes) (idFirst : Bool)
    (hid : ∀ i, ident = some i → i.length < 2 ^ 32) : PropsOk (readyProps t ident idFirst) := by
  have hname : t.name.length < 2 ^ 32 := by cases t <;> decide
  have hk1 : kSocketType.length = 11 := rfl
  have hk2 : kIdentity.length = 8 := rfl
  intro p hp
  cases ident with
  | none =>
    simp only [readyProps, List.mem_singleton] at hp
    subst hp
    simp only [hk1]; omega
  | some i =>
    have hi := hid i rfl
    simp only [readyProps] at hp
    split at hp <;> simp only [List.mem_cons, List.not_mem_nil, or_false] at hp <;>
      rcases hp with rfl | rfl <;> simp only [hk1, hk2] <;> omega

theorem readyProps_utf8 (t : SockType) (ident : Option Bytes) (idFirst : Bool)
    (hu : validUtf8 kSocketType = true ∧ validUtf8 kIdentity = true) :
    ∀ p ∈ readyProps t ident idFirst, validUtf8 p.1 = true := by
  intro p hp
  cases ident with
  | none =>
    simp only [readyProps, List.mem_singleton] at hp
    subst hp; exact hu.1
  | some i =>
    simp only [readyProps] at hp
    split at hp <;> simp only [List.mem_cons, List.not_mem_nil, or_false] at hp <;>
      rcases hp with rfl | rfl <;> first | exact hu.1 | exact hu.2

/-- READY, for EVERY socket type and EVERY identity the wire format can carry (shorter than 2^32
octets — the library itself refuses more than 255), in either property order: the command body the
encoder writes parses under the independent RFC-23 grammar of a command body to the name `READY`
and exactly the properties Socket-Type = the type's name and (when configured) Identity = the
identity … -/
theorem C01_ready_rfc (t : SockType) (ident : Option Bytes) (idFirst : Bool)
    (hid : ∀ i, ident = some i → i.length < 2 ^ 32) :
    Rfc.parseCommandBody (commandBody kReady (readyProps t ident idFirst)) =
      some (kReady, readyProps t ident idFirst) :=
  rfc_commandBody kReady _ (by decide) (by decide) (readyProps_ok t ident idFirst hid)

/-- … and the library's own command parser reads it back as exactly those properties (the two
property names are valid UTF-8: hypothesis `hu` — `validateUTF8` does not reduce in the kernel;
the correspondence run evaluates it). -/
theorem C01_ready_lib (t : SockType) (ident : Option Bytes) (idFirst : Bool)
    (hid : ∀ i, ident = some i → i.length < 2 ^ 32)
    (hu : validUtf8 kSocketType = true ∧ validUtf8 kIdentity = true) :
    parseCommand (commandBody kReady (readyProps t ident idFirst)) = .ok (readyProps t ident idFirst) :=
  lib_readyBody _ (readyProps_ok t ident idFirst hid) (readyProps_utf8 t ident idFirst hu)


/-! ### socket level: the bytes a send puts on a connection -/

open Zmq.W in
/-- **What a socket WRITES for a message conforms.**  A round-robin send (PUSH, DEALER) that completes has extended the
outgoing byte stream of exactly one connection by `enc`, and `enc` read by the strict RFC-23 frame grammar is exactly the
frames of the message, MORE set on all but the last — no extra bytes, nothing on any other connection.  (The same `enc`
= `encodeMsg …` appears in `C07_world_req_send`, `C08_world_rep_send`, `C09_world_router_send`, `C12_world_publish_subscriber`
for the other socket types, behind their envelope rules.) -/
theorem C01_world_sent_bytes_conform (fuel : Nat) (w : World) (sid : Nat) (m : Msg) (s : Socket) (hs : getSock w sid = some s)
    (h64 : ∀ f ∈ m, f.length < 2 ^ 64)
    (w' : World) (f' : FutSt) (h : sendRRPoll fuel w sid m none = (w', f', .ready .okUnit)) :
    ∃ k wr enc, ilookup s.peers k = some wr ∧ (wOf w'.pipes wr.pipe).wire = outOf w.pipes wr ++ enc ∧
      parseFrames enc = some (tagMore m) ∧ ∀ j, j ≠ wr.pipe → wOf w'.pipes j = wOf w.pipes j := by
  obtain ⟨k, _, wr, _, h4, h5, h6, _⟩ := sendRRStart_done_who fuel w sid m s hs w' f' h
  exact ⟨k, wr, encodeMsg m, h4, h5, C01_rfc_roundtrip m h64, h6⟩

end Zmq.C01
