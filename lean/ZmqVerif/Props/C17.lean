import ZmqVerif.Lemmas.Own
import ZmqVerif.Lemmas.WorldMaps
/-!
# C17 — closing or dropping a socket stops its listeners and disconnects all peers

Two layers.  (1) The ownership graph (`Model.Lifecycle`): whether dropping the socket can free
a connection at all is a reference-counting question — `dropped_closes` proves it for the
repaired fair queue (which releases its streams when dropped), `cycle_leaks` proves the
**negation** for the queue as it was (an armed `StreamWaker` closes a strong cycle through the
transport: the connection stays open for ever — reproduced on the real code, then repaired),
`pending_handshake_survives` is the negation for the accept loop as it was (a connection whose
handshake was still running in its detached task outlived `close()` — finding D14, reproduced on
the real runtime, then repaired: handshake tasks now also wait for their listener's stop signal),
and `dropped_closes_all` is the statement at full strength for the tree with both repairs.  (2) `Model.World.dropSocket`: what
`Drop`/`close()` do to the tables, tied to the real sockets half by half.
PARTIAL: OS sockets, the tokio scheduler and timing ("shortly afterwards") are observed on an
enumerated grid by the `net` engine, not modelled.
-/
namespace Zmq.C17
open Zmq Zmq.W Zmq.Own

/-- **Peers see end-of-stream (repaired queue)**: once the socket is dropped or closed and no
handshake is pending, every registered connection is closed, whatever recv had been pending. -/
theorem C17_peers_eof (g : Cfg) (hdrop : g.sockHeld = false) (hfix : g.fqDropsStreams = true)
    (hnohs : ∀ c, g.handshaking c = false) (c : Nat) : Freed g (.transport c) :=
  dropped_closes g hdrop hfix hnohs c

/-- **The defect that was there** (negation, for the record and to show the theorem above is not
vacuous): without the repair, a connection on which a recv was ever pending is never closed. -/
theorem C17_cycle_leaked (g : Cfg) (c : Nat) (hreg : g.registered c = true) (harm : g.armed c = true)
    (hfix : g.fqDropsStreams = false) : ¬ Freed g (.transport c) :=
  (cycle_leaks g c hreg harm hfix).2.1

/-- **Every connection is closed** (both repairs): once the socket is dropped or closed, every
connection — registered or still in its handshake, whatever recv had been pending — is closed. -/
theorem C17_all_closed (g : Cfg) (hdrop : g.sockHeld = false) (hfix : g.fqDropsStreams = true)
    (hfix14 : g.hsStops = true) (c : Nat) : Freed g (.transport c) :=
  dropped_closes_all g hdrop hfix hfix14 c

/-- **The second defect that was there** (negation): with handshakes running as detached tasks, a
connection still in its handshake was not closed by `close()`/`drop`. -/
theorem C17_pending_handshake_leaked (g : Cfg) (c : Nat) (hhs : g.handshaking c = true)
    (hfix14 : g.hsStops = false) : ¬ Freed g (.rhalf c) :=
  pending_handshake_survives g c hhs hfix14

/-- **Partial**: … but the accept tasks are always released — their only owner is the
stop-channel sender in the socket's bind table, which goes with the socket. -/
theorem C17_listeners_released (g : Cfg) (hdrop : g.sockHeld = false) (e : Nat) :
    Freed g (.acceptTask e) := by
  have fsock : Freed g .sock := ⟨_, by simp [root, hdrop], by intro y hy; cases y <;> simp [owns] at hy⟩
  have fstop : Freed g (.stopTx e) :=
    ⟨_, by simp [root], by intro y hy; cases y <;> simp [owns] at hy; exact fsock⟩
  exact ⟨_, by simp [root], by
    intro y hy; cases y <;> simp [owns] at hy
    subst hy; exact fstop⟩

/-- `Drop`/`close()` in the World model: every write half in the peer table is dropped … -/
theorem C17_drop_releases_writes (w : World) (sid : Nat) (s : Socket) (hs : getSock w sid = some s) :
    ∃ s', getSock (dropSocket w sid) sid = some s' ∧ s'.peers = [] ∧ s'.fqStreams = [] ∧
      s'.reqRd = [] ∧ s'.dead = true := by
  simp only [dropSocket, hs]
  exact ⟨_, getSock_setSock_same _ _ _, rfl, rfl, rfl, rfl⟩

/-- non-vacuity: a configuration with a registered, armed connection and a dropped socket -/
example : ∃ g : Cfg, g.sockHeld = false ∧ g.registered 0 = true ∧ g.armed 0 = true ∧ g.fqDropsStreams = true ∧
    g.handshaking 1 = true ∧ g.hsStops = true :=
  ⟨⟨false, fun c => c == 0, fun _ => true, fun c => c == 1, fun _ => false, true, fun _ => 0, true⟩,
   rfl, rfl, rfl, rfl, rfl, rfl⟩

end Zmq.C17
