import ZmqVerif.Props.C07
import ZmqVerif.Lemmas.WorldProxy
/-!
# C15 — proxy() forwards every message verbatim in both directions

Abstract model of the `select!` loop of `proxy()` (`src/lib.rs`): the two sockets are FIFO
sources/sinks of messages; an iteration forwards the head of ONE ready side (the choice among
ready sides is `futures::select!`'s pseudo-random pick — a free parameter here: the theorems
hold for EVERY choice sequence), first copying it to the capture socket.  `Model.World.proxyPoll`
is the executable counterpart tied to the real `proxy()`; the chain clause is `C07_chain`.
-/
namespace Zmq.C15
open Zmq

structure St where
  frontIn : List Msg := []     -- received by the frontend socket, not yet taken by the proxy
  backIn : List Msg := []
  toBack : List Msg := []      -- sent on the backend so far
  toFront : List Msg := []
  cap : List Msg := []         -- sent to the capture socket so far
  allFront : List Msg := []    -- ghost: everything that ever arrived on the frontend, in order
  allBack : List Msg := []

inductive Op
  | arriveFront (m : Msg)
  | arriveBack (m : Msg)
  | pickFront            -- one loop iteration whose `select!` took the frontend branch
  | pickBack

def step (s : St) : Op → St
  | .arriveFront m => { s with frontIn := s.frontIn ++ [m], allFront := s.allFront ++ [m] }
  | .arriveBack m => { s with backIn := s.backIn ++ [m], allBack := s.allBack ++ [m] }
  | .pickFront =>
    match s.frontIn with
    | m :: r => { s with frontIn := r, cap := s.cap ++ [m], toBack := s.toBack ++ [m] }
    | [] => s                       -- that branch was not ready: nothing happens
  | .pickBack =>
    match s.backIn with
    | m :: r => { s with backIn := r, cap := s.cap ++ [m], toFront := s.toFront ++ [m] }
    | [] => s

def Inv (s : St) : Prop :=
  s.toBack ++ s.frontIn = s.allFront ∧ s.toFront ++ s.backIn = s.allBack ∧
  s.cap.length = s.toBack.length + s.toFront.length

theorem step_inv (s : St) (op : Op) (h : Inv s) : Inv (step s op) := by
  obtain ⟨h1, h2, h3⟩ := h
  cases op with
  | arriveFront m => exact ⟨by simp [step, ← h1], h2, h3⟩
  | arriveBack m => exact ⟨h1, by simp [step, ← h2], h3⟩
  | pickFront =>
    simp only [step]
    split
    · rename_i m r hm
      refine ⟨by simp [← h1, hm], h2, by simp [h3]; omega⟩
    · exact ⟨h1, h2, h3⟩
  | pickBack =>
    simp only [step]
    split
    · rename_i m r hm
      refine ⟨h1, by simp [← h2, hm], by simp [h3]; omega⟩
    · exact ⟨h1, h2, h3⟩

/-- **Verbatim, once, in order, per direction** — for every interleaving of arrivals and every
sequence of `select!` choices: what has been sent on the backend followed by what the frontend
still holds is exactly what arrived on the frontend, in order (and symmetrically); the capture
socket has received one copy per forwarded message. -/
theorem C15_verbatim_order (ops : List Op) :
    let s := ops.foldl step {}
    s.toBack ++ s.frontIn = s.allFront ∧ s.toFront ++ s.backIn = s.allBack ∧
    s.cap.length = s.toBack.length + s.toFront.length := by
  suffices h : ∀ s, Inv s → Inv (ops.foldl step s) from h {} ⟨rfl, rfl, rfl⟩
  induction ops with
  | nil => intro s h; exact h
  | cons op r ih => intro s h; exact ih _ (step_inv s op h)

/-- so everything sent is a prefix of what was received: nothing invented, reordered, doubled -/
theorem C15_prefix (ops : List Op) :
    (ops.foldl step {}).toBack <+: (ops.foldl step {}).allFront ∧
    (ops.foldl step {}).toFront <+: (ops.foldl step {}).allBack := by
  obtain ⟨h1, h2, _⟩ := C15_verbatim_order ops
  exact ⟨⟨_, h1⟩, ⟨_, h2⟩⟩

/-- **Both sides ready in the same poll**: taking one side leaves the other side's message
queued — the losing branch loses nothing (this is C14 applied to the dropped recv future). -/
theorem C15_both_ready (s : St) :
    (step s .pickFront).backIn = s.backIn ∧ (step s .pickBack).frontIn = s.frontIn := by
  constructor
  · simp only [step]; split <;> rfl
  · simp only [step]; split <;> rfl

/-- **Capture** receives exactly the forwarded messages in processing order: each iteration
appends the message it forwards. -/
theorem C15_capture (s : St) (m : Msg) (r : List Msg) (h : s.frontIn = m :: r) :
    (step s .pickFront).cap = s.cap ++ [m] ∧ (step s .pickFront).toBack = s.toBack ++ [m] := by
  simp [step, h]

/-- **Chain** REQ – ROUTER/DEALER – REP: the proxy forwards the frames unchanged (above), the
ROUTER side adds/removes the client's identity, REQ and REP add/strip the delimiter — so each
client gets the replies to its own requests: this is `C07_chain` with one hop. -/
theorem C15_chain (ident : Bytes) (p r : Msg) (hi : ident ≠ []) (hp : p ≠ []) (hr : r ≠ []) :
    ∃ env, repSplit (routerIn ident (reqWrap p)) = some (env, p) ∧
      routerOut (repReply env r) = some (ident, reqWrap r) ∧ reqUnwrap (reqWrap r) = some r := by
  obtain ⟨env, h1, h2, h3⟩ := C07.C07_chain [ident] p r (by simpa using hi) hp hr
  refine ⟨env, by simpa [C07.hopsIn] using h1, ?_, h3⟩
  simp only [List.reverse_cons, List.reverse_nil, List.nil_append, C07.hopsOut] at h2
  split at h2
  · rename_i t rest hro
    split at h2
    · rename_i ht; simp at h2; rw [hro, ht, h2]
    · simp at h2
  · simp at h2

/-- non-vacuity: both sides ready, backend branch taken first -/
example : ((([Op.arriveFront [[1]], .arriveBack [[2]], .pickBack, .pickFront].foldl step {}).toBack,
            ([Op.arriveFront [[1]], .arriveBack [[2]], .pickBack, .pickFront].foldl step {}).toFront)
    = ([[[1]]], [[[2]]])) := by decide


section World
open Zmq.W


/-! ### socket level: the proxy future of `Model.World` (the function the correspondence check ties to the real `proxy()`)

`proxyPollT` (Lemmas/WorldProxy) is `proxyPoll` with a ghost trace: `took ff m` where `recv` on the frontend / backend
returned `m`, `start sid m` where a `send` of `m` on socket `sid` is started, `finished` where the send in progress
completes. -/

/-- the traced function IS one poll of the proxy future (`pollAny`), with the trace forgotten -/
theorem C15_world_trace_erases (w : World) (a b : Nat) (c : Option Nat) (ph : Nat) (ff : Bool) (m : Msg) (sub : FutSt) :
    (proxyPollT 64 w a b c ph ff m sub).1 = pollAny w (.proxy a b c ph ff m sub) :=
  proxyPollT_erase 64 w a b c ph ff m sub

/-- **One poll, any world, any state of the future**: what the poll does is a word of the forwarding grammar
(`accepts`): a message is taken only when nothing is in hand; what is started next is a send of THAT message — on the
capture socket first if there is one — then a send of that message on the OTHER side; the next message is taken only
after that send has completed.  The future returned carries the grammar's state. -/
theorem C15_world_poll_grammar (w : World) (a b : Nat) (c : Option Nat) (ph : Nat) (ff : Bool) (m : Msg) (sub : FutSt) :
    ∃ s', accepts a b c (pstOf ph ff m) (proxyPollT 64 w a b c ph ff m sub).2 = some s' ∧
      Leaves a b c (proxyPollT 64 w a b c ph ff m sub).1.2.1 s' :=
  proxyPollT_accepts 64 w a b c ph ff m sub

/-- **Every history of polls of a proxy started idle** — each poll in an arbitrary world (whatever arrived, connected,
failed or was called in between): everything `recv` returned on one side has been sent on, verbatim, once and in the
order taken, on the OTHER side — except at most the one message whose copy is still being written to the capture
socket; and the capture socket has been sent a copy of every message taken, in that order. -/
theorem C15_world_verbatim (a b : Nat) (c : Option Nat) (ff : Bool) (m : Msg) (sub f' : FutSt) (tr : List PEv)
    (h : ProxyRun a b c (.proxy a b c 0 ff m sub) tr f') :
    ∃ s', accepts a b c .idle tr = some s' ∧
      (tookOf tr).map (dest a b) = fwdOf c .idle tr ++ s'.hand.map (dest a b) ∧ s'.hand.length ≤ 1 ∧
      capOf c .idle tr = (match (generalizing := false) c with
                          | some k => (tookOf tr).map (fun x => (k, x.2))
                          | none => []) := by
  have hl : Leaves a b c (.proxy a b c 0 ff m sub) .idle := by
    intro a' b' c' ph' ff' m' sub' he
    injection he with h1 h2 h3 h4 h5 h6 h7
    subst h1 h2 h3 h4 h5 h6
    exact ⟨rfl, rfl, rfl, rfl⟩
  obtain ⟨s', h1, _⟩ := h.accepts .idle hl ⟨_, _, _, _, rfl⟩
  refine ⟨s', h1, ?_, ?_, accepts_capture a b c .idle tr s' h1⟩
  · simpa [PSt.hand] using accepts_conservation a b c .idle tr s' h1
  · cases s' <;> simp [PSt.hand]

/-- in particular, per direction: the messages whose forwarding was started towards the backend are a prefix of the
messages taken from the frontend (and symmetrically) — nothing invented, reordered or doubled; without a capture
socket nothing taken is ever left unforwarded -/
theorem C15_world_no_capture_all_forwarded (a b : Nat) (ff : Bool) (m : Msg) (sub f' : FutSt) (tr : List PEv)
    (h : ProxyRun a b none (.proxy a b none 0 ff m sub) tr f') :
    fwdOf none .idle tr = (tookOf tr).map (dest a b) := by
  obtain ⟨s', h1, h2, _, _⟩ := C15_world_verbatim a b none ff m sub f' tr h
  have : s'.hand = [] := by
    -- without a capture socket the grammar never enters `cap`
    clear h2
    suffices hh : ∀ s tr s', accepts a b none s tr = some s' → (∀ f x, s ≠ .cap f x) → ∀ f x, s' ≠ .cap f x by
      cases s' with
      | cap f x => exact absurd rfl (hh _ _ _ h1 (by intro f x h; cases h) f x)
      | _ => rfl
    intro s tr
    fun_induction accepts a b none s tr with
    | case1 s => intro s' h hs; cases h; exact hs
    | case2 ff m sid m' tr k hc => cases hc
    | case3 ff m sid m' tr k hc => cases hc
    | case4 ff m sid m' tr hc hk ih => intro s' h _; exact ih s' h (by intro f x h; cases h)
    | case5 => intro s' h; cases h
    | case6 ff m sid m' tr hk ih => intro s' h hs; exact absurd rfl (hs ff m)
    | case7 => intro s' h; cases h
    | case8 ff m tr ih => intro s' h _; exact ih s' h (by intro f x h; cases h)
    | case9 => intro s' h; cases h
  rw [h2, this]; simp

/-- non-vacuity of the grammar: with a capture socket (3) a request taken from the frontend (1) is copied, then
forwarded to the backend (2); the reply taken from the backend is copied and is being forwarded when the trace ends -/
example :
    accepts 1 2 (some 3) .idle
      [.took true [[7]], .start 3 [[7]], .finished, .start 2 [[7]], .finished,
       .took false [[8]], .start 3 [[8]], .finished, .start 1 [[8]]] = some (.fwd false [[8]]) ∧
    fwdOf (some 3) .idle
      [.took true [[7]], .start 3 [[7]], .finished, .start 2 [[7]], .finished,
       .took false [[8]], .start 3 [[8]], .finished, .start 1 [[8]]] = [(2, [[7]]), (1, [[8]])] := by
  decide

/-- and a trace that forwards something else than it took is NOT a word of the grammar -/
example : accepts 1 2 none .idle [.took true [[7]], .start 2 [[9]]] = none := by decide


end World

end Zmq.C15
