import ZmqVerif.Props.C07
/-!
# C15 — proxy() forwards every message verbatim in both directions

Abstract model of the `select!` loop of `proxy()` (`src/lib.rs`): the two sockets are FIFO
sources/sinks of messages; an iteration forwards the head of ONE ready side (the choice among
ready sides is `futures::select!`'s pseudo-random pick — a free parameter here: the theorems
hold for EVERY choice sequence), first copying it to the capture socket.  `Model.World.proxyPoll`
is the executable counterpart tied to the real `proxy()`; the chain clause is `C07_chain`.
-/
namespace Zmq.C15
open Zmq

structure St where
  frontIn : List Msg := []     -- received by the frontend socket, not yet taken by the proxy
  backIn : List Msg := []
  toBack : List Msg := []      -- sent on the backend so far
  toFront : List Msg := []
  cap : List Msg := []         -- sent to the capture socket so far
  allFront : List Msg := []    -- ghost: everything that ever arrived on the frontend, in order
  allBack : List Msg := []

inductive Op
  | arriveFront (m : Msg)
  | arriveBack (m : Msg)
  | pickFront            -- one loop iteration whose `select!` took the frontend branch
  | pickBack

def step (s : St) : Op → St
  | .arriveFront m => { s with frontIn := s.frontIn ++ [m], allFront := s.allFront ++ [m] }
  | .arriveBack m => { s with backIn := s.backIn ++ [m], allBack := s.allBack ++ [m] }
  | .pickFront =>
    match s.frontIn with
    | m :: r => { s with frontIn := r, cap := s.cap ++ [m], toBack := s.toBack ++ [m] }
    | [] => s                       -- that branch was not ready: nothing happens
  | .pickBack =>
    match s.backIn with
    | m :: r => { s with backIn := r, cap := s.cap ++ [m], toFront := s.toFront ++ [m] }
    | [] => s

def Inv (s : St) : Prop :=
  s.toBack ++ s.frontIn = s.allFront ∧ s.toFront ++ s.backIn = s.allBack ∧
  s.cap.length = s.toBack.length + s.toFront.length

theorem step_inv (s : St) (op : Op) (h : Inv s) : Inv (step s op) := by
  obtain ⟨h1, h2, h3⟩ := h
  cases op with
  | arriveFront m => exact ⟨by simp [step, ← h1], h2, h3⟩
  | arriveBack m => exact ⟨h1, by simp [step, ← h2], h3⟩
  | pickFront =>
    simp only [step]
    split
    · rename_i m r hm
      refine ⟨by simp [← h1, hm], h2, by simp [h3]; omega⟩
    · exact ⟨h1, h2, h3⟩
  | pickBack =>
    simp only [step]
    split
    · rename_i m r hm
      refine ⟨h1, by simp [← h2, hm], by simp [h3]; omega⟩
    · exact ⟨h1, h2, h3⟩

/-- **Verbatim, once, in order, per direction** — for every interleaving of arrivals and every
sequence of `select!` choices: what has been sent on the backend followed by what the frontend
still holds is exactly what arrived on the frontend, in order (and symmetrically); the capture
socket has received one copy per forwarded message. -/
theorem C15_verbatim_order (ops : List Op) :
    let s := ops.foldl step {}
    s.toBack ++ s.frontIn = s.allFront ∧ s.toFront ++ s.backIn = s.allBack ∧
    s.cap.length = s.toBack.length + s.toFront.length := by
  suffices h : ∀ s, Inv s → Inv (ops.foldl step s) from h {} ⟨rfl, rfl, rfl⟩
  induction ops with
  | nil => intro s h; exact h
  | cons op r ih => intro s h; exact ih _ (step_inv s op h)

/-- so everything sent is a prefix of what was received: nothing invented, reordered, doubled -/
theorem C15_prefix (ops : List Op) :
    (ops.foldl step {}).toBack <+: (ops.foldl step {}).allFront ∧
    (ops.foldl step {}).toFront <+: (ops.foldl step {}).allBack := by
  obtain ⟨h1, h2, _⟩ := C15_verbatim_order ops
  exact ⟨⟨_, h1⟩, ⟨_, h2⟩⟩

/-- **Both sides ready in the same poll**: taking one side leaves the other side's message
queued — the losing branch loses nothing (this is C14 applied to the dropped recv future). -/
theorem C15_both_ready (s : St) :
    (step s .pickFront).backIn = s.backIn ∧ (step s .pickBack).frontIn = s.frontIn := by
  constructor
  · simp only [step]; split <;> rfl
  · simp only [step]; split <;> rfl

/-- **Capture** receives exactly the forwarded messages in processing order: each iteration
appends the message it forwards. -/
theorem C15_capture (s : St) (m : Msg) (r : List Msg) (h : s.frontIn = m :: r) :
    (step s .pickFront).cap = s.cap ++ [m] ∧ (step s .pickFront).toBack = s.toBack ++ [m] := by
  simp [step, h]

/-- **Chain** REQ – ROUTER/DEALER – REP: the proxy forwards the frames unchanged (above), the
ROUTER side adds/removes the client's identity, REQ and REP add/strip the delimiter — so each
client gets the replies to its own requests: this is `C07_chain` with one hop. -/
theorem C15_chain (ident : Bytes) (p r : Msg) (hi : ident ≠ []) (hp : p ≠ []) (hr : r ≠ []) :
    ∃ env, repSplit (routerIn ident (reqWrap p)) = some (env, p) ∧
      routerOut (repReply env r) = some (ident, reqWrap r) ∧ reqUnwrap (reqWrap r) = some r := by
  obtain ⟨env, h1, h2, h3⟩ := C07.C07_chain [ident] p r (by simpa using hi) hp hr
  refine ⟨env, by simpa [C07.hopsIn] using h1, ?_, h3⟩
  simp only [List.reverse_cons, List.reverse_nil, List.nil_append, C07.hopsOut] at h2
  split at h2
  · rename_i t rest hro
    split at h2
    · rename_i ht; simp at h2; rw [hro, ht, h2]
    · simp at h2
  · simp at h2

/-- non-vacuity: both sides ready, backend branch taken first -/
example : ((([Op.arriveFront [[1]], .arriveBack [[2]], .pickBack, .pickFront].foldl step {}).toBack,
            ([Op.arriveFront [[1]], .arriveBack [[2]], .pickBack, .pickFront].foldl step {}).toFront)
    = ([[[1]]], [[[2]]])) := by decide

end Zmq.C15
