import ZmqVerif.Lemmas.Segment
import ZmqVerif.Lemmas.Decode
/-!
# C02 — stream reassembly is independent of how the bytes were segmented

`Conn` is a connection's read side (decoder state + read buffer).  `Conn.feed c chunk`
is "one transport read returned `chunk`; the framed reader is polled until it has
nothing more to yield".  The theorems quantify over **all** byte streams (valid,
malformed, truncated) and **all** partitions into reads.
-/
namespace Zmq.C02
open Zmq

/-- Feeding the chunks one by one = feeding their concatenation in one read: the same items,
in the same order, with the same frame boundaries, the same final decoder state, the same
leftover bytes and the same (first) error. -/
theorem C02_segmentation (c : Conn) (hq : c.Quiescent) (chunks : List Bytes) :
    c.feedAll chunks = c.feed chunks.flatten := by
  induction chunks generalizing c with
  | nil => simp [Conn.feedAll, Conn.feed_nil c hq]
  | cons ch chs ih =>
    simp only [Conn.feedAll, List.flatten_cons]
    rw [ih _ (Conn.feed_quiescent c ch), Conn.feed_append c hq]

/-- What is decoded depends only on the concatenated stream, never on the partition —
byte-at-a-time, coalesced, or anything in between. -/
theorem C02_partition_irrelevant (c : Conn) (hq : c.Quiescent) (p₁ p₂ : List Bytes)
    (h : p₁.flatten = p₂.flatten) : c.feedAll p₁ = c.feedAll p₂ := by
  rw [C02_segmentation c hq, C02_segmentation c hq, h]

/-- The hand-over at the end of the handshake: a fresh connection (decoder waiting for the
greeting, empty buffer) is a legitimate starting point, so greeting, READY and the first
messages may arrive in one segment or in any split — the same reader (`dec`,`buf`) carries on. -/
theorem C02_handover (p₁ p₂ : List Bytes) (h : p₁.flatten = p₂.flatten) :
    Conn.init.feedAll p₁ = Conn.init.feedAll p₂ :=
  C02_partition_irrelevant Conn.init (by right; simp [Conn.init, Dec.init, DState.need]) p₁ p₂ h

/-- Nothing is surfaced early, lost or duplicated across a read boundary: what has been
decoded from a prefix of the stream is a prefix of what is decoded from the whole stream
(and equal to it once the stream has failed). -/
theorem C02_prefix_monotone (d : Dec) (pre suf : Bytes) :
    (run d pre).items <+: (run d (pre ++ suf)).items := by
  rw [run_append]
  by_cases he : (run d pre).ended
  · simp [he]
  · simp [he]

/-- Multipart messages are delivered whole: from any prefix of the bytes of a stream of
messages the decoder yields a prefix of exactly those messages — a message cut short yields
no item at all. -/
theorem C02_whole_only (ms : List (List Bytes)) (hne : ∀ m ∈ ms, m ≠ [])
    (h64 : ∀ m ∈ ms, ∀ f ∈ m, f.length < 2 ^ 64) (pre suf : Bytes)
    (hs : pre ++ suf = (ms.map encodeMsg).flatten) :
    (run Dec.framing pre).items <+: ms.map Item.message := by
  have h1 := C02_prefix_monotone Dec.framing pre suf
  rw [hs] at h1
  have h2 := run_encodeMsgs ms hne h64
  rw [h2] at h1
  exact h1

/-- non-vacuity: the hypotheses are met by a fresh connection and by a connection that has
buffered half a frame header -/
example : Conn.init.Quiescent := by right; simp [Conn.init, Dec.init, DState.need]
example : (⟨⟨.len ⟨false, true, false⟩, [[1]]⟩, [0, 0, 0], none, none⟩ : Conn).Quiescent := by
  right; simp [DState.need]

end Zmq.C02
