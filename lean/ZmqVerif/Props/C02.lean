import ZmqVerif.Lemmas.Segment
import ZmqVerif.Lemmas.Decode
import ZmqVerif.Lemmas.WorldHist
/-!
# C02 — stream reassembly is independent of how the bytes were segmented

`Conn` is a connection's read side (decoder state + read buffer).  `Conn.feed c chunk`
is "one transport read returned `chunk`; the framed reader is polled until it has
nothing more to yield".  The theorems quantify over **all** byte streams (valid,
malformed, truncated) and **all** partitions into reads.
-/
namespace Zmq.C02
open Zmq

/-- Feeding the chunks one by one = feeding their concatenation in one read: the same items,
in the same order, with the same frame boundaries, the same final decoder state, the same
leftover bytes and the same (first) error. -/
theorem C02_segmentation (c : Conn) (hq : c.Quiescent) (chunks : List Bytes) :
    c.feedAll chunks = c.feed chunks.flatten := by
  induction chunks generalizing c with
  | nil => simp [Conn.feedAll, Conn.feed_nil c hq]
  | cons ch chs ih =>
    simp only [Conn.feedAll, List.flatten_cons]
    rw [ih _ (Conn.feed_quiescent c ch), Conn.feed_append c hq]

/-- What is decoded depends only on the concatenated stream, never on the partition —
byte-at-a-time, coalesced, or anything in between. -/
theorem C02_partition_irrelevant (c : Conn) (hq : c.Quiescent) (p₁ p₂ : List Bytes)
    (h : p₁.flatten = p₂.flatten) : c.feedAll p₁ = c.feedAll p₂ := by
  rw [C02_segmentation c hq, C02_segmentation c hq, h]

/-- The hand-over at the end of the handshake: a fresh connection (decoder waiting for the
greeting, empty buffer) is a legitimate starting point, so greeting, READY and the first
messages may arrive in one segment or in any split — the same reader (`dec`,`buf`) carries on. -/
theorem C02_handover (p₁ p₂ : List Bytes) (h : p₁.flatten = p₂.flatten) :
    Conn.init.feedAll p₁ = Conn.init.feedAll p₂ :=
  C02_partition_irrelevant Conn.init (by right; simp [Conn.init, Dec.init, DState.need]) p₁ p₂ h

/-- Nothing is surfaced early, lost or duplicated across a read boundary: what has been
decoded from a prefix of the stream is a prefix of what is decoded from the whole stream
(and equal to it once the stream has failed). -/
theorem C02_prefix_monotone (d : Dec) (pre suf : Bytes) :
    (run d pre).items <+: (run d (pre ++ suf)).items := by
  rw [run_append]
  by_cases he : (run d pre).ended
  · simp [he]
  · simp [he]

/-- Multipart messages are delivered whole: from any prefix of the bytes of a stream of
messages the decoder yields a prefix of exactly those messages — a message cut short yields
no item at all. -/
theorem C02_whole_only (ms : List (List Bytes)) (hne : ∀ m ∈ ms, m ≠ [])
    (h64 : ∀ m ∈ ms, ∀ f ∈ m, f.length < 2 ^ 64) (pre suf : Bytes)
    (hs : pre ++ suf = (ms.map encodeMsg).flatten) :
    (run Dec.framing pre).items <+: ms.map Item.message := by
  have h1 := C02_prefix_monotone Dec.framing pre suf
  rw [hs] at h1
  have h2 := run_encodeMsgs ms hne h64
  rw [h2] at h1
  exact h1

/-- non-vacuity: the hypotheses are met by a fresh connection and by a connection that has
buffered half a frame header -/
example : Conn.init.Quiescent := by right; simp [Conn.init, Dec.init, DState.need]
example : (⟨⟨.len ⟨false, true, false⟩, [[1]]⟩, [0, 0, 0], none, none⟩ : Conn).Quiescent := by
  right; simp [DState.need]


/-! ### socket level: what `recv` delivers depends on the connections' byte streams only -/

open Zmq.W in
/-- **Two histories of the same socket** — any interleaving of `recv` polls (completed, `Pending`, abandoned) with bytes
arriving on any connection in ANY segmentation — in which connection `k` has received the same bytes in total
(`rev₁ p = rev₂ p` for its pipe: the concatenation, not the pieces): the messages delivered from `k` so far, followed by
the complete messages still waiting in front of its reader, are THE SAME list in both.  How the transport cut the stream
into reads, when the application polled and what happened on other connections decide only how far along that list
each history is. -/
theorem C02_world_segmentation {t : SockType} {ps0 : Pipes} {m0 : Streams}
    {ps1 : Pipes} {m1 : Streams} {taken1 : Ident → List Item} {rev1 : Nat → Bytes} {log1 : List (Ident × Msg × POut)}
    {ps2 : Pipes} {m2 : Streams} {taken2 : Ident → List Item} {rev2 : Nat → Bytes} {log2 : List (Ident × Msg × POut)}
    (h1 : RecvRun t ps0 m0 ps1 m1 taken1 rev1 log1) (h2 : RecvRun t ps0 m0 ps2 m2 taken2 rev2 log2)
    (k : Ident) (rd0 rd1 rd2 : Rd) (h0 : ilookup m0 k = some rd0)
    (hk1 : ilookup m1 k = some rd1) (hk2 : ilookup m2 k = some rd2)
    (hrev : rev1 rd0.pipe = rev2 rd0.pipe) :
    (log1.filter (fun e => e.1 == k)).map (·.2.1) ++ msgsOf (rd1.items ps1) =
      (log2.filter (fun e => e.1 == k)).map (·.2.1) ++ msgsOf (rd2.items ps2) := by
  rw [← h1.exactly_once k rd0 rd1 h0 hk1, ← h2.exactly_once k rd0 rd2 h0 hk2]
  simp only [total, hrev]

open Zmq.W in
/-- in particular, once both have drained the connection (nothing complete left in front of its reader), both have
delivered exactly the same messages from it, in the same order -/
theorem C02_world_segmentation_drained {t : SockType} {ps0 : Pipes} {m0 : Streams}
    {ps1 : Pipes} {m1 : Streams} {taken1 : Ident → List Item} {rev1 : Nat → Bytes} {log1 : List (Ident × Msg × POut)}
    {ps2 : Pipes} {m2 : Streams} {taken2 : Ident → List Item} {rev2 : Nat → Bytes} {log2 : List (Ident × Msg × POut)}
    (h1 : RecvRun t ps0 m0 ps1 m1 taken1 rev1 log1) (h2 : RecvRun t ps0 m0 ps2 m2 taken2 rev2 log2)
    (k : Ident) (rd0 rd1 rd2 : Rd) (h0 : ilookup m0 k = some rd0)
    (hk1 : ilookup m1 k = some rd1) (hk2 : ilookup m2 k = some rd2)
    (hrev : rev1 rd0.pipe = rev2 rd0.pipe)
    (hd1 : msgsOf (rd1.items ps1) = []) (hd2 : msgsOf (rd2.items ps2) = []) :
    (log1.filter (fun e => e.1 == k)).map (·.2.1) = (log2.filter (fun e => e.1 == k)).map (·.2.1) := by
  have := C02_world_segmentation h1 h2 k rd0 rd1 rd2 h0 hk1 hk2 hrev
  simpa [hd1, hd2] using this

end Zmq.C02
