import ZmqVerif.Lemmas.FQProgress
import ZmqVerif.Lemmas.FQFair
import ZmqVerif.Lemmas.FQReturns
import ZmqVerif.Lemmas.FQWaker
import ZmqVerif.Lemmas.WorldHist
/-!
# C06 — a waiting receiver is always woken, and no peer is starved

Same model as C05.  `Inv` (proved preserved by every step, hence true in every reachable
state) contains I1 (no lost wake-up) and the one-token invariant; progress and the bounded
bypass are derived from it.  The stream-waker discipline (a `Pending` poll arms one waker, a
readiness change fires and consumes it — that of a kernel socket and of the scripted pipe) is
built into the environment steps `arrive`/`close`; the bypass bound is claimed under it only.
Real-time liveness of the OS / tokio reactor is outside the model (partial).
-/
namespace Zmq.C06
open Zmq.FQ

/-- I1 — no lost wake-up (safety form): in every reachable state, a parked receiver that has
not been notified has its waker published and there is no event in the heap … -/
theorem C06_I1 (ops : List Op) :
    let s := ops.foldl FQ.step {}
    s.pc = .parked → s.notified = false → s.heap = [] ∧ s.waker = true :=
  (reachable_inv ops).i1

/-- … and no registered stream has anything to deliver. -/
theorem C06_parked_means_nothing_ready (ops : List Op) (k : Nat) :
    let s := ops.foldl FQ.step {}
    s.pc = .parked → s.notified = false → s.reg k = .inMap →
      (s.peer k).q = [] ∧ (s.peer k).closed = false :=
  fun hp hn hr => parked_means_nothing_ready _ (reachable_inv ops) hp hn k hr

/-- I2 — a registered stream that has an item (or EOF) available has exactly one event queued. -/
theorem C06_I2 (ops : List Op) (k : Nat) :
    let s := ops.foldl FQ.step {}
    s.reg k = .inMap → ((s.peer k).q ≠ [] ∨ (s.peer k).closed = true) → cnt s.heap k = 1 :=
  fun hr ha => avail_has_event _ (reachable_inv ops) k hr ha

/-- Wake: from any reachable state with the receiver parked and not yet notified, data arriving
on a registered peer, a registered peer closing, and a new peer being inserted each wake it. -/
theorem C06_wake (ops : List Op) (k item : Nat) :
    let s := ops.foldl FQ.step {}
    s.pc = .parked → s.notified = false →
      (s.reg k = .inMap → (FQ.step s (.arrive k item)).wakes = s.wakes + 1 ∧
                          (FQ.step s (.arrive k item)).notified = true) ∧
      (s.reg k = .inMap → (FQ.step s (.close k)).wakes = s.wakes + 1) ∧
      (s.reg k = .absent → (FQ.step s (.insert k)).wakes = s.wakes + 1) := by
  intro s hp hn
  have hinv := reachable_inv ops
  exact ⟨fun hr => wake_on_arrive s hinv hp hn k item hr,
         fun hr => (wake_on_close s hinv hp hn k hr).1,
         fun hr => (wake_on_insert s hinv hp hn k hr).1⟩

/-- The wake-up goes to the LATEST caller: `recv` calls may come from different tasks / futures
(`Op.setWaker`: later polls use another waker), and an earlier call may have been abandoned while
parked.  Whenever the receiver is parked and not notified, the arrival of data on a registered
peer (or a new peer) wakes exactly the waker the most recent `poll_next` call was made with —
never a waker left behind by an earlier call. -/
theorem C06_wake_latest (ops : List Op) (k item : Nat) :
    let s := ops.foldl FQ.step {}
    s.pc = .parked → s.notified = false →
      (s.reg k = .inMap → (FQ.step s (.arrive k item)).woken = s.woken ++ [s.polledW]) ∧
      (s.reg k = .absent → (FQ.step s (.insert k)).woken = s.woken ++ [s.polledW]) := by
  intro s hp hn
  exact ⟨fun hr => wake_latest_on_arrive s (reachable_inv ops) (reachable_pubCur ops) hp hn k item hr,
         fun hr => wake_latest_on_insert s (reachable_inv ops) (reachable_pubCur ops) hp hn k hr⟩

/-- Progress: in any reachable state in which some registered peer has a complete message
available, a `recv` that is (re-)polled completes — `Ready` with one more message — within
`3·|heap|` receiver sections, whatever else is queued.  With `C06_wake` this is "a pending or
subsequently issued recv completes". -/
theorem C06_progress (ops : List Op) :
    let s := ops.foldl FQ.step {}
    (s.pc = .idle ∨ s.pc = .parked) → Avail s → s.exhausted = false →
      ∃ n, n ≤ 3 * s.heap.length ∧
        (recvN n (FQ.step s .pollStart)).pc = .idle ∧
        (recvN n (FQ.step s .pollStart)).out.length = s.out.length + 1 :=
  fun hpc hav hex => progress _ (reachable_inv ops) hpc hav hex

/-- No spin (finding D17): the executor's cooperative budget can run out in the middle of a
`poll_next` call (`Op.exhaust`, any time); from then on every stream poll returns `Pending`
AND has already woken itself.  A stream so polled is on the `seen` list with its event queued
again (`C06_exhausted_poll`), and when the next event popped belongs to a stream on that list the
receiver does not poll it again: it keeps every event, wakes its own waker and returns `Pending`
(`C06_no_spin`) — the call ends, the executor runs, the budget is refreshed (`exhausted` is reset
by the return), and `C06_progress` applies to the re-poll. -/
theorem C06_no_spin (ops : List Op) (t k : Nat) (rest : List (Nat × Nat)) :
    let s := ops.foldl FQ.step {}
    s.pc = .a → popMin s.heap = some ((t, k), rest) → s.seen.contains k = true →
      (FQ.step s .recvStep).pc = .parked ∧ (FQ.step s .recvStep).notified = true ∧
      (FQ.step s .recvStep).wakes = s.wakes + 1 ∧ (FQ.step s .recvStep).heap = s.heap ∧
      (FQ.step s .recvStep).exhausted = false := by
  intro s hpc hpop hseen
  have h := no_spin s t k rest hpc hpop hseen
  refine ⟨h.1, h.2.1, h.2.2.1, h.2.2.2, ?_⟩
  have hmem : k ∈ s.seen := by simpa using hseen
  simp [FQ.step, doRecv, hpc, doA, hpop, hmem, yieldNow]

/-- Every call returns (finding D17): from ANY reachable state — in the middle of a call, with
the budget exhausted or not — at most `variant s ≤ 3·|heap| + 3` receiver sections bring the
receiver to `Ready` (idle) or `Pending` (parked); no environment step is needed for that.  The
variant counts the queued events of streams that have not yet returned `Pending` in this call. -/
theorem C06_call_returns (ops : List Op) :
    let s := ops.foldl FQ.step {}
    ∃ n, n ≤ variant s ∧ ((recvN n s).pc = .idle ∨ (recvN n s).pc = .parked) :=
  poll_returns _ _ (Nat.le_refl _)

/-- … in particular a call that starts now returns within `3·|heap| + 1` sections. -/
theorem C06_poll_returns (ops : List Op) :
    let s := ops.foldl FQ.step {}
    (s.pc = .idle ∨ s.pc = .parked) →
      ∃ n, n ≤ 3 * s.heap.length + 1 ∧
        ((recvN n (FQ.step s .pollStart)).pc = .idle ∨ (recvN n (FQ.step s .pollStart)).pc = .parked) :=
  fun h => poll_returns_from_start _ h

/-- The ORIGINAL loop (section A ignoring `seen`) does not have this property: after
`insert 1; exhaust; poll` it is still inside the same call after any number of rounds. -/
theorem C06_original_loop_spins (n : Nat) :
    (recvOldN (3 * n) ([Op.insert 1, .exhaust, .pollStart].foldl FQ.step {})).pc = .a :=
  (old_loop_spins n).1

theorem C06_exhausted_poll (ops : List Op) (t k : Nat) :
    let s := ops.foldl FQ.step {}
    s.pc = .b t k → s.exhausted = true →
      let s2 := FQ.step (FQ.step s .recvStep) .recvStep
      s2.pc = .a ∧ s2.seen = k :: s.seen ∧ s2.heap = (t, k) :: s.heap :=
  fun hpc hex => exhausted_poll_is_seen _ t k hpc hex

/-- Bounded bypass: once peer `i` is owed a delivery (registered, with a complete message not
yet handed over), then along ANY continuation of the schedule and until `i` is served (or
removed), every other peer `j` is served at most once — so `i` waits for at most `N − 1`
deliveries, `N` the number of registered peers, independent of how much the others have queued. -/
theorem C06_fair (pre ops : List Op) (i j : Nat) (hij : i ≠ j)
    (ho : owed (pre.foldl FQ.step {}) i) : countJ i j (pre.foldl FQ.step {}) ops ≤ 1 :=
  fair_from_init pre ops i j hij ho

/-- non-vacuity of `owed`/`Avail`: after `insert 1; arrive 1 7` peer 1 is owed and available -/
example : owed ([Op.insert 1, .arrive 1 7].foldl FQ.step {}) 1 := by
  refine ⟨Or.inl (by decide), Or.inl (by decide)⟩
example : Avail ([Op.insert 1, .arrive 1 7].foldl FQ.step {}) := ⟨1, by decide, by decide⟩
/-- non-vacuity of `C06_no_spin`: one peer with data, budget exhausted before the stream is polled:
the call ends parked, notified, with the event still queued — and the re-poll delivers -/
example : let s := [Op.insert 1, .arrive 1 7, .pollStart, .recvStep, .exhaust, .recvStep, .recvStep].foldl FQ.step {}
    s.pc = .a ∧ s.seen.contains 1 = true ∧ popMin s.heap = some ((0, 1), []) := by decide
example : let s := [Op.insert 1, .arrive 1 7, .pollStart, .recvStep, .exhaust, .recvStep, .recvStep, .recvStep,
                    .pollStart, .recvStep, .recvStep, .recvStep].foldl FQ.step {}
    s.pc = .idle ∧ s.out = [(1, 7)] := by decide
/-- non-vacuity of `C06_wake_latest`: poll with waker 1 (parks), abandon, poll with waker 2 (parks), data
arrives: waker 2 is woken, waker 1 is not -/
example : let s := [Op.insert 1, .setWaker 1, .pollStart, .recvStep, .recvStep, .recvStep, .recvStep,
                    .setWaker 2, .pollStart, .recvStep, .arrive 1 7].foldl FQ.step {}
    s.woken = [2] := by decide
/-- non-vacuity of the parked hypothesis: `insert 1; poll` parks un-notified -/
example : let s := [Op.insert 1, .pollStart, .recvStep, .recvStep, .recvStep, .recvStep].foldl FQ.step {}
    s.pc = .parked ∧ s.notified = false := by decide

/-! ### socket level (`Model.World`): registering under a key that is still registered; progress -/

open Zmq.W in
/-- `QueueInner::insert` under a key that may ALREADY be registered (a peer that connects again under
its configured identity before the old connection's end has been seen): the new stream replaces the
old one and an event for the key, with the newest ticket, is ALWAYS queued — whatever the old
stream's state was (parked with an armed waker, queued, never polled).  (The micro-step model above
takes identities to be unique; this is the statement for the composition the `world` engine runs.) -/
theorem C06_world_reinsert_queued (s : Socket) (k : Ident) (rd : Rd) :
    ilookup (fqInsert s k rd).fqStreams k = some rd ∧
    (s.fqCounter, k) ∈ (fqInsert s k rd).fqHeap ∧
    (fqInsert s k rd).fqCounter = s.fqCounter + 1 ∧
    ∀ j, j ≠ k → ilookup (fqInsert s k rd).fqStreams j = ilookup s.fqStreams j :=
  fqInsert_queued s k rd

open Zmq.W in
/-- **No lost wake-up at socket level.**  If an event is queued for a registered connection whose
byte stream holds a complete item, a call of the fair queue's `poll_next` over the framed readers
does not return `Pending`: it hands out an item (of that connection or of one served before it) or
reports an error — whatever else is queued: stale events, connections that are `Pending`,
connections that have ended and whose peers are being forgotten. -/
theorem C06_world_progress (fuel : Nat) (ps : Pipes) (sid : Nat) (s : Socket) (hpd : PD s.fqStreams)
    (k : Ident) (rd : Rd) (t : Nat) (hk : ilookup s.fqStreams k = some rd) (hev : (t, k) ∈ s.fqHeap)
    (hit : rd.items ps ≠ []) (hfuel : s.fqHeap.length < fuel) :
    ∃ k' r, (fqPoll fuel ps sid s).1 = .got k' r :=
  fqPoll_progress fuel ps sid s hpd k rd t hk hev hit hfuel

open Zmq.W in
/-- non-vacuity: after a re-registration the hypotheses of `C06_world_progress` about the queue are
met by construction (`recv` polls with fuel `heap length + 2`) -/
example (s : Socket) (k : Ident) (rd : Rd) :
    (s.fqCounter, k) ∈ (fqInsert s k rd).fqHeap ∧
    (fqInsert s k rd).fqHeap.length < (fqInsert s k rd).fqHeap.length + 2 :=
  ⟨(fqInsert_queued s k rd).2.1, by omega⟩

end Zmq.C06
