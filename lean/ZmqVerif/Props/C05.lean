import ZmqVerif.Lemmas.FQCons
/-!
# C05 — receive delivers each peer's messages exactly once, whole and in order

Fair-queue level (`Model.FairQueue`): the statements hold in **every reachable state**, i.e.
after any finite interleaving of receiver sections (A/B/C), `insert`, `remove`, `arrive`,
`close` — any number of peers, events landing inside the unlocked window included.
"Whole" is C02 (a stream item is one complete decoder item); the socket-level `recv`
filters are tied by the `world` correspondence.
-/
namespace Zmq.C05
open Zmq.FQ

/-- Conservation: everything a stream was given is either delivered, or the one item the
receiver is just about to return, or still queued in the stream — nothing is lost, nothing
is invented, whatever the schedule. -/
theorem C05_conservation (ops : List Op) (k : Nat) :
    let s := ops.foldl step {}
    deliveredOf s k ++ inflight s k ++ (s.peer k).q = s.hist k :=
  reachable_cons ops k

/-- Per peer, what `recv` has returned is a prefix of what arrived: same items, same order,
each at most once. -/
theorem C05_prefix_order (ops : List Op) (k : Nat) :
    deliveredOf (ops.foldl step {}) k <+: (ops.foldl step {}).hist k := by
  have := reachable_cons ops k
  exact ⟨_, by rw [List.append_assoc] at this; exact this⟩

theorem C05_no_duplicates (ops : List Op) (k : Nat) (hd : ((ops.foldl step {}).hist k).Nodup) :
    (deliveredOf (ops.foldl step {}) k).Nodup := by
  obtain ⟨t, ht⟩ := C05_prefix_order ops k
  rw [← ht] at hd
  exact (List.nodup_append.mp hd).1

/-- At most one stream is checked out of the map at any time, and it is the one the
receiver is polling — so two messages can never be merged or one split across peers. -/
theorem C05_unique_checkout (ops : List Op) (k j : Nat)
    (hk : (ops.foldl step {}).reg k = .out) (hj : (ops.foldl step {}).reg j = .out) : k = j := by
  have h := reachable_inv ops
  have a := (h.outPc k).mp hk
  have b := (h.outPc j).mp hj
  rw [a] at b
  exact Option.some.inj b

/-- non-vacuity: a schedule with an event inside the unlocked window (peer 2 arrives while
peer 1 is being polled) delivers both items in per-peer order -/
example :
    let ops : List Op := [.insert 1, .insert 2, .arrive 1 10, .pollStart, .recvStep, .arrive 2 20,
      .recvStep, .recvStep, .pollStart, .recvStep, .recvStep, .recvStep]
    (ops.foldl step {}).out = [(1, 10), (2, 20)] := by decide

end Zmq.C05
