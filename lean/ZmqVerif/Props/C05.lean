import ZmqVerif.Lemmas.FQCons
import ZmqVerif.Lemmas.WorldHist
import ZmqVerif.Lemmas.Decode
/-!
# C05 — receive delivers each peer's messages exactly once, whole and in order

Fair-queue level (`Model.FairQueue`): the statements hold in **every reachable state**, i.e.
after any finite interleaving of receiver sections (A/B/C), `insert`, `remove`, `arrive`,
`close` — any number of peers, events landing inside the unlocked window included.
"Whole" is C02 (a stream item is one complete decoder item).

Socket level (`Model.World`, the executable composition the `world` engine runs against the real
sockets): `C05_world_*` relate one poll of `recv` — fair queue over framed readers over scripted
pipes, then the socket type's filter — to the BYTE STREAMS of the socket's connections, for
every socket type that reads through the fair queue, any number of connections, any bytes
(valid, malformed, truncated), any state of the queue.
-/
namespace Zmq.C05
open Zmq.FQ

/-- Conservation: everything a stream was given is either delivered, or the one item the
receiver is just about to return, or still queued in the stream — nothing is lost, nothing
is invented, whatever the schedule. -/
theorem C05_conservation (ops : List Op) (k : Nat) :
    let s := ops.foldl FQ.step {}
    deliveredOf s k ++ inflight s k ++ (s.peer k).q = s.hist k :=
  reachable_cons ops k

/-- Per peer, what `recv` has returned is a prefix of what arrived: same items, same order,
each at most once. -/
theorem C05_prefix_order (ops : List Op) (k : Nat) :
    deliveredOf (ops.foldl FQ.step {}) k <+: (ops.foldl FQ.step {}).hist k := by
  have := reachable_cons ops k
  exact ⟨_, by rw [List.append_assoc] at this; exact this⟩

theorem C05_no_duplicates (ops : List Op) (k : Nat) (hd : ((ops.foldl FQ.step {}).hist k).Nodup) :
    (deliveredOf (ops.foldl FQ.step {}) k).Nodup := by
  obtain ⟨t, ht⟩ := C05_prefix_order ops k
  rw [← ht] at hd
  exact (List.nodup_append.mp hd).1

/-- At most one stream is checked out of the map at any time, and it is the one the
receiver is polling — so two messages can never be merged or one split across peers. -/
theorem C05_unique_checkout (ops : List Op) (k j : Nat)
    (hk : (ops.foldl FQ.step {}).reg k = .out) (hj : (ops.foldl FQ.step {}).reg j = .out) : k = j := by
  have h := reachable_inv ops
  have a := (h.outPc k).mp hk
  have b := (h.outPc j).mp hj
  rw [a] at b
  exact Option.some.inj b

/-- non-vacuity: a schedule with an event inside the unlocked window (peer 2 arrives while
peer 1 is being polled) delivers both items in per-peer order -/
example :
    let ops : List Op := [.insert 1, .insert 2, .arrive 1 10, .pollStart, .recvStep, .arrive 2 20,
      .recvStep, .recvStep, .pollStart, .recvStep, .recvStep, .recvStep]
    (ops.foldl FQ.step {}).out = [(1, 10), (2, 20)] := by decide

/-! ### socket level: `recv` against the byte streams of the connections -/

open Zmq.W in
/-- **One `recv` poll, whole and in order.**  `c k` is what the poll took off connection `k`:
by `Step`, `c k` is a PREFIX of the items the rest of `k`'s byte stream decodes to (`Rd.items`
= C02's `run` on read buffer ++ bytes waiting), the connection carries on exactly behind it, a
connection that is dropped had nothing complete left, and none appears from nowhere.  By
`RecvPost`: all connections together gave up AT MOST ONE message; exactly one iff `recv`
returns it — as the socket type presents it (`deliver`: identity prefixed for ROUTER, envelope
split off for REP, unchanged otherwise) — or rejects it with one error (REP's envelope rule);
`Pending` consumed no message.  Everything else taken is a command/greeting, which `recv`
ignores.  Hence nothing is lost, duplicated, merged, split or reordered within a connection. -/
theorem C05_world_recv (fuel : Nat) (w : World) (sid : Nat) (s : Socket) (hs : getSock w sid = some s)
    (hfq : hasFq s.typ = true) (hpd : PD s.fqStreams) (w' : World) (o : POut)
    (h : recvPoll fuel w sid = (w', o)) :
    ∃ s' c, getSock w' sid = some s' ∧ s'.typ = s.typ ∧ PD s'.fqStreams ∧
      Step w.pipes s.fqStreams w'.pipes s'.fqStreams c ∧ RecvPost s.typ c o :=
  recvPoll_spec fuel w sid s hs hfq hpd w' o h

open Zmq.W in
/-- The framed reader underneath: an item is handed out iff it is the FIRST item of the rest of
the connection's byte stream (`Rd.rem` = C02's `run` on read buffer ++ bytes waiting in the pipe;
the whole remaining run — items, decoder state, leftover, first error — is the old one minus
that item); `Pending`, end-of-stream and errors only when no complete item is left (a message cut
short by a disconnect is never surfaced); no other pipe is touched. -/
theorem C05_world_reader (fuel : Nat) (ps : Pipes) (rd : Rd) (who : RWaker)
    (hf : (inbufOf ps rd.pipe).length < fuel) (r : ReadRes) (ps' : Pipes) (rd' : Rd)
    (h : readerPoll fuel ps rd who = (r, ps', rd')) :
    rd'.pipe = rd.pipe ∧ (∀ j, j ≠ rd.pipe → inbufOf ps' j = inbufOf ps j) ∧
    (match (generalizing := false) r with
     | .item i => rd.rem ps = (rd'.rem ps').pre [i]
     | .pending => rd.rem ps = rd'.rem ps' ∧ rd.items ps = []
     | _ => rd.items ps = []) :=
  readerPoll_spec fuel ps rd who hf r ps' rd' h

open Zmq.W in
/-- The fair queue over the readers: the item it returns is the next item of the connection it
names, taken from that connection only — whatever else the call did (stale events, `Pending`
streams, ended streams whose peers were forgotten) took nothing from anybody. -/
theorem C05_world_fq (fuel : Nat) (ps : Pipes) (sid : Nat) (s : Socket) (hpd : PD s.fqStreams)
    (r : FqRes) (ps' : Pipes) (s' : Socket) (h : fqPoll fuel ps sid s = (r, ps', s')) :
    s'.typ = s.typ ∧ PD s'.fqStreams ∧ FqPost ps s.fqStreams r ps' s'.fqStreams :=
  fqPoll_spec fuel ps sid s hpd r ps' s' h

open Zmq.W in
/-- **Exactly once, whole, in order — for every history** of `recv` polls (each satisfies `Step` and
`RecvPost`, by `C05_world_recv`; `RecvRun.step` turns it into a constructor of the history) and of
bytes arriving, in any segmentation, on any connection, valid or not.  For a connection `k`
registered at the start and still registered: the complete messages in `k`'s WHOLE byte stream so
far (`total` = C02's `run` from the reader's initial state over the bytes that were waiting and
everything that has arrived since) are EXACTLY the messages `recv` has consumed from `k` — `log`
records them with what the application got: the message as the socket type presents it, or (REP)
one error — in the same order, followed by the complete messages still in front of its reader. -/
theorem C05_world_exactly_once {t : SockType} {ps0 : Pipes} {m0 : Streams} {ps : Pipes} {m : Streams}
    {taken : Ident → List Item} {rev : Nat → Bytes} {log : List (Ident × Msg × POut)}
    (h : RecvRun t ps0 m0 ps m taken rev log) (k : Ident) (rd0 rd : Rd)
    (h0 : ilookup m0 k = some rd0) (hk : ilookup m k = some rd) :
    msgsOf (total ps0 rd0 rev).items =
      (log.filter (fun e => e.1 == k)).map (·.2.1) ++ msgsOf (rd.items ps) :=
  h.exactly_once k rd0 rd h0 hk

open Zmq.W in
/-- … and for a connection that is gone (ended, failed, dropped for a protocol error): what was
consumed from it is a PREFIX of the complete messages of its byte stream — a message cut short by
the disconnect was never surfaced, none was invented. -/
theorem C05_world_gone_prefix {t : SockType} {ps0 : Pipes} {m0 : Streams} {ps : Pipes} {m : Streams}
    {taken : Ident → List Item} {rev : Nat → Bytes} {log : List (Ident × Msg × POut)}
    (h : RecvRun t ps0 m0 ps m taken rev log) (k : Ident) (rd0 : Rd)
    (h0 : ilookup m0 k = some rd0) (hk : ilookup m k = none) :
    (log.filter (fun e => e.1 == k)).map (·.2.1) <+: msgsOf (total ps0 rd0 rev).items :=
  h.gone_prefix k rd0 h0 hk

open Zmq.W in
/-- every poll of the model's `recv` extends a history (so the two theorems above speak about every
execution of `Model.World` restricted to `recv` polls and arriving bytes) -/
theorem C05_world_poll_extends {t : SockType} {ps0 : Pipes} {m0 : Streams} {ps : Pipes} {m : Streams}
    {taken : Ident → List Item} {rev : Nat → Bytes} {log : List (Ident × Msg × POut)}
    (h : RecvRun t ps0 m0 ps m taken rev log) {ps' : Pipes} {m' : Streams} {c : Ident → List Item} {o : POut}
    (hs : Step ps m ps' m' c) (hp : RecvPost t c o) :
    ∃ log', RecvRun t ps0 m0 ps' m' (fun k => taken k ++ c k) rev log' ∧
      (log' = log ∨ ∃ k w, log' = log ++ [(k, w, o)]) :=
  h.step hs hp

open Zmq.W in
/-- non-vacuity: the hypotheses are met by a PULL socket with two connections on distinct pipes,
and the relation `Step` is inhabited for it -/
example :
    let m : Streams := [([1], { pipe := 1, dec := Dec.framing }), ([2], { pipe := 2, dec := Dec.framing })]
    hasFq SockType.pull = true ∧ PD m ∧ Step [] m [] m nilC := by
  refine ⟨rfl, ?_, Step.refl _ _⟩
  intro k j rd rd2 hk hj hne
  simp only [ilookup] at hk hj
  split at hk <;> split at hj <;> simp_all <;>
  · first
      | (obtain ⟨_, rfl⟩ := hj; subst hk; simp)
      | (obtain ⟨_, rfl⟩ := hk; subst hj; simp)


open Zmq.W in
/-- for the socket types without an envelope of their own (PULL, SUB, DEALER, XPUB, …) what `recv` returned for a consumed
message IS that message, frame for frame — over every history -/
theorem C05_world_verbatim {t : SockType} (ht : t ≠ .router ∧ t ≠ .rep) {ps0 : Pipes} {m0 : Streams} {ps : Pipes} {m : Streams}
    {taken : Ident → List Item} {rev : Nat → Bytes} {log : List (Ident × Msg × POut)}
    (h : RecvRun t ps0 m0 ps m taken rev log) :
    ∀ e ∈ log, e.2.2 = .ready (.okMsg e.2.1) := by
  intro e he
  have hd : ∀ k w, deliver t k w = some w := by
    intro k w
    cases t <;> simp_all [deliver]
  rcases h.log_spec e he with ⟨r, h1, h2⟩ | ⟨x, _, h2⟩
  · rw [hd] at h2; cases h2; exact h1
  · rw [hd] at h2; cases h2


open Zmq.W in
/-- **From one socket's sends to another socket's recvs.**  A connection `k` whose reader starts behind the handshake
(framing state, nothing buffered, nothing waiting) and on which — in ANY segmentation, interleaved with anything else —
exactly the bytes `encodeMsg m₁ ++ encodeMsg m₂ ++ …` have arrived: by `C10_world_to_poll` / `_rr_poll` that is what
the sends of `m₁, m₂, …` to this connection have written (`wire = base ++ encodeMsg m`, each once, whole).  Then over
every history the messages `recv` has consumed from `k`, followed by the complete ones still waiting, are EXACTLY
`m₁, m₂, …` — in order, each once, frame boundaries intact — and (by `RecvRun.log_spec`) each was handed to the
application as the socket type presents it. -/
theorem C05_world_end_to_end {t : SockType} {ps0 : Pipes} {m0 : Streams} {ps : Pipes} {m : Streams}
    {taken : Ident → List Item} {rev : Nat → Bytes} {log : List (Ident × Msg × POut)}
    (h : RecvRun t ps0 m0 ps m taken rev log) (k : Ident) (rd0 rd : Rd)
    (h0 : ilookup m0 k = some rd0) (hk : ilookup m k = some rd)
    (hstart : rd0.dec = Dec.framing ∧ rd0.buf = [] ∧ inbufOf ps0 rd0.pipe = [])
    (ms : List Msg) (hne : ∀ x ∈ ms, x ≠ []) (h64 : ∀ x ∈ ms, ∀ f ∈ x, f.length < 2 ^ 64)
    (hbytes : rev rd0.pipe = (ms.map encodeMsg).flatten) :
    (log.filter (fun e => e.1 == k)).map (·.2.1) ++ msgsOf (rd.items ps) = ms := by
  rw [← h.exactly_once k rd0 rd h0 hk]
  obtain ⟨h1, h2, h3⟩ := hstart
  simp only [total, h1, h2, h3, hbytes, List.nil_append]
  rw [run_encodeMsgs ms hne h64]
  have hm : ∀ l : List Msg, msgsOf (l.map Item.message) = l := by
    intro l
    induction l with
    | nil => rfl
    | cons x xs ih => simp only [msgsOf, List.map_cons, List.filterMap_cons] at ih ⊢; rw [ih]
  exact hm ms

end Zmq.C05
