import ZmqVerif.Lemmas.WorldMaps
import ZmqVerif.Lemmas.SinkStream
import ZmqVerif.Lemmas.WorldPubFan
/-!
# C12 — a slow subscriber never blocks the publisher or corrupts its own stream

`trySend`, `pollReady`, `flushBuf` (`Model.Sink`) are what `Model.World.pubSend` runs per
matching subscriber.  `trySend` is a total function of the pipe state — it cannot wait by
construction; that the real `send` completes in a single poll whatever the pipes do is checked
on the code by the correspondence.  PARTIAL: asynchronous-codec's `FramedWrite2` is modelled
(and exercised for real by the harness), not verified.
-/
namespace Zmq.C12
open Zmq Zmq.W

/-- stream continuity of one write burst: bytes leave the buffer for the wire in order -/
theorem flushBuf_stream (p : WPipe) (buf : Bytes) :
    (flushBuf p buf).1.wire ++ (flushBuf p buf).2.1 = p.wire ++ buf := Sink.flushBuf_stream p buf

theorem pollReady_stream (hwm : Nat) (p : WPipe) (buf : Bytes) :
    (pollReady hwm p buf).1.wire ++ (pollReady hwm p buf).2.1 = p.wire ++ buf := Sink.pollReady_stream hwm p buf

/-- **Stream**: whatever the pipe does, after `try_send` the bytes on the wire followed by the
bytes still buffered are the previous ones followed by the WHOLE encoding of the message if
it was accepted, and by nothing if it was dropped — never half a message, never reordered. -/
theorem C12_stream (hwm : Nat) (p : WPipe) (buf enc : Bytes) :
    (trySend hwm p buf enc).1.wire ++ (trySend hwm p buf enc).2.1
      = p.wire ++ buf ++ (if (trySend hwm p buf enc).2.2 = .ok then enc else []) := Sink.trySend_stream hwm p buf enc

theorem flushBuf_len (p : WPipe) (buf : Bytes) : (flushBuf p buf).2.1.length ≤ buf.length := by
  unfold flushBuf
  by_cases h1 : buf.isEmpty
  · simp [h1]
  · by_cases h2 : p.wrerr
    · simp [h1, h2]
    · cases hc : p.credit with
      | none => simp [h1, h2, hc]
      | some c =>
        simp only [h1, h2, hc, Bool.false_eq_true, ↓reduceIte]
        split <;> simp

theorem pollReady_len (hwm : Nat) (p : WPipe) (buf : Bytes) :
    (pollReady hwm p buf).2.1.length ≤ buf.length := by
  unfold pollReady
  by_cases h1 : buf.length < hwm
  · simp [h1]
  · by_cases h2 : p.wrerr
    · simp [h1, h2]
    · cases hc : p.credit with
      | none => simp [h1, h2, hc]
      | some c =>
        simp only [h1, h2, hc, Bool.false_eq_true, ↓reduceIte]
        split <;> simp

theorem pollReady_done_below (hwm : Nat) (p : WPipe) (buf : Bytes) (p1 : WPipe) (b1 : Bytes)
    (h : pollReady hwm p buf = (p1, b1, .done)) (hpos : 0 < hwm) : b1.length < hwm := by
  unfold pollReady at h
  by_cases h1 : buf.length < hwm
  · simp [h1] at h; obtain ⟨_, rfl⟩ := h; exact h1
  · by_cases h2 : p.wrerr
    · simp [h1, h2] at h
    · cases hc : p.credit with
      | none => simp [h1, h2, hc] at h; obtain ⟨_, rfl⟩ := h; simpa using hpos
      | some c =>
        simp only [h1, h2, hc, Bool.false_eq_true, ↓reduceIte] at h
        split at h
        · rename_i hlt; simp at h; obtain ⟨_, rfl⟩ := h; exact hlt
        · simp at h

/-- **Bounded**: memory held for one subscriber stays below the high-water mark plus one
message, for every back-pressure pattern. -/
theorem C12_bounded (hwm B : Nat) (hpos : 0 < hwm) (p : WPipe) (buf enc : Bytes)
    (hb : buf.length < hwm + B) (henc : enc.length ≤ B) :
    (trySend hwm p buf enc).2.1.length < hwm + B := by
  have hl := pollReady_len hwm p buf
  unfold trySend
  match hq : pollReady hwm p buf with
  | (p1, b1, .pending) => rw [hq] at hl; simp at hl ⊢; omega
  | (p1, b1, .error) => rw [hq] at hl; simp at hl ⊢; omega
  | (p1, b1, .done) =>
    have h3 := pollReady_done_below hwm p buf p1 b1 hq hpos
    have h2 := flushBuf_len p1 (b1 ++ enc)
    rw [List.length_append] at h2
    show (flushBuf p1 (b1 ++ enc)).2.1.length < hwm + B
    omega

/-- **No loss**: a subscriber whose connection accepts every write misses nothing and holds
nothing back. -/
theorem C12_no_loss (hwm : Nat) (hpos : 0 < hwm) (p : WPipe) (enc : Bytes)
    (hc : p.credit = none) (he : p.wrerr = false) :
    trySend hwm p [] enc = ({ p with wire := p.wire ++ enc }, [], .ok) := by
  have h1 : pollReady hwm p [] = (p, [], .done) := by simp [pollReady, hpos]
  simp only [trySend, h1, List.nil_append]
  unfold flushBuf
  by_cases hem : enc.isEmpty
  · simp [hem]
    have : enc = [] := by simpa using hem
    simp [this]
  · simp [hem, he, hc]

/-- **Resume**: after a stall, new credit continues the stream exactly where it stopped. -/
theorem C12_resume (p : WPipe) (buf : Bytes) (c : Nat) :
    let p' := { p with credit := some c }
    (flushBuf p' buf).1.wire ++ (flushBuf p' buf).2.1 = p.wire ++ buf :=
  flushBuf_stream _ _

/-- **Independent**: publishing to one subscriber touches no other subscriber's pipe. -/
theorem C12_independent (ps : Pipes) (wr : Wr) (enc : Bytes) (j : Nat) (hj : j ≠ wr.pipe) :
    getPipe (wrTrySend ps wr enc).1 j = getPipe ps j := by
  simp only [wrTrySend]
  exact getPipe_setPipe_other _ _ _ _ hj

/-- **Dropped whole**: when the buffer is at the mark and the pipe is stalled, the message is
dropped (`BufferFull`) and neither wire nor buffer changes. -/
theorem C12_drop_whole (hwm : Nat) (p : WPipe) (buf enc : Bytes)
    (hfull : hwm ≤ buf.length) (hstall : p.credit = some 0) (he : p.wrerr = false) :
    trySend hwm p buf enc = (p, buf, .bufferFull) := by
  have : pollReady hwm p buf = (p, buf, .pending) := by
    unfold pollReady
    have h1 : ¬ buf.length < hwm := by omega
    simp [h1, he, hstall]
    cases p; simp_all
  simp [trySend, this]

/-- non-vacuity -/
example : trySend 4 { credit := some 0 } [1, 2, 3, 4] [9, 9] = ({ credit := some 0 }, [1, 2, 3, 4], .bufferFull) := by
  decide
example : trySend 4 { credit := some 3 } [1, 2] [9, 9] = ({ wire := [1, 2, 9], credit := some 0 }, [9], .ok) := by
  decide

/-- **Publishing never waits** (socket level): in the World model a `send` on a PUB socket completes
in its FIRST poll whatever the state of every subscriber's connection — stalled, full, broken —
and whatever the message: the result is never `Pending`. -/
theorem C12_publish_never_waits (w : World) (sid : Nat) (m : Msg) :
    (pubSend w sid m).2 ≠ .pending := by
  unfold pubSend
  split
  · simp
  · simp

/-! ### socket level: one publish, subscriber by subscriber -/

/-- **One publish as the subscriber's connection sees it.**  `pubSend` is the loop `pubStep` over the subscriber table
followed by forgetting the subscribers whose pipe is broken (`pubSend_fold`, by `rfl`); that last phase changes no
connection's write side (`pubSend_wOf`).  For a subscriber `(k, wr)` at ANY position of the table whose connection is
shared with no other subscriber: after the loop it is still in the table, on the same connection, and its outgoing
stream (wire ++ write buffer) is the old one followed by the WHOLE encoding — iff one of its subscriptions is a prefix
of the topic (C11) AND `try_send` accepted the message (not at the high-water mark, no write error) — or by nothing at
all: never a part, never twice, whatever the OTHER subscribers do (stalled, full, broken).  Hence, by induction over
the publishes, what reaches a subscriber is a concatenation of complete encodings of an order-preserving subsequence of
the matching messages. -/
theorem C12_world_publish_subscriber (s : Socket) (topic enc : Bytes) (pre post : List (Ident × Wr)) (k : Ident) (wr : Wr)
    (acc : Pipes × List (Ident × Wr) × List Ident)
    (hpre : ∀ e ∈ pre, e.2.pipe ≠ wr.pipe) (hpost : ∀ e ∈ post, e.2.pipe ≠ wr.pipe) :
    let r := (pre ++ (k, wr) :: post).foldl (pubStep s topic enc) acc
    ∃ wr', (k, wr') ∈ r.2.1 ∧ wr'.pipe = wr.pipe ∧
      outOf r.1 wr' = outOf acc.1 wr ++
        (if hit ((ilookup s.subsOf k).getD []) topic ∧ (wrTrySend acc.1 wr enc).2.2 = .ok then enc else []) :=
  pubFold_sub s topic enc pre post k wr acc hpre hpost

/-- `PubSocket::send` / `XPubSocket::send` IS that loop (definitional) … -/
theorem C12_world_publish_is_the_loop (w : World) (sid : Nat) (m : Msg) (s : Socket) (hs : getSock w sid = some s) :
    pubSend w sid m =
      (let r := s.peers.foldl (pubStep s (m.headD []) (encodeMsg m)) (w.pipes, [], [])
       let s1 := { s with peers := r.2.1 }
       let q := r.2.2.foldl (fun (acc : Pipes × Socket) k => peerDisconnected acc.1 acc.2 k) (r.1, s1)
       (setSock { w with pipes := q.1 } sid q.2, .ready .okUnit)) :=
  pubSend_fold w sid m s hs

/-- … whose clean-up phase touches no write side -/
theorem C12_world_publish_cleanup (w : World) (sid : Nat) (m : Msg) (s : Socket) (hs : getSock w sid = some s) (j : Nat) :
    wOf (pubSend w sid m).1.pipes j =
      wOf (s.peers.foldl (pubStep s (m.headD []) (encodeMsg m)) (w.pipes, [], [])).1 j :=
  pubSend_wOf w sid m s hs j

end Zmq.C12
