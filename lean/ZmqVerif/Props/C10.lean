import ZmqVerif.Lemmas.WorldMaps
import ZmqVerif.Lemmas.WorldSendStart
import ZmqVerif.Lemmas.WorldSend
import ZmqVerif.Lemmas.WorldRotation
/-!
# C10 — round-robin senders deliver each message to exactly one peer, in rotation

`rrNext` (`Model.Sockets`) is the pop-front/push-back of `send_round_robin` when every queued
identity is live; `sendRRPoll` (`Model.World`) is the whole of `send_round_robin` for PUSH and
DEALER, including vanished peers and partial writes.
-/
namespace Zmq.C10
open Zmq Zmq.W

/-- `k` consecutive successful sends: the peers hit, in order, and the queue afterwards -/
def sendMany {α} : Nat → List α → List α × List α
  | 0, q => ([], q)
  | k+1, q =>
    match rrNext q with
    | none => ([], q)
    | some (x, q') => let r := sendMany k q'; (x :: r.1, r.2)

theorem sendMany_prefix {α} (a b : List α) : sendMany a.length (a ++ b) = (a, b ++ a) := by
  induction a generalizing b with
  | nil => simp [sendMany]
  | cons x a ih =>
    simp only [List.length_cons, sendMany, List.cons_append, rrNext]
    have := ih (b ++ [x])
    rw [← List.append_assoc] at this
    rw [this]; simp

/-- **Strict rotation**: with a stable set of `n` peers, `n` consecutive successful sends reach
every peer exactly once, in queue order, and restore the queue … -/
theorem C10_full_round {α} (q : List α) : sendMany q.length q = (q, q) := by
  have := sendMany_prefix q []; simpa using this

/-- … hence `n` different peers when the queue is a duplicate-free enumeration of them. -/
theorem C10_rotation_distinct {α} (q : List α) (h : q.Nodup) : (sendMany q.length q).1.Nodup := by
  rw [C10_full_round]; exact h

/-- A send keeps the queue a permutation of itself; a peer that joins is appended and so
enters the rotation behind the current members. -/
theorem C10_rotation_perm {α} {q q' : List α} {x : α} (h : rrNext q = some (x, q')) : q'.Perm q := by
  cases q with
  | nil => simp [rrNext] at h
  | cons y ys =>
    simp [rrNext] at h; obtain ⟨rfl, rfl⟩ := h
    exact List.perm_append_singleton _ _

/-- **No peer**: with an empty rotation the send fails, hands the message back intact and the
whole world (every wire) is unchanged. -/
theorem C10_empty (w : World) (sid : Nat) (s : Socket) (m : Msg) (fuel : Nat)
    (hs : getSock w sid = some s) (hr : s.rr = []) :
    sendRRPoll (fuel + 1) w sid m none = (w, .done, .ready (.errReturn m)) := by
  simp [sendRRPoll, hs, hr]

/-- **Exactly one peer, fully written**: a round-robin write that completes touched no pipe but
the chosen peer's, and left that peer's buffer empty (the message is on the wire in full). -/
theorem C10_one_peer (w : World) (sid : Nat) (s : Socket) (m : Msg) (k : Ident) (st : SendSt) (wr : Wr)
    (fuel : Nat) (hs : getSock w sid = some s) (hp : ilookup s.peers k = some wr)
    (w' : World) (f' : FutSt) (hdone : sendRRPoll (fuel + 1) w sid m (some (k, st)) = (w', f', .ready .okUnit)) :
    (∀ j, j ≠ wr.pipe → getPipe w'.pipes j = getPipe w.pipes j) ∧
    (∃ s' wr', getSock w' sid = some s' ∧ ilookup s'.peers k = some wr' ∧ wr'.buf = [] ∧
       s'.rr = s.rr ++ [k]) := by
  simp only [sendRRPoll, hs, hp] at hdone
  have hframe := fun j hj => wrSendPoll_frame w.pipes wr st j hj
  have hflush : ∀ ps wr' st' , wrSendPoll w.pipes wr st = (ps, wr', st', .done) → wr'.buf = [] := by
    intro ps wr' st' h
    simp only [wrSendPoll, sendPoll] at h
    cases st with
    | feeding enc =>
      simp only at h
      match hq : pollReady hwmDefault (getPipe w.pipes wr.pipe).w wr.buf with
      | (p1, b1, .pending) => rw [hq] at h; simp at h
      | (p1, b1, .error) => rw [hq] at h; simp at h
      | (p1, b1, .done) =>
        rw [hq] at h
        simp only at h
        unfold flushBuf at h
        split at h
        · simp at h; obtain ⟨_, rfl, _⟩ := h; simp_all
        · split at h
          · simp at h
          · split at h
            · simp at h; obtain ⟨_, rfl, _⟩ := h; rfl
            · simp only [] at h; split at h
              · simp at h; obtain ⟨_, rfl, _⟩ := h; rfl
              · simp at h
    | flushing =>
      simp only at h
      unfold flushBuf at h
      split at h
      · simp at h; obtain ⟨_, rfl, _⟩ := h; simp_all
      · split at h
        · simp at h
        · split at h
          · simp at h; obtain ⟨_, rfl, _⟩ := h; rfl
          · simp only [] at h; split at h
            · simp at h; obtain ⟨_, rfl, _⟩ := h; rfl
            · simp at h
  generalize hq : wrSendPoll w.pipes wr st = q at hdone hframe hflush
  obtain ⟨ps, wr', st', r⟩ := q
  simp only at hdone hframe
  cases r with
  | pending => simp at hdone
  | error =>
    simp only at hdone
    generalize peerDisconnected ps { s with peers := iinsert s.peers k wr' } k = pd at hdone
    obtain ⟨a, b⟩ := pd
    simp at hdone
  | done =>
    simp at hdone
    obtain ⟨rfl, _⟩ := hdone
    refine ⟨fun j hj => by simpa [setSock] using hframe j hj, ?_⟩
    refine ⟨_, wr', getSock_setSock_same _ _ _, ilookup_iinsert_same _ _ _, hflush ps wr' st' rfl, rfl⟩

/-- non-vacuity: three peers, three sends, three different targets, queue restored -/
example : sendMany 3 [1, 2, 3] = ([1, 2, 3], [1, 2, 3]) := by decide

/-! ### "has written the COMPLETE message to exactly one peer by the time it returns" — over all polls of the send -/

/-- `SendInv w sid k p base enc st`: the invariant of a send in progress to peer `k` (pipe `p`) — beyond `base` (where
the connection's outgoing stream stood when the send began) the connection has been handed nothing yet, or the WHOLE
encoding, never a part and never twice.  It holds when the send starts … -/
theorem C10_world_send_start (w : World) (sid : Nat) (s : Socket) (k : Ident) (wr : Wr) (enc : Bytes)
    (hs : getSock w sid = some s) (hp : ilookup s.peers k = some wr) :
    SendInv w sid k wr.pipe (outOf w.pipes wr) enc (.feeding enc) :=
  SendInv.start w sid s k wr enc hs hp

/-- … every `Pending` poll of a round-robin send (PUSH, DEALER) keeps it, and `Ready(Ok)` means: the chosen
connection's wire is EXACTLY `base` followed by the complete encoding — under any back-pressure, over any number
of polls — while no other connection's write side is touched (also when the write fails and the peer is forgotten) … -/
theorem C10_world_rr_poll (fuel : Nat) (w : World) (sid : Nat) (m : Msg) (k : Ident) (p : Nat) (base enc : Bytes) (st : SendSt)
    (hinv : SendInv w sid k p base enc st) (w' : World) (f' : FutSt) (o : POut)
    (h : sendRRPoll (fuel + 1) w sid m (some (k, st)) = (w', f', o)) :
    (∀ j, j ≠ p → wOf w'.pipes j = wOf w.pipes j) ∧
    (match (generalizing := false) f', o with
     | .sendRR _ _ (some (k', st')), .pending => k' = k ∧ SendInv w' sid k p base enc st'
     | _, .ready .okUnit => (wOf w'.pipes p).wire = base ++ enc
     | _, .ready (.err _) => True
     | _, _ => False) :=
  sendRRPoll_spec fuel w sid m k p base enc st hinv w' f' o h

/-- … the same for the sends that write to a peer chosen by the protocol (REQ's rotation, REP's requester, ROUTER's
addressee) … -/
theorem C10_world_to_poll (w : World) (sid : Nat) (k : Ident) (p : Nat) (base enc : Bytes) (st : SendSt) (sc : Bool)
    (hinv : SendInv w sid k p base enc st) (w' : World) (f' : FutSt) (o : POut)
    (h : sendToPoll w sid k st sc = (w', f', o)) :
    (∀ j, j ≠ p → wOf w'.pipes j = wOf w.pipes j) ∧
    (match (generalizing := false) f', o with
     | .sendTo _ k' st' _, .pending => k' = k ∧ SendInv w' sid k p base enc st'
     | _, .ready .okUnit => (wOf w'.pipes p).wire = base ++ enc
     | _, .ready (.err _) => True
     | _, _ => False) :=
  sendToPoll_spec w sid k p base enc st sc hinv w' f' o h

/-- … and between two polls the environment may change the pipe's write credit or make its writes fail: what has been
handed to the connection stays handed. -/
theorem C10_world_send_env {w : World} {sid : Nat} {k : Ident} {p : Nat} {base enc : Bytes} {st : SendSt}
    (h : SendInv w sid k p base enc st) (w' : World) (hs : getSock w' sid = getSock w sid)
    (hw : (wOf w'.pipes p).wire = (wOf w.pipes p).wire) : SendInv w' sid k p base enc st :=
  h.env w' hs hw

/-- **`send_round_robin` (PUSH, DEALER), first poll, against the wires**: entries of vanished peers are skipped; with no
live peer the message is handed back intact and NOTHING is written; otherwise exactly one registered peer is chosen
and the send is in progress to it with the encoding of the message, unchanged. -/
theorem C10_world_rr_start (fuel : Nat) (w : World) (sid : Nat) (m : Msg) (s : Socket) (hs : getSock w sid = some s)
    (w' : World) (f' : FutSt) (o : POut) (h : sendRRPoll fuel w sid m none = (w', f', o)) :
    match (generalizing := false) f', o with
    | .sendRR _ _ (some (k, st)), .pending =>
        ∃ wr, ilookup s.peers k = some wr ∧
          SendInv w' sid k wr.pipe (outOf w.pipes wr) (encodeMsg m) st ∧
          ∀ j, j ≠ wr.pipe → wOf w'.pipes j = wOf w.pipes j
    | _, .ready .okUnit =>
        ∃ k wr, ilookup s.peers k = some wr ∧
          (wOf w'.pipes wr.pipe).wire = outOf w.pipes wr ++ encodeMsg m ∧
          ∀ j, j ≠ wr.pipe → wOf w'.pipes j = wOf w.pipes j
    | _, .ready (.errReturn m') => m' = m ∧ ∀ j, wOf w'.pipes j = wOf w.pipes j
    | _, .ready (.err _) => True
    | _, _ => False :=
  sendRRStart_spec fuel w sid m s hs w' f' o h


/-! ### strict rotation, against the socket's rotation queue -/

/-- **Who is chosen** by the first poll of a round-robin send (`FirstLive s k rest`: `k` is the first entry of the
rotation queue whose peer is still registered; what precedes it has vanished and is dropped, what follows it — `rest` —
stays in order): still writing ⇒ the future writes to `k` and the queue holds `rest`; done ⇒ the queue is `rest` with `k`
appended; the message is handed back only if NO entry is registered. -/
theorem C10_world_rr_choice (fuel : Nat) (w : World) (sid : Nat) (m : Msg) (s : Socket) (hs : getSock w sid = some s)
    (w' : World) (f' : FutSt) (o : POut) (h : sendRRPoll fuel w sid m none = (w', f', o)) :
    (o = .pending → ∃ k st' rest, f' = .sendRR sid m (some (k, st')) ∧ FirstLive s k rest ∧
        ∃ s', getSock w' sid = some s' ∧ s'.rr = rest) ∧
    (o = .ready .okUnit → ∃ k rest, FirstLive s k rest ∧ ∃ s', getSock w' sid = some s' ∧ s'.rr = rest ++ [k]) ∧
    (∀ m', o = .ready (.errReturn m') → ∀ j ∈ s.rr, ilookup s.peers j = none) :=
  sendRRStart_choice fuel w sid m s hs w' f' o h

/-- … the later polls of that send leave the queue alone while `Pending` and append the chosen peer when the send
completes (so a peer is never in the queue twice, and is out of it exactly while a message is being written to it) -/
theorem C10_world_rr_later_polls (fuel : Nat) (w : World) (sid : Nat) (m : Msg) (k : Ident) (st : SendSt) (s : Socket)
    (hs : getSock w sid = some s) (w' : World) (f' : FutSt) (o : POut)
    (h : sendRRPoll (fuel + 1) w sid m (some (k, st)) = (w', f', o)) :
    (o = .pending → (∃ st', f' = .sendRR sid m (some (k, st'))) ∧ ∃ s', getSock w' sid = some s' ∧ s'.rr = s.rr) ∧
    (o = .ready .okUnit → ∃ s', getSock w' sid = some s' ∧ s'.rr = s.rr ++ [k]) ∧
    (∀ m', o ≠ .ready (.errReturn m')) :=
  sendRRPoll_some_rr fuel w sid m k st s hs w' f' o h

/-- **One send = one step of the rotation** (`rrNext`, about which `C10_full_round` / `_rotation_distinct` speak): with
every entry of the queue registered, a send that completes at once has written the WHOLE encoding to the connection of
the queue's HEAD, to no other connection, and the queue afterwards is `rrNext` of the queue before. -/
theorem C10_world_strict_rotation (fuel : Nat) (w : World) (sid : Nat) (m : Msg) (s : Socket) (hs : getSock w sid = some s)
    (hlive : ∀ j ∈ s.rr, (ilookup s.peers j).isSome)
    (w' : World) (f' : FutSt) (h : sendRRPoll fuel w sid m none = (w', f', .ready .okUnit)) :
    ∃ k wr s', ilookup s.peers k = some wr ∧ getSock w' sid = some s' ∧ rrNext s.rr = some (k, s'.rr) ∧
      (wOf w'.pipes wr.pipe).wire = outOf w.pipes wr ++ encodeMsg m ∧
      ∀ j, j ≠ wr.pipe → wOf w'.pipes j = wOf w.pipes j := by
  obtain ⟨k, rest, wr, ⟨stale, h1, h2, _⟩, h4, h5, h6, s', h7, h8⟩ := sendRRStart_done_who fuel w sid m s hs w' f' h
  have hst : stale = [] := by
    cases stale with
    | nil => rfl
    | cons j js =>
      have := hlive j (by rw [h1]; simp)
      rw [h2 j (by simp)] at this
      cases this
  subst hst
  refine ⟨k, wr, s', h4, h7, ?_, h5, h6⟩
  simp only [List.nil_append] at h1
  rw [h1, h8]; rfl

end Zmq.C10
