import ZmqVerif.Lemmas.NoPanic
import ZmqVerif.Lemmas.WorldSendStart
import ZmqVerif.Lemmas.Retained
import ZmqVerif.Lemmas.Segment
import ZmqVerif.Model.Tables
import ZmqVerif.Lemmas.Decode
/-!
# C03 — bytes from a peer can never crash the process or force unbounded allocation

The decoder model (`Model.Decoder`) is written with the abort conditions of the `bytes`
primitives it calls (`src[0]`, `get_u8`, `get_u32`, `get_u64`, `split_to`, slicing), so the
theorems below are statements about the *guards in the code*.  What the model cannot
exhibit — the real allocator, the real stack — is observed by the `hostile` correspondence
(child process, counting allocator, small-stack thread); see DESIGN.md §5 C03.
-/
namespace Zmq.C03
open Zmq

/-- No byte string, in any decoder state, makes `decode` reach a panic site. -/
theorem C03_decode_no_panic (d : Dec) (buf : Bytes) : (run d buf).panic = none :=
  run_no_panic d buf

/-- The command and greeting parsers are total on arbitrary bodies. -/
theorem C03_parsers_no_panic (body : Bytes) :
    (parseCommand body).isPanic = false ∧ (parseGreeting body).isPanic = false ∧
    (parseMechanism body).isPanic = false :=
  ⟨parseCommand_no_panic body, parseGreeting_no_panic body, parseMechanism_no_panic body⟩

/-- Whatever a peer sends from the first byte of the connection on, in whatever segmentation,
the connection's read side never panics: it yields items, waits, or fails with an error. -/
theorem C03_stream_no_panic (chunks : List Bytes) : (Conn.init.feedAll chunks).2.panic = none := by
  have hq : Conn.init.Quiescent := by right; simp [Conn.init, Dec.init, DState.need]
  suffices h : ∀ (c : Conn), c.panic = none → (c.feedAll chunks).2.panic = none from h _ rfl
  induction chunks with
  | nil => intro c hc; simpa [Conn.feedAll] using hc
  | cons ch chs ih =>
    intro c hc
    simp only [Conn.feedAll]
    apply ih
    unfold Conn.feed
    split
    · exact hc
    · exact run_no_panic _ _

/-- Memory held for a connection's inbound side (read buffer + partially assembled message)
never exceeds the number of bytes actually received on it. -/
theorem C03_retained_linear (chunks : List Bytes) :
    (Conn.init.feedAll chunks).2.retained ≤ chunks.flatten.length := by
  have := Conn.feedAll_retained Conn.init chunks
  simpa [Conn.init, Conn.retained, Dec.init, Dec.held] using this

/-- A declared frame length by itself reserves nothing: after a frame header announcing `n`
bytes (any `n`, up to 2^64-1) the connection holds at most the header's own 9 bytes. -/
theorem C03_declared_length_reserves_nothing (c : Conn) (more : Bool) (n : Nat) :
    (c.feed (frameHeader more n)).2.retained ≤ c.retained + 9 := by
  have := Conn.feed_retained c (frameHeader more n)
  have hl : (frameHeader more n).length ≤ 9 := by
    unfold frameHeader; split <;> simp [be_length]
  omega

/-- `SocketType::compatible` answers (does not panic) for every one of the 144 ordered pairs
of socket types — decided over the table REGENERATED from the real code on every run. -/
theorem C03_compat_total : ∀ a ∈ SockType.all, ∀ b ∈ SockType.all, compatible a b ≠ none := by
  decide

/-- non-vacuity: a header announcing 2^64-1 bytes is accepted by the model, which then simply
waits, holding nothing -/
example : decode Dec.framing [2, 255, 255, 255, 255, 255, 255, 255, 255]
    = .none ⟨.body ⟨false, true, false⟩ 18446744073709551615, []⟩ [] := by
  rw [Dec.framing, decode_header, decode_len_long _ (by decide) _ _ (by decide), decode.eq_1]
  decide

/-- **No frame count a peer can choose makes `RouterSocket::send` panic** (fix D19: `proxy()` hands this socket
whatever a peer of the other socket sent — a worker's single-frame message used to hit `assert!(message.len() > 1)`
and take the process down): for EVERY message the call ends as `Pending`, `Ok` or an error. -/
theorem C03_router_send_no_panic (w : Zmq.W.World) (sid : Nat) (m : Zmq.Msg) :
    (Zmq.W.routerSendStart w sid m).2.2 ≠ .ready .panic := by
  unfold Zmq.W.routerSendStart
  split
  · simp
  · cases m with
    | nil => rename_i h; simp at h
    | cons t rest =>
      simp only [Zmq.routerOut]
      split
      · simp
      · split
        · simp
        · cases hs : Zmq.W.getSock w sid with
          | none => simp
          | some s =>
            simp only
            split
            · rcases Zmq.W.sendToPoll_shape w sid t (.feeding (Zmq.encodeMsg rest)) false with ⟨st', h⟩ | h | ⟨e, h⟩ <;>
                simp [h]
            · simp

end Zmq.C03
