import ZmqVerif.Model.Sockets
import ZmqVerif.Lemmas.WorldResub
import ZmqVerif.Lemmas.WorldSubOp
/-!
# C13 — a SUB socket's subscriptions reach every peer, including late joiners

Pure model of what a SUB socket tells its peers, built from the functions `Model.World`
runs (`subAdd`, `subDel`, `subsMsg`) and read back with the publisher's semantics of C11
(`onMsg`): `told w t` = how many active subscriptions for `t` a publisher holds after
processing the subscription messages `w` it was sent.

Joins are modelled both **atomic** (`join`) and **split** (`joinSnapshot` … `joinRegister`):
the real `peer_connected` reads the subscription set, then sends, then registers the peer,
and a `subscribe` can land in between (when the new connection stalls, or on another
thread).  The atomic theorem is proved; for the split join the negation is proved on a
concrete history (`C13_race_witness`) — a recorded finding, see DESIGN.md §6 D10.
-/
namespace Zmq.C13
open Zmq

structure St where
  /-- the socket's subscription set (duplicate-free list) -/
  subs : List Bytes := []
  /-- per registered peer: the subscription messages written to it, in order -/
  wires : List (List Msg) := []

def subscribe (s : St) (t : Bytes) : St :=
  let (subs, changed) := subAdd s.subs t
  if changed then { subs := subs, wires := s.wires.map (· ++ [subsMsg true t]) } else s

def unsubscribe (s : St) (t : Bytes) : St :=
  let (subs, changed) := subDel s.subs t
  if changed then { subs := subs, wires := s.wires.map (· ++ [subsMsg false t]) } else s

/-- atomic join: the new peer is told the current set and registered in one step -/
def join (s : St) : St := { s with wires := s.wires ++ [s.subs.map (subsMsg true)] }

/-- what a publisher concludes from the messages it was sent -/
def told (w : List Msg) (t : Bytes) : Nat := (w.foldl onMsg []).count t

inductive Op | sub (t : Bytes) | unsub (t : Bytes) | join

def step (s : St) : Op → St
  | .sub t => subscribe s t
  | .unsub t => unsubscribe s t
  | .join => join s

/-- every peer has been told exactly the current set -/
def Agrees (s : St) : Prop :=
  s.subs.Nodup ∧ ∀ w ∈ s.wires, w.foldl onMsg [] = s.subs

theorem fold_sub_msgs (l acc : List Bytes) :
    (l.map (subsMsg true)).foldl onMsg acc = acc ++ l := by
  induction l generalizing acc with
  | nil => simp
  | cons t r ih => simp [subsMsg, onMsg, onData, ih]

theorem step_agrees (s : St) (op : Op) (h : Agrees s) : Agrees (step s op) := by
  obtain ⟨hnd, hw⟩ := h
  cases op with
  | sub t =>
    simp only [step, subscribe, subAdd]
    by_cases hm : t ∈ s.subs
    · simp [hm]; exact ⟨hnd, hw⟩
    · simp only [hm, ↓reduceIte]
      refine ⟨?_, ?_⟩
      · rw [List.nodup_append]
        refine ⟨hnd, by simp, ?_⟩
        intro a ha b hb
        simp at hb; subst hb
        intro e; subst e; exact hm ha
      · intro w hw'
        simp only [List.mem_map] at hw'
        obtain ⟨w0, hw0, rfl⟩ := hw'
        rw [List.foldl_append, hw w0 hw0]
        simp [subsMsg, onMsg, onData]
  | unsub t =>
    simp only [step, unsubscribe, subDel]
    by_cases hm : t ∈ s.subs
    · simp only [hm, ↓reduceIte]
      refine ⟨hnd.erase t, ?_⟩
      intro w hw'
      simp only [List.mem_map] at hw'
      obtain ⟨w0, hw0, rfl⟩ := hw'
      rw [List.foldl_append, hw w0 hw0]
      simp [subsMsg, onMsg, onData]
    · simp [hm]; exact ⟨hnd, hw⟩
  | join =>
    simp only [step, join]
    refine ⟨hnd, ?_⟩
    intro w hw'
    simp only [List.mem_append, List.mem_singleton] at hw'
    rcases hw' with h1 | rfl
    · exact hw w h1
    · simpa using fold_sub_msgs s.subs []

/-- **Invariant (atomic joins)**: after ANY history of subscribe / unsubscribe (repeated,
never-subscribed topics included) and joins at any point, every peer — early or late — has
been told exactly the current subscription set, and all peers agree. -/
theorem C13_inv_atomic (ops : List Op) : Agrees (ops.foldl step {}) := by
  suffices h : ∀ s, Agrees s → Agrees (ops.foldl step s) from h _ ⟨List.nodup_nil, by simp⟩
  induction ops with
  | nil => intro s h; exact h
  | cons op r ih => intro s h; exact ih _ (step_agrees s op h)

/-- … in the terms of the statement: a topic is subscribed at a peer iff it is in the set. -/
theorem C13_told_iff (ops : List Op) (w : List Msg) (hw : w ∈ (ops.foldl step {}).wires) (t : Bytes) :
    told w t > 0 ↔ t ∈ (ops.foldl step {}).subs := by
  obtain ⟨_, h⟩ := C13_inv_atomic ops
  simp [told, h w hw, List.count_pos_iff]

/-- A failing peer is simply one wire that is not extended: the update of every other peer is
computed independently of it (`List.map`), so it cannot prevent them from being updated. -/
theorem C13_failure_isolated (s : St) (t : Bytes) (hn : t ∉ s.subs) (i : Nat) (w : List Msg)
    (hw : s.wires[i]? = some w) : (subscribe s t).wires[i]? = some (w ++ [subsMsg true t]) := by
  simp [subscribe, subAdd, hn, hw]

/-! ### the split join (what the code does when the new connection stalls mid-join) -/

/-- first half: read the subscription set -/
def joinSnapshot (s : St) : List Bytes := s.subs
/-- second half: tell the new peer the SNAPSHOT and register it -/
def joinRegister (s : St) (snap : List Bytes) : St :=
  { s with wires := s.wires ++ [snap.map (subsMsg true)] }

/-- **Race witness**: `subscribe a; snapshot; subscribe b; register` — the late joiner was never
told `b` although `b` is in the socket's subscription set.  The full property (which also
quantifies over joins concurrent with the call) is FALSE of the code; recorded as a finding. -/
theorem C13_race_witness :
    let s1 := subscribe {} [97]
    let snap := joinSnapshot s1
    let s2 := subscribe s1 [98]
    let s3 := joinRegister s2 snap
    [98] ∈ s3.subs ∧ ∃ w ∈ s3.wires, told w [98] = 0 := by decide

/-- **Partial**: the invariant holds for all histories in which no subscribe/unsubscribe lands
inside a join window — i.e. the register half uses an up-to-date snapshot. -/
theorem C13_inv_partial (s : St) (h : Agrees s) : Agrees (joinRegister s (joinSnapshot s)) :=
  step_agrees s .join h

/-- non-vacuity: `sub a; sub a; unsub a` with an early peer leaves nobody subscribed -/
example : (([Op.join, .sub [97], .sub [97], .unsub [97], .join].foldl step {}).wires.map
    (fun w => told w [97])) = [0, 0] := by decide

/-! ### socket level: the walk over the peers, seen from one peer's connection -/

open Zmq.W in
/-- **One poll of `subscribe` / `unsubscribe`, seen from ONE registered peer** (`SubInv`: beyond `base` the peer's
connection has been handed nothing while it is still to be told, what the `send` in progress has handed over while it
is being told, and — once it has been dealt with — the COMPLETE announcement unless a write failed).  Kept by every
poll, however many peers the call gets through in it and whatever the OTHER peers' connections do (back-pressure,
write errors, peers that vanished); when the call completes without error, this peer's outgoing stream is `base`
followed by the complete announcement — exactly once, whole.  Needs only that the peer shares its connection with no
other peer and that the table's keys are distinct (`C13_world_subop_start`). -/
theorem C13_world_subop_poll (fuel : Nat) (w : World) (sid : Nat) (isSub : Bool) (topic : Bytes) (k : Ident) (p : Nat) (base : Bytes)
    (todo : List Ident) (cur : Option (Ident × SendSt)) (failed : Bool)
    (hinv : SubInv w sid k p base (encodeMsg (subsMsg isSub topic)) todo cur failed)
    (w' : World) (f' : FutSt) (o : POut)
    (h : subOpPoll fuel w sid isSub topic true todo cur failed = (w', f', o)) :
    match (generalizing := false) f', o with
    | .subOp _ _ _ _ todo' cur' failed', .pending =>
        SubInv w' sid k p base (encodeMsg (subsMsg isSub topic)) todo' cur' failed'
    | _, .ready .okUnit => ∃ s' wr', getSock w' sid = some s' ∧ ilookup s'.peers k = some wr' ∧ wr'.pipe = p ∧
        outOf w'.pipes wr' = base ++ encodeMsg (subsMsg isSub topic)
    | _, .ready (.err _) => True
    | _, _ => False :=
  subOpPoll_spec fuel w sid isSub topic k p base todo cur failed hinv w' f' o h

open Zmq.W in
/-- the invariant holds when the walk starts (the set has just changed): every registered peer is still to be told -/
theorem C13_world_subop_start (w : World) (sid : Nat) (s : Socket) (k : Ident) (wr : Wr) (enc : Bytes) (subs' : List Bytes)
    (hk : ilookup s.peers k = some wr)
    (hdist : ∀ j wr2, j ≠ k → ilookup s.peers j = some wr2 → wr2.pipe ≠ wr.pipe)
    (hnd : (s.peers.map (·.1)).Nodup) :
    SubInv (setSock w sid { s with subs := subs' }) sid k wr.pipe (outOf w.pipes wr) enc (s.peers.map (·.1)) none false :=
  SubInv.start w sid s k wr enc subs' hk hdist hnd


/-! ### socket level: a late joiner is told the whole snapshot, then registered -/

open Zmq.W in
/-- **"Peers that connect or are accepted afterwards receive all subscriptions active at that time."**  The last stage of
a SUB socket's handshake future announces the snapshot `todo` of the subscription set to the new connection — a full
`send` per topic, resumable under any back-pressure — and only then registers the peer.  For EVERY poll of that stage:
`Pending` keeps the books (what is owed beyond the new base is what was owed minus what has been handed over: nothing
skipped, nothing repeated); completion is `Ok(ident)` and either the socket is untouched (the connection failed during
the announcement or the socket is gone: the joiner is dropped UNREGISTERED — it can never be a peer that was told only
part of the set) or the joiner is registered under `ident` with an empty write buffer and its connection carries `base`
followed by one announcement per topic of the snapshot, in order, each whole, each once.  (What this does NOT give is
atomicity against a subscribe/unsubscribe that runs between snapshot and registration: finding D10, `C13_race_witness`.) -/
theorem C13_world_late_joiner (fuel : Nat) (w : World) (sid pid : Nat) (ident : Ident) (todo : List Bytes)
    (cur : Option SendSt) (rd : Rd) (wr : Wr) (base enc : Bytes) (hat : ResubAt w.pipes wr base enc cur)
    (w' : World) (f' : FutSt) (o : POut)
    (h : attachPoll fuel w sid pid (.resub ident todo cur) rd wr = (w', f', o)) :
    (o = .pending → ∃ todo' cur' wr' base' enc', f' = .attach sid pid (.resub ident todo' cur') rd wr' ∧
        wr'.pipe = wr.pipe ∧ ResubAt w'.pipes wr' base' enc' cur' ∧
        base' ++ owed enc' cur' todo' = base ++ owed enc cur todo) ∧
    (∀ v, o = .ready v → (v = .okId ident ∨ ∃ e, v = .err e) ∧
        (getSock w' sid = getSock w sid ∨
         ∃ s' wr', getSock w' sid = some s' ∧ ilookup s'.peers ident = some wr' ∧ wr'.pipe = wr.pipe ∧ wr'.buf = [] ∧
           (wOf w'.pipes wr.pipe).wire = base ++ owed enc cur todo)) :=
  attachPoll_resub_spec fuel w sid pid ident todo cur rd wr base enc hat w' f' o h

open Zmq.W in
/-- non-vacuity: at the start of the stage (nothing in progress, the READY flushed) the premise is just "the outgoing
stream is `base`", and what is owed is one announcement per topic -/
example (ps : Pipes) (wr : Wr) (hb : wr.buf = []) :
    ResubAt ps wr (outOf ps wr) [] none ∧ owed [] none [[97], [98]] = encodeMsg (subsMsg true [97]) ++ encodeMsg (subsMsg true [98]) := by
  refine ⟨⟨hb, rfl⟩, ?_⟩
  simp [owed]

open Zmq.W in
/-- **A peer that connects AFTERWARDS is told all subscriptions active at that time — end to end.**  A SUB socket (alive)
starts the handshake on a connection that takes every write at once, and the connection's byte stream begins with an
acceptable greeting and a READY admitted under `ident`.  Then ONE poll of the handshake future completes with
`Ok(ident)`, the peer is registered with an empty write buffer, and what its connection carries is exactly: the
socket's greeting, its READY, and ONE announcement per subscription in the socket's set at that moment, in order. -/
theorem C13_world_joiner_told_all (n : Nat) (w : World) (sid pid : Nat) (rd : Rd) (wr : Wr) (s : Socket) (encG : Bytes)
    (hs : getSock w sid = some s) (hsub : s.typ = .sub) (halive : s.dead = false)
    (hb : wr.buf = []) (hfree : Free w.pipes wr.pipe)
    (g : Greeting) (props : List (Bytes × Bytes)) (rest : List Item)
    (hitems : rd.items w.pipes = .greeting g :: .command props :: rest) (hv : vOk g)
    (ident : Ident) (fresh' : Nat) (hadm : admitPeer s.typ props w.fresh = .ok (ident, fresh')) :
    ∃ w' s' wr', attachPoll (n + 2 * s.subs.length + 5) w sid pid (.sendGreeting (.feeding encG)) rd wr
        = (w', .done, .ready (.okId ident)) ∧
      getSock w' sid = some s' ∧ ilookup s'.peers ident = some wr' ∧ wr'.pipe = wr.pipe ∧ wr'.buf = [] ∧
      (wOf w'.pipes wr.pipe).wire =
        (wOf w.pipes wr.pipe).wire ++ encG ++ encodeReady s.typ s.ident false ++ annc s.subs :=
  attachPoll_completes_sub n w sid pid rd wr s encG hs hsub halive hb hfree g props rest hitems hv ident fresh' hadm

end Zmq.C13
