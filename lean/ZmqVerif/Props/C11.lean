import ZmqVerif.Model.Sockets
import ZmqVerif.Lemmas.WorldHist
import ZmqVerif.Lemmas.WorldXpubSubs
import ZmqVerif.Spec.PubSub
import ZmqVerif.Lemmas.WorldPubReader
/-!
# C11 — PUB/XPUB deliver a message to a subscriber iff a subscription is a prefix

`onMsg`/`hit`/`copies` are the functions `Model.World` runs for `message_received` and for the
matching loop of `PubSocket::send` / `XPubSocket::send`; `SpecPS` is the multiset reading of
the property.
-/
namespace Zmq.C11
open Zmq

/-- abstraction: the code's list of subscriptions ↦ how often each topic occurs in it -/
def abs (subs : List Bytes) : SpecPS.Counts := fun t => subs.count t

/-- Refinement: processing any message from the subscriber (subscribe, unsubscribe, garbage,
empty, multi-frame) commutes with the abstraction — subscriptions are counted, each
unsubscribe cancels one equal subscribe, everything else changes nothing. -/
theorem C11_refines (subs : List Bytes) (frames : Msg) :
    abs (onMsg subs frames) = SpecPS.onMsg (abs subs) frames := by
  unfold onMsg SpecPS.onMsg
  match frames with
  | [] => rfl
  | [[]] => rfl
  | [b :: t] =>
    simp only [onData]
    by_cases h1 : b = 1
    · simp only [h1, ↓reduceIte]
      funext x
      by_cases hx : x = t
      · subst hx; simp [abs, List.count_append]
      · have : ¬ t = x := fun e => hx e.symm
        simp [abs, List.count_append, hx, this]
    · by_cases h0 : b = 0
      · simp only [h1, h0, ↓reduceIte]
        funext x
        by_cases hx : x = t
        · subst hx; simp [abs, List.count_erase_self]
        · simp [abs, hx, List.count_erase_of_ne hx]
      · simp only [h1, h0, ↓reduceIte]
  | _ :: _ :: _ => simp

/-- Delivery decision: a copy is written iff some topic with positive count is a byte-prefix
of the first frame (topic equal to the frame matches; topic longer than the frame does not). -/
theorem C11_deliver_iff (subs : List Bytes) (topic : Bytes) :
    copies subs topic = 1 ↔ SpecPS.Matches (abs subs) topic := by
  unfold copies hit abs SpecPS.Matches
  constructor
  · intro h
    split at h
    · rename_i hm
      rw [List.any_eq_true] at hm
      obtain ⟨s, hs, hp⟩ := hm
      exact ⟨s, List.count_pos_iff.2 hs, List.isPrefixOf_iff_prefix.1 hp⟩
    · simp at h
  · rintro ⟨t, hc, hp⟩
    have : subs.any (fun s => s.isPrefixOf topic) = true := by
      rw [List.any_eq_true]
      exact ⟨t, List.count_pos_iff.1 hc, List.isPrefixOf_iff_prefix.2 hp⟩
    simp [this]

/-- Exactly once even when several subscriptions match. -/
theorem C11_once (subs : List Bytes) (topic : Bytes) : copies subs topic ≤ 1 := by
  unfold copies; split <;> simp

/-- The empty subscription matches everything. -/
theorem C11_empty_matches_all (subs : List Bytes) (topic : Bytes) (h : [] ∈ subs) :
    copies subs topic = 1 := by
  rw [C11_deliver_iff]; exact ⟨[], List.count_pos_iff.2 h, List.nil_prefix⟩

/-- Malformed subscription messages change nothing: empty messages, multi-frame messages, an
empty frame, a first byte other than 0/1. -/
theorem C11_garbage_noop (subs : List Bytes) :
    onMsg subs [] = subs ∧ onMsg subs [[]] = subs ∧
    (∀ a b r, onMsg subs (a :: b :: r) = subs) ∧
    (∀ b t, b ≠ 0 → b ≠ 1 → onMsg subs [b :: t] = subs) := by
  refine ⟨rfl, rfl, fun _ _ _ => rfl, ?_⟩
  intro b t h0 h1
  simp [onMsg, onData, h0, h1]

/-- A whole history: the subscriptions after any list of messages from the subscriber are the
multiset the Spec computes. -/
theorem C11_history (hist : List Msg) :
    abs (hist.foldl onMsg []) = hist.foldl SpecPS.onMsg (fun _ => 0) := by
  suffices h : ∀ subs c, abs subs = c → abs (hist.foldl onMsg subs) = hist.foldl SpecPS.onMsg c by
    exact h [] _ (by funext t; simp [abs])
  induction hist with
  | nil => intro subs c h; simpa using h
  | cons m rest ih =>
    intro subs c h
    simp only [List.foldl_cons]
    apply ih
    rw [C11_refines, h]

/-- non-vacuity / decision examples -/
example : copies (onMsg (onMsg (onMsg [] [[1, 65]]) [[1, 65]]) [[0, 65]]) [65, 66] = 1 := by decide
example : copies (onMsg (onMsg [] [[1, 65, 66]]) [[0, 65, 66]]) [65, 66] = 0 := by decide
example : copies (onMsg [] [[1, 65, 66, 67]]) [65, 66] = 0 := by decide

/-! ### socket level: PUB's reader task against the subscriber's byte stream -/

open Zmq.W in
/-- **"Subscriptions are counted per connection in the order that peer's subscribe/unsubscribe messages are
processed" — at byte level.**  PUB reads each subscriber in a task of its own.  Run until it is `Pending` or
ends, the task has consumed a PREFIX `c` of the items the rest of that connection's byte stream decodes to (C02's
`run`; the reader carries on exactly behind it), and the subscription list kept for that subscriber is the old one
with `onMsg` folded over exactly the MESSAGES in `c`, in order — commands and greetings in between change nothing,
malformed subscription messages change nothing (`C11_garbage_noop`); no other subscriber's list and no other pipe's
waiting bytes are touched; if the task ends, nothing complete was left unprocessed. -/
theorem C11_world_pub_reader (fuel : Nat) (ps : Pipes) (s : Socket) (k : Ident) (rd : Rd)
    (subs : List Bytes) (hsub : ilookup s.subsOf k = some subs)
    (ps' : Pipes) (s' : Socket) (r : Option Rd) (h : readerTask fuel ps s k rd = (ps', s', r)) :
    ∃ c : List Item,
      (∀ j, j ≠ rd.pipe → inbufOf ps' j = inbufOf ps j) ∧
      (∀ j, j ≠ k → ilookup s'.subsOf j = ilookup s.subsOf j) ∧
      (match r with
       | some rd' => rd'.pipe = rd.pipe ∧ rd.rem ps = (rd'.rem ps').pre c ∧
           ilookup s'.subsOf k = some ((msgsOf c).foldl onMsg subs)
       | none => rd.items ps = c) :=
  readerTask_spec fuel ps s k rd subs hsub ps' s' r h

open Zmq.W in
/-- **XPUB keeps its subscribers' lists exactly as PUB does — inside `recv`.**  After one poll of an XPUB `recv`: every
subscriber's list is what it was, or gone with its peer — except that when the poll returns a message, the list of ONE
subscriber (the sender, by `C05_world_recv`) has `onMsg` applied to exactly that message, which is handed to the
application verbatim. -/
theorem C11_world_xpub_subs (fuel : Nat) (w : World) (sid : Nat) (s : Socket) (hs : getSock w sid = some s)
    (ht : s.typ = .xpub) (w' : World) (o : POut) (h : recvPoll fuel w sid = (w', o)) :
    ∃ s', getSock w' sid = some s' ∧
      (match (generalizing := false) o with
       | .ready (.okMsg m) => ∃ k, ∀ j,
           ilookup s'.subsOf j = none ∨ ilookup s'.subsOf j = ilookup s.subsOf j ∨
           (j = k ∧ ∃ old, ilookup s.subsOf k = some old ∧ ilookup s'.subsOf k = some (onMsg old m))
       | _ => ∀ j, ilookup s'.subsOf j = none ∨ ilookup s'.subsOf j = ilookup s.subsOf j) :=
  recvPoll_xpub_subs fuel w sid s hs ht w' o h


open Zmq.W in
/-- **XPUB hands every subscription message to the application verbatim and in per-peer order** — over every history of
`recv` polls and arriving bytes: what `recv` has returned for connection `k` (each entry of `log` for `k`: the message
itself, frame for frame, never an error), followed by the complete messages still waiting in front of `k`'s reader, is
exactly the sequence of complete messages in `k`'s whole byte stream so far. -/
theorem C11_world_xpub_verbatim {ps0 : Pipes} {m0 : Streams} {ps : Pipes} {m : Streams}
    {taken : Ident → List Item} {rev : Nat → Bytes} {log : List (Ident × Msg × POut)}
    (h : RecvRun .xpub ps0 m0 ps m taken rev log) (k : Ident) (rd0 rd : Rd)
    (h0 : ilookup m0 k = some rd0) (hk : ilookup m k = some rd) :
    (∀ e ∈ log, e.2.2 = .ready (.okMsg e.2.1)) ∧
    msgsOf (total ps0 rd0 rev).items = (log.filter (fun e => e.1 == k)).map (·.2.1) ++ msgsOf (rd.items ps) := by
  refine ⟨?_, h.exactly_once k rd0 rd h0 hk⟩
  intro e he
  rcases h.log_spec e he with ⟨r, h1, h2⟩ | ⟨x, _, h2⟩
  · simp only [deliver, Option.some.injEq] at h2
    rw [h1, h2]
  · simp [deliver] at h2

end Zmq.C11
