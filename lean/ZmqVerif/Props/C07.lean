import ZmqVerif.Model.Sockets
import ZmqVerif.Lemmas.WorldHist
import ZmqVerif.Lemmas.WorldSendStart
/-!
# C07 — REQ/REP envelopes are added, preserved and stripped exactly

On frame lists (`Model.Sockets`): `reqWrap`/`reqUnwrap` (REQ), `repSplit`/`repReply` (REP),
`routerIn`/`routerOut` (a ROUTER hop).  `Model.World` calls exactly these functions; the wire
bytes are `encodeMsg` of the results (C01).
-/
namespace Zmq.C07
open Zmq

/-- REQ sends the application's frames behind exactly one empty delimiter frame. -/
theorem C07_req_wire (p : Msg) : reqWrap p = [] :: p := rfl

/-- REQ returns a reply's frames with exactly that delimiter removed … -/
theorem C07_req_recv (r : Msg) (hr : r ≠ []) : reqUnwrap ([] :: r) = some r := by
  cases r with
  | nil => exact absurd rfl hr
  | cons a t => simp [reqUnwrap]

/-- … and accepts nothing else: whatever it returns is the message minus a leading empty frame. -/
theorem C07_req_recv_only (m r : Msg) (h : reqUnwrap m = some r) : m = [] :: r ∧ r ≠ [] := by
  match m, h with
  | [d, x], h =>
    simp only [reqUnwrap] at h
    split at h
    · rename_i hd; simp at h; subst h; simp at hd; simp [hd]
    · simp at h
  | d :: x :: y :: t, h =>
    simp only [reqUnwrap] at h
    split at h
    · rename_i hd; simp at h; subst h; simp at hd; simp [hd]
    · simp at h

theorem findIdx_first_empty (pre : Msg) (rest : Msg) (hpre : ∀ f ∈ pre, f ≠ []) :
    (pre ++ [[]] ++ rest).findIdx? (fun (f : Bytes) => f.isEmpty) = some pre.length := by
  induction pre with
  | nil => simp [List.findIdx?_cons]
  | cons a t ih =>
    have ha : a ≠ [] := hpre a (by simp)
    have h2 := ih (fun f hf => hpre f (by simp [hf]))
    have h3 : a.isEmpty = false := by cases a <;> simp_all
    show List.findIdx? (fun (f : Bytes) => f.isEmpty) (a :: (t ++ [[]] ++ rest)) = some (t.length + 1)
    rw [List.findIdx?_cons, h3, h2]; rfl

/-- REP hands the application exactly the frames that follow the FIRST empty delimiter, and
keeps the frames up to and including it — so empty frames inside the payload are untouched. -/
theorem C07_rep_split (pre rest : Msg) (hpre : ∀ f ∈ pre, f ≠ []) (hrest : rest ≠ []) :
    repSplit (pre ++ [[]] ++ rest) = some (pre ++ [[]], rest) := by
  unfold repSplit repCut
  rw [findIdx_first_empty pre rest hpre]
  have hl : ¬ (pre ++ [[]] ++ rest).length < 2 := by
    cases rest with
    | nil => exact absurd rfl hrest
    | cons a t => simp; omega
  have hc : ¬ (pre.length + 1 ≥ (pre ++ [[]] ++ rest).length) := by
    cases rest with
    | nil => exact absurd rfl hrest
    | cons a t => simp
  simp only [hl, ↓reduceIte, hc]
  have e : pre ++ [[]] ++ rest = (pre ++ [[]]) ++ rest := rfl
  rw [e, List.take_left' (by simp), List.drop_left' (by simp)]

/-- REP's reply is prefixed with exactly the frames that preceded and included the delimiter. -/
theorem C07_rep_reply (pre r : Msg) : repReply (pre ++ [[]]) r = pre ++ [[]] ++ r := rfl

/-- Whatever REP accepts: envelope ++ payload is the request, unmodified, and the payload is
never empty — a request with no frame after its delimiter is rejected, not handed over as a
message with zero frames. -/
theorem C07_no_empty_message (m env data : Msg) (h : repSplit m = some (env, data)) :
    env ++ data = m ∧ data ≠ [] := by
  unfold repSplit at h
  split at h
  · simp at h
  · simp only at h
    split at h
    · simp at h
    · rename_i hc
      simp at h
      obtain ⟨rfl, rfl⟩ := h
      refine ⟨List.take_append_drop _ _, ?_⟩
      intro hd
      have := List.drop_eq_nil_iff.mp hd
      omega

/-- a chain of ROUTER hops on the way in: each prepends the identity of the connection the
message arrived on (nearest hop first in `ids`) -/
def hopsIn (ids : List Bytes) (m : Msg) : Msg := ids.foldl (fun m i => routerIn i m) m

/-- the way back: each ROUTER pops the first frame, which must be the identity it added -/
def hopsOut : List Bytes → Msg → Option Msg
  | [], m => some m
  | i :: is, m =>
    match routerOut m with
    | some (t, rest) => if t = i then hopsOut is rest else none
    | none => none

theorem hopsIn_eq (ids : List Bytes) (m : Msg) : hopsIn ids m = ids.reverse ++ m := by
  induction ids generalizing m with
  | nil => rfl
  | cons i is ih => simp [hopsIn, routerIn] at ih ⊢; try rw [ih]

theorem hopsOut_append (is : List Bytes) (m : Msg) : hopsOut is (is ++ m) = some m := by
  induction is with
  | nil => rfl
  | cons i t ih => simp [hopsOut, routerOut, ih]

/-- **Chain**: for any routing prefix added by intermediaries (identities of 1..255 bytes) and
any non-empty payloads, the request payload reaches the REP application unmodified, and the
reply retraces the request's route and reaches the REQ application unmodified. -/
theorem C07_chain (ids : List Bytes) (p r : Msg) (hids : ∀ i ∈ ids, i ≠ []) (hp : p ≠ []) (hr : r ≠ []) :
    ∃ env, repSplit (hopsIn ids (reqWrap p)) = some (env, p) ∧
      hopsOut ids.reverse (repReply env r) = some (reqWrap r) ∧
      reqUnwrap (reqWrap r) = some r := by
  refine ⟨ids.reverse ++ [[]], ?_, ?_, ?_⟩
  · rw [hopsIn_eq, reqWrap]
    have := C07_rep_split ids.reverse p (by intro f hf; exact hids f (by simpa using hf)) hp
    simpa using this
  · rw [repReply, reqWrap]
    have := hopsOut_append ids.reverse ([] :: r)
    simp only [List.append_assoc, List.singleton_append]
    exact this
  · exact C07_req_recv r hr

/-- non-vacuity: a payload with empty frames behind a two-hop envelope -/
example : repSplit [[1], [2, 2], [], [], [7], []] = some ([[1], [2, 2], []], [[], [7], []]) := by decide
/-- the degenerate requests are rejected -/
example : repSplit [[1], []] = none ∧ repSplit [[]] = none ∧ repSplit [[1]] = none := by decide

/-! ### socket level: the request on the wire -/

open Zmq.W in
/-- **`ReqSocket::send` against the wires** (first poll; `C10_world_to_poll` carries the invariant over the later ones):
whatever the rotation looks like — stale entries of lost servers are skipped — a refused send hands the message back
and touches no wire; otherwise EXACTLY ONE registered peer is chosen and the send is in progress to it with the
encoding of `[delimiter] ++ message` (`reqWrap`), `base` being that connection's outgoing stream at the start: the
request goes out behind exactly one empty delimiter frame, on exactly that connection, and if the send completes at
once that wire is `base` followed by the complete encoding. -/
theorem C07_world_req_send (fuel : Nat) (w : World) (sid : Nat) (m : Msg) (s : Socket) (hs : getSock w sid = some s)
    (w' : World) (f' : FutSt) (o : POut) (h : reqSendStart fuel w sid m = (w', f', o)) :
    match (generalizing := false) f', o with
    | .sendTo _ k st _, .pending =>
        ∃ wr, ilookup s.peers k = some wr ∧
          SendInv w' sid k wr.pipe (outOf w.pipes wr) (encodeMsg (reqWrap m)) st ∧
          ∀ j, j ≠ wr.pipe → wOf w'.pipes j = wOf w.pipes j
    | _, .ready .okUnit =>
        ∃ k wr, ilookup s.peers k = some wr ∧
          (wOf w'.pipes wr.pipe).wire = outOf w.pipes wr ++ encodeMsg (reqWrap m) ∧
          ∀ j, j ≠ wr.pipe → wOf w'.pipes j = wOf w.pipes j
    | _, .ready (.errReturn m') => m' = m ∧ ∀ j, wOf w'.pipes j = wOf w.pipes j
    | _, .ready (.err _) => True
    | _, _ => False :=
  reqSendStart_spec fuel w sid m s hs w' f' o h


open Zmq.W in
/-- **Every request a REP hands to the application, over every history** of `recv` polls and arriving bytes: for each
message `w` consumed from connection `k`, `recv` returned exactly the frames BEHIND the envelope (`repSplit w`: everything
up to and including the first empty frame is the envelope) — or one error when `w` has no such shape; the payload frames
are `w`'s own, unmodified. -/
theorem C07_world_rep_recv {ps0 : Pipes} {m0 : Streams} {ps : Pipes} {m : Streams}
    {taken : Ident → List Item} {rev : Nat → Bytes} {log : List (Ident × Msg × POut)}
    (h : RecvRun .rep ps0 m0 ps m taken rev log) :
    ∀ e ∈ log, (∃ env body, repSplit e.2.1 = some (env, body) ∧ env ++ body = e.2.1 ∧ e.2.2 = .ready (.okMsg body)) ∨
               (repSplit e.2.1 = none ∧ ∃ x, e.2.2 = .ready (.err x)) := by
  intro e he
  rcases h.log_spec e he with ⟨r, h1, h2⟩ | ⟨x, h1, h2⟩
  · left
    simp only [deliver, Option.map_eq_some_iff] at h2
    obtain ⟨⟨env, body⟩, h3, h4⟩ := h2
    simp only at h4
    subst h4
    refine ⟨env, body, h3, ?_, h1⟩
    unfold repSplit at h3
    split at h3
    · cases h3
    · simp only at h3
      split at h3
      · cases h3
      · simp only [Option.some.injEq, Prod.mk.injEq] at h3
        rw [← h3.1, ← h3.2, List.take_append_drop]
  · right
    simp only [deliver, Option.map_eq_none_iff] at h2
    exact ⟨h2, x, h1⟩

end Zmq.C07
