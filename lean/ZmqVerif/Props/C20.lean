import ZmqVerif.Lemmas.NetMaps
/-!
# C20 — a stalled or malicious handshake never blocks other connections

`Model.Net`: every accepted connection has its own handshake task — `rawWrite s c b` is a step
of connection `c`'s task; what it concludes (`judge`) is a function of the bytes `c`'s own peer
has supplied and of the local socket type, and of nothing else.  PARTIAL: that the code
really runs one task per connection is observed by the `net` correspondence (with the
handshake inline in the accept loop, good clients would never complete).
-/
namespace Zmq.C20
open Zmq Zmq.Net

/-- **Local**: a step of connection `c`'s handshake task reads and writes only `c`'s fields:
every other connection — stalled at any offset, failed, garbage — is left exactly as it was. -/
theorem C20_local (s : St) (c c' : Nat) (b : Bytes) (h : c' ≠ c) :
    lookupN (rawWrite s c b).raws c' = lookupN s.raws c' := by
  unfold rawWrite
  split
  · rfl
  · split
    · simp [lookupN_insertN_other _ _ _ _ h]
    · split
      · rfl
      · simp only []
        split <;> simp [emit_raws, lookupN_insertN_other _ _ _ _ h]

/-- … and no bind table, no listener, no socket's type or liveness. -/
theorem C20_listeners_untouched (s : St) (c : Nat) (b : Bytes) (j : Nat) :
    (lookupN (rawWrite s c b).socks j).map (fun x => (x.binds, x.alive, x.typ)) =
    (lookupN s.socks j).map (fun x => (x.binds, x.alive, x.typ)) := by
  unfold rawWrite
  split
  · rfl
  · split
    · rfl
    · split
      · rfl
      · simp only []
        split <;> simp [emit_binds]

/-- **Non-interference**: what connection `c`'s task concludes depends only on the bytes `c`'s
own peer supplied and on the local socket type — whatever the states of all the other
connections.  In particular a peer that supplies a full valid greeting + compatible READY is
registered by ITS OWN step. -/
theorem C20_noninterference (s : St) (c : Nat) (b : Bytes) (rc : RawC) (so : NSock)
    (hc : lookupN s.raws c = some rc) (hr : rc.hs = .running) (hso : lookupN s.socks rc.sock = some so) :
    (lookupN (rawWrite s c b).raws c).map (·.hs) = some (judge so.typ (rc.sent ++ b)) := by
  unfold rawWrite
  simp only [hc, hr, hso]
  simp only [bne_self_eq_false, Bool.false_eq_true, ↓reduceIte]
  split <;> simp [emit_raws, lookupN_insertN_same]

/-- **Accepting is always enabled** while the listener runs: whether a fresh connection is
accepted depends on the bind tables only, never on the other connections. -/
theorem C20_accept_enabled (s : St) (c e : Nat) (raws' : List (Nat × RawC)) :
    (rawConnect { s with raws := raws' } c e).2 = (rawConnect s c e).2 := by
  unfold rawConnect ownerOf
  simp only []
  split <;> rfl

/-- **A failing handshake is reported once and registers nobody**: the step that makes `c` fail
appends exactly one `AcceptFailed` to the monitor of `c`'s socket and closes `c`. -/
theorem C20_failed_reported (s : St) (c : Nat) (b : Bytes) (rc : RawC) (so : NSock)
    (hc : lookupN s.raws c = some rc) (hr : rc.hs = .running) (hso : lookupN s.socks rc.sock = some so)
    (hm : so.monitor = true) (hf : judge so.typ (rc.sent ++ b) = .failed) :
    (lookupN (rawWrite s c b).socks rc.sock).map (·.events) = some (so.events ++ ["AcceptFailed"]) ∧
    (lookupN (rawWrite s c b).raws c).map (·.closedByLib) = some true := by
  unfold rawWrite
  simp only [hc, hr, hso, hf]
  simp only [bne_self_eq_false, Bool.false_eq_true, ↓reduceIte, emit, hso, hm, lookupN_insertN_same,
    Option.map_some, true_and, beq_self_eq_true, Bool.or_true]

/-- the inline-handshake variant (the accept loop awaits each handshake before accepting the
next connection) falsifies non-interference: with one silent client in front, a good client is
never even looked at — kept to show that the theorem above says something. -/
def inlineStates (states : List HsState) : List HsState :=
  match states with
  | [] => []
  | st :: rest => if st == .running then st :: rest.map (fun _ => .running) else st :: inlineStates rest

example : inlineStates [.running, .registered] = [.running, .running] := by decide

end Zmq.C20
