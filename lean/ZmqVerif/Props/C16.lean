import ZmqVerif.Lemmas.WorldMaps
/-!
# C16 — a failed or closed peer is isolated, forgotten, and its connection released

On the functions `Model.World` runs when a socket observes the end of a connection:
`peerDisconnected` (what each backend's `peer_disconnected` does, as coded) and the
fair-queue poll `fqPoll`.  "Released" is read off the pipe's two `Drop` flags.

The code is right for read errors, truncated streams, protocol errors (every fair-queue
socket) and for write errors in the round-robin senders; it is NOT for an orderly EOF
(swallowed by the fair queue: the write half stays registered — `C16_finding_eof_keeps_peer`)
nor for REQ and for write errors in REQ/ROUTER/REP (`sendToPoll` keeps the peer).  Those
pairs are enumerated in `known_findings.json`; PARTIAL: descriptor release is observed (pipe
`Drop` flags, `/proc/self/fd` in the thorough tier), not modelled.
-/
namespace Zmq.C16
open Zmq Zmq.W

theorem ilookup_ierase_other {α} (m : List (Ident × α)) (k j : Ident) (h : j ≠ k) :
    ilookup (ierase m k) j = ilookup m j := by
  induction m with
  | nil => rfl
  | cons e t ih =>
    simp only [ierase, List.filter_cons]
    by_cases he : e.1 = k
    · have hkj : (k == j) = false := by simpa using fun x => h x.symm
      simp only [he, bne_self_eq_false, Bool.false_eq_true, ↓reduceIte, ilookup, hkj]
      exact ih
    · have : (e.1 != k) = true := by simpa using he
      simp only [this, ↓reduceIte, ilookup]
      split
      · rfl
      · exact ih

theorem ilookup_ierase_same {α} (m : List (Ident × α)) (k : Ident) : ilookup (ierase m k) k = none := by
  induction m with
  | nil => rfl
  | cons e t ih =>
    simp only [ierase, List.filter_cons]
    by_cases he : e.1 = k
    · simp only [he, bne_self_eq_false, Bool.false_eq_true, ↓reduceIte]; exact ih
    · have h1 : (e.1 != k) = true := by simpa using he
      have h2 : (e.1 == k) = false := by simpa using he
      simp only [h1, ↓reduceIte, ilookup, h2, Bool.false_eq_true]; exact ih

/-- **Forgotten**: once a socket has called `peer_disconnected(k)`, `k` is in no table a later
`send` consults (peer table) … -/
theorem C16_forgotten (ps : Pipes) (s : Socket) (k : Ident) :
    ilookup (peerDisconnected ps s k).2.peers k = none := by
  unfold peerDisconnected
  simp only []
  cases s.typ <;> simp only [] <;>
    (try unfold fqRemove) <;> (repeat' split) <;> simp [ilookup_ierase_same]

/-- … and **isolated**: no other peer's table entry changes. -/
theorem C16_isolated (ps : Pipes) (s : Socket) (k j : Ident) (h : j ≠ k) :
    ilookup (peerDisconnected ps s k).2.peers j = ilookup s.peers j := by
  unfold peerDisconnected
  simp only []
  cases s.typ <;> simp only [] <;>
    (try unfold fqRemove) <;> (repeat' split) <;> simp [ilookup_ierase_other _ _ _ h]

/-- **Released (write half)**: the write half of the forgotten connection is dropped. -/
theorem C16_released_write (ps : Pipes) (s : Socket) (k : Ident) (wr : Wr)
    (hp : ilookup s.peers k = some wr) (hgen : s.typ = .pull ∨ s.typ = .push) :
    (getPipe (peerDisconnected ps s k).1 wr.pipe).wDropped = true := by
  unfold peerDisconnected
  rcases hgen with h | h <;> simp only [hp, h]
  · unfold fqRemove
    split
    · rename_i rd _
      simp only [dropR, dropW]
      by_cases e : rd.pipe = wr.pipe
      · rw [e]; simp [getPipe_setPipe_same]
      · rw [getPipe_setPipe_other _ _ _ _ (fun x => e x.symm)]; simp [getPipe_setPipe_same]
    · simp [dropW, getPipe_setPipe_same]
  · simp [dropW, getPipe_setPipe_same]

/-- the fair-queue poll never touches the peer table -/
theorem fqPoll_peers (fuel : Nat) (ps : Pipes) (sid : Nat) (s : Socket) :
    (fqPoll fuel ps sid s).2.2.peers = s.peers := by
  induction fuel generalizing ps s with
  | zero => rfl
  | succ n ih =>
    unfold fqPoll
    split
    · rfl
    · rename_i t k rest _
      simp only []
      split
      · rw [ih]
      · rename_i rd _
        generalize readerPoll _ _ _ _ = rp
        obtain ⟨r, ps', rd'⟩ := rp
        simp only []
        cases r with
        | pending => simp only []; rw [ih]
        | eof => simp only []; rw [ih]
        | item i => rfl
        | err e => rfl

/-- **Finding (orderly EOF)**: an orderly end of stream is consumed inside the fair queue — the
stream is dropped there and nothing tells the backend — so whatever `recv` returns, the peer
table still holds the departed peer's write half: later sends are still routed to it and its
transport handle is never released.  (Recorded per socket type in `known_findings.json`.) -/
theorem C16_finding_eof_keeps_peer (ps : Pipes) (sid : Nat) (s : Socket) (k : Ident) (wr : Wr)
    (hp : ilookup s.peers k = some wr) :
    ilookup (fqPoll (s.fqHeap.length + 2) ps sid s).2.2.peers k = some wr := by
  rw [fqPoll_peers]; exact hp

/-- **Finding (REQ / ROUTER / REP write error)**: a failed write through `sendToPoll` returns the
error but leaves the peer registered. -/
theorem C16_finding_write_error_keeps_peer (w : World) (sid : Nat) (s : Socket) (k : Ident) (wr : Wr)
    (st : SendSt) (hs : getSock w sid = some s) (hp : ilookup s.peers k = some wr)
    (w' : World) (f : FutSt) (h : sendToPoll w sid k st false = (w', f, .ready (.err .io))) :
    ∃ s' wr', getSock w' sid = some s' ∧ ilookup s'.peers k = some wr' := by
  simp only [sendToPoll, hs, hp] at h
  generalize wrSendPoll w.pipes wr st = q at h
  obtain ⟨ps, wr', st', r⟩ := q
  cases r with
  | pending => simp at h
  | done => simp at h
  | error =>
    simp at h
    obtain ⟨rfl, _⟩ := h
    exact ⟨_, wr', getSock_setSock_same _ _ _, ilookup_iinsert_same _ _ _⟩

/-- non-vacuity: disconnecting one of two PULL peers keeps the other and drops both halves -/
example :
    let s : Socket := { typ := .pull, peers := [([1], ⟨1, []⟩), ([2], ⟨2, []⟩)], fqStreams := [([1], { pipe := 1 })] }
    let r := peerDisconnected [] s [1]
    r.2.peers.map (·.1) = [[2]] ∧ (getPipe r.1 1).wDropped = true ∧ (getPipe r.1 1).rDropped = true := by
  decide

end Zmq.C16
