import ZmqVerif.Lemmas.WorldMaps
import ZmqVerif.Lemmas.WorldRotation
/-!
# C16 — a failed or closed peer is isolated, forgotten, and its connection released

On the functions `Model.World` runs when a socket observes the end of a connection:
`peerDisconnected` (what each backend's `peer_disconnected` does, as coded) and the
fair-queue poll `fqPoll`.  "Released" is read off the pipe's two `Drop` flags.

The code is right for read errors, truncated streams, protocol errors, orderly EOF (after fix
D12: the fair queue tells its owner when a stream ends — `C16_eof_forgets`) on every fair-queue
socket, for write errors in every sender (after fix D13: `C16_write_error_forgets`) and for REQ
(`C16_req_recv_forgets`).  PARTIAL: descriptor release is observed (pipe `Drop` flags), not modelled.
-/
namespace Zmq.C16
open Zmq Zmq.W

theorem ilookup_ierase_other {α} (m : List (Ident × α)) (k j : Ident) (h : j ≠ k) :
    ilookup (ierase m k) j = ilookup m j := by
  induction m with
  | nil => rfl
  | cons e t ih =>
    simp only [ierase, List.filter_cons]
    by_cases he : e.1 = k
    · have hkj : (k == j) = false := by simpa using fun x => h x.symm
      simp only [he, bne_self_eq_false, Bool.false_eq_true, ↓reduceIte, ilookup, hkj]
      exact ih
    · have : (e.1 != k) = true := by simpa using he
      simp only [this, ↓reduceIte, ilookup]
      split
      · rfl
      · exact ih

theorem ilookup_ierase_same {α} (m : List (Ident × α)) (k : Ident) : ilookup (ierase m k) k = none := by
  induction m with
  | nil => rfl
  | cons e t ih =>
    simp only [ierase, List.filter_cons]
    by_cases he : e.1 = k
    · simp only [he, bne_self_eq_false, Bool.false_eq_true, ↓reduceIte]; exact ih
    · have h1 : (e.1 != k) = true := by simpa using he
      have h2 : (e.1 == k) = false := by simpa using he
      simp only [h1, ↓reduceIte, ilookup, h2, Bool.false_eq_true]; exact ih

/-- **Forgotten**: once a socket has called `peer_disconnected(k)`, `k` is in no table a later
`send` consults (peer table) … -/
theorem C16_forgotten (ps : Pipes) (s : Socket) (k : Ident) :
    ilookup (peerDisconnected ps s k).2.peers k = none := by
  unfold peerDisconnected
  simp only []
  cases s.typ <;> simp only [] <;>
    (try unfold fqRemove) <;> (repeat' split) <;> simp [ilookup_ierase_same]

/-- … and **isolated**: no other peer's table entry changes. -/
theorem C16_isolated (ps : Pipes) (s : Socket) (k j : Ident) (h : j ≠ k) :
    ilookup (peerDisconnected ps s k).2.peers j = ilookup s.peers j := by
  unfold peerDisconnected
  simp only []
  cases s.typ <;> simp only [] <;>
    (try unfold fqRemove) <;> (repeat' split) <;> simp [ilookup_ierase_other _ _ _ h]

theorem wDropped_dropR (ps : Pipes) (a b : Nat) :
    (getPipe (dropR ps a) b).wDropped = (getPipe ps b).wDropped := by
  unfold dropR
  by_cases h : b = a
  · subst h; simp [getPipe_setPipe_same]
  · simp [getPipe_setPipe_other _ _ _ _ h]

theorem wDropped_dropW (ps : Pipes) (a : Nat) : (getPipe (dropW ps a) a).wDropped = true := by
  simp [dropW, getPipe_setPipe_same]

/-- **Released (write half)**: the write half of the forgotten connection is dropped — for
every socket type. -/
theorem C16_released_write (ps : Pipes) (s : Socket) (k : Ident) (wr : Wr)
    (hp : ilookup s.peers k = some wr) :
    (getPipe (peerDisconnected ps s k).1 wr.pipe).wDropped = true := by
  unfold peerDisconnected
  simp only [hp]
  cases s.typ <;> simp only [] <;> (try unfold fqRemove) <;> (repeat' split) <;>
    simp [wDropped_dropR, wDropped_dropW]

theorem ilookup_ierase_none {α} (m : List (Ident × α)) (k j : Ident) (h : ilookup m j = none) :
    ilookup (ierase m k) j = none := by
  by_cases e : j = k
  · subst e; exact ilookup_ierase_same _ _
  · rw [ilookup_ierase_other _ _ _ e]; exact h

/-- `peer_disconnected` never adds a peer -/
theorem peerDisconnected_none (ps : Pipes) (s : Socket) (k j : Ident) (h : ilookup s.peers j = none) :
    ilookup (peerDisconnected ps s k).2.peers j = none := by
  unfold peerDisconnected
  simp only []
  cases s.typ <;> simp only [] <;>
    (try unfold fqRemove) <;> (repeat' split) <;> simp [ilookup_ierase_none _ _ _ h]

/-- the fair-queue poll never ADDS a peer: a key that is not in the peer table stays out -/
theorem fqPoll_peers_none (fuel : Nat) (ps : Pipes) (sid : Nat) (s : Socket) (j : Ident)
    (h : ilookup s.peers j = none) : ilookup (fqPoll fuel ps sid s).2.2.peers j = none := by
  induction fuel generalizing ps s with
  | zero => exact h
  | succ n ih =>
    unfold fqPoll
    split
    · exact h
    · rename_i t k rest _
      simp only []
      split
      · exact ih _ _ h
      · rename_i rd _
        generalize readerPoll _ _ _ _ = rp
        obtain ⟨r, ps', rd'⟩ := rp
        simp only []
        cases r with
        | pending => simp only []; exact ih _ _ h
        | eof => simp only []; exact ih _ _ (peerDisconnected_none _ _ _ _ h)
        | item i => exact h
        | err e => exact h

/-- **Orderly EOF forgets the peer** (after fix D12): when the fair-queue poll takes stream `k`
and the stream has ended, then — whatever else this poll goes on to do and whatever `recv`
returns — `k` is no longer in the peer table: no later send is routed to it … -/
theorem C16_eof_forgets (fuel : Nat) (ps : Pipes) (sid : Nat) (s : Socket) (t : Nat) (k : Ident)
    (rest : List (Nat × Ident)) (rd : Rd)
    (hpop : popMinE s.fqHeap = some ((t, k), rest)) (hst : ilookup s.fqStreams k = some rd)
    (heof : (readerPoll (readFuel ps rd) ps rd (.fq sid t k)).1 = .eof) :
    ilookup (fqPoll (fuel + 1) ps sid s).2.2.peers k = none := by
  unfold fqPoll
  simp only [hpop, hst]
  generalize hrp : readerPoll (readFuel ps rd) ps rd (.fq sid t k) = rp at heof
  obtain ⟨r, ps', rd'⟩ := rp
  simp only [] at heof
  subst heof
  simp only []
  exact fqPoll_peers_none _ _ _ _ _ (C16_forgotten _ _ _)

/-- … and its write half has been dropped (with the read half, which the queue did not put
back): the transport handle is released. -/
theorem C16_eof_releases (ps : Pipes) (s : Socket) (k : Ident) (rd : Rd) (wr : Wr)
    (hp : ilookup s.peers k = some wr) :
    let r := peerDisconnected (dropR ps rd.pipe) s k
    (getPipe r.1 wr.pipe).wDropped = true ∧ (getPipe (dropR ps rd.pipe) rd.pipe).rDropped = true := by
  refine ⟨C16_released_write _ _ _ _ hp, ?_⟩
  simp [dropR, getPipe_setPipe_same]

/-- **A failed write forgets the peer** (REQ / ROUTER / REP, after fix D13): when the write
through `sendToPoll` fails, the error is returned and the peer is no longer in the peer table —
no later send is routed to it. -/
theorem C16_write_error_forgets (w : World) (sid : Nat) (k : Ident) (st : SendSt) (b : Bool)
    (w' : World) (f : FutSt) (h : sendToPoll w sid k st b = (w', f, .ready (.err .io))) :
    ∃ s', getSock w' sid = some s' ∧ ilookup s'.peers k = none := by
  unfold sendToPoll at h
  cases hs : getSock w sid with
  | none => simp [hs] at h
  | some s =>
    simp only [hs] at h
    cases hp : ilookup s.peers k with
    | none => simp [hp] at h
    | some wr =>
      simp only [hp] at h
      generalize wrSendPoll w.pipes wr st = q at h
      obtain ⟨ps, wr', st', r⟩ := q
      cases r with
      | pending => simp at h
      | done => simp at h
      | error =>
        simp at h
        obtain ⟨rfl, _⟩ := h
        exact ⟨_, getSock_setSock_same _ _ _, C16_forgotten _ _ _⟩

/-- **REQ forgets a server whose connection ended or failed** (after fix D13): when the awaited
reply turns out to be an end of stream or a stream error, `recv` returns the error once and the
peer is gone from the table (and from the set of read halves). -/
theorem C16_req_recv_forgets (w : World) (sid : Nat) (s : Socket) (k : Ident) (rd : Rd)
    (hs : getSock w sid = some s) (hc : s.current = some k) (hrd : ilookup s.reqRd k = some rd)
    (hend : (readerPoll (readFuel w.pipes rd) w.pipes rd .user).1 = .eof ∨
            ∃ e, (readerPoll (readFuel w.pipes rd) w.pipes rd .user).1 = .err e) :
    ∃ s', getSock (reqRecvPoll w sid).1 sid = some s' ∧ ilookup s'.peers k = none ∧ s'.current = none := by
  unfold reqRecvPoll
  simp only [hs, hc, hrd]
  generalize readerPoll (readFuel w.pipes rd) w.pipes rd .user = rp at hend
  obtain ⟨r, ps, rd'⟩ := rp
  simp only [] at hend
  rcases hend with rfl | ⟨e, rfl⟩
  · refine ⟨_, getSock_setSock_same _ _ _, C16_forgotten _ _ _, ?_⟩
    simp only [peerDisconnected]
    cases s.typ <;> simp only [] <;> (try unfold fqRemove) <;> (repeat' split) <;> rfl
  · refine ⟨_, getSock_setSock_same _ _ _, C16_forgotten _ _ _, ?_⟩
    simp only [peerDisconnected]
    cases s.typ <;> simp only [] <;> (try unfold fqRemove) <;> (repeat' split) <;> rfl

/-- non-vacuity: disconnecting one of two PULL peers keeps the other and drops both halves -/
example :
    let s : Socket := { typ := .pull, peers := [([1], ⟨1, []⟩), ([2], ⟨2, []⟩)], fqStreams := [([1], { pipe := 1 })] }
    let r := peerDisconnected [] s [1]
    r.2.peers.map (·.1) = [[2]] ∧ (getPipe r.1 1).wDropped = true ∧ (getPipe r.1 1).rDropped = true := by
  decide


/-! ### "no later send is routed to that peer" — against the wires -/

/-- **Round-robin senders (PUSH, DEALER).**  A connection whose pipe belongs to NO registered peer (its peer has been
forgotten: `C16_forgotten`) is not written to by a send, whatever is still in the rotation queue: the peer chosen is a
REGISTERED one (`C10_world_rr_choice`), and only its pipe is touched. -/
theorem C16_world_rr_skips_forgotten (fuel : Nat) (w : World) (sid : Nat) (m : Msg) (s : Socket) (hs : getSock w sid = some s)
    (p : Nat) (hp : ∀ k wr, ilookup s.peers k = some wr → wr.pipe ≠ p)
    (w' : World) (f' : FutSt) (o : POut) (h : sendRRPoll fuel w sid m none = (w', f', o))
    (ho : o = .pending ∨ o = .ready .okUnit ∨ ∃ m', o = .ready (.errReturn m')) :
    wOf w'.pipes p = wOf w.pipes p := by
  have hsp := sendRRStart_spec fuel w sid m s hs w' f' o h
  rcases ho with rfl | rfl | ⟨m', rfl⟩
  · obtain ⟨a, _, _⟩ := sendRRStart_choice fuel w sid m s hs w' f' _ h
    obtain ⟨k, st', rest, rfl, _, _⟩ := a rfl
    simp only at hsp
    obtain ⟨wr, h1, _, h3⟩ := hsp
    exact h3 p (fun e => hp k wr h1 e.symm)
  · cases f' <;> (simp only at hsp; obtain ⟨k, wr, h1, _, h3⟩ := hsp; exact h3 p (fun e => hp k wr h1 e.symm))
  · cases f' <;> (simp only at hsp; exact hsp.2 p)

/-- **ROUTER.**  A message addressed to an identity that is not (or no longer) registered is refused with an error and
NOTHING is written to any connection — in particular not to the connection that identity once had. -/
theorem C16_world_router_skips_forgotten (w : World) (sid : Nat) (t : Bytes) (rest : Msg) (hne : rest ≠ []) (s : Socket)
    (hs : getSock w sid = some s) (hgone : ilookup s.peers t = none)
    (w' : World) (f' : FutSt) (o : POut) (h : routerSendStart w sid (t :: rest) = (w', f', o)) :
    (∃ e, o = .ready (.err e)) ∧ ∀ j, wOf w'.pipes j = wOf w.pipes j := by
  have hsp := routerSendStart_spec w sid t rest hne s hs w' f' o h
  cases o with
  | pending =>
    cases f' <;> simp only at hsp
    obtain ⟨_, wr, h1, _⟩ := hsp
    rw [hgone] at h1; cases h1
  | ready v =>
    cases v with
    | okUnit =>
      cases f' <;> (simp only at hsp; obtain ⟨wr, h1, _⟩ := hsp; rw [hgone] at h1; cases h1)
    | err e =>
      cases f' <;> (simp only at hsp; exact ⟨⟨e, rfl⟩, hsp (.inl hgone)⟩)
    | _ => cases f' <;> simp only at hsp

end Zmq.C16
