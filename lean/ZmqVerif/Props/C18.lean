import ZmqVerif.Lemmas.NetMaps
/-!
# C18 — bind/unbind manage independent listeners with exact endpoint bookkeeping

`Model.Net`: the bind table of each socket is a list of endpoint ids; a listener runs on an
endpoint iff the endpoint is in the table of a live socket (`ownerOf`).  OS outcomes enter as
the request kind (`fresh` = the OS resolved a wildcard to a new listening address; `again` =
an address seen before, which fails iff somebody is still listening on it).  PARTIAL: the OS,
the tokio scheduler and timing are observed by the `net` correspondence, not modelled.
-/
namespace Zmq.C18
open Zmq Zmq.Net

/-- **bind succeeds**: the returned endpoint is concrete and NEW (its id was never handed out
before), and exactly it is added to the socket's bind set. -/
theorem C18_bind_adds_exactly (s : St) (sid : Nat) (so : NSock) (k : Kind) (hs : lookupN s.socks sid = some so) :
    (Net.bind s sid (.fresh k)).2 = .ok s.eps.length ∧
    (lookupN (Net.bind s sid (.fresh k)).1.socks sid).map (·.binds) = some (so.binds ++ [s.eps.length]) := by
  simp only [Net.bind, hs]
  refine ⟨trivial, ?_⟩
  rw [lookup_emit_same]
  simp only [lookupN_insertN_same, Option.map_some]
  split <;> rfl

/-- … and every OTHER socket's bind set is untouched. -/
theorem C18_bind_others_untouched (s : St) (sid j : Nat) (so : NSock) (r : BindReq) (hj : j ≠ sid)
    (hs : lookupN s.socks sid = some so) :
    (lookupN (Net.bind s sid r).1.socks j).map (fun x => (x.binds, x.alive, x.typ)) =
    (lookupN s.socks j).map (fun x => (x.binds, x.alive, x.typ)) := by
  simp only [Net.bind, hs]
  cases r with
  | badSyntax => rfl
  | fresh k =>
    simp only []
    rw [emit_binds]; simp [lookupN_insertN_other _ _ _ _ hj]
  | again e =>
    simp only []
    split
    · rfl
    · rw [emit_binds]; simp [lookupN_insertN_other _ _ _ _ hj]

/-- **a failed bind changes nothing** (address in use, malformed endpoint). -/
theorem C18_bind_fail_noop (s : St) (sid : Nat) (r : BindReq)
    (h : (Net.bind s sid r).2 = .errNetwork ∨ (Net.bind s sid r).2 = .errSyntax) : (Net.bind s sid r).1 = s := by
  unfold Net.bind at h ⊢
  cases hl : lookupN s.socks sid with
  | none => rfl
  | some so =>
    simp only [hl] at h ⊢
    cases r with
    | badSyntax => rfl
    | fresh k => simp at h
    | again e =>
      simp only [] at h ⊢
      by_cases ho : (ownerOf s e).isSome
      · simp [ho]
      · simp [ho] at h

/-- what `unbind sid e` does to one connection: a handshake still running on that endpoint ends
with its listener (fix D14: the task waits for the listener's stop signal too); everything else —
established connections, connections of other endpoints or sockets — is left as it is -/
def unbindConn (sid e : Nat) (x : Nat × RawC) : Nat × RawC :=
  if x.2.sock == sid && x.2.ep == e && x.2.hs == .running
  then (x.1, { x.2 with hs := .failed, closedByLib := true }) else x

/-- **unbind of a bound endpoint** removes exactly it from the bind set; … -/
theorem C18_unbind (s : St) (sid e : Nat) (so : NSock) (hs : lookupN s.socks sid = some so)
    (he : e ∈ so.binds) :
    (unbind s sid (some e)).2 = .ok ∧
    (lookupN (unbind s sid (some e)).1.socks sid).map (·.binds) = some (so.binds.filter (· != e)) ∧
    (unbind s sid (some e)).1.raws = s.raws.map (unbindConn sid e) := by
  have hc : so.binds.contains e = true := by simpa using he
  simp only [unbind, hs, hc, ↓reduceIte, lookupN_insertN_same, Option.map_some]
  exact ⟨trivial, trivial, rfl⟩

/-- … **established connections keep working**: a registered connection (of any endpoint, this one
included) is exactly as it was. -/
theorem C18_unbind_keeps_established (s : St) (sid e : Nat) (so : NSock)
    (hs : lookupN s.socks sid = some so) (he : e ∈ so.binds) (x : Nat × RawC) (hx : x ∈ s.raws)
    (hreg : x.2.hs = .registered) : x ∈ (unbind s sid (some e)).1.raws := by
  rw [(C18_unbind s sid e so hs he).2.2]
  refine List.mem_map.2 ⟨x, hx, ?_⟩
  simp [unbindConn, hreg]

/-- … and no other socket's listeners are touched. -/
theorem C18_unbind_only_it (s : St) (sid j : Nat) (e : Option Nat) (hj : j ≠ sid) :
    lookupN (unbind s sid e).1.socks j = lookupN s.socks j := by
  unfold unbind
  split
  · rfl
  · split
    · rfl
    · split
      · simp [lookupN_insertN_other _ _ _ _ hj]
      · rfl

/-- **unbind of anything else** fails with no-such-bind and changes nothing. -/
theorem C18_unbind_unknown (s : St) (sid : Nat) (so : NSock) (e : Option Nat) (hs : lookupN s.socks sid = some so)
    (he : ∀ x, e = some x → x ∉ so.binds) :
    unbind s sid e = (s, .noSuchBind) := by
  unfold unbind
  simp only [hs]
  cases e with
  | none => rfl
  | some x =>
    have : x ∉ so.binds := he x rfl
    simp [this]

/-- **listener running ⇔ endpoint in the bind set of a live socket**: a fresh connect is
accepted on exactly those endpoints. -/
theorem C18_running_iff_bound (s : St) (c e : Nat) :
    (rawConnect s c e).2 = true ↔ ∃ x ∈ s.socks, x.2.alive = true ∧ e ∈ x.2.binds := by
  unfold rawConnect ownerOf
  cases hf : s.socks.find? (fun x => x.2.alive && x.2.binds.contains e) with
  | none =>
    simp only [Option.map_none]
    constructor
    · intro h; simp at h
    · rintro ⟨x, hx, ha, hb⟩
      rw [List.find?_eq_none] at hf
      have := hf x hx
      simp [ha, hb] at this
  | some y =>
    simp only [Option.map_some]
    constructor
    · intro _
      have := List.find?_some hf
      exact ⟨y, List.mem_of_find?_eq_some hf, by simpa using this⟩
    · intro _; trivial

/-- non-vacuity -/
example : (Net.bind { socks := [(1, { typ := .pull })] } 1 (.fresh .tcp4)).2 = .ok 0 := rfl
example : (unbind { socks := [(1, { typ := .pull, binds := [0, 1] })] } 1 (some 0)).2 = .ok := rfl

end Zmq.C18
