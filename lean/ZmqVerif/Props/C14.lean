import ZmqVerif.Props.C08
import ZmqVerif.Lemmas.FQCons
import ZmqVerif.Lemmas.WorldHist
/-!
# C14 — dropping a pending recv loses nothing and leaves the socket usable

In `Model.World` a user future is a value of `FutSt`; abandoning it discards that value and
nothing else.  For the fair-queue sockets the `recv` future is `FutSt.recv sid`: it has **no
field besides the socket id** — check-out and put-back of a stream happen inside one
synchronous poll (`fqPoll`) — so there is nothing an abandon could lose; the correspondence
check establishes that the real futures behave like this stateless model at every
cancellation point.  For REQ the request marker lives in the socket, not in the future.
-/
namespace Zmq.C14
open Zmq Zmq.W

/-- A fair-queue `recv` that returns `Pending` leaves behind a future indistinguishable from a
freshly issued one: abandoning it and calling `recv` again is the same as polling it again. -/
theorem C14_fq_recv_stateless (w : World) (sid : Nat) (w' : World) (f' : FutSt)
    (h : pollFut w (.recv sid) = (w', f', .pending)) : f' = .recv sid := by
  simp only [pollFut] at h
  generalize recvPoll (recvFuel w sid) w sid = r at h
  obtain ⟨w1, o⟩ := r
  cases o with
  | pending => simp at h; exact h.2.symm
  | ready v => simp at h

/-- The same for REQ … -/
theorem C14_req_recv_stateless (w : World) (sid : Nat) (w' : World) (f' : FutSt)
    (h : pollFut w (.reqRecv sid) = (w', f', .pending)) : f' = .reqRecv sid := by
  simp only [pollFut] at h
  generalize reqRecvPoll w sid = r at h
  obtain ⟨w1, o⟩ := r
  cases o with
  | pending => simp at h; exact h.2.symm
  | ready v => simp at h

/-- … whose `recv`, while pending, keeps the request marker in the socket: a REQ socket whose
recv was abandoned still owes that recv, so the next `send` is refused
(`C08_req_out_of_turn_send`) and a later `recv` is paired with the outstanding request. -/
theorem C14_req_owes (w : World) (sid : Nat) (s : Socket) (hs : getSock w sid = some s) (w' : World)
    (h : reqRecvPoll w sid = (w', .pending)) :
    C08.phase w sid = .awaiting ∧ C08.phase w' sid = .awaiting :=
  (C08.C08_req_recv_alternates w sid s hs).2 w' h

/-- At the fair-queue level an abandoned-and-reissued `recv` is a *spurious poll* (a
`pollStart` from `parked` without a notification), which the model allows anywhere; the
conservation law holds for all such schedules, so nothing is lost, duplicated or reordered. -/
theorem C14_fq_conservation_under_abandon (ops : List FQ.Op) (k : Nat) :
    FQ.deliveredOf (ops.foldl FQ.step {}) k <+: (ops.foldl FQ.step {}).hist k := by
  have := FQ.reachable_cons ops k
  exact ⟨_, by rw [List.append_assoc] at this; exact this⟩

/-- non-vacuity: a spurious poll from `parked` is a real transition of the model -/
example : (FQ.step { pc := .parked } .pollStart).pc = .a := rfl

/-- **Abandoned polls are just polls.**  One poll of ANY fair-queue `recv` future — freshly issued,
polled before, or the successor of a future that was dropped while `Pending` (they are all the same
value `.recv sid`, `C14_fq_recv_stateless`) — is a step of a receive history (`Step` + `RecvPost`).
So `C05_world_exactly_once` / `C05_world_gone_prefix`, which hold for EVERY history of such steps
and of arriving bytes, cover every way of abandoning `recv` calls at their suspension points:
nothing is lost, duplicated or reordered, and the connection's reader carries on exactly behind
what was consumed. -/
theorem C14_world_any_poll_is_a_history_step (w : World) (sid : Nat) (s : Socket) (hs : getSock w sid = some s)
    (hfq : hasFq s.typ = true) (hpd : PD s.fqStreams) (w' : World) (f' : FutSt) (o : POut)
    (h : pollFut w (.recv sid) = (w', f', o)) :
    ∃ s' c, getSock w' sid = some s' ∧ s'.typ = s.typ ∧ PD s'.fqStreams ∧
      Step w.pipes s.fqStreams w'.pipes s'.fqStreams c ∧ RecvPost s.typ c o := by
  simp only [pollFut] at h
  generalize hr : recvPoll (recvFuel w sid) w sid = r at h
  obtain ⟨w1, o1⟩ := r
  simp only [Prod.mk.injEq] at h
  obtain ⟨rfl, _, rfl⟩ := h
  exact recvPoll_spec _ w sid s hs hfq hpd w1 o1 hr

end Zmq.C14
