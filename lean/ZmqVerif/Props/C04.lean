import ZmqVerif.Lemmas.WorldMaps
import ZmqVerif.Spec.Compat
import ZmqVerif.Lemmas.WorldHandshake
import ZmqVerif.Lemmas.WorldAdmit
import ZmqVerif.Lemmas.WorldHandshakeIf
/-!
# C04 — the handshake admits exactly the well-formed, RFC-compatible peers

Table clauses are decided over tables REGENERATED from the real code on every run
(`Gen.Tables`); `admitPeer` is the decision `ready_exchange` takes on the peer's READY
(`Model.World`), `parseGreeting` + the version test of `attachPoll` the decision on the
greeting.
-/
namespace Zmq.C04
open Zmq Zmq.W

/-- The compatibility function is defined without failure for every pair of socket types … -/
theorem C04_compat_total : ∀ a ∈ SockType.all, ∀ b ∈ SockType.all, compatible a b ≠ none := by decide

/-- … symmetric … -/
theorem C04_compat_symm : ∀ a ∈ SockType.all, ∀ b ∈ SockType.all, compatible a b = compatible b a := by
  decide

/-- … and equal to the RFC relation. -/
theorem C04_compat_rfc :
    ∀ a ∈ SockType.all, ∀ b ∈ SockType.all, compatible a b = some (Rfc.compatRfc a b) := by decide

/-- The twelve socket-type names are the RFC names and parse back to their type; near-misses
(lower case, padding, prefixes, RFC types the library does not know) are rejected — as observed on
the real `as_str` / `try_from`. -/
theorem C04_names :
    (∀ t ∈ SockType.all, (t.toNat, t.name) ∈ Gen.typeName) ∧
    (∀ e ∈ Gen.typeParse, e.2 = (SockType.parse e.1).map SockType.toNat) := by decide

/-- Mechanisms: exactly NULL, PLAIN, CURVE (NUL-padded; what follows the first NUL is ignored),
as observed on the real `ZmqMechanism::try_from`. -/
theorem C04_mechanisms :
    ∀ e ∈ Gen.mechParse, e.2 = (match parseMechanism e.1 with
      | .ok .null => some 0 | .ok .plain => some 1 | .ok .curve => some 2 | _ => none) := by decide

/-- the regenerated identity bound is the one the model uses -/
theorem C04_identity_max : Gen.identityMax = 255 := by decide

/-- what the property demands of a READY command, independently of the code's control flow -/
def Admissible (localT : SockType) (props : Props) : Prop :=
  ∃ tn other, propLookup props kSocketType = some tn ∧ SockType.parse tn = some other ∧
    Rfc.compatRfc localT other = true ∧
    (∀ i, propLookup props kIdentity = some i → i.length ≤ 255)

/-- **Admit iff**: a READY is accepted iff it carries a known Socket-Type that is compatible
with the local type under the RFC table and its Identity, if present, is at most 255 bytes. -/
theorem C04_admit_iff (localT : SockType) (props : Props) (fresh : Nat) :
    (∃ r, admitPeer localT props fresh = .ok r) ↔ Admissible localT props := by
  have hc : ∀ o, compatible localT o = some (Rfc.compatRfc localT o) := by
    intro o
    exact C04_compat_rfc localT (by cases localT <;> decide) o (by cases o <;> decide)
  unfold admitPeer Admissible
  constructor
  · rintro ⟨r, h⟩
    cases hst : propLookup props kSocketType with
    | none => simp [hst] at h
    | some tn =>
      simp only [hst] at h
      cases hp : SockType.parse tn with
      | none => simp [hp] at h
      | some other =>
        simp only [hp] at h
        refine ⟨tn, other, rfl, hp, ?_, ?_⟩
        · rw [hc] at h
          cases hcr : Rfc.compatRfc localT other
          · simp [hcr] at h; split at h <;> (try split at h) <;> (try split at h) <;> simp at h
          · rfl
        · intro i hi
          simp only [hi] at h
          by_cases he : i.isEmpty
          · have : i = [] := by simpa using he
            simp [this]
          · by_cases hl : i.length > 255
            · simp [he, hl] at h
            · omega
  · rintro ⟨tn, other, hst, hp, hcr, hid⟩
    simp only [hst, hp, hc, hcr]
    cases hi : propLookup props kIdentity with
    | none => exact ⟨_, rfl⟩
    | some i =>
      have := hid i hi
      by_cases he : i.isEmpty
      · simp [he]
      · have hl : ¬ i.length > 255 := by omega
        simp [he, hl]

/-- **Identity**: an admitted peer is registered under the identity it announced, or else — no
Identity property, or an empty one — under a fresh one (`autoId fresh`, and `fresh` advances so
that the next one differs). -/
theorem C04_identity (localT : SockType) (props : Props) (fresh : Nat) (id : Ident) (fresh' : Nat)
    (h : admitPeer localT props fresh = .ok (id, fresh')) :
    (∃ i, propLookup props kIdentity = some i ∧ i ≠ [] ∧ id = i ∧ fresh' = fresh) ∨
    ((propLookup props kIdentity = none ∨ propLookup props kIdentity = some []) ∧
      id = autoId fresh ∧ fresh' = fresh + 1) := by
  unfold admitPeer at h
  cases hst : propLookup props kSocketType with
  | none => simp [hst] at h
  | some tn =>
    simp only [hst] at h
    cases hp : SockType.parse tn with
    | none => simp [hp] at h
    | some other =>
      simp only [hp] at h
      cases hi : propLookup props kIdentity with
      | none =>
        simp only [hi] at h
        right
        split at h <;> simp at h
        exact ⟨Or.inl rfl, h.1.symm, h.2.symm⟩
      | some i =>
        simp only [hi] at h
        by_cases he : i.isEmpty
        · have hnil : i = [] := by simpa using he
          simp only [he, ↓reduceIte] at h
          right
          split at h <;> simp at h
          exact ⟨Or.inr (by rw [hnil]), h.1.symm, h.2.symm⟩
        · by_cases hl : i.length > 255
          · simp [he, hl] at h
          · simp only [he, hl, Bool.false_eq_true, ↓reduceIte] at h
            left
            split at h <;> simp at h
            exact ⟨i, rfl, by simpa using he, h.1.symm, h.2.symm⟩

/-- fresh identities are pairwise different (up to 256 auto-assigned peers per world in the
model; the real code draws UUIDv4s, whose uniqueness is trusted) -/
theorem C04_fresh_distinct (a b : Nat) (ha : a < 256) (hb : b < 256) (h : autoId a = autoId b) : a = b := by
  simp only [autoId, List.append_cancel_left_eq, List.cons.injEq, and_true] at h
  have := congrArg UInt8.toNat h
  simp [UInt8.toNat_ofNat'] at this
  omega

/-- **Registered exactly once**: registering a new identity puts exactly one entry for it into
the peer table (an existing entry with that identity is replaced, not duplicated). -/
theorem C04_register_once {α} (m : List (Ident × α)) (k : Ident) (v : α) :
    ((iinsert m k v).filter (·.1 == k)).length = max 1 ((m.filter (·.1 == k)).length) := by
  induction m with
  | nil => simp [iinsert]
  | cons e t ih =>
    simp only [iinsert]
    by_cases he : e.1 == k
    · simp [he]; try omega
    · simp [he, ih]

/-- **A rejected connection** changes no socket and releases both halves of the connection:
it is closed and can never exchange application messages. -/
theorem C04_reject_no_effect (w : World) (sid pid : Nat) (s : Socket) (rd : Rd) (wr : Wr)
    (props : Props) (e : Err) (hs : getSock w sid = some s)
    (hread : readerPoll (readFuel w.pipes rd) w.pipes rd .user = (.item (.command props), w.pipes, rd))
    (hrej : admitPeer s.typ props w.fresh = .error e) (fuel : Nat) :
    let r := attachPoll (fuel + 1) w sid pid .readReady rd wr
    r.1.socks = w.socks ∧ r.2.2 = .ready (.err e) ∧
    (getPipe r.1.pipes wr.pipe).wDropped = true := by
  simp only [attachPoll, hs, hread, hrej]
  refine ⟨trivial, trivial, ?_⟩
  simp [dropW, getPipe_setPipe_same]

/-- non-vacuity: REQ admits a REP peer announcing an identity and rejects a PUB peer -/
example : ∃ r, admitPeer .req [(kSocketType, SockType.rep.name), (kIdentity, [1, 2])] 0 = .ok r := ⟨_, rfl⟩
example : admitPeer .req [(kSocketType, SockType.pub.name)] 0 = .error .other := rfl

/-! ### the handshake future against the connection's byte stream (only-if direction, every segmentation) -/

/-- **Admitted only if the bytes say so.**  `HS t total stage rd ps` — the handshake invariant: `total`, the decode (C02's
`run`) of the connection's WHOLE byte stream so far, is exactly what the handshake has consumed up to its present
stage (nothing; a greeting of an acceptable version; that and a READY whose properties `admitPeer` accepts under
`ident`) followed by what its reader still has in front of it.  One poll of the future keeps it — for every stage,
segmentation, back-pressure or write error, SUB's re-announcement included — and if the poll completes with
`Ok(identity)` the stream BEGINS with an acceptable greeting and an admissible READY (`Admitted`), whatever came
in whichever pieces over however many polls.  (`C04_admit_iff` says what `admitPeer` accepts.) -/
theorem C04_world_handshake_poll (fuel : Nat) (w : World) (sid pid : Nat) (stage : AStage) (rd : Rd) (wr : Wr)
    (s : Socket) (hs : getSock w sid = some s) (total : RunOut) (hinv : HS s.typ total stage rd w.pipes)
    (p : Nat) (hpipe : rd.pipe = p) (w' : World) (f' : FutSt) (o : POut)
    (h : attachPoll fuel w sid pid stage rd wr = (w', f', o)) :
    match (generalizing := false) f', o with
    | .attach _ _ stage' rd' _, .pending => rd'.pipe = p ∧ HS s.typ total stage' rd' w'.pipes
    | _, .ready (.okId ident) => Admitted s.typ total ident
    | _, .ready (.err _) => True
    | _, _ => False :=
  attachPoll_spec fuel w sid pid stage rd wr s hs total hinv p hpipe w' f' o h

/-- the invariant holds when the future is created (a fresh reader on the pipe, whatever bytes already wait) … -/
theorem C04_world_handshake_init (t : SockType) (ps : Pipes) (p : Nat) (st : SendSt) :
    HS t (run Dec.init (inbufOf ps p)) (.sendGreeting st) { pipe := p } ps := by
  simp [HS, Rd.rem]

/-- … is kept when bytes arrive on the pipe (for the extended stream) … -/
theorem C04_world_handshake_reveal {t : SockType} {total : RunOut} {stage : AStage} {rd : Rd} {ps ps' : Pipes} (x : Bytes)
    (h : HS t total stage rd ps) (hin : inbufOf ps' rd.pipe = inbufOf ps rd.pipe ++ x) :
    HS t (total.extend x) stage rd ps' :=
  h.reveal x hin

/-- … and by everything that leaves the bytes waiting on this pipe alone (any other socket's or pipe's activity) -/
theorem C04_world_handshake_frame {t : SockType} {total : RunOut} {stage : AStage} {rd : Rd} {ps ps' : Pipes}
    (h : HS t total stage rd ps) (hf : inbufOf ps' rd.pipe = inbufOf ps rd.pipe) : HS t total stage rd ps' :=
  h.frame hf


/-! ### socket level, the "if" direction: the poll that decides -/

open Zmq.W in
/-- **The deciding poll** (`C04_world_handshake_*` are the "only if" half).  The handshake future waits for the peer's
READY and the rest of the connection's byte stream begins with a complete command carrying `props` — however it was
segmented.  Then this one poll decides, exactly as `admitPeer` says: refused ⇒ the future fails with that error;
admitted under `ident` ⇒ (every socket type but SUB, whose registration first announces its subscriptions) the future
completes with `Ok(ident)` and the peer is in the socket's peer table under `ident` with this connection's write half. -/
theorem C04_world_deciding_poll (fuel : Nat) (w : World) (sid pid : Nat) (rd : Rd) (wr : Wr) (s : Socket)
    (hs : getSock w sid = some s) (props : List (Bytes × Bytes)) (rest : List Item)
    (hitems : rd.items w.pipes = .command props :: rest) (w' : World) (f' : FutSt) (o : POut)
    (h : attachPoll (fuel + 1) w sid pid .readReady rd wr = (w', f', o)) :
    match (generalizing := false) admitPeer s.typ props w.fresh with
    | .error e => o = .ready (.err e) ∧ f' = .done
    | .ok (ident, _) =>
        s.typ ≠ .sub → o = .ready (.okId ident) ∧ f' = .done ∧
          (s.dead = false → ∃ s', getSock w' sid = some s' ∧ ilookup s'.peers ident = some wr) :=
  attachPoll_readReady_decides fuel w sid pid rd wr s hs props rest hitems w' f' o h

open Zmq.W in
/-- … with `C04_admit_iff`: a READY that carries a known Socket-Type compatible with the local type under the RFC table
and an Identity of at most 255 bytes (if any) IS admitted by that poll — the connection becomes a peer; any other READY
is refused by it with an error. -/
theorem C04_world_admitted_iff_admissible (fuel : Nat) (w : World) (sid pid : Nat) (rd : Rd) (wr : Wr) (s : Socket)
    (hs : getSock w sid = some s) (hns : s.typ ≠ .sub) (props : List (Bytes × Bytes)) (rest : List Item)
    (hitems : rd.items w.pipes = .command props :: rest) (w' : World) (f' : FutSt) (o : POut)
    (h : attachPoll (fuel + 1) w sid pid .readReady rd wr = (w', f', o)) :
    (Admissible s.typ props → ∃ ident, o = .ready (.okId ident)) ∧
    (¬ Admissible s.typ props → ∃ e, o = .ready (.err e)) := by
  have hd := attachPoll_readReady_decides fuel w sid pid rd wr s hs props rest hitems w' f' o h
  constructor
  · intro ha
    obtain ⟨r, hr⟩ := (C04_admit_iff s.typ props w.fresh).mpr ha
    rcases r with ⟨ident, fr⟩
    simp only [hr] at hd
    exact ⟨ident, (hd hns).1⟩
  · intro hna
    cases hr : admitPeer s.typ props w.fresh with
    | error e => simp only [hr] at hd; exact ⟨e, hd.1⟩
    | ok r => exact absurd ((C04_admit_iff s.typ props w.fresh).mp ⟨r, hr⟩) hna

open Zmq.W in
/-- the poll that reads the peer's GREETING decides too: with a complete item at the head of the connection's byte
stream, a greeting of a version below 3.0 fails the handshake with `UnsupportedVersion`, and anything that is not a
greeting fails it — a rejected connection never gets as far as READY -/
theorem C04_world_greeting_poll_rejects (fuel : Nat) (w : World) (sid pid : Nat) (rd : Rd) (wr : Wr) (s : Socket)
    (hs : getSock w sid = some s) (i : Item) (rest : List Item)
    (hitems : rd.items w.pipes = i :: rest) (w' : World) (f' : FutSt) (o : POut)
    (h : attachPoll (fuel + 1) w sid pid .readGreeting rd wr = (w', f', o)) :
    match (generalizing := false) i with
    | .greeting g =>
        ¬ (g.major.toNat > 3 ∨ (g.major.toNat = 3 ∧ g.minor.toNat ≥ 0)) → o = .ready (.err .unsupportedVersion) ∧ f' = .done
    | _ => o = .ready (.err .other) ∧ f' = .done :=
  attachPoll_readGreeting_rejects fuel w sid pid rd wr s hs i rest hitems w' f' o h

open Zmq.W in
/-- **"If", end to end.**  A socket (any type but SUB, alive) starts the handshake on a connection whose write side takes
everything at once, and the connection's byte stream — in whatever segmentation it arrived — begins with a greeting of an
acceptable version followed by a READY that is ADMISSIBLE (known Socket-Type, compatible with the local type under the RFC
table, Identity of at most 255 bytes if any).  Then ONE poll of the handshake future completes with `Ok(ident)` and the
connection IS a peer: it is in the socket's peer table under `ident`, with this connection's write half.  (Together
with `C04_world_handshake_poll` — `Ok` only if such a greeting and such a READY head the stream — this is the "if and
only if" of the property for the case where the peer's bytes are there; the correspondence's families `compat-plane`,
`deviation-*`, `product-*` exercise exactly these hypotheses against the real sockets.) -/
theorem C04_world_handshake_completes (n : Nat) (w : World) (sid pid : Nat) (rd : Rd) (wr : Wr) (s : Socket) (encG : Bytes)
    (hs : getSock w sid = some s) (hns : s.typ ≠ .sub) (halive : s.dead = false)
    (hb : wr.buf = []) (hfree : Free w.pipes wr.pipe)
    (g : Greeting) (props : List (Bytes × Bytes)) (rest : List Item)
    (hitems : rd.items w.pipes = .greeting g :: .command props :: rest) (hv : vOk g)
    (hadm : Admissible s.typ props) :
    ∃ ident w' s' wr', attachPoll (n + 4) w sid pid (.sendGreeting (.feeding encG)) rd wr = (w', .done, .ready (.okId ident)) ∧
      getSock w' sid = some s' ∧ ilookup s'.peers ident = some wr' ∧ wr'.pipe = wr.pipe := by
  obtain ⟨⟨ident, fresh'⟩, hr⟩ := (C04_admit_iff s.typ props w.fresh).mpr hadm
  obtain ⟨w', s', wr', h1, h2, h3, h4⟩ :=
    attachPoll_completes n w sid pid rd wr s encG hs hns halive hb hfree g props rest hitems hv ident fresh' hr
  exact ⟨ident, w', s', wr', h1, h2, h3, h4⟩

open Zmq.W in
/-- non-vacuity of the side conditions of `C04_world_handshake_completes`: the library's own greeting has an acceptable
version; a REP's READY with a 2-byte identity is admissible at a REQ; a fresh pipe takes every write.  (That a reader in
front of `greeting ++ READY` bytes has `rd.items = [greeting, command]` is `C02_segmentation` + the decoder's grammar —
exercised on the real sockets by every `compat-plane` case of the correspondence.) -/
example : vOk Greeting.default ∧ Admissible .req [(kSocketType, SockType.rep.name), (kIdentity, [1, 2])] ∧
    Free [] 7 := by
  refine ⟨by unfold vOk; decide, ?_, by unfold Free wOf; decide⟩
  exact (C04_admit_iff .req _ 0).mp ⟨_, rfl⟩

end Zmq.C04
