import ZmqVerif.Lemmas.WorldMaps
import ZmqVerif.Lemmas.WorldSendStart
import ZmqVerif.Lemmas.WorldReqRecv
/-!
# C08 — REQ/REP lock-step: one outstanding request, the reply goes to its requester

Stated on the functions `Model.World` runs for `ReqSocket::send/recv` and `RepSocket::send`
(first poll of the call, where every decision is taken).  "State unchanged, nothing on the
wire" is literal: the whole world (all sockets, all pipes and their wire taps) is returned
unchanged.
-/
namespace Zmq.C08
open Zmq Zmq.W

/-- REQ: a `send` while a request is outstanding fails, hands the message back intact, puts
nothing on any wire and leaves the state unchanged. -/
theorem C08_req_out_of_turn_send (w : World) (sid : Nat) (s : Socket) (m : Msg) (fuel : Nat)
    (hs : getSock w sid = some s) (k : Ident) (hc : s.current = some k) :
    reqSendStart (fuel + 1) w sid m = (w, .done, .ready (.errReturn m)) := by
  simp [reqSendStart, hs, hc]

/-- REQ: a `recv` with no request outstanding fails and changes nothing. -/
theorem C08_req_out_of_turn_recv (w : World) (sid : Nat) (s : Socket)
    (hs : getSock w sid = some s) (hc : s.current = none) :
    reqRecvPoll w sid = (w, .ready (.err .other)) := by
  simp [reqRecvPoll, hs, hc]

/-- REQ with no connected peer: the send fails, the message comes back intact, nothing changes. -/
theorem C08_req_no_peer (w : World) (sid : Nat) (s : Socket) (m : Msg) (fuel : Nat)
    (hs : getSock w sid = some s) (hc : s.current = none) (hr : s.rr = []) :
    reqSendStart (fuel + 1) w sid m = (w, .done, .ready (.errReturn m)) := by
  simp [reqSendStart, hs, hc, hr]

/-- the reference alternation automaton -/
inductive Phase | idle | awaiting
deriving DecidableEq, Repr

def phase (w : World) (sid : Nat) : Phase :=
  match getSock w sid with
  | some s => if s.current.isSome then .awaiting else .idle
  | none => .idle

/-- A `recv` is accepted (returns a message) only in phase `awaiting`, and moves to `idle`;
while it is pending the socket stays in `awaiting` (the request is still owed its recv). -/
theorem C08_req_recv_alternates (w : World) (sid : Nat) (s : Socket) (hs : getSock w sid = some s) :
    (∀ w' m, reqRecvPoll w sid = (w', .ready (.okMsg m)) → phase w sid = .awaiting ∧ phase w' sid = .idle) ∧
    (∀ w', reqRecvPoll w sid = (w', .pending) → phase w sid = .awaiting ∧ phase w' sid = .awaiting) := by
  constructor
  · intro w' m h
    unfold reqRecvPoll at h
    simp only [hs] at h
    cases hc : s.current with
    | none => simp [hc] at h
    | some k =>
      simp only [hc] at h
      have hp : phase w sid = .awaiting := by simp [phase, hs, hc]
      refine ⟨hp, ?_⟩
      cases hr : ilookup s.reqRd k with
      | none => simp [hr] at h
      | some rd =>
        simp only [hr] at h
        generalize readerPoll (readFuel w.pipes rd) w.pipes rd .user = rp at h
        obtain ⟨r, ps, rd'⟩ := rp
        simp only at h
        cases r with
        | pending => simp at h
        | item i =>
          cases i with
          | message mm =>
            simp only at h
            split at h
            · simp at h; obtain ⟨rfl, _⟩ := h
              simp [phase, getSock_setSock_same]
            · simp at h
          | greeting g => simp at h
          | command c => simp at h
        | eof => simp at h
        | err e => simp at h
  · intro w' h
    unfold reqRecvPoll at h
    simp only [hs] at h
    cases hc : s.current with
    | none => simp [hc] at h
    | some k =>
      simp only [hc] at h
      have hp : phase w sid = .awaiting := by simp [phase, hs, hc]
      refine ⟨hp, ?_⟩
      cases hr : ilookup s.reqRd k with
      | none => simp [hr] at h
      | some rd =>
        simp only [hr] at h
        generalize readerPoll (readFuel w.pipes rd) w.pipes rd .user = rp at h
        obtain ⟨r, ps, rd'⟩ := rp
        simp only at h
        cases r with
        | pending =>
          simp at h; subst h
          simp [phase, getSock_setSock_same, hc]
        | item i => cases i <;> simp at h <;> (try split at h) <;> simp at h
        | eof => simp at h
        | err e => simp at h

/-- REP: a reply with no request received fails, hands the message back, changes nothing. -/
theorem C08_rep_needs_request (w : World) (sid : Nat) (s : Socket) (m : Msg)
    (hs : getSock w sid = some s) (hc : s.current = none) :
    repSendStart w sid m = (w, .done, .ready (.errReturn m)) := by
  simp [repSendStart, hs, hc]

/-- REP: the reply is written to exactly the connection the request came from — every other
pipe of the world (every other client's wire) is left untouched (`j` is any pipe that is neither
the requester's write half nor the read half the socket holds for the same identity, which is
dropped when the write fails and the peer is forgotten). -/
theorem C08_rep_routes (w : World) (sid : Nat) (s : Socket) (m : Msg) (k : Ident) (wr : Wr)
    (hs : getSock w sid = some s) (hc : s.current = some k) (hp : ilookup s.peers k = some wr)
    (j : Nat) (hj : j ≠ wr.pipe)
    (hjr : ∀ rd, ilookup s.fqStreams k = some rd → j ≠ rd.pipe)
    (hjq : ∀ rd, ilookup s.reqRd k = some rd → j ≠ rd.pipe) :
    getPipe (repSendStart w sid m).1.pipes j = getPipe w.pipes j := by
  unfold repSendStart
  simp only [hs, hc, hp, Option.isSome_some, ↓reduceIte]
  unfold sendToPoll
  simp only [getSock_setSock_same, hp]
  have hframe := wrSendPoll_frame (setSock w sid { s with current := none, envelope := none }).pipes wr
    (.feeding (encodeMsg (repReply (s.envelope.getD []) m))) j hj
  generalize hq : wrSendPoll (setSock w sid { s with current := none, envelope := none }).pipes wr
    (.feeding (encodeMsg (repReply (s.envelope.getD []) m))) = q at hframe
  obtain ⟨ps, wr', st', r⟩ := q
  simp only at hframe ⊢
  have hps : (setSock w sid { s with current := none, envelope := none }).pipes = w.pipes := rfl
  rw [hps] at hframe
  have hpipe : wr'.pipe = wr.pipe := by
    have := wrSendPoll_pipe (setSock w sid { s with current := none, envelope := none }).pipes wr
      (.feeding (encodeMsg (repReply (s.envelope.getD []) m)))
    rw [hq] at this; exact this
  cases r with
  | pending => simp [setSock, hframe]
  | done => simp [setSock, hframe]
  | error =>
    simp only [setSock]
    refine Eq.trans (peerDisconnected_frame _ _ _ _ ?_ ?_ ?_) hframe
    · intro wr2 h2
      simp only [ilookup_iinsert_same] at h2
      injection h2 with h2; subst h2; rw [hpipe]; exact hj
    · exact hjr
    · exact hjq

/-- **REQ `recv` against the awaited peer's byte stream**: REQ reads only the connection its outstanding request
went to; a poll is `Pending` only if that connection's stream holds no complete item (the reader is where it was and
the request marker stays — the recv is still owed), otherwise it consumes EXACTLY the first item of that stream: a
message is returned with its delimiter removed or rejected with one error; end of stream and stream errors are
reported with nothing complete left; no other pipe's waiting bytes are touched — so every client gets the replies
to its own requests, in the order its server wrote them, and nobody else's. -/
theorem C08_world_req_recv (w : World) (sid : Nat) (s : Socket) (hs : getSock w sid = some s)
    (k : Ident) (hc : s.current = some k) (rd : Rd) (hk : ilookup s.reqRd k = some rd)
    (w' : World) (o : POut) (h : reqRecvPoll w sid = (w', o)) :
    (∀ j, j ≠ rd.pipe → inbufOf w'.pipes j = inbufOf w.pipes j) ∧
    (match o with
     | .pending => rd.items w.pipes = [] ∧
         ∃ s' rd', getSock w' sid = some s' ∧ s'.current = some k ∧ ilookup s'.reqRd k = some rd' ∧
           rd'.rem w'.pipes = rd.rem w.pipes
     | .ready (.okMsg r) => ∃ m rest, rd.items w.pipes = .message m :: rest ∧ reqUnwrap m = some r
     | .ready (.err _) =>
         rd.items w.pipes = [] ∨ (∃ i rest, rd.items w.pipes = i :: rest ∧
           (∀ m, i = .message m → reqUnwrap m = none))
     | _ => False) :=
  reqRecvPoll_spec w sid s hs k hc rd hk w' o h

/-- **`RepSocket::send` against the wires**: without a request there is nothing to answer (message handed back, no wire
touched); otherwise the send is in progress to EXACTLY the connection the request came from (`s.current`), with the
encoding of `stored envelope ++ reply` — and to no other connection. -/
theorem C08_world_rep_send (w : World) (sid : Nat) (m : Msg) (s : Socket) (hs : getSock w sid = some s)
    (w' : World) (f' : FutSt) (o : POut) (h : repSendStart w sid m = (w', f', o)) :
    match (generalizing := false) f', o with
    | .sendTo _ k st _, .pending =>
        s.current = some k ∧ ∃ wr, ilookup s.peers k = some wr ∧
          SendInv w' sid k wr.pipe (outOf w.pipes wr) (encodeMsg (repReply (s.envelope.getD []) m)) st ∧
          ∀ j, j ≠ wr.pipe → wOf w'.pipes j = wOf w.pipes j
    | _, .ready .okUnit =>
        ∃ k wr, s.current = some k ∧ ilookup s.peers k = some wr ∧
          (wOf w'.pipes wr.pipe).wire = outOf w.pipes wr ++ encodeMsg (repReply (s.envelope.getD []) m) ∧
          ∀ j, j ≠ wr.pipe → wOf w'.pipes j = wOf w.pipes j
    | _, .ready (.errReturn m') => m' = m ∧ ∀ j, wOf w'.pipes j = wOf w.pipes j
    | _, .ready (.err _) => True
    | _, _ => False :=
  repSendStart_spec w sid m s hs w' f' o h

end Zmq.C08
