use std::time::Duration;
use zeromq::prelude::*;
use zeromq::{PullSocket, PushSocket, ZmqMessage};

#[tokio::test(flavor = "multi_thread", worker_threads = 4)]
async fn backlog_from_four_pushers() {
    let mut pull = PullSocket::new();
    let ep = pull.bind("tcp://127.0.0.1:0").await.unwrap().to_string();
    let n_peers = 4;
    let per_peer = 300usize;
    let mut handles = vec![];
    for p in 0..n_peers {
        let ep = ep.clone();
        handles.push(tokio::spawn(async move {
            let mut push = PushSocket::new();
            push.connect(&ep).await.unwrap();
            for i in 0..per_peer {
                let mut body = vec![p as u8; 16 * 1024];
                body[1] = (i % 256) as u8;
                push.send(ZmqMessage::from(body)).await.unwrap();
            }
            tokio::time::sleep(Duration::from_secs(20)).await;
        }));
    }
    // let a backlog build up
    tokio::time::sleep(Duration::from_millis(500)).await;
    let mut got = 0usize;
    let t0 = std::time::Instant::now();
    while got < n_peers * per_peer {
        match tokio::time::timeout(Duration::from_secs(10), pull.recv()).await {
            Ok(Ok(_)) => got += 1,
            other => panic!("after {} messages: {:?} ({:?})", got, other.map(|r| r.map(|m| m.len())), t0.elapsed()),
        }
    }
    eprintln!("received {} in {:?}", got, t0.elapsed());
}
