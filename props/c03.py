"""C03 — bytes from a peer never crash the process or force unbounded allocation (engine: codec,
hostile mode: small-stack thread + counting allocator; crashes isolated by process bisection)."""
import itertools
import struct

from vlib import gen, zmtp
from vlib.core import Case

ID = "C03"
LEAN_TARGETS = ["ZmqVerif.Props.C03"]
ESCALATE_ROUNDS = 1  # extra seeded rounds of the random families when /repo differs from the validated baseline
RULE = (
    "corpus of past witnesses first; EXHAUSTIVE byte strings over the alphabet {00,01,02,04,05,06,07,08,ff,'R'} "
    "up to length 4 (quick) / 5 (thorough) after a valid greeting; structure-aware mutations of valid streams "
    "(every command truncated at every offset, every length field replaced by {0,len-1,len+1,255,2^16,2^31,"
    "2^32-1,2^40,2^63,2^64-1}), every command name the ZMTP RFCs know (READY, ERROR, SUBSCRIBE, CANCEL, PING, PONG, HELLO, WELCOME, INITIATE, MESSAGE, near-misses) with 13 truncated / odd bodies each as short and long command frames, 20 000 MORE frames in one read, hostile bytes before/inside the greeting, seeded "
    "random bytes; socket level (world engine, every poll on a 2 MiB-stack thread): for each of the 8 socket types that read, 6 000 / 25 000 "
    "items the recv loop ignores (READY commands; bogus subscriptions for PUB/XPUB; non-matching topics for SUB) in ONE "
    "read followed by a valid message, then a healthy peer's message — no crash, both delivered; peer-state families: subscriptions of 0..1000 bytes (plain, cancelled, multi-frame, garbage) against published topics of 0..300 bytes on PUB/XPUB, ROUTER peers with identities of every legal length and sends to near-miss addresses, REP requests behind envelopes of up to 40 frames and their replies — state built from a peer's well-formed bytes must not make the application's own later call panic. Non-trivial: the implementation returned something other than 'none' (an item or an error). "
    "Spec oracle (needs no model): no PANIC, no abort/stack overflow of the child process, heap growth within "
    "64 x bytes-received + 32 KiB (peak growth and largest single request, measured around the decode calls)."
    ' Family text-identity: a peer announces an identity that is valid UTF-8 with 2-, 3- and 4-byte characters at every byte offset (up to 255 bytes), then leaves (EOF / reset) while a second peer goes on; the harness installs a `log` logger that FORMATS every record the library emits, and its panic hook counts panics on every thread: a panic inside a task the library spawned (swallowed by the runtime) is reported on the op during which it happened.'
    " Family bad-peer-then-traffic: one peer's stream turns malformed after its handshake (a command frame the decoder rejects, a PING, a truncated long command) while ANOTHER peer has five messages waiting — before, between or after them, both registration orders, six receiving socket types; a receiver that does nothing but call recv gets all five: the reaction is limited to the bad connection."
)
ASSUMPTIONS = [
    "allocator and stack limits are observed (counting allocator, 256 KiB stack thread), not modelled",
    "heap budget per feed: 64 x (bytes buffered + chunk) + 32 KiB — linear overhead per frame (VecDeque<Bytes> entry, canonical copy) is allowed, length-driven reservation is not",
]
TRUSTED = ["bytes crate panic conditions of get_u8/get_u32/get_u64/split_to/index as modelled in Model.Basic"]
G = zmtp.greeting()
ALPHA = [0x00, 0x01, 0x02, 0x04, 0x05, 0x06, 0x07, 0x08, 0xFF, ord("R")]
LENS = [0, 255, 1 << 16, 1 << 31, (1 << 32) - 1, 1 << 40, 1 << 63, (1 << 64) - 1]


def hostile(name, chunks, tags, greet=True):
    ops = ["newdec"]
    if greet:
        ops.append("hfeed " + G.hex())
    for c in chunks:
        ops.append("hfeed " + zmtp.hx(c))
    return Case(name, "codec", ops, tags)


def mutations(rng):
    out = []
    body = zmtp.command_body(b"READY", [(b"Socket-Type", b"DEALER"), (b"Identity", b"abc")])
    # every truncation of the command body, re-framed with a correct frame length
    for cut in range(len(body) + 1):
        out.append((zmtp.frame(body[:cut], command=True), "trunc-command"))
    # every length field of the command replaced
    name_len_off = 0
    offs = [0]  # name length
    o = 1 + 5
    for k, v in [(b"Socket-Type", b"DEALER"), (b"Identity", b"abc")]:
        offs.append(o)  # prop name len
        o += 1 + len(k)
        offs.append(("u32", o))  # value len
        o += 4 + len(v)
    for off in offs:
        for val in [0, 1, 2, 5, 11, 254, 255, (1 << 16), (1 << 31), (1 << 32) - 1]:
            b = bytearray(body)
            if isinstance(off, tuple):
                b[off[1] : off[1] + 4] = struct.pack(">I", val & 0xFFFFFFFF)
            else:
                b[off] = val & 0xFF
            out.append((zmtp.frame(bytes(b), command=True), "cmd-length-field"))
    # every command NAME the ZMTP RFCs (23/3.0, 37/3.1, 25-27 mechanisms) know — a library that grows support for one
    # of them gets a new parser path for peer bytes — each with every kind of truncated / odd body: nothing after the
    # name, a lone length octet, a length octet promising more than follows, READY-style properties, long garbage;
    # as short and as long command frames, and with a wrong name-length octet
    known = [b"READY", b"ERROR", b"SUBSCRIBE", b"CANCEL", b"PING", b"PONG", b"HELLO", b"WELCOME", b"INITIATE", b"MESSAGE",
             b"ready", b"error", b"READYX", b"ERRO"]
    tails = [b"", b"\x00", b"\x01", b"\x03ab", b"\x09abc", b"\xff", b"\x00\x00", b"\x00\x00\x00\x00", b"\x0bSocket-Type", b"\x0bSocket-Type\x00\x00",
             b"\x00\x01\x00\x00\x00\x00", b"\x05hello\x00\x00\x00\x05worl", b"x" * 300]
    for name in known:
        for tail in tails:
            b = bytes([len(name)]) + name + tail
            out.append((zmtp.frame(b, command=True), "known-command-odd-body"))
            out.append((zmtp.frame(b, command=True, force_long=True), "known-command-odd-body"))
        for wrong in (0, len(name) - 1, len(name) + 1, 255):
            out.append((zmtp.frame(bytes([wrong & 0xFF]) + name, command=True), "known-command-odd-body"))
    # frame length fields
    for flags in [0x00, 0x01, 0x02, 0x03, 0x04, 0x05, 0x06, 0x07, 0x0A, 0xFE]:
        for ln in LENS + [1, 7, 8, 9]:
            if flags & 2:
                hdr = bytes([flags]) + struct.pack(">Q", ln)
            else:
                hdr = bytes([flags, ln & 0xFF])
            out.append((hdr, "frame-length-field"))
            out.append((hdr + b"RRRRRRRR", "frame-length-field"))
    return out


def cases(tier, rng):
    out = gen.corpus(ID)
    n = 0
    maxlen = 4 if tier == "quick" else 5
    for L in range(1, maxlen + 1):
        for t in itertools.product(ALPHA, repeat=L):
            out.append(hostile(f"alpha#{n}", [bytes(t)], ["alphabet"]))
            n += 1
    k6 = 3000 if tier == "quick" else 60000
    for _ in range(k6):
        t = bytes(rng.choice(ALPHA) for _ in range(rng.randint(maxlen + 1, 8)))
        out.append(hostile(f"alpha-sampled#{n}", [t], ["alphabet-sampled"]))
        n += 1
    for b, tag in mutations(rng):
        out.append(hostile(f"{tag}#{n}", [b], [tag]))
        n += 1
        # and split in two reads at a random point
        if len(b) > 1:
            c = rng.randrange(1, len(b))
            out.append(hostile(f"{tag}-split#{n}", [b[:c], b[c:]], [tag]))
            n += 1
    # many MORE frames in a single read (native recursion depth / quadratic behaviour)
    for cnt in ([2000, 20000] if tier == "quick" else [2000, 20000, 60000]):
        out.append(hostile(f"deep#{n}", [b"\x01\x00" * cnt + b"\x00\x00"], ["deep-more-frames"]))
        n += 1
        out.append(hostile(f"deep#{n}", [b"\x01\x01x" * cnt], ["deep-more-frames"]))
        n += 1
    # hostile bytes instead of / inside the greeting
    for pre in [0, 1, 9, 10, 12, 31, 32, 63]:
        for junk in [b"\x00" * 64, b"\xff" * 64, bytes(range(64)), b"\xff" + b"\x00" * 8 + b"\x7f" + b"\xff" * 54]:
            out.append(hostile(f"greeting#{n}", [G[:pre] + junk[pre:]], ["greeting-stage"], greet=False))
            n += 1
    # socket level: a flood of items the socket's recv loop IGNORES or rejects, all in one read, through real sockets
    # polled on a 2 MiB-stack thread (a tokio worker's stack): the socket must consume them iteratively, deliver
    # the message that follows, and a healthy peer must keep working
    out += flood_cases(6000 if tier == "quick" else 25000)
    # socket level: READY commands that are well-formed as FRAMES but hostile as handshakes, through the real
    # handshake code of every socket type (Socket-Type / Identity values of odd sizes, duplicates, unknown and empty
    # property names, no properties) — rejected or admitted, never a crash; a healthy peer still gets in afterwards
    out += hostile_handshakes(tier)
    # socket level: state BUILT FROM peer bytes (subscriptions, identities, envelopes) and then used by the
    # application's own calls (send / reply): well-formed but awkward values must not make a later API call panic
    out += peer_state_cases(tier)
    # seeded random bytes
    kr = 2000 if tier == "quick" else 40000
    for _ in range(kr):
        ln = rng.choice([1, 2, 3, 9, 10, 17, 64, 300])
        b = bytes(rng.randrange(256) if rng.random() < 0.5 else rng.choice(ALPHA) for _ in range(ln))
        out.append(hostile(f"random#{n}", [b], ["random"]))
        n += 1
    return out


FLOOD_PEER = {"PULL": "PUSH", "SUB": "PUB", "DEALER": "ROUTER", "ROUTER": "DEALER", "REP": "REQ", "XPUB": "SUB",
              "REQ": "REP", "PUB": "SUB"}


def hostile_handshakes(tier):
    from vlib import worldgen as wg
    out = []
    n = 0
    st = b"Socket-Type"
    variants = []
    for name in [b"", b"X", b"PUSHPULL", b"PUSHPULL9", b"SUBSCRIBER", b"A" * 16, b"B" * 255, b"C" * 256, b"D" * 1000, b"E" * 70000]:
        variants.append(("type-%d" % len(name), [(st, name)]))
    for ln in [0, 1, 255, 256, 257, 1000, 70000]:
        variants.append(("identity-%d" % ln, [(b"Identity", b"i" * ln), (st, None)]))
        variants.append(("identity-last-%d" % ln, [(st, None), (b"Identity", b"i" * ln)]))
    variants += [
        ("no-properties", []),
        ("duplicate-type", [(st, None), (st, b"BOGUSBOGUSBOGUS")]),
        ("duplicate-type-first", [(st, b"BOGUSBOGUSBOGUS"), (st, None)]),
        ("duplicate-identity", [(b"Identity", b"a"), (b"Identity", b"b" * 300), (st, None)]),
        ("unknown-property", [(b"X-Unknown", b"u" * 300), (st, None)]),
        ("lower-case-name", [(b"socket-type", None)]),
        ("long-property-name", [(b"N" * 255, b"v"), (st, None)]),
        ("many-properties", [(b"P%d" % i, b"v" * i) for i in range(200)] + [(st, None)]),
    ]
    for t, pt in FLOOD_PEER.items():
        for vname, props in (variants if (tier != "quick" or t in ("PULL", "ROUTER", "SUB", "REQ")) else variants[:10]):
            ps = [(k, (pt.encode() if v is None else v)) for k, v in props]
            sc = wg.Script()
            sc.sock(1, t)
            f = sc.fut()
            sc.add(f"attach {f} 1 1", f"reveal 1 {wg.hx(G + zmtp.command(b'READY', ps))}", f"poll {f}", f"poll {f}", f"drop {f}", "halves 1")
            sc.attach(1, 2, pt, b"good")
            sc.add("halves 2")
            out.append(Case(f"hostile-ready-{t}-{vname}#{n}", "world", list(sc.ops), ["socket-hostile-ready"]))
            n += 1
    return out


def peer_state_cases(tier):
    from vlib import worldgen as wg
    out = []
    n = 0
    sub_lens = [0, 1, 2, 16, 33, 255, 256, 1000]
    topic_lens = [0, 1, 2, 15, 16, 17, 33, 300]
    # PUB / XPUB: subscriptions of every length against topics of every length (shorter, equal, longer, empty)
    for t in ("PUB", "XPUB"):
        for shape in ("subscribe", "sub-unsub", "multiframe", "garbage"):
            sc = wg.Script()
            sc.sock(1, t)
            sc.attach(1, 1, "SUB", b"odd")
            sc.attach(1, 2, "SUB", b"good")
            sc.reveal_msg(2, [b"\x01"])
            for L in sub_lens:
                body = bytes([0x61 + (i % 3) for i in range(L)])
                if shape == "subscribe":
                    sc.reveal_msg(1, [b"\x01" + body])
                elif shape == "sub-unsub":
                    sc.reveal_msg(1, [b"\x01" + body])
                    sc.reveal_msg(1, [b"\x01" + body + b"z"])
                    sc.reveal_msg(1, [b"\x00" + body])
                elif shape == "multiframe":
                    sc.reveal_msg(1, [b"\x01" + body, b"tail"])
                    sc.reveal_msg(1, [b"\x01" + body])
                else:
                    sc.reveal_msg(1, [bytes([2 + L % 250]) + body])
                    sc.reveal_msg(1, [b""])
                    sc.reveal_msg(1, [b"\x01" + body])
            if t == "PUB":
                sc.add("drain")
            else:
                for _ in range(len(sub_lens) * 3 + 2):
                    f = sc.fut()
                    sc.add(f"recv {f} 1", f"poll {f}", f"drop {f}")
            for L in topic_lens:
                for first in (bytes([0x61 + (i % 3) for i in range(L)]), b"q" * L):
                    f = sc.fut()
                    sc.add(f"send {f} 1 {wg.mtok([first, b'body'])}", f"poll {f}", f"drop {f}", "wire 1", "wire 2")
            out.append(Case(f"peer-state-{t}-{shape}#{n}", "world", list(sc.ops), ["socket-peer-state"]))
            n += 1
    # ROUTER: identities of every legal length, then sends addressed to them / to near misses
    for L in ([1, 2, 16, 17, 255] if tier == "quick" else [1, 2, 15, 16, 17, 100, 254, 255]):
        ident = bytes([0x41 + (i % 5) for i in range(L)])
        sc = wg.Script()
        sc.sock(1, "ROUTER")
        sc.attach(1, 1, "DEALER", ident)
        sc.attach(1, 2, "DEALER", b"good")
        for tgt in (ident, ident[:-1], ident + b"A", ident * 2, b"good"):
            if not tgt:
                continue
            f = sc.fut()
            sc.add(f"send {f} 1 {wg.mtok([tgt, b'x'])}", f"poll {f}", f"drop {f}", "wire 1", "wire 2")
        out.append(Case(f"peer-state-ROUTER-ident-{L}#{n}", "world", list(sc.ops), ["socket-peer-state"]))
        n += 1
    # proxy(): whatever a peer of ONE socket sends is handed to the OTHER socket's send — a worker's message with too few
    # frames, an unknown or empty or oversized identity frame must end in an error (the proxy may return it), never in a
    # panic (finding D19: ROUTER's send asserted on the frame count)
    for wm in ([b"x"], [b""], [b"c1"], [b"nobody", b"x"], [b"", b"x"], [b"Z" * 256, b"x"], [b"c1", b""], [b"c1", b"", b"ok"]):
        sc = wg.Script()
        sc.sock(1, "ROUTER")
        sc.sock(2, "DEALER")
        sc.attach(1, 1, "REQ", b"c1")
        sc.attach(2, 11, "REP", b"w1")
        f = sc.fut()
        sc.add(f"proxy {f} 1 2", f"poll {f}")
        sc.reveal_msg(11, wm)
        sc.add(f"poll {f}", "wire 1", "halves 1", "halves 11")
        out.append(Case(f"peer-state-proxy-worker-msg#{n}", "world", list(sc.ops), ["socket-proxied-message"]))
        n += 1
    # identities that are TEXT (valid UTF-8 with multi-byte characters at every offset): whatever the library does with a
    # peer's identity besides comparing it — log lines (the harness installs a logger that formats every record), monitor
    # events — has to cope with the bytes the peer chose; the named peer then leaves and the socket goes on serving
    texts = []
    for ch in ("\u00fc", "\u20ac", "\U0001f600"):
        w = len(ch.encode())
        for lead in range(w):
            texts.append(("a" * lead + ch * ((255 - lead) // w)).encode())
    texts += [("a" * lead + "\u00fc" * 20).encode() for lead in (0, 1)] + ["Wetterstation-Nord2/Temperaturf\u00fchler-07".encode()]
    for t, pt, good in (("PUB", "SUB", [b"\x01"]), ("XPUB", "SUB", [b"\x01"]), ("ROUTER", "DEALER", [b"ok"]), ("PULL", "PUSH", [b"ok"]),
                        ("REP", "REQ", [b"", b"ok"]), ("DEALER", "ROUTER", [b"ok"]), ("SUB", "PUB", [b"ok"]), ("PUSH", "PULL", None)):
        for ident in (texts if t in ("PUB", "XPUB", "ROUTER") or tier != "quick" else texts[:3]):
            for leave in ("eof", "rderr"):
                sc = wg.Script()
                sc.sock(1, t)
                sc.attach(1, 1, pt, ident)
                sc.attach(1, 2, pt, b"good")
                sc.add(f"{leave} 1")
                if t in ("PUB", "PUSH"):
                    sc.add("drain")
                    f = sc.fut()
                    sc.add(f"send {f} 1 {wg.mtok([b'm1'])}", f"poll {f}", f"drop {f}")
                    sc.add("drain")
                if good is not None:
                    sc.reveal_msg(2, good)
                if t == "PUB":
                    sc.add("drain")
                elif t != "PUSH":
                    for _ in range(2):
                        f = sc.fut()
                        sc.add(f"recv {f} 1", f"poll {f}", f"drop {f}")
                if t != "PULL" and t != "SUB":
                    f = sc.fut()
                    m = [b"good", b"x"] if t == "ROUTER" else [b"m2"]
                    sc.add(f"send {f} 1 {wg.mtok(m)}", f"poll {f}", f"drop {f}", "wire 2")
                sc.add("halves 1", "halves 2")
                out.append(Case(f"peer-state-{t}-text-identity-{len(ident)}-{leave}#{n}", "world", list(sc.ops), ["socket-peer-state", "text-identity"]))
                n += 1
    # one peer's stream turns MALFORMED after its handshake while another peer has a BACKLOG of messages: the reaction is
    # limited to dropping that connection — every message of the other peer is still delivered, to a receiver that does
    # nothing but call recv (both registration orders; the bad bytes before, between and after the good peer's messages)
    bads = {"bad-command": bytes([4, 1, 0]), "ping": zmtp.frame(b"\x04PING\x00\x00", command=True), "long-command-short": bytes([6, 0, 0, 0])}
    for t, pt in (("PULL", "PUSH"), ("ROUTER", "DEALER"), ("DEALER", "ROUTER"), ("REP", "REQ"), ("SUB", "PUB"), ("XPUB", "SUB")):
        goods = [([b"", b"m%d" % i] if t == "REP" else [b"\x01m%d" % i] if t == "XPUB" else [b"m%d" % i]) for i in range(5)]
        for bname, bad in bads.items():
            for order in ("bad-first", "good-first"):
                for when in (0, 1, 5):
                    sc = wg.Script()
                    sc.sock(1, t)
                    pb, pg = (1, 2) if order == "bad-first" else (2, 1)
                    for p in sorted((pb, pg)):
                        sc.attach(1, p, pt, b"bad" if p == pb else b"good")
                    for m in goods[:when]:
                        sc.reveal_msg(pg, m)
                    sc.add(f"reveal {pb} {wg.hx(bad)}")
                    if when == 1:
                        f = sc.fut()
                        sc.add(f"recv {f} 1", f"poll {f}", f"drop {f}")
                    for m in goods[when:]:
                        sc.reveal_msg(pg, m)
                    futs = []
                    for _ in range(len(goods) + 2):
                        f = sc.fut()
                        if t == "REP":
                            # (REP answers each request before it takes the next)
                            sc.add(f"recv {f} 1", f"poll {f}", f"drop {f}")
                            g = sc.fut()
                            sc.add(f"send {g} 1 {wg.mtok([b'r'])}", f"poll {g}", f"drop {g}")
                        else:
                            sc.add(f"recv {f} 1", f"poll {f}", f"drop {f}")
                        futs.append(f)
                    sc.add(f"halves {pb}", f"halves {pg}")
                    c = Case(f"bad-peer-then-traffic-{t}-{bname}-{order}-{when}#{n}", "world", list(sc.ops), ["socket-peer-state", "bad-peer-then-traffic"])
                    c.expect = ("bad-peer-then-traffic", futs, len(goods))
                    out.append(c)
                    n += 1
    # REP: requests with long / odd envelopes, then the reply that has to retrace them
    for env in ([], [b"r" * 255], [b"a", b"b" * 255, b"c" * 300], [b"x"] * 40):
        sc = wg.Script()
        sc.sock(1, "REP")
        sc.attach(1, 1, "DEALER", b"odd")
        sc.attach(1, 2, "REQ", b"good")
        sc.reveal_msg(1, env + [b"", b"question", b"", b"more"])
        f = sc.fut()
        sc.add(f"recv {f} 1", f"poll {f}", f"drop {f}")
        f = sc.fut()
        sc.add(f"send {f} 1 {wg.mtok([b'answer', b''])}", f"poll {f}", f"drop {f}", "wire 1", "wire 2")
        sc.reveal_msg(2, [b"", b"q2"])
        f = sc.fut()
        sc.add(f"recv {f} 1", f"poll {f}", f"drop {f}")
        f = sc.fut()
        sc.add(f"send {f} 1 {wg.mtok([b'a2'])}", f"poll {f}", f"drop {f}", "wire 1", "wire 2")
        out.append(Case(f"peer-state-REP-envelope-{len(env)}#{n}", "world", list(sc.ops), ["socket-peer-state"]))
        n += 1
    return out


def flood_cases(k):
    from vlib import worldgen as wg
    out = []
    cmd = zmtp.frame(b"\x05READY", command=True)          # a well-formed READY with no properties
    n = 0
    for t, pt in FLOOD_PEER.items():
        floods = {"commands": cmd * k}
        if t in ("PUB", "XPUB"):
            floods["bogus-subscriptions"] = zmtp.message([b"\x02zz"]) * k
        if t == "SUB":
            floods["unsubscribed-topics"] = zmtp.message([b"nomatch"]) * k
        for fname, flood in floods.items():
            sc = wg.Script()
            sc.sock(1, t)
            sc.attach(1, 1, pt, b"flood")
            sc.attach(1, 2, pt, b"good")
            if t == "SUB":
                f = sc.fut()
                sc.add(f"sub {f} 1 {wg.hx(b'ok')}", f"poll {f}", f"drop {f}", "wire 1", "wire 2")
            good = {"REP": [b"", b"ok"], "REQ": [b"", b"ok"], "XPUB": [b"\x01ok"], "PUB": [b"\x01ok"]}.get(t, [b"ok"])
            if t == "REQ":
                f = sc.fut()
                sc.add(f"send {f} 1 {wg.hx(b'q')}", f"poll {f}", f"drop {f}", "wire 1", "wire 2")
            sc.add(f"reveal 1 {wg.hx(flood + zmtp.message(good))}")
            if t == "PUB":
                sc.add("drain")
                f = sc.fut()
                sc.add(f"send {f} 1 {wg.hx(b'ok-topic')}", f"poll {f}", f"drop {f}", "wire 1", "wire 2")
            else:
                f = sc.fut()
                sc.add(f"recv {f} 1", f"poll {f}", f"drop {f}")
            # the healthy peer
            if t == "PUB":
                sc.reveal_msg(2, [b"\x01ok"])
                sc.add("drain")
                f = sc.fut()
                sc.add(f"send {f} 1 {wg.hx(b'ok-again')}", f"poll {f}", f"drop {f}", "wire 2")
            elif t != "REQ":
                sc.reveal_msg(2, good)
                f = sc.fut()
                sc.add(f"recv {f} 1", f"poll {f}", f"drop {f}")
            out.append(Case(f"flood-{t}-{fname}#{n}", "world", list(sc.ops), ["socket-flood"]))
            n += 1
    return out


def oracle(case, impl_lines):
    if case.engine == "world":
        for op, l in zip(["case"] + case.ops, impl_lines):
            if "PANIC" in l:
                return f"the library panicked on `{op[:80]}`"
            if l.startswith("ABORT") or l.startswith("TIMEOUT"):
                return f"the process died ({l}) on `{op[:80]}` — abort / stack overflow / hang"
        polls = [l for op, l in zip(case.ops, impl_lines[1:]) if op.startswith("poll")]
        if "socket-hostile-ready" in case.tags:
            if polls and "attach" in " ".join(case.ops[-6:]) and not polls[-1].startswith("ready ok id="):
                return f"after the hostile handshake a healthy peer is no longer admitted: {polls[-1]}"
            return None
        if "socket-proxied-message" in case.tags:
            return None     # (no PANIC / ABORT / TIMEOUT above: the proxy forwarded the message or returned an error)
        if "bad-peer-then-traffic" in case.tags:
            _, futs, want = case.expect
            got = [l for op, l in zip(case.ops, impl_lines[1:]) if op.startswith("poll") and l.startswith("ready ok M[")]
            if len(got) != want:
                return (f"one peer's stream turned malformed; the OTHER peer had {want} messages waiting and a receiver that only calls "
                        f"recv got {len(got)} of them: other connections of the same socket must keep working")
            return None
        if "text-identity" in case.tags:
            return None     # (no PANIC above, on any thread; the diff against the model settles what the socket does next)
        if "socket-peer-state" in case.tags:
            if not polls or not polls[-1].startswith("ready ok"):
                return f"after handling a peer's odd but well-formed values the socket's own calls fail: {polls[-1:]}"
            return None
        if not any(l.startswith("ready ok M[") or l == "ready ok" for l in polls[-2:]):
            return f"after the flood the socket no longer delivers: {polls[-2:]}"
        return None
    for op, l in zip(["case"] + case.ops, impl_lines):
        if "PANIC" in l:
            return f"the library panicked on `{op[:80]}`"
        if l.startswith("ABORT") or l.startswith("TIMEOUT"):
            return f"the process died ({l}) on `{op[:80]}` — abort / stack overflow / hang"
        if "EXCESS" in l:
            return f"allocation out of proportion to the bytes received on `{op[:80]}`: {l.split('heap ')[1]}"
    return None


def nontrivial(case, impl_lines):
    if case.engine == "world":
        return any(l.startswith("ready ok") for l in impl_lines)
    return any(l.startswith("items ") and not l.startswith("items none") for l in impl_lines[2:])


def signature(case, ml, il, o):
    kind = "panic" if o and "panicked" in o else "abort" if o and "died" in o else "alloc" if o and "allocation" in o else "diff"
    return kind + ":" + case.name.split("#")[0]


def search(tier, rng):
    """a proof obligation over the regenerated tables broke: look the failing pair up in the dump"""
    import re
    from vlib import core

    src = open(core.LEAN + "/ZmqVerif/Gen/Tables.lean").read()
    m = re.search(r"def compat .*?\]\n\n", src, re.S)
    names = ["PAIR", "PUB", "SUB", "REQ", "REP", "DEALER", "ROUTER", "PULL", "PUSH", "XPUB", "XSUB", "STREAM"]
    bad = re.findall(r"\((\d+), (\d+), none\)", m.group(0)) if m else []
    if bad:
        a, b = bad[0]
        return {"call": f"SocketType::{names[int(a)]}.compatible(SocketType::{names[int(b)]})", "observed": "panic",
                "all_panicking_pairs": len(bad)}
    return None
