"""C07 — REQ/REP envelopes added, preserved, stripped exactly (engine: world)."""
import itertools

from vlib import gen, worldgen as wg
from vlib.core import Case

ID = "C07"
LEAN_TARGETS = ["ZmqVerif.Props.C07"]
ESCALATE_ROUNDS = 2  # extra seeded rounds of the random families when /repo differs from the validated baseline
RULE = (
    "real REQ and REP sockets with scripted raw peers. EXHAUSTIVE: payload shapes of 1..3 frames (quick) / 1..4 "
    "(thorough) x frame sizes {0, 5, 256, 70000}; for REQ the request's wire bytes and the result of recv on four "
    "scripted replies (good, no delimiter, delimiter only, single frame); for REP envelope prefixes of 0..3 identity "
    "frames (1, 16, 255 bytes) x payloads x the degenerate requests (delimiter last, single frame, no delimiter), "
    "then the reply's wire bytes. Non-trivial: a recv returned a message. Spec oracle (python, independent of the "
    "model): REQ wire = [empty]+payload; REQ recv returns exactly the frames after the delimiter; REP returns exactly "
    "the frames after the FIRST empty frame, never a zero-frame message; the reply wire = prefix+delimiter+reply."
)
ASSUMPTIONS = ["frames above 48 bytes compared as first 16 bytes + length + FNV-64"]
TRUSTED = ["VecDeque<Bytes> frame list operations modelled as list operations"]
SIZES = [0, 5, 256, 70000]
SHRINK = False


def payloads(maxn):
    out = []
    seed = 0
    for n in range(1, maxn + 1):
        for lens in itertools.product(SIZES, repeat=n):
            fr = []
            for l in lens:
                seed += 1
                fr.append(("gen", l, seed))
            out.append(fr)
    return out


def cases(tier, rng):
    out = gen.corpus(ID)
    # safety net: seeded random schedules of these socket types over scripted pipes (partial reads, back-pressure,
    # errors, futures polled once or twice and then ABANDONED, sockets dropped) — every line predicted by the World model
    for i in range(150 if tier == "quick" else 3000):
        out.append(wg.random_case(rng, f"random-world#{i}", ["REQ", "REP", "DEALER", "ROUTER"], tags=("random-world",)))
    maxn = 3 if tier == "quick" else 4
    pls = payloads(maxn)
    n = 0
    # REQ with several servers, one of which is LOST (its connection ends while its reply is awaited, or a write to it
    # fails): the socket forgets it, its identity is still in the rotation — every later request, also the one that
    # skips the stale entry, goes out behind exactly ONE delimiter and its reply comes back unmodified
    for how in ("eof", "rderr", "wrerr"):
        for nsrv in (2, 3):
            for p in ([b"x"], [b"a", b"", b"b"], [b"", b"q"], [b"k", b"y" * 300]):
                sc = wg.Script()
                sc.sock(1, "REQ")
                for k in range(1, nsrv + 1):
                    sc.attach(1, k, "REP", b"srv%d" % k)
                    sc.add(f"wire {k}")
                if how == "wrerr":
                    sc.add("wrerr 1 BrokenPipe")
                f = sc.fut()
                sc.add(f"send {f} 1 {wg.mtok(p)}", f"poll {f}", f"drop {f}")
                if how != "wrerr":
                    sc.add("eof 1" if how == "eof" else "rderr 1 ConnectionReset")
                    g = sc.fut()
                    sc.add(f"recv {g} 1", f"poll {g}", f"drop {g}")
                sc.add("wire 1")
                # two full turns of the rotation over the surviving servers (the rotation is deterministic: the survivors
                # in their order of attachment; the lost server's stale entry is skipped when it comes up)
                surv = list(range(2, nsrv + 1))
                for turn in range(2 * nsrv):
                    tgt = surv[turn % len(surv)]
                    f = sc.fut()
                    sc.add(f"send {f} 1 {wg.mtok(p)}", f"poll {f}", f"drop {f}")
                    for k in surv:
                        sc.add(f"wire {k}")
                    sc.reveal_msg(tgt, [b""] + [b"re"] + p)
                    g = sc.fut()
                    sc.add(f"recv {g} 1", f"poll {g}", f"drop {g}")
                c = sc.case(f"req-after-peer-loss-{how}#{n}", ["req-after-peer-loss"])
                c.expect = ("reqloss", p, nsrv)
                out.append(c)
                n += 1
    # REQ: wire of the request, then recv on scripted replies
    replies = [
        ("good", lambda r: [b""] + r),
        ("nodelim", lambda r: [b"x"] + r),
        ("delimonly", lambda r: [b""]),
        ("single", lambda r: [b"solo"]),
        ("emptyinside", lambda r: [b"", b""] + r),
    ]
    for p in pls:
        for rname, rf in replies:
            sc = wg.Script()
            sc.sock(1, "REQ")
            sc.attach(1, 1, "REP")
            sc.add("wire 1")
            f = sc.fut()
            sc.add(f"send {f} 1 {wg.mtok(p)}", f"poll {f}", "wire 1")
            reply = rf(p)
            sc.add(f"reveal 1 {wg.wire_tok(reply)}")
            g = sc.fut()
            sc.add(f"recv {g} 1", f"poll {g}")
            c = sc.case(f"req-{rname}#{n}", ["req-" + rname])
            c.expect = ("req", p, reply)
            out.append(c)
            n += 1
            if rname != "good" and len(p) > 1:
                break  # degenerate replies once per shape of length 1
    # REP: prefixes x payloads, then the reply
    ids = [b"A", b"B" * 16, b"C" * 255]
    prefixes = [[]] + [[i] for i in ids] + [[a, b] for a in ids[:2] for b in ids[:2]] + [[ids[0], ids[1], ids[2]]]
    for pre in prefixes:
        for p in pls if len(pre) <= 1 else pls[:: max(1, len(pls) // 24)]:
            sc = wg.Script()
            sc.sock(1, "REP")
            sc.attach(1, 1, "DEALER" if pre else "REQ")
            sc.add("wire 1")
            req = list(pre) + [b""] + p
            sc.add(f"reveal 1 {wg.wire_tok(req)}")
            f = sc.fut()
            sc.add(f"recv {f} 1", f"poll {f}")
            reply = [b"re", ("gen", 300, n), b""]
            g = sc.fut()
            sc.add(f"send {g} 1 {wg.mtok(reply)}", f"poll {g}", "wire 1")
            c = sc.case(f"rep#{n}", ["rep"])
            c.expect = ("rep", req, reply)
            out.append(c)
            n += 1
    # REP: two requests received in a row (the first one is never answered) — the reply must carry the envelope of
    # the request being answered, not a stale one
    for pre1 in prefixes[:6]:
        for pre2 in prefixes[:6]:
            for skip in ("recv-again", "malformed-between"):
                sc = wg.Script()
                sc.sock(1, "REP")
                sc.attach(1, 1, "DEALER", b"d1")
                sc.attach(1, 2, "DEALER" if pre2 else "REQ", b"d2")
                sc.add("wire 1", "wire 2")
                req1 = list(pre1) + [b"", b"first"]
                req2 = list(pre2) + [b"", b"second"]
                sc.add(f"reveal 1 {wg.wire_tok(req1)}")
                f = sc.fut()
                sc.add(f"recv {f} 1", f"poll {f}")
                if skip == "malformed-between":
                    sc.add(f"reveal 1 {wg.wire_tok([b'junk'])}")
                    f = sc.fut()
                    sc.add(f"recv {f} 1", f"poll {f}")
                sc.add(f"reveal 2 {wg.wire_tok(req2)}")
                f = sc.fut()
                sc.add(f"recv {f} 1", f"poll {f}")
                g = sc.fut()
                sc.add(f"send {g} 1 {wg.mtok([b'answer'])}", f"poll {g}", "wire 1", "wire 2")
                c = sc.case(f"rep-two-requests#{n}", ["rep-unanswered-then-answered"])
                c.expect = ("rep2", req2, [b"answer"])
                out.append(c)
                n += 1
    # REP: degenerate requests
    for pre in prefixes:
        for name, req in [("delimlast", list(pre) + [b""]), ("delimlast2", list(pre) + [b"x", b""]),
                          ("single", [b"only"]), ("singleempty", [b""]), ("nodelim", list(pre) + [b"a", b"b"]),
                          ("nodelim3", [b"a", b"b", b"c"])]:
            if not req:
                continue
            sc = wg.Script()
            sc.sock(1, "REP")
            sc.attach(1, 1, "DEALER")
            sc.add("wire 1", f"reveal 1 {wg.wire_tok(req)}")
            f = sc.fut()
            sc.add(f"recv {f} 1", f"poll {f}")
            g = sc.fut()
            sc.add(f"send {g} 1 {wg.mtok([b'reply'])}", f"poll {g}", "wire 1")
            c = sc.case(f"rep-{name}#{n}", ["rep-degenerate"])
            c.expect = ("rep", req, [b"reply"])
            out.append(c)
            n += 1
    return out


def ref_rep_split(req):
    """the property, read literally: payload = frames after the first empty frame; rejected if none follow"""
    if len(req) < 2:
        return None
    idx = next((i for i, f in enumerate(req) if wg.flen(f) == 0), None)
    cut = idx + 1 if idx is not None else 1
    if cut >= len(req):
        return None
    return req[:cut], req[cut:]


def oracle(case, lines):
    if any(l.startswith(("PANIC", "ABORT", "TIMEOUT")) for l in lines):
        return "panic/abort"
    if "EMPTYMSG" in " ".join(lines):
        return "a message with ZERO frames was handed to the application"
    if not case.expect:
        return None
    kind, a, b = case.expect
    out = dict()
    polls = [l for op, l in zip(case.ops, lines[1:]) if op.startswith("poll")]
    wires = [l for op, l in zip(case.ops, lines[1:]) if op.startswith("wire")]
    if kind == "reqloss":
        p, nsrv = a, b
        want = wg.show_wire([[b""] + p])
        seen = 0
        for op, l in zip(case.ops, lines[1:]):
            if op.startswith("wire ") and op != "wire 1" and l != "wire ." and not l.startswith("wire ff"):
                seen += 1
                if l != "wire " + want:
                    return (f"after a server was lost, a request went out as {l[:90]} — not [ONE delimiter]+payload "
                            f"(want wire {want[:70]})")
        if seen < 2 * nsrv:
            return f"after a server was lost only {seen} of {2 * nsrv} requests reached the surviving servers"
        exp = f"ready ok M[{wg.show_frames([b're'] + p)}]"
        got = [l for op, l in zip(case.ops, lines[1:]) if op.startswith("poll") and l.startswith("ready ok M[")]
        if len(got) < 2 * nsrv or any(g != exp for g in got[-2 * nsrv:]):
            return f"a reply did not come back as the frames after its delimiter: {[g[:60] for g in got[-2 * nsrv:]]} (want {exp[:60]})"
        return None
    if kind == "rep2":
        req2, reply = a, b
        env, data = ref_rep_split(req2)
        if polls[-2] != f"ready ok M[{wg.show_frames(data)}]":
            return f"second request not delivered as the frames after its delimiter: {polls[-2][:100]}"
        want = "wire " + wg.show_wire([env + reply])
        if polls[-1] != "ready ok" or wires[-1] != want or wires[-2] != "wire .":
            return (f"reply to the SECOND request is not prefixed with that request's own envelope on its own connection: "
                    f"{wires[-2][:60]} / {wires[-1][:80]} (want {want[:80]})")
        return None
    if kind == "req":
        p, reply = a, b
        if polls[1] != "ready ok":
            return f"REQ send failed: {polls[1]}"
        want = "wire " + wg.show_wire([[b""] + p])
        if wires[1] != want:
            return f"REQ request on the wire is not [delimiter]+payload: {wires[1][:80]} vs {want[:80]}"
        good = len(reply) >= 2 and wg.flen(reply[0]) == 0
        if good:
            exp = f"ready ok M[{wg.show_frames(reply[1:])}]"
            if polls[2] != exp:
                return f"REQ recv did not return exactly the frames after the delimiter: {polls[2][:100]} vs {exp[:100]}"
        elif not polls[2].startswith("ready err"):
            return f"REQ recv accepted a reply without a proper delimiter: {polls[2][:100]}"
    else:
        req, reply = a, b
        sp = ref_rep_split(req)
        if sp is None:
            if not polls[1].startswith("ready err"):
                return f"REP accepted a request with nothing after its delimiter / too few frames: {polls[1][:100]}"
        else:
            env, data = sp
            exp = f"ready ok M[{wg.show_frames(data)}]"
            if polls[1] != exp:
                return f"REP recv did not return exactly the frames after the first delimiter: {polls[1][:100]} vs {exp[:100]}"
            want = "wire " + wg.show_wire([env + reply])
            if polls[2] != "ready ok" or wires[1] != want:
                return f"REP reply is not envelope+reply on the requester's connection: {polls[2]} {wires[1][:80]} vs {want[:80]}"
    return None


def nontrivial(case, lines):
    return any(l.startswith("ready ok M[") for l in lines)


def signature(case, ml, il, o):
    return case.name.split("#")[0]
