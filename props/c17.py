"""C17 — closing or dropping a socket stops its listeners and disconnects all peers.
World part: release clauses over scripted pipes (deterministic); net part: real TCP/IPC listeners."""
import itertools

from vlib import gen, netgen, worldgen as wg, zmtp
from vlib.core import Case

ID = "C17"
LEAN_TARGETS = ["ZmqVerif.Props.C17"]
PEER = {"PULL": "PUSH", "SUB": "PUB", "DEALER": "ROUTER", "ROUTER": "DEALER", "REP": "REQ", "XPUB": "SUB",
        "PUB": "SUB", "PUSH": "PULL", "REQ": "REP"}
PREFIX = ["attach", "recv-pending", "recv-delivered", "send", "peer-eof", "pending-handshake"]
ESCALATE_ROUNDS = 0  # extra seeded rounds of the random families when /repo differs from the validated baseline
RULE = (
    "net engine (real multi-thread runtime): socket type x transport (TCP v4/v6, IPC) x history prefix {bound only, bound + "
    "accepted peers, + traffic, + a client still in its handshake} x {close(), drop}: the endpoints refuse new connections "
    "(polled up to a deadline: 'shortly afterwards'), the IPC file is gone, accepted peers observe end-of-stream. "
    "world engine (deterministic, scripted pipes whose two halves record their own Drop): for every socket type (9) x "
    "every subset-ordered prefix of {peer attached, a recv was Pending, a recv delivered a message, a send, the peer sent "
    "EOF, a second peer still in its handshake} (EXHAUSTIVE over the 2^5 combinations applicable to the type) x {drop, "
    "close()}: afterwards both halves of EVERY registered connection must be dropped — the model's prediction is compared "
    "half by half. net engine (real multi-thread runtime, TCP v4/v6 + IPC): see the listener cases. Non-trivial: at least "
    "one connection was registered when the socket went away. Spec oracle: after close/drop (and a drain of the spawned "
    "tasks) every registered connection shows r=1 w=1 — the peer observes end-of-stream; close() reports errs=0."
    " Family late-peer (engine net): connect() to a loopback port that is bound but not listening (refused) is abandoned after 800 ms, the socket is closed / dropped, THEN the port starts listening: for 6.5 s (longer than the longest pause of the library's retry loop) nothing dials it — nothing of the socket outlives it."
)
ASSUMPTIONS = ["OS sockets, the tokio scheduler and timing ('shortly afterwards') are observed on the enumerated grid, not modelled",
               "on the pinned tree a connection whose handshake was still pending survived close/drop (finding D14, repaired)"]
# history prefixes on the real runtime: bound only / accepted / traffic / pending handshake / CONNECTED OUT (through connect())
TRUSTED = ["Arc/Drop semantics as modelled by the ownership graph (Model/Lifecycle.lean)"]
SHRINK = False
IMPL_ENV = netgen.net_env()
IMPL_TIMEOUT = 2400


def build(t, flags, how, n):
    sc = wg.Script()
    sc.sock(1, t)
    sc.attach(1, 1, PEER[t], b"p1")
    sc.attach(1, 2, PEER[t], b"p2")
    if "recv-pending" in flags and t in wg.CAN_RECV and t != "REQ":
        f = sc.fut()
        sc.add(f"recv {f} 1", f"poll {f}", f"drop {f}")
    if "recv-delivered" in flags and t in wg.CAN_RECV and t != "REQ":
        fr = [b"", b"m"] if t == "REP" else [b"\x01t"] if t == "XPUB" else [b"m"]
        sc.reveal_msg(1, fr)
        f = sc.fut()
        sc.add(f"recv {f} 1", f"poll {f}", f"drop {f}")
    if "send" in flags and t in wg.CAN_SEND:
        fr = [b"p1", b"x"] if t == "ROUTER" else [b"x"]
        f = sc.fut()
        sc.add(f"send {f} 1 {wg.mtok(fr)}", f"poll {f}", f"drop {f}")
        if t == "REQ":
            sc.reveal_msg(1, [b"", b"r"])
            sc.reveal_msg(2, [b"", b"r"])
            if "recv-pending" in flags:
                pass
            f = sc.fut()
            sc.add(f"recv {f} 1", f"poll {f}", f"drop {f}")
    if "recv-pending" in flags and t in wg.CAN_RECV and t != "REQ":
        # again, so that a waker is armed at the moment the socket goes away
        f = sc.fut()
        sc.add(f"recv {f} 1", f"poll {f}", f"poll {f}", f"drop {f}")
    if "peer-eof" in flags:
        sc.add("eof 2")
        if t in wg.CAN_RECV and t != "REQ":
            f = sc.fut()
            sc.add(f"recv {f} 1", f"poll {f}", f"drop {f}")
    hs = None
    if "pending-handshake" in flags:
        hs = sc.fut()
        sc.add(f"attach {hs} 1 3", f"reveal 3 {wg.hx(wg.G[:30])}", f"poll {hs}")
    sc.add("drain")
    if how == "drop":
        sc.add("dropsock 1")
    else:
        f = sc.fut()
        sc.add(f"close {f} 1", f"poll {f}")
    sc.add("drain", "halves 1", "halves 2")
    if hs:
        sc.add("halves 3")
    c = sc.case(f"{t}:{how}:{'+'.join(flags) or 'attached'}#{n}", [how])
    c.expect = (t, flags, how)
    return c


def net_case(t, tr, prefix, how, n):
    """real listeners: after close()/drop the endpoint refuses, the IPC file is gone, accepted peers see EOF"""
    peer = netgen.PEER[t]
    ops = [f"sock 1 {t}", "monitor 1", f"bind 1 {tr}", f"bind 1 {tr}"]
    if "accepted" in prefix:
        # the `Accepted` events are the barrier: the peers are REGISTERED (not merely answered) before the socket goes away
        ops += ["rawconn 1 ep#0", f"rawhs 1 {peer}", "rawwait 1 hs", "rawconn 2 ep#1", f"rawhs 2 {peer}", "rawwait 2 hs",
                "events 1 4"]
    if "traffic" in prefix and t == "PULL":
        ops += ["rawmsg 1 6869", "recv 1"]
    if "pending-handshake" in prefix:
        # wait for the library's greeting: the connection has been ACCEPTED and its handshake task runs
        ops += ["rawconn 5 ep#0", f"rawhs 5 {peer} 30", "rawwait 5 greeting"]
    ops.append("close 1" if how == "close" else "dropsock 1")
    if how == "close":
        # close() has RETURNED: the very first connection attempt must already be refused (one attempt each, no polling)
        ops += [f"probe ep#0 {peer}", f"probe ep#1 {peer}"]
    ops += ["probegone ep#0", "probegone ep#1"]
    if "accepted" in prefix:
        ops += ["rawwait 1 eof", "rawwait 2 eof"]
    if "pending-handshake" in prefix:
        # the handshake task ends with its listener (fix D14): this peer, too, observes end-of-stream
        ops.append("rawwait 5 eof")
    c = Case(f"{t}:{how}:net-{tr}-{'+'.join(prefix) or 'bound'}#{n}", "net", ops, [f"net-{how}"])
    c.expect = ("net", t, prefix, how)
    return c


def contended_case(t, source, how, n):
    """the socket goes away while ANOTHER THREAD holds the fair queue's lock: a `recv` was polled once with a waker whose
    wake() takes 700 ms; that waker is then woken under the lock — by a handshake task registering a new peer, or by
    the I/O driver announcing data — and close()/drop is issued 80 ms into that window"""
    peer = netgen.PEER[t]
    msg = ".,6d" if t == "REP" else "0174" if t == "XPUB" else "6d"
    ops = [f"sock 1 {t}", "monitor 1", "bind 1 tcp4", "rawconn 1 ep#0", f"rawhs 1 {peer}", "rawwait 1 hs", "events 1 2",
           "recvslow 1 700"]
    if source == "registering":
        # (no wait on the raw connection here: the worker thread that sleeps in the slow waker may be the one that
        # drives the runtime's I/O — the pause is pure wall-clock time)
        ops += ["rawconn 2 ep#0", f"rawhs 2 {peer}", "pause 150"]
    else:
        ops += [f"rawmsg 1 {msg}", "pause 150"]
    ops.append("close 1" if how == "close" else "dropsock 1")
    # (whether the second peer had got as far as registration when the socket went away is a race; registered or
    # still in its handshake, it must observe end-of-stream as well)
    ops += ["probegone ep#0", "rawwait 1 eof"]
    if source == "registering":
        ops.append("rawwait 2 eof")
    c = Case(f"{t}:{how}:net-contended-{source}#{n}", "net", ops, [f"net-{how}"])
    c.expect = ("net", t, ["accepted"], how)
    return c


def out_case(t, tr, how, mixed, n):
    """history prefix `connected out`: the socket CONNECTED to a listener of the peer (through `connect()`, the real
    transport and handshake); optionally it also has a bound endpoint with an accepted peer"""
    peer = netgen.PEER[t]
    ops = [f"sock 1 {t}", "monitor 1", f"connectout 1 {tr} 7 {peer}"]
    if mixed:
        ops += ["bind 1 tcp4", "rawconn 1 ep#0", f"rawhs 1 {peer}", "rawwait 1 hs", "events 1 3"]
    else:
        ops += ["events 1 1"]
    if t == "PULL":
        ops += ["rawmsg 7 6869", "recv 1"]
    ops.append("close 1" if how == "close" else "dropsock 1")
    ops.append("rawwait 7 eof")
    if mixed:
        ops += ["probegone ep#0", "rawwait 1 eof"]
    c = Case(f"{t}:{how}:net-{tr}-connected-out{'+accepted' if mixed else ''}#{n}", "net", ops, [f"net-{how}"])
    c.expect = ("net", t, ["accepted"], how)
    return c


def accept_error_case(t, tr, how, n):
    """history prefix `an accept() that failed` (descriptor exhaustion while a client was queued): close()/drop must
    still stop the listener, free the port / REMOVE THE IPC FILE, and end the connections"""
    peer = netgen.PEER[t]
    ops = [f"sock 1 {t}", f"bind 1 {tr}", "rawconn 1 ep#0", f"rawhs 1 {peer}", "rawwait 1 hs",
           "fdhoard", "fdrelease 1", "rawconn 2 ep#0", "pause 100", "fdrelease all", f"rawhs 2 {peer}", "rawwait 2 hs",
           "close 1" if how == "close" else "dropsock 1", "probegone ep#0", "rawwait 1 eof", "rawwait 2 eof"]
    c = Case(f"{t}:{how}:net-{tr}-accept-error#{n}", "net", ops, [f"net-{how}"])
    c.expect = ("net", t, ["accepted"], how)
    return c


def stalled_subscriber_case(t, how, backlog, n):
    """PUB / XPUB go away while one subscriber's connection is not accepting data and output for it is still buffered: the
    socket must not linger on it — close() completes at once and EVERY connection, the stalled one included, is released"""
    sc = wg.Script()
    sc.sock(1, t)
    sc.attach(1, 1, "SUB", b"reader")
    sc.attach(1, 2, "SUB", b"stalled")
    for p in (1, 2):
        sc.reveal_msg(p, [b"\x01"])
    if t == "PUB":
        sc.add("drain")
    else:
        for _ in range(2):
            f = sc.fut()
            sc.add(f"recv {f} 1", f"poll {f}", f"drop {f}")
    sc.add("wire 1", "wire 2", "credit 2 0")
    for i in range(backlog):
        f = sc.fut()
        sc.add(f"send {f} 1 {wg.mtok([b'topic', ('gen', 50000, 70 + i)])}", f"poll {f}", f"drop {f}", "wire 1")
    if how == "drop":
        sc.add("dropsock 1")
    else:
        f = sc.fut()
        sc.add(f"close {f} 1", f"poll {f}")
    sc.add("drain", "halves 1", "halves 2")
    c = sc.case(f"{t}:{how}:stalled-subscriber-{backlog}#{n}", [how, "stalled-subscriber"])
    c.expect = (t, ["stalled-subscriber"], how)
    return c


def registration_pending_case(tr, how, n):
    """state `handshake done, registration pending`: a SUB socket announces its subscription set to a new peer BEFORE
    registering it; with a set larger than the transport's buffers and a peer that does not read, the connection stays
    in that state.  close()/drop must end it too: the peer reaches end-of-stream after reading no more than what can have
    been in flight — a connection the library still FEEDS after the socket went away is not closed"""
    # 8192 subscriptions of 8 KiB = 64 MiB to announce, one write per message.  On a healthy tree the per-connection task is
    # dropped the next time it YIELDS after the stop signal: tokio's cooperative budget forces a yield every 128 writes
    # (1 MiB here), and `select!` looks at the stop signal first with probability 1/2 each time — so what the peer can still
    # read after close is what was in flight plus a geometrically distributed number of MiB; 40 MiB is ~35 rounds beyond
    # the transport's buffers (2^-35).  A tree that keeps feeding delivers all 64 MiB.
    count, size, cap = (8192, 8192, 40 << 20)
    ops = ["sock 1 SUB", f"subbig 1 {count} {size}", f"bind 1 {tr}", "rawconn 5 ep#0", "rawhs 5 PUB", "rawwait 5 hs", "pause 200",
           "close 1" if how == "close" else "dropsock 1", "probegone ep#0", f"rawwait 5 eofcap {cap}"]
    c = Case(f"SUB:{how}:net-{tr}-registration-pending#{n}", "net", ops, [f"net-{how}", "registration-pending"])
    c.expect = ("net", "SUB", ["registration-pending"], how)
    return c


def accept_failing_case(t, tr, how, pause, n):
    """close()/drop issued WHILE accept() keeps failing (descriptor shortage with a client queued on the listener): the call
    returns, the listener goes away, the accepted peer observes end-of-stream"""
    peer = netgen.PEER[t]
    ops = [f"sock 1 {t}", f"bind 1 {tr}", "rawconn 1 ep#0", f"rawhs 1 {peer}", "rawwait 1 hs",
           "fdhoard", "fdrelease 1", "rawconn 2 ep#0", f"pause {pause}", "close 1" if how == "close" else "dropsock 1",
           "fdrelease all", "probegone ep#0", "rawwait 1 eof"]
    c = Case(f"{t}:{how}:net-{tr}-accept-failing-{pause}#{n}", "net", ops, [f"net-{how}", "accept-failing"])
    c.expect = ("net", t, ["accept-failing"], how)
    return c


def late_peer_case(t, how, n):
    """state `connecting out, nobody listening yet`: connect() to a loopback port that refuses connections is given 800 ms
    and abandoned; the socket is closed / dropped; THEN the port starts listening: nothing of the socket is left to dial it
    (6.5 s: longer than the longest pause of the library's retry loop) — its background tasks have terminated"""
    ops = [f"sock 1 {t}", "reserve 7", "connectnl 1 7 800", "close 1" if how == "close" else "dropsock 1", "latelisten 7 6500"]
    c = Case(f"{t}:{how}:net-tcp4-late-peer#{n}", "net", ops, [f"net-{how}", "late-peer"])
    c.expect = ("net", t, ["late-peer"], how)
    return c


def cases(tier, rng):
    out = gen.corpus(ID)
    n = 0
    for t, how in ((("PUSH", "close"), ("PUB", "drop")) if tier == "quick" else [(t, h) for t in netgen.TYPES9 for h in ("close", "drop")]):
        out.append(late_peer_case(t, how, 900000 + n))
        n += 1
    n = 0
    for tr in [x for x in netgen.transports() if x in ("tcp4", "ipc")]:
        for how in ("close", "drop"):
            out.append(registration_pending_case(tr, how, n))
            n += 1
            for pause in (30, 150):
                out.append(accept_failing_case("PULL", tr, how, pause, n))
                n += 1
    for t in ("PUB", "XPUB"):
        for how in ("close", "drop"):
            for backlog in (1, 4):
                out.append(stalled_subscriber_case(t, how, backlog, n))
                n += 1
    for t in (["PULL", "PUB"] if tier == "quick" else netgen.TYPES9):
        for tr in [x for x in netgen.transports() if x in ("tcp4", "ipc")]:
            for how in ("close", "drop"):
                out.append(accept_error_case(t, tr, how, n))
                n += 1
    for t in (["PULL", "PUB", "DEALER", "REQ", "SUB"] if tier == "quick" else netgen.TYPES9):
        for tr in [x for x in netgen.transports() if x in ("tcp4", "ipc")]:
            for how in ("close", "drop"):
                for mixed in (False, True):
                    out.append(out_case(t, tr, how, mixed, n))
                    n += 1
    for t in (["PULL", "ROUTER", "REP"] if tier == "quick" else ["PULL", "SUB", "DEALER", "ROUTER", "REP", "XPUB"]):
        for source in ("registering", "data"):
            for how in ("close", "drop"):
                out.append(contended_case(t, source, how, n))
                n += 1
    for t in (["PULL", "PUB", "ROUTER", "REQ"] if tier == "quick" else netgen.TYPES9):
        for tr in netgen.transports():
            for prefix in ([], ["accepted"], ["accepted", "traffic"], ["accepted", "pending-handshake"], ["pending-handshake"]):
                for how in ("close", "drop"):
                    out.append(net_case(t, tr, prefix, how, n))
                    n += 1
    opts = ["recv-pending", "recv-delivered", "send", "peer-eof", "pending-handshake"]
    for t in PEER:
        for r in range(0, len(opts) + 1):
            for flags in itertools.combinations(opts, r):
                for how in ("drop", "close"):
                    out.append(build(t, list(flags), how, n))
                    n += 1
    return out


def oracle(case, lines):
    for op, l in zip(case.ops, lines[1:]):
        if l.startswith("TIMEOUT"):
            return f"`{op}` never returned (no answer for 45 s): the operation hangs"
        if l.startswith(("PANIC", "ABORT")):
            return f"panic/abort in `{op}`"
    if not case.expect:
        return None
    if case.expect[0] == "net":
        _, t, prefix, how = case.expect
        for op, l in zip(case.ops, lines[1:]):
            w = op.split()
            if w[0] == "close" and l != "ok errs=0":
                return f"close() reported failures: {l}"
            if w[0] == "probe" and not l.startswith("refused"):
                return (f"close() has returned, yet the first fresh connection to {w[1]} was not refused: {l} "
                        "(the listening socket outlives the call)")
            if w[0] == "probe" and l.endswith("path=1"):
                return f"close() has returned, yet the IPC socket file of {w[1]} still exists: {l}"
            if w[0] == "probegone" and l != "gone":
                return f"after {how} the endpoint {w[1]} still accepts connections / its IPC file still exists: {l}"
            if w[0] == "rawwait" and w[2] == "eofcap" and l != "eof":
                return (f"after {how} a peer whose registration was still pending (handshake done, the socket still announcing its "
                        f"subscriptions to it) does not observe end-of-stream — the library keeps feeding the connection: {l}")
            if w[0] == "rawwait" and w[2] == "eof" and l != "eof":
                return f"after {how} an accepted peer does not observe end-of-stream: {l}"
            if w[0] == "rawwait" and w[2] == "open" and l == "open":
                return f"after {how} the connection whose handshake was still pending stays open: {l}"
            if w[0] == "recv" and not l.startswith("ok M["):
                return f"traffic before the {how} failed: {l}"
            if w[0] == "latelisten" and l != "nobody":
                return (f"after {how} of a socket whose connect() had found nobody listening, the endpoint came up and something "
                        f"still dialled it: {l} — a background task of the socket has outlived it")
        return None
    t, flags, how = case.expect
    res = list(zip(case.ops, lines[1:]))
    for op, l in res:
        if op.startswith("poll") and l.startswith("ready ok errs=") and l != "ready ok errs=0":
            return f"close() reported errors: {l}"
    for i, (op, l) in enumerate(res):
        if op.startswith("close ") and i + 1 < len(res) and res[i + 1][1] == "pending":
            return f"close() did not complete at its first poll although nothing it has to wait for was pending: {res[i + 1][1]}"
    for p in (1, 2):
        h = [l for op, l in res if op == f"halves {p}"][-1]
        if h != "halves r=1 w=1":
            return f"after {how} the registered peer {p} does not observe end-of-stream: {h} (history: {flags or ['attached']})"
    # (a handshake in progress in THIS engine is a future the harness itself holds — there is no accept loop here —
    # so it is the harness's to drop; what the library does with the handshakes ITS accept loops started is judged
    # on the real runtime: the `net` cases with `pending-handshake`)
    return None


def nontrivial(case, lines):
    return True


def signature(case, ml, il, o):
    t, how, flags = case.name.split("#")[0].split(":")
    if o and "handshake was still pending" in o:
        return f"pending-handshake:{how}"
    if o and "does not observe end-of-stream" in o:
        return f"{t}:{how}:not-closed:{'recv-pending' if 'recv-pending' in flags else flags}"
    return f"{t}:{how}:{'spec' if o else 'diff'}"
