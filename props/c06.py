"""C06 — a waiting receiver is always woken; no peer is starved (engine: fq)."""
from vlib import fqgen, gen

ID = "C06"
LEAN_TARGETS = ["ZmqVerif.Props.C06"]
RULE = (
    "same schedules as C05 (exhaustive to depth 5/4 for 2/3 peers, all single window-action placements, seeded "
    "random), compared per op: poll result AND the cumulative count of receiver wake-ups. Spec oracle on the "
    "implementation's trace: (wake) after a poll returned Pending, the first subsequent arrival on a registered "
    "peer / insert of a new peer / close of a registered peer raises the wake count; (no lost wake-up) after the "
    "final drain nothing deliverable is left on a registered peer; (bounded bypass) while a registered peer i has "
    "an undelivered item, no other peer is delivered more than once before i. Non-trivial: some poll returned "
    "Pending and a later one Ready, or two peers had items queued simultaneously. Waker families: `setwaker n` makes later polls come with another waker "
    "(recv called from another task / future, the earlier call abandoned while parked); every line reports WHICH waker was "
    "woken last; Spec: the wake-up after a Pending poll goes to the waker THAT poll was made with. Budget families (finding D17): the "
    "op `exhaust` (top level, or inside a stream's poll) makes every stream poll wake itself and return Pending until "
    "the call returns, as tokio's cooperative budget does; the call must return (the harness reports LIVELOCK after "
    "20000 stream polls within one call), with the receiver woken, and the re-polls must deliver everything."
    ' Family message-shape (engine world): for every receiving socket type, messages with empty frames (a lone empty message, a message ending in an empty frame, several empty frames, 300-byte frames next to empty ones) arrive (i) while a recv is parked — its own waker is woken and the next poll completes, (ii) before the recv is issued, (iii) one byte at a time with a poll after every byte — recv completes exactly at the last byte.'
)
ASSUMPTIONS = [
    "stream wakers follow the kernel-socket discipline (a Pending poll arms one waker, readiness fires and consumes it); the bypass bound is claimed under it only",
    "real-time liveness of the OS / tokio reactor is outside the model (partial)",
]
TRUSTED = ["std BinaryHeap as a min-ticket multiset; parking_lot::Mutex as atomic lock sections; futures ArcWake"]


def cases(tier, rng):
    out = gen.corpus(ID)
    out += list(fqgen.exhaustive(2, 5 if tier == "quick" else 6, "exh2"))
    out += list(fqgen.exhaustive(3, 4 if tier == "quick" else 5, "exh3"))
    out += list(fqgen.windows("window", tier != "quick"))
    out += list(fqgen.exhaustive(2, 4 if tier == "quick" else 5, "exh2-budget", extra=["exhaust"]))
    out += list(fqgen.exhaust_cases(rng, 300 if tier == "quick" else 4000, "budget"))
    out += list(fqgen.exhaustive(2, 4 if tier == "quick" else 5, "exh2-wakers", extra=["setwaker 1", "setwaker 2"]))
    out += list(fqgen.waker_cases(rng, 300 if tier == "quick" else 4000, "wakers"))
    out += list(fqgen.random_cases(rng, 1500 if tier == "quick" else 20000, "random"))
    # heavy-traffic fairness: one chatty peer with a deep backlog, others with one item each
    for i in range(60 if tier == "quick" else 600):
        n = rng.randint(2, 5)
        seq = [f"insert {k}" for k in range(1, n + 1)]
        seq += ["arrive 1"] * rng.randint(5, 30)
        body = []
        for k in range(2, n + 1):
            body += [f"arrive {k}"] * rng.randint(1, 3)
        body += ["poll"] * rng.randint(3, 12)
        rng.shuffle(body)
        seq += body + ["poll"] * 40
        out.append(fqgen.Case(f"chatty#{i}", "fq", fqgen.materialise(seq), ["chatty"]))
    # socket level (engine world): a peer connects again under an identity that is still registered while a recv is
    # parked on the old stream — the insert must queue the new stream and wake the receiver
    from vlib import worldgen
    out += worldgen.reconnect_parked_cases()
    out += message_shape_cases()
    return out


SHAPES = [[b""], [b"a1", b""], [b"", b""], [b"", b"", b""], [b""] * 5, [b"x"], [b"", b"x"], [b"k" * 300, b""], [b"", b"k" * 300]]


def message_shape_cases():
    """socket level: `a complete message is available` is decided by the BYTES that have arrived, whatever the message
    looks like — empty frames, a message that ends in an empty frame, a lone empty message.  The last byte of the message
    arrives (i) while a recv is parked: it is woken and completes; (ii) before the recv is issued: it completes at once;
    (iii) one byte at a time with a poll after every byte; afterwards a second, ordinary message follows"""
    from vlib import worldgen as wg, zmtp

    out = []
    n = 0
    for t, pt in wg.FQ_PEER.items():
        for shape in SHAPES:
            msg = ([b""] + shape) if t == "REP" else shape
            if t == "XPUB":
                msg = shape      # XPUB hands every message of a subscriber to the application verbatim
            data = zmtp.message(msg)
            for mode in ("parked", "before", "bytewise"):
                sc = wg.Script()
                sc.sock(1, t)
                sc.attach(1, 1, pt, b"peer")
                sc.attach(1, 2, pt, b"other")
                f = sc.fut()
                if mode == "parked":
                    sc.add(f"recv {f} 1", f"poll {f}", f"reveal 1 {wg.hx(data)}", f"woken {f}", f"poll {f}")
                elif mode == "before":
                    sc.add(f"reveal 1 {wg.hx(data)}", f"recv {f} 1", f"poll {f}")
                else:
                    sc.add(f"recv {f} 1", f"poll {f}")
                    for i in range(len(data)):
                        sc.add(f"reveal 1 {wg.hx(data[i:i + 1])}", f"poll {f}")
                sc.add(f"drop {f}")
                tail = [b"", b"tail"] if t == "REP" else [b"tail"]
                sc.reveal_msg(2, tail)
                g = sc.fut()
                sc.add(f"recv {g} 1", f"poll {g}", f"drop {g}")
                c = sc.case(f"message-shape-{t}-{mode}#{n}", ["message-shape"])
                want = {"REP": shape, "ROUTER": [b"peer"] + shape}.get(t, msg)
                c.expect = ("message-shape", f, want, mode)
                out.append(c)
                n += 1
    return out


def message_shape_oracle(case, lines):
    from vlib import worldgen as wg

    _, f, want, mode = case.expect
    res = list(zip(case.ops, lines[1:]))
    if any("PANIC" in l for _, l in res):
        return "the library panicked"
    polls = [l for op, l in res if op == f"poll {f}"]
    wantl = "ready ok M[" + wg.show_frames(want) + "]"
    if polls[-1] != wantl:
        return (f"every byte of the message {wg.show_frames(want)} had arrived, but recv ({mode}) answered {polls[-1]} — a "
                "complete message is available and the call does not complete")
    if mode == "parked":
        wk = [l for op, l in res if op == f"woken {f}"]
        if wk != ["woken yes"]:
            return f"recv was parked when the last byte of the message arrived and was not woken: {wk}"
    if mode == "bytewise" and any(l.startswith("ready") for l in polls[:-1]):
        return f"recv completed before the last byte of the message had arrived: {polls}"
    return None


def oracle(case, lines):
    if case.engine == "world":
        from vlib import worldgen
        if case.expect and case.expect[0] == "message-shape":
            return message_shape_oracle(case, lines)
        return worldgen.reconnect_parked_oracle(case, lines)
    if any(l.startswith(("PANIC", "ABORT", "TIMEOUT")) for l in lines):
        return "the fair queue panicked"
    for op, l in zip(case.ops, lines[1:]):
        if l.startswith("LIVELOCK"):
            return ("poll_next never returned: with the executor's budget exhausted (every stream poll wakes itself and "
                    f"returns Pending) the receiver re-polled its streams {l.split('>')[-1]}+ times within ONE call")
    a = fqgen.analyse(case, lines)
    win = a["windowed"]
    last_wk = 0
    cur_waker = 0        # the waker polls are made with (op `setwaker`)
    pending_by = None    # the waker the poll that parked was made with
    # replay bookkeeping in op order
    inserted, removed, closed = set(), set(), set()
    pend = {}  # arrived but not delivered, per key
    owed_cnt = {}  # i -> {j: deliveries of j while i owed}
    pending_wakes = None
    need_wake_op = None
    for idx, (op, l) in enumerate(zip(case.ops, lines[1:])):
        w = op.split()
        wk = int(l.rsplit("wakes=", 1)[1]) if "wakes=" in l else None
        wk_before, last_wk = last_wk, (wk if wk is not None else last_wk)
        if w[0] == "window":
            continue
        if w[0] == "setwaker":
            cur_waker = int(w[1])
            continue
        k = int(w[1]) if len(w) > 1 else None
        wakeable = False
        if w[0] == "arrive":
            if k not in closed:
                pend[k] = pend.get(k, 0) + 1
                wakeable = k in inserted and k not in removed
        elif w[0] == "insert":
            wakeable = k not in inserted
            inserted.add(k)
        elif w[0] == "close":
            wakeable = k in inserted and k not in removed and k not in closed
            closed.add(k)
        elif w[0] == "remove":
            removed.add(k)
        if w[0] != "poll":
            if pending_wakes is not None and wakeable and not (win & ({k} | inserted)):
                if wk is not None and wk <= pending_wakes:
                    return f"receiver was parked (wakes={pending_wakes}) and `{op}` did not wake it (wakes={wk})"
                woken = l.split(" w=", 1)[1].split()[0] if " w=" in l else None
                if woken is not None and woken != str(pending_by):
                    return (f"receiver was parked by a poll made with waker {pending_by}; `{op}` woke waker {woken} instead "
                            "(a waker left behind by an earlier, abandoned call): the pending recv is never resumed")
                pending_wakes = None
            # fresh owed peers start counting from now
            for i in list(inserted):
                if i not in removed and pend.get(i, 0) > 0:
                    owed_cnt.setdefault(i, {})
            continue
        # a poll
        p = l.split()
        if p[0] == "pending" and wk is not None and wk > wk_before:
            pending_wakes = None  # woken during the call itself (it yielded): it is notified, not waiting
        elif p[0] == "pending":
            pending_wakes = wk
            pending_by = cur_waker
        else:
            pending_wakes = None
        if p[0] == "ready" and p[1] != "none":
            j = int(p[1])
            pend[j] = pend.get(j, 0) - 1
            owed_cnt.pop(j, None)
            for i, c in owed_cnt.items():
                if i == j or i in win or i in removed or i not in inserted:
                    continue
                c[j] = c.get(j, 0) + 1
                if c[j] > 1:
                    return f"peer {i} had a message waiting while peer {j} was served {c[j]} times (bypass bound exceeded)"
            if pend.get(j, 0) > 0 and j in inserted and j not in removed:
                owed_cnt[j] = {}
    for k in a["inserted"]:
        if k in a["removed"] or k in win:
            continue
        if a["delivered"].get(k, []) != a["arrived"].get(k, []):
            return f"peer {k}: after the final polls {a['arrived'].get(k)} had arrived but only {a['delivered'].get(k, [])} was delivered (lost wake-up / starvation)"
    return None


def nontrivial(case, lines):
    if case.engine == "world":
        return any(l.startswith("ready ok M[") for l in lines)
    seen_pending = False
    for l in lines:
        if l.startswith("pending"):
            seen_pending = True
        if seen_pending and l.startswith("ready "):
            return True
    return False


def signature(case, ml, il, o):
    if any(l.startswith("LIVELOCK") for l in (il or [])):
        return "budget-livelock"
    return case.name.split("#")[0]
