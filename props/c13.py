"""C13 — a SUB socket's subscriptions reach every peer, including late joiners (engine: world)."""
import itertools

from vlib import gen, worldgen as wg, zmtp
from vlib.core import Case

ID = "C13"
LEAN_TARGETS = ["ZmqVerif.Props.C13"]
TOP = [b"a", b"b"]
ALPHA = [("sub", t) for t in TOP] + [("unsub", t) for t in TOP]
RULE = (
    "real SUB with scripted publishers. EXHAUSTIVE: all histories of length <= 4 (quick) / 5 (thorough) over "
    "{sub a, sub b, unsub a, unsub b} (repeats and never-subscribed topics included) x a peer joining at EVERY position "
    "of the history (plus one early peer), the wire of every peer folded into per-topic counts with the publisher's "
    "semantics; the same with one peer whose connection fails (write error) in first position; the SPLIT join "
    "(a new peer's pipe stalls exactly after the handshake so that `subscribe` runs between the socket reading its "
    "set and registering the peer); BACK-PRESSURE: every history of length <= 3 x every call of it x each of two peers accepting only 0..2 bytes during that call (the call is Pending, the peer becomes writable, the call completes: every peer, the slow one included, and a late joiner have been told); seeded longer histories with 3 topics and several joiners. Non-trivial: at least "
    "two peers and one set change. Spec oracle (python): at the end every live peer has been told exactly the socket's "
    "current set (count > 0 iff in the set) and all peers agree."
    " Family bad-frame-then-subscribe: a peer's stream fails in the decoder (malformed frame) while others are healthy, then subscribe/unsubscribe follow: the failed peer's connection is released entirely (both halves) and the others are told every change."
    " Family transient-announce: a transient write error (Interrupted, TimedOut, WouldBlock) on ONE of two peers while change #k of two histories is announced: the victim stays a peer and, once later changes have been written to it, it has been told each change exactly once — both peers agree with the socket's set on every topic."
    ' Family same-identity-joiner: a second connection announces the identity of a connection that is still registered (open, or closed but unnoticed) at every position of two histories: the connection that is the peer from then on (the one SUB reads from — a message sent on it is received) is told the set at its join and every later change.'
)
ASSUMPTIONS = ["the set re-announced to a late joiner comes out of a HashSet: compared as a multiset of messages, not as a byte order"]
TRUSTED = ["scc::HashMap iteration visits every registered peer exactly once"]
SHRINK = False
HS = 64 + 27  # bytes the SUB side writes during the handshake (greeting + READY without identity)


def add_op(sc, item):
    k, t = item
    f = sc.fut()
    sc.add(f"{k} {f} 1 {wg.hx(t)}", f"poll {f}", f"drop {f}")


def history_case(hist, joins, n, tag, failing=False):
    """joins: list of positions (0..len) at which a new peer attaches"""
    sc = wg.Script()
    sc.sock(1, "SUB")
    np = 0
    peers = []
    if failing:
        np += 1
        sc.attach(1, np, "PUB", b"bad")
        sc.add(f"wire {np}", f"wrerr {np} BrokenPipe")
    for pos in range(len(hist) + 1):
        for j in joins:
            if j == pos:
                np += 1
                sc.attach(1, np, "PUB", b"p%d" % np)
                sc.add(f"wire {np}")  # read the re-announced set while it is still the current set
                peers.append(np)
        if pos < len(hist):
            add_op(sc, hist[pos])
    for p in peers:
        sc.add(f"wire {p}")
    c = sc.case(f"{tag}#{n}", [tag])
    c.expect = ("agree", hist, peers)
    return c


def transient_case(hist, at, victim, kind, n):
    """a TRANSIENT write error (`wrerr1`: exactly one write fails) on ONE peer's connection while the change `hist[at]` is
    announced: the other peer is told at once; the victim stays a peer, and by the time later changes have been written
    to it it has been told each change exactly once — it agrees with everybody about every topic"""
    sc = wg.Script()
    sc.sock(1, "SUB")
    for p in (1, 2):
        sc.attach(1, p, "PUB", b"p%d" % p)
        sc.add(f"wire {p}")
    for pos, item in enumerate(hist):
        if pos == at:
            sc.add(f"wrerr1 {victim} {kind}")
        add_op(sc, item)
        sc.add("wire 1", "wire 2")
    c = sc.case(f"transient-announce-{kind}#{n}", ["transient-announce"])
    c.expect = ("agree", hist, [1, 2])
    return c


def same_identity_case(hist, at, old_state, n):
    """two connections announce the SAME identity to one SUB (a publisher that reconnects before its old connection's end was
    noticed; two publishers configured alike): the second joins at position `at` of the history.  The connection that is
    the peer from then on — the one SUB reads from — is told the set at its join and every later change"""
    sc = wg.Script()
    sc.sock(1, "SUB")
    sc.attach(1, 1, "PUB", b"same")
    sc.add("wire 1")
    joined = False
    for pos in range(len(hist) + 1):
        if pos == at:
            if old_state == "eof":
                sc.add("eof 1")
            sc.attach(1, 2, "PUB", b"same")
            sc.add("wire 2")
            joined = True
        if pos < len(hist):
            add_op(sc, hist[pos])
            sc.add("wire 1")
            if joined:
                sc.add("wire 2")
    sc.reveal_msg(2, [b"live"])
    f = sc.fut()
    sc.add(f"recv {f} 1", f"poll {f}", f"poll {f}", f"drop {f}", "wire 2")
    c = sc.case(f"same-identity-joiner-{old_state}#{n}", ["same-identity-joiner"])
    c.expect = ("agree", hist, [2])
    return c


def stalled_case(hist, at, victim, credit, n):
    """two early peers; during the `at`-th call of the history peer `victim`'s connection accepts only `credit` bytes
    (ordinary back-pressure, not a failure): the call waits, the connection becomes writable again, the call completes —
    and EVERY peer, the slow one included, has been told; a late joiner agrees"""
    sc = wg.Script()
    sc.sock(1, "SUB")
    sc.attach(1, 1, "PUB", b"p1")
    sc.attach(1, 2, "PUB", b"p2")
    sc.add("wire 1", "wire 2")
    cur = []
    for i, (k, t) in enumerate(hist):
        changes = (k == "sub" and t not in cur) or (k == "unsub" and t in cur)
        if k == "sub" and t not in cur:
            cur.append(t)
        if k == "unsub" and t in cur:
            cur.remove(t)
        if i == at and changes:
            f = sc.fut()
            sc.add(f"credit {victim} {credit}", f"{k} {f} 1 {wg.hx(t)}", f"poll {f}", f"credit {victim} inf", f"poll {f}", f"drop {f}")
        else:
            add_op(sc, (k, t))
    sc.attach(1, 3, "PUB", b"late")
    sc.add("wire 1", "wire 2", "wire 3")
    c = sc.case(f"stalled-peer#{n}", ["stalled-peer"])
    c.expect = ("agree", hist, [1, 2, 3])
    return c


def race_case(first, second, n):
    sc = wg.Script()
    sc.sock(1, "SUB")
    sc.attach(1, 1, "PUB", b"early")
    add_op(sc, ("sub", first))
    f = sc.fut()
    sc.add(f"credit 2 {HS}", f"attach {f} 1 2", f"reveal 2 {wg.hx(wg.G + zmtp.ready('PUB', b'late'))}", f"poll {f}")
    add_op(sc, second)
    sc.add("credit 2 inf", f"poll {f}", "wire 1", "wire 2")
    c = sc.case(f"join-race#{n}", ["split-join"])
    c.expect = ("agree", [("sub", first), second], [1, 2])
    return c


def cases(tier, rng):
    out = gen.corpus(ID)
    sn = 960000
    for hist in ([("sub", b"a"), ("sub", b"b"), ("unsub", b"a")], [("sub", b"a"), ("unsub", b"a"), ("sub", b"b"), ("sub", b"z")]):
        for at in range(len(hist)):
            for old_state in ("open", "eof"):
                out.append(same_identity_case(hist, at, old_state, sn))
                sn += 1
    tn = 940000
    for hist in ([("sub", b"a"), ("sub", b"b"), ("unsub", b"a"), ("sub", b"z")],
                 [("sub", b"a"), ("unsub", b"a"), ("sub", b"a"), ("unsub", b"a"), ("sub", b"b")]):
        for at in range(len(hist) - 1):
            for victim in (1, 2):
                for kind in ("Interrupted", "TimedOut", "WouldBlock"):
                    out.append(transient_case(hist, at, victim, kind, tn))
                    tn += 1
    # safety net: seeded random schedules of these socket types over scripted pipes (partial reads, back-pressure,
    # errors, futures polled once or twice and then ABANDONED, sockets dropped) — every line predicted by the World model
    for i in range(150 if tier == "quick" else 3000):
        out.append(wg.random_case(rng, f"random-world#{i}", ["SUB"], tags=("random-world",)))
    n = 0
    L = 4 if tier == "quick" else 5
    for l in range(0, L + 1):
        for h in itertools.product(ALPHA, repeat=l):
            for j in range(0, l + 1):
                out.append(history_case(list(h), [0, j], n, "history-join"))
                n += 1
            out.append(history_case(list(h), [0, l], n, "failing-peer-first", failing=True))
            n += 1
    for a in TOP:
        for second in ALPHA:
            out.append(race_case(a, second, n))
            n += 1
    # the new peer's connection fails exactly while it is being told the subscriptions
    for kind in ("BrokenPipe", "ConnectionReset"):
        sc = wg.Script()
        sc.sock(1, "SUB")
        sc.attach(1, 1, "PUB", b"early")
        add_op(sc, ("sub", b"a"))
        f = sc.fut()
        sc.add(f"credit 2 {HS}", f"attach {f} 1 2", f"reveal 2 {wg.hx(wg.G + zmtp.ready('PUB', b'late'))}", f"poll {f}",
               f"wrerr 2 {kind}", f"poll {f}", "halves 2")
        add_op(sc, ("sub", b"b"))
        sc.add("wire 1")
        c = sc.case(f"resub-fails#{n}", ["join-fails-during-resubscription"])
        c.expect = ("agree", [("sub", b"a"), ("sub", b"b")], [1])
        out.append(c)
        n += 1
    # a join ABANDONED while the new peer is being told the subscriptions (connect() dropped by a timeout; the handshake task
    # dropped with its listener): the peer must not stay behind half-told — the connection goes away (both halves
    # released) and later changes are not routed to it
    for cut in (0, 1, 3):          # (the announcement of a 1-byte topic is 4 bytes: 4 would let the join complete)
        for nsubs in (1, 2):
            sc = wg.Script()
            sc.sock(1, "SUB")
            sc.attach(1, 1, "PUB", b"early")
            hist = [("sub", t) for t in TOP[:nsubs]]
            for item in hist:
                add_op(sc, item)
            f = sc.fut()
            # (one subscription only when the write is cut inside it: with two, WHICH one is cut is the HashSet's order)
            sc.add(f"credit 2 {HS + (cut if nsubs == 1 else 0)}", f"attach {f} 1 2",
                   f"reveal 2 {wg.hx(wg.G + zmtp.ready('PUB', b'late'))}", f"poll {f}", f"drop {f}", "halves 2", "credit 2 inf",
                   "wire 2")
            add_op(sc, ("sub", b"ab"))
            sc.add("wire 1", "wire 2", "halves 2")
            c = sc.case(f"abandoned-join#{n}", ["abandoned-join"])
            c.expect = ("abandoned-join", hist + [("sub", b"ab")])
            out.append(c)
            n += 1
    # a peer sends something the decoder rejects (a ZMTP 3.1 PING, an unknown command): recv reports the error ONCE and the
    # connection is given up as a whole — if any half of it is kept, the peer is still a peer and must be told later changes
    for junk in (zmtp.command(b"PING", []), zmtp.frame(b"\x04PINGxxxx", command=True), zmtp.frame(b"\x03BAD", command=True)):
        sc = wg.Script()
        sc.sock(1, "SUB")
        sc.attach(1, 1, "PUB", b"p1")
        sc.attach(1, 2, "PUB", b"p2")
        add_op(sc, ("sub", b"a"))
        sc.add("wire 1", "wire 2", f"reveal 1 {wg.hx(junk)}")
        f = sc.fut()
        sc.add(f"recv {f} 1", f"poll {f}", f"drop {f}", "halves 1")
        add_op(sc, ("sub", b"b"))
        sc.add("wire 1", "wire 2", "halves 1")
        c = sc.case(f"bad-frame-then-subscribe#{n}", ["bad-frame-then-subscribe"])
        c.expect = ("bad-frame", [("sub", b"a"), ("sub", b"b")])
        out.append(c)
        n += 1
    # a CROWD of peers around one whose connection fails: whatever the hash order of the peer table, the failing peer
    # almost surely has a successor in the walk — every healthy peer must still be told every change
    for kind in ("BrokenPipe", "ConnectionReset"):
        for hist in ([("sub", b"a")], [("sub", b"a"), ("sub", b"b"), ("unsub", b"a")]):
            sc = wg.Script()
            sc.sock(1, "SUB")
            for q in range(1, 10):
                sc.attach(1, q, "PUB", b"p%d" % q)
                sc.add(f"wire {q}")
            sc.add(f"wrerr 5 {kind}")
            for item in hist:
                add_op(sc, item)
            healthy = [q for q in range(1, 10) if q != 5]
            for q in healthy:
                sc.add(f"wire {q}")
            c = sc.case(f"crowd-{kind}#{n}", ["crowd"])
            c.expect = ("agree", hist, healthy)
            out.append(c)
            n += 1
    # ordinary back-pressure on one peer while a subscription change is announced
    for l in range(1, 4):
        for h in itertools.product(ALPHA, repeat=l):
            for at in range(l):
                for victim in (1, 2):
                    for credit in ((0, 2) if tier == "quick" else (0, 1, 2)):
                        out.append(stalled_case(list(h), at, victim, credit, n))
                        n += 1
    top3 = TOP + [b"ab", b""]
    for _ in range(200 if tier == "quick" else 3000):
        h = [(rng.choice(["sub", "sub", "unsub"]), rng.choice(top3)) for _ in range(rng.randint(4, 12))]
        joins = sorted(rng.randrange(0, len(h) + 1) for _ in range(rng.randint(1, 4)))
        out.append(history_case(h, [0] + joins, n, "history-random", failing=rng.random() < 0.3))
        n += 1
    return out


def told(wire_hex):
    """fold a peer's wire (after the handshake) into per-topic counts with C11's semantics"""
    if wire_hex == ".":
        return {}
    b = bytes.fromhex(wire_hex)
    i = 0
    counts = {}
    lst = []
    while i < len(b):
        flags, ln = b[i], b[i + 1]
        body = b[i + 2 : i + 2 + ln]
        i += 2 + ln
        if flags == 0 and body:
            if body[0] == 1:
                lst.append(body[1:])
            elif body[0] == 0 and body[1:] in lst:
                lst.remove(body[1:])
    for t in lst:
        counts[t] = counts.get(t, 0) + 1
    return counts


def oracle(case, lines):
    if any(l.startswith(("PANIC", "ABORT", "TIMEOUT")) for l in lines):
        return "panic/abort (a failing peer must not take the caller down)"
    if not case.expect:
        return None
    if case.expect[0] == "bad-frame":
        res = list(zip(case.ops, lines[1:]))
        hv = [l for op, l in res if op == "halves 1"][-1]
        w1 = [l for op, l in res if op == "wire 1"][-1]
        told_b = "0003016162" in w1 or w1.endswith("00020162")
        if hv != "halves r=1 w=1" and not told_b:
            return (f"after a frame the decoder rejected, part of the peer's connection is still held ({hv}: r/w = read/write half "
                    f"released) — it is still a peer — but it was not told the later subscription: {w1[:60]}")
        case = type(case)(case.name, case.engine, case.ops, case.tags, ("agree", case.expect[1], [2]))
    if case.expect[0] == "abandoned-join":
        res = list(zip(case.ops, lines[1:]))
        hv = [l for op, l in res if op == "halves 2"]
        w2 = [l for op, l in res if op == "wire 2"][-1]
        if hv[0] != "halves r=1 w=1" or hv[-1] != "halves r=1 w=1":
            return (f"a join abandoned while the peer was being told the subscriptions left the connection open: {hv} — the peer "
                    "stays behind, told only part of the set")
        if w2 != "wire .":
            return f"a later subscription change was routed to the connection of an abandoned join: {w2[:60]}"
        case = type(case)(case.name, case.engine, case.ops, case.tags, ("agree", case.expect[1], [1]))
    _, hist, peers = case.expect
    cur = []
    for k, t in hist:
        if k == "sub" and t not in cur:
            cur.append(t)
        if k == "unsub" and t in cur:
            cur.remove(t)
    res = list(zip(case.ops, lines[1:]))
    # total wire per peer = concatenation of its `wire` deltas minus the handshake bytes
    for p in peers:
        deltas = [l.split(" ", 1)[1] for op, l in res if op == f"wire {p}"]
        full = ""
        for d in deltas:
            if "#" in d:
                return None  # abbreviated: cannot be folded (does not happen below 200 bytes)
            full += "" if d == "." else d
        if full.startswith("ff00000000000000007f"):
            full = full[128:]
            if full.startswith("04"):
                full = full[2 * (2 + int(full[2:4], 16)):]
        c = told(full)
        for t in set(list(c) + cur + TOP):
            if (c.get(t, 0) > 0) != (t in cur):
                return (f"peer {p} has been told {c} but the socket's subscription set is {cur}: topic {t!r} disagrees "
                        f"(history {hist})")
    return None


def nontrivial(case, lines):
    if case.expect is not None and case.expect[0] == "bad-frame":
        return any(l.startswith("ready err") for l in lines)
    if case.expect is not None and case.expect[0] == "abandoned-join":
        return any(l == "halves r=1 w=1" for l in lines)
    return case.expect is not None and len(case.expect[2]) >= 2 and len(case.expect[1]) >= 1


def signature(case, ml, il, o):
    return case.name.split("#")[0]
