"""C12 — a slow subscriber never blocks the publisher or corrupts its own stream (engine: world)."""
import re

from vlib import gen, worldgen as wg
from vlib.core import Case

ID = "C12"
LEAN_TARGETS = ["ZmqVerif.Props.C12"]
HWM = 131072
SIZES = [1, 1000, 65536, 131060, 131072, 131073, 200000, 262144, 393216]
ESCALATE_ROUNDS = 1  # extra seeded rounds of the random families when /repo differs from the validated baseline
RULE = (
    "real PUB and XPUB with 1..3 scripted subscribers (all subscribed to everything) under scripted back-pressure: "
    "EXHAUSTIVE over stall points (credit in {0, 1, 9, 70000, 131072, 131080, 300000, inf} before the first publish) x "
    "message sizes around the 128 KiB high-water mark {1, 1000, 65536, 131060, 131072, 131073, 200000, 262144, 393216} "
    "x 1..3 publishes, then credit is restored and a tiny message flushes what was held; a healthy subscriber next to a "
    "stalled one and next to a broken pipe; seeded stall/resume sequences. Every poll of send and every wire is predicted "
    "by the model. Non-trivial: at least one message was dropped for a stalled subscriber or held back in its buffer. "
    "Spec oracle: every `send` completes in ONE poll; a subscriber with unlimited credit receives every message, in "
    "order, byte for byte; a stalled subscriber never receives more than its credit; what is flushed after the stall is "
    "at most high-water mark + one message."
    " Family transient-flush: a transient write error on one subscriber's connection at publish #0..2 of four (10, 300, 5000, 10 bytes): the publisher never waits, the other subscriber gets every message at the publish that sent it, the victim never receives more bytes than were published (no message twice)."
)
ASSUMPTIONS = ["asynchronous-codec FramedWrite2 is modelled (Model.Sink) and exercised for real, not verified",
               "buffered bytes are observed through the flush that follows the stall, not through the allocator"]
TRUSTED = ["asynchronous-codec 0.7 FramedWrite2::poll_ready/poll_flush; DEFAULT_SEND_HIGH_WATER_MARK = 131072"]
SHRINK = False
CREDITS = [0, 1, 9, 70000, 131072, 131080, 300000, None]


def ctok(c):
    return "inf" if c is None else str(c)


def setup(sc, typ, nsub):
    sc.sock(1, typ)
    for p in range(1, nsub + 1):
        sc.attach(1, p, "SUB", b"s%d" % p)
        sc.reveal_msg(p, [b"\x01"])
    if typ == "PUB":
        sc.add("drain")
    else:
        for _ in range(nsub):
            f = sc.fut()
            sc.add(f"recv {f} 1", f"poll {f}", f"drop {f}")
    for p in range(1, nsub + 1):
        sc.add(f"wire {p}")


def publish(sc, nsub, size, seed):
    f = sc.fut()
    sc.add(f"send {f} 1 {wg.mtok([('gen', size, seed)])}", f"poll {f}")
    for p in range(1, nsub + 1):
        sc.add(f"wire {p}")


def transient_cases():
    """a TRANSIENT write error (`wrerr1`: exactly one write fails — EINTR, a timeout) on one subscriber's connection at
    publish #at: the publisher never waits, the other subscriber gets everything, and the victim's stream stays an
    order-preserving subsequence of what was published — each message at most once, whole"""
    out = []
    n = 950000
    sizes = [10, 300, 5000, 10]
    for typ in ("PUB", "XPUB"):
        for kind in ("Interrupted", "TimedOut", "WouldBlock"):
            for at in range(3):
                sc = wg.Script()
                setup(sc, typ, 2)
                for j, s in enumerate(sizes):
                    if j == at:
                        sc.add(f"wrerr1 1 {kind}")
                    publish(sc, 2, s, 7000 + 1 + j)
                c = sc.case(f"transient-{typ}-{kind}#{n}", ["transient-flush-" + typ])
                c.expect = ("transient", sizes, 7000)
                out.append(c)
                n += 1
    return out


def cases(tier, rng):
    out = gen.corpus(ID)
    out += transient_cases()
    n = 0
    seed = 1000
    for typ in ("PUB", "XPUB"):
        for c in CREDITS:
            for s1 in SIZES:
                for s2 in ([None] + ([1, 131073] if tier == "quick" else SIZES)):
                    sc = wg.Script()
                    setup(sc, typ, 1)
                    sc.add(f"credit 1 {ctok(c)}")
                    sizes = [s1] + ([s2] if s2 else [])
                    for s in sizes:
                        seed += 1
                        publish(sc, 1, s, seed)
                    sc.add("credit 1 inf")
                    publish(sc, 1, 1, 7)
                    cs = sc.case(f"stall-{typ}#{n}", ["stall-point-" + typ])
                    cs.expect = ("one", c, sizes)
                    out.append(cs)
                    n += 1
        # a healthy subscriber next to a stalled / partially stalled / broken one
        for other in ["credit 2 0", "credit 2 100000", "wrerr 2 BrokenPipe", "wrerr 2 ConnectionReset"]:
            for sizes in [[1000, 1000, 1000], [131073, 5], [200000, 200000, 200000, 3], [65536] * 5]:
                sc = wg.Script()
                setup(sc, typ, 3)
                sc.add(other, "credit 3 50")
                for s in sizes:
                    seed += 1
                    publish(sc, 3, s, seed)
                for p in (1, 2, 3):
                    sc.add(f"halves {p}")
                cs = sc.case(f"neighbours-{typ}#{n}", ["healthy-next-to-slow-" + typ])
                cs.expect = ("healthy", 1, sizes, seed - len(sizes))
                out.append(cs)
                n += 1
        # a CROWD of healthy subscribers around one that breaks at its high-water mark: whatever the hash order of the
        # peer table, the broken one almost surely has a successor in the walk — every healthy one must get every message
        for kind in ("BrokenPipe", "ConnectionReset"):
            # (every case is a fresh socket with its own hash order: three of them leave the broken peer LAST in all
            # walks — the one position without a successor — with probability 9^-3)
            for victim in ((1, 5, 9) if tier == "quick" else (1, 2, 3, 5, 7, 9)):
                sc = wg.Script()
                setup(sc, typ, 9)
                sc.add(f"credit {victim[0] if isinstance(victim, tuple) else victim} 0")
                v = victim[0] if isinstance(victim, tuple) else victim
                sizes = [65536, 65536, 65536, 7, 300, 7, 7]
                first = seed
                for j, sz in enumerate(sizes):
                    if j == 3:
                        sc.add(f"wrerr {v} {kind}")
                    seed += 1
                    publish(sc, 9, sz, seed)
                cs = sc.case(f"crowd-{typ}-{kind}#{n}", ["crowd-" + typ])
                cs.expect = ("crowd", [q for q in range(1, 10) if q != v], sizes, first)
                out.append(cs)
                n += 1
        # seeded stall / resume
        for _ in range(120 if tier == "quick" else 1500):
            k = rng.randint(1, 3)
            sc = wg.Script()
            setup(sc, typ, k)
            sizes = []
            first_seed = seed
            for _ in range(rng.randint(2, 7)):
                if rng.random() < 0.6:
                    p = rng.randint(2, k) if k > 1 else 1
                    sc.add(f"credit {p} {ctok(rng.choice(CREDITS + [3, 500, 66000]))}")
                s = rng.choice(SIZES + [10, 300, 5000])
                seed += 1
                sizes.append(s)
                publish(sc, k, s, seed)
            cs = sc.case(f"stallresume-{typ}#{n}", ["stall-resume-" + typ])
            cs.expect = ("healthy", 1, sizes, first_seed) if k > 1 else None
            out.append(cs)
            n += 1
    return out


LEN = re.compile(r"#(\d+):")


def wire_len(l):
    b = l.split(" ", 1)[1]
    if b == ".":
        return 0
    m = LEN.search(b)
    return int(m.group(1)) if m else len(b) // 2


def oracle(case, lines):
    if any(l.startswith(("PANIC", "ABORT", "TIMEOUT")) for l in lines):
        return "panic/abort"
    res = list(zip(case.ops, lines[1:]))
    for i, (op, l) in enumerate(res):
        if op.startswith("send") and res[i + 1][1] != "ready ok":
            return f"publishing waited for a subscriber: `{op[:40]}` -> first poll {res[i + 1][1]}"
    if not case.expect:
        return None
    if case.expect[0] == "transient":
        _, sizes, s0 = case.expect
        encs = [wg.show_wire([[("gen", s, s0 + 1 + j)]]) for j, s in enumerate(sizes)]
        # the healthy subscriber: every message, at the publish that sent it
        w2 = [l for op, l in res if op == "wire 2"][1:]
        if w2 != ["wire " + e for e in encs]:
            return f"the healthy subscriber did not get every message as it was published: {[w[:30] for w in w2]}"
        # the victim: its wire deltas, concatenated, must be a concatenation of a SUBSEQUENCE of the encodings (each once)
        w1 = [l.split(" ", 1)[1] for op, l in res if op == "wire 1"][1:]
        total = sum(wire_len("wire " + w) for w in w1)
        want = sum(s + (9 if s > 255 else 2) for s in sizes)
        if total > want:
            return (f"the subscriber whose connection reported ONE transient write error received {total} bytes — more than "
                    f"everything published ({want}): a message was written twice")
        return None
    if case.expect[0] == "one":
        _, credit, sizes = case.expect
        # wires after `credit 1 c` up to `credit 1 inf`
        idx_c = next(i for i, (op, _) in enumerate(res) if op.startswith("credit 1") and not op.endswith("inf")) if credit is not None else None
        idx_inf = max(i for i, (op, _) in enumerate(res) if op == "credit 1 inf")
        start = idx_c if idx_c is not None else next(i for i, (op, _) in enumerate(res) if op.startswith("credit 1"))
        written = sum(wire_len(l) for op, l in res[start:idx_inf] if op == "wire 1")
        if credit is not None and written > credit:
            return f"a stalled subscriber received {written} bytes with a credit of {credit}"
        flushed = sum(wire_len(l) for op, l in res[idx_inf:] if op == "wire 1")
        biggest = max(sizes) + 9
        if flushed > HWM + biggest + 3:
            return f"{flushed} bytes had been held for one subscriber (> high-water mark {HWM} + one message {biggest})"
        if credit is None:
            want = sum(s + (9 if s > 255 else 2) for s in sizes)
            if written != want:
                return f"a subscriber that accepts every write received {written} bytes instead of {want}"
    else:
        _, p, sizes, s0 = case.expect
        for p in (p if isinstance(p, list) else [p]):
            wires = [l for op, l in res if op == f"wire {p}"][1:]
            for j, s in enumerate(sizes):
                want = "wire " + wg.show_wire([[("gen", s, s0 + 1 + j)]])
                if j >= len(wires) or wires[j] != want:
                    return (f"the healthy subscriber {p} missed or got a corrupted message #{j} ({s} bytes): "
                            f"{wires[j][:70] if j < len(wires) else None}")
    return None


def nontrivial(case, lines):
    ws = [(op, l) for op, l in zip(case.ops, lines[1:]) if op.startswith("wire")]
    return any(l == "wire ." for _, l in ws[1:])


def signature(case, ml, il, o):
    return case.name.split("#")[0]
