"""C14 — dropping a pending recv loses nothing (engine: world)."""
from vlib import gen, worldgen as wg, zmtp
from vlib.core import Case

ID = "C14"
LEAN_TARGETS = ["ZmqVerif.Props.C14"]
RULE = (
    "for every socket type with recv (PULL, SUB, DEALER, ROUTER, REP, XPUB, REQ): a stream of two messages (2 frames, "
    "1 frame) is revealed up to EVERY byte position c; then `recv` is polled k = 1..3 times and the future DROPPED, "
    "repeated r = 1..2 times (EXHAUSTIVE over c, k, r), optionally with a second peer; then the rest of the bytes "
    "arrives and fresh recvs drain the socket. REQ: send, recv polled k times and dropped, second send, late reply, "
    "recv. Seeded variants with 2..3 peers and random drop points. Non-trivial: at least one recv was dropped while "
    "Pending and a later one returned a message. Spec oracle: the drained sequence equals the messages put on the wire "
    "(per peer, in order, each once); REQ refuses the second send and returns the first reply. Family cancel-then-wait: "
    "after the abandoned recvs a later recv is polled to Pending FIRST and the bytes arrive afterwards; every future is "
    "polled with its own waker and the harness reports (`woken f`) whether that waker fired: a future that goes from "
    "Pending to Ready without its waker having been woken would hang on an executor (the wake-up went to the abandoned "
    "call)."
    ' Family budget-exhausted-poll: `pollx f` polls the future inside a runtime task whose cooperative budget (tokio coop) has been used up, as a consumer draining a backlog in a loop would; the future is then abandoned — whatever the library does about the budget, later recvs return every message on the wire, in order.'
    ' Family reconnect-abandoned (shared with C04): recv polled 0..2 times and abandoned, 1..3 times over, then a second connection registers under the SAME identity and sends two messages: later recv calls return exactly those two, as in the control with no abandoned call.'
)
ASSUMPTIONS = ["futures are dropped between polls (Rust futures cannot be cancelled inside a poll)"]
TRUSTED = ["async-trait boxed futures; futures::StreamExt::next holds no state between polls"]
SHRINK = False
PEER = {"PULL": "PUSH", "SUB": "PUB", "DEALER": "ROUTER", "ROUTER": "DEALER", "REP": "REQ", "XPUB": "SUB"}


def msgs_for(t, tag):
    if t == "REP":
        return [[b"", b"a" + tag, b"b"], [b"", b"c" + tag]]
    return [[b"a" + tag, b"b"], [b"c" + tag]]


def expected(t, frames, ident):
    if t == "REP":
        return frames[1:]
    if t == "ROUTER":
        return [ident] + frames
    return frames


def req_noise_cases():
    """REQ with a request outstanding; before the reply the peer sends something that is NOT the reply (a redundant READY
    command, a message without delimiter); a recv is polled over it and — if it is still Pending — abandoned.  A recv that
    was abandoned while Pending still owes the reply: the next send is refused and the reply, when it comes, answers the
    FIRST request."""
    out = []
    n = 0
    noises = {"command": zmtp.ready("REP", None), "two-commands": zmtp.ready("REP", None) * 2, "command-split": zmtp.ready("REP", None)}
    for name, noise in noises.items():
        for polls in (1, 2):
            sc = wg.Script()
            sc.sock(1, "REQ")
            sc.attach(1, 1, "REP", b"srv")
            sc.send_once(1, [b"request-1"])
            sc.add("wire 1")
            if name == "command-split":
                sc.add(f"reveal 1 {wg.hx(noise[:5])}")
            else:
                sc.add(f"reveal 1 {wg.hx(noise)}")
            f = sc.fut()
            sc.add(f"recv {f} 1", f"poll {f}")
            if name == "command-split":
                sc.add(f"reveal 1 {wg.hx(noise[5:])}", f"poll {f}")
            for _ in range(polls - 1):
                sc.add(f"poll {f}")
            sc.add(f"drop {f}")
            g = sc.fut()
            sc.add(f"send {g} 1 {wg.mtok([b'request-2'])}", f"poll {g}", f"drop {g}", "wire 1")
            sc.reveal_msg(1, [b"", b"reply-1"])
            h = sc.fut()
            sc.add(f"recv {h} 1", f"poll {h}", f"drop {h}")
            c = sc.case(f"req-noise-{name}#{n}", ["req-noise"])
            c.expect = ("req-noise", f, g, h)
            out.append(c)
            n += 1
    return out


def req_noise_oracle(case, lines):
    res = list(zip(case.ops, lines[1:]))
    _, f, g, h = case.expect
    pf = [l for op, l in res if op == f"poll {f}"]
    pg = [l for op, l in res if op == f"poll {g}"][-1]
    ph = [l for op, l in res if op == f"poll {h}"][-1]
    abandoned_pending = bool(pf) and all(l == "pending" for l in pf)
    if abandoned_pending:
        if not pg.startswith("ready err ReturnToSender"):
            return (f"a recv was abandoned while Pending with the request still outstanding, yet the next send was accepted: {pg[:60]} — "
                    "the late reply will be paired with the wrong request")
        if ph != "ready ok M[" + wg.show_frames([b"reply-1"]) + "]":
            return f"the recv after the abandoned one did not return the first request's reply: {ph[:80]}"
    elif pg == "ready ok" and ph.startswith("ready ok M[") and "reply-1" in ph:
        pass   # (the recv COMPLETED with an error — the application was told its request failed — and a new request was made)
    return None


def budget_cases():
    """a recv polled from a task whose cooperative budget is used up (a consumer draining a backlog in a tight loop, a
    select! after other I/O in the same poll) and then ABANDONED: whatever the library does with the budget, a message
    must not be held in the recv future — everything is still delivered, in order, by later calls"""
    out = []
    n = 0
    for t in PEER:
        if t == "REQ":
            continue
        ms = [msgs_for(t, b"%d" % i)[0] for i in range(1, 4)]
        for pattern in ("x", "xx", "xpx", "pxp"):
            sc = wg.Script()
            sc.sock(1, t)
            sc.attach(1, 1, PEER[t], b"peer1")
            for m in ms:
                sc.reveal_msg(1, m)
            futs = []
            for ch in pattern:
                f = sc.fut()
                sc.add(f"recv {f} 1", f"{'pollx' if ch == 'x' else 'poll'} {f}", f"drop {f}")
                futs.append(f)
            for _ in range(len(ms) + 1):
                f = sc.fut()
                sc.add(f"recv {f} 1", f"poll {f}", f"drop {f}")
                futs.append(f)
            c = sc.case(f"budget-{t}-{pattern}#{n}", ["budget-exhausted-poll"])
            c.expect = ("budget", t, ms)
            out.append(c)
            n += 1
    return out


def budget_oracle(case, lines):
    _, t, ms = case.expect
    got = [l for op, l in zip(case.ops, lines[1:]) if op.startswith(("poll ", "pollx ")) and l.startswith("ready ok M[")]
    want = []
    for m in ms:
        d = {"REP": m[1:], "ROUTER": [b"peer1"] + m}.get(t, m)
        want.append("ready ok M[" + wg.show_frames(d) + "]")
    if got != want:
        return (f"recv polled with the cooperative budget used up and then abandoned: the later calls returned {got} — every "
                f"message on the wire must still be delivered, in order: {want}")
    return None


def cases(tier, rng):
    out = gen.corpus(ID)
    out += req_noise_cases()
    out += budget_cases()
    out += wg.reconnect_abandoned_cases()
    n = 0
    for t in PEER:
        ms = msgs_for(t, b"1")
        stream = b"".join(zmtp.message(m) for m in ms)
        for c in range(0, len(stream) + 1):
            for k in (1, 2, 3):
                for r in (1, 2):
                    sc = wg.Script()
                    sc.sock(1, t)
                    sc.attach(1, 1, PEER[t], b"peer1")
                    if c:
                        sc.add(f"reveal 1 {wg.hx(stream[:c])}")
                    got = 0
                    for _ in range(r):
                        f = sc.fut()
                        sc.add(f"recv {f} 1")
                        sc.add(*[f"poll {f}"] * k)
                        sc.add(f"drop {f}")
                    if c < len(stream):
                        sc.add(f"reveal 1 {wg.hx(stream[c:])}")
                    for _ in range(4):
                        f = sc.fut()
                        sc.add(f"recv {f} 1", f"poll {f}", f"drop {f}")
                    cs = sc.case(f"cancel-{t}#{n}", ["cancel-" + t])
                    cs.expect = ("fq", t, {1: [expected(t, m, b"peer1") for m in ms]})
                    out.append(cs)
                    n += 1
    # the later recv is left WAITING (Pending) and the message arrives afterwards: the wake-up must reach the
    # later call's waker, not the abandoned call's (every future in this engine is polled with a waker of its own)
    for t in PEER:
        ms = msgs_for(t, b"1")
        stream = b"".join(zmtp.message(m) for m in ms)
        for k in (1, 2, 3):
            for r in (1, 2):
                for cut in (0, 3, len(stream) - 1):
                    sc = wg.Script()
                    sc.sock(1, t)
                    sc.attach(1, 1, PEER[t], b"peer1")
                    if cut:
                        sc.add(f"reveal 1 {wg.hx(stream[:cut])}")
                    for _ in range(r):
                        f = sc.fut()
                        sc.add(f"recv {f} 1")
                        sc.add(*[f"poll {f}"] * k)
                        sc.add(f"drop {f}")
                    g = sc.fut()
                    sc.add(f"recv {g} 1", f"poll {g}", f"reveal 1 {wg.hx(stream[cut:])}", f"woken {g}", f"poll {g}", f"drop {g}")
                    for _ in range(3):
                        f = sc.fut()
                        sc.add(f"recv {f} 1", f"poll {f}", f"drop {f}")
                    cs = sc.case(f"cancel-then-wait-{t}#{n}", ["cancel-then-wait"])
                    cs.expect = ("fq", t, {1: [expected(t, m, b"peer1") for m in ms]})
                    out.append(cs)
                    n += 1
    # REP: a request is outstanding (received, not yet answered); a further recv is started, polled and abandoned;
    # the reply must still go out behind the request's envelope — the abandoned call must not have touched it
    for env in ([], [b"hop-1"], [b"hop-1", b"hop-2"]):
        for k in (1, 2, 3):
            for r in (1, 2):
                sc = wg.Script()
                sc.sock(1, "REP")
                sc.attach(1, 1, "REQ", b"peer1")
                sc.add("wire 1")
                sc.reveal_msg(1, env + [b"", b"question"])
                f = sc.fut()
                sc.add(f"recv {f} 1", f"poll {f}")
                for _ in range(r):
                    g = sc.fut()
                    sc.add(f"recv {g} 1")
                    sc.add(*[f"poll {g}"] * k)
                    sc.add(f"drop {g}")
                h = sc.fut()
                sc.add(f"send {h} 1 {wg.hx(b'answer')}", f"poll {h}", "wire 1")
                cs = sc.case(f"cancel-then-reply-REP#{n}", ["cancel-then-reply"])
                cs.expect = ("rep-reply", env)
                out.append(cs)
                n += 1
    # REQ: the abandoned recv is still owed
    for k in (1, 2, 3):
        for reply_first in (False, True):
            sc = wg.Script()
            sc.sock(1, "REQ")
            sc.attach(1, 1, "REP")
            sc.add("wire 1")
            f = sc.fut()
            sc.add(f"send {f} 1 {wg.hx(b'first')}", f"poll {f}", "wire 1")
            g = sc.fut()
            sc.add(f"recv {g} 1")
            sc.add(*[f"poll {g}"] * k)
            sc.add(f"drop {g}")
            if reply_first:
                sc.reveal_msg(1, [b"", b"reply-to-first"])
            h = sc.fut()
            sc.add(f"send {h} 1 {wg.hx(b'second')}", f"poll {h}", "wire 1")
            if not reply_first:
                sc.reveal_msg(1, [b"", b"reply-to-first"])
            i = sc.fut()
            sc.add(f"recv {i} 1", f"poll {i}")
            j = sc.fut()
            sc.add(f"send {j} 1 {wg.hx(b'third')}", f"poll {j}", "wire 1")
            cs = sc.case(f"cancel-REQ#{n}", ["cancel-REQ"])
            cs.expect = ("req",)
            out.append(cs)
            n += 1
    # seeded: several peers, random drop points
    for _ in range(200 if tier == "quick" else 3000):
        t = rng.choice(list(PEER))
        np = rng.randint(2, 3)
        sc = wg.Script()
        sc.sock(1, t)
        streams, exp = {}, {}
        for p in range(1, np + 1):
            ident = b"peer%d" % p
            sc.attach(1, p, PEER[t], ident)
            ms = msgs_for(t, b"%d" % p)
            streams[p] = b"".join(zmtp.message(m) for m in ms)
            exp[p] = [expected(t, m, ident) for m in ms]
        pos = {p: 0 for p in streams}
        while any(pos[p] < len(streams[p]) for p in streams):
            p = rng.choice([p for p in streams if pos[p] < len(streams[p])])
            step = rng.randint(1, 6)
            sc.add(f"reveal {p} {wg.hx(streams[p][pos[p]:pos[p] + step])}")
            pos[p] += step
            if rng.random() < 0.7:
                f = sc.fut()
                sc.add(f"recv {f} 1")
                sc.add(*[f"poll {f}"] * rng.randint(1, 3))
                sc.add(f"drop {f}")
        for _ in range(2 * np + 2):
            f = sc.fut()
            sc.add(f"recv {f} 1", f"poll {f}", f"drop {f}")
        cs = sc.case(f"cancel-multi-{t}#{n}", ["cancel-multi"])
        cs.expect = ("fq", t, exp)
        out.append(cs)
        n += 1
    # safety net: seeded random schedules over every socket type (partial reads, back-pressure, EOF, read/write errors,
    # futures polled once or twice and then ABANDONED, sockets dropped) — every line predicted by the World model
    for i in range(250 if tier == "quick" else 4000):
        out.append(wg.random_case(rng, f"random-world#{i}", tags=("random-world",)))
    return out


def oracle(case, lines):
    if any(l.startswith(("PANIC", "ABORT", "TIMEOUT")) for l in lines):
        return "panic/abort"
    lost = wg.wake_contract(case, lines)
    if lost:
        return lost
    if not case.expect:
        return None
    if case.expect[0] == "reconnect-abandoned":
        return wg.reconnect_abandoned_oracle(case, lines)
    if case.expect[0] == "budget":
        return budget_oracle(case, lines)
    if case.expect[0] == "req-noise":
        return req_noise_oracle(case, lines)
    if case.expect[0] == "rep-reply":
        env = case.expect[1]
        res = list(zip(case.ops, lines[1:]))
        sent = [l for op, l in res if op.startswith("poll")][-1]
        wire = res[-1][1]
        want = "wire " + wg.show_wire([env + [b"", b"answer"]])
        if sent != "ready ok" or wire != want:
            return (f"after an abandoned recv the reply to the outstanding request did not go out behind its envelope "
                    f"{[e.decode() for e in env]}: send={sent}, {wire} (expected {want})")
        return None
    if case.expect[0] == "req":
        sends = []
        recvs = []
        ops = list(zip(case.ops, lines[1:]))
        for i, (op, l) in enumerate(ops):
            if op.startswith("send"):
                sends.append((ops[i + 1][1], ops[i + 2][1]))
            if op.startswith("recv"):
                j = i + 1
                last = None
                while j < len(ops) and ops[j][0].startswith("poll"):
                    last = ops[j][1]
                    j += 1
                recvs.append(last)
        if sends[0][0] != "ready ok":
            return f"first send failed: {sends[0]}"
        if not sends[1][0].startswith("ready err ReturnToSender") or sends[1][1] != "wire .":
            return f"after an abandoned recv the REQ socket accepted a second request: {sends[1]}"
        if recvs[0] != "pending":
            return f"first recv should have been pending: {recvs[0]}"
        if recvs[1] != f"ready ok M[{b'reply-to-first'.hex()}]":
            return f"the recv after the abandon did not return the first request's reply: {recvs[1]}"
        if sends[2][0] != "ready ok":
            return f"socket not usable after the exchange: {sends[2]}"
        return None
    _, t, exp = case.expect
    got = [l[len("ready ok M["):-1] for l in lines if l.startswith("ready ok M[")]
    want_all = []
    per = {p: [wg.show_frames(m) for m in ms] for p, ms in exp.items()}
    # every expected message exactly once, per peer in order
    remaining = {p: list(v) for p, v in per.items()}
    for g in got:
        hit = [p for p, v in remaining.items() if v and v[0] == g]
        if not hit:
            return f"recv returned {g}, which is not the next message of any peer (lost/duplicated/reordered); remaining {remaining}"
        remaining[hit[0]].pop(0)
    if any(remaining.values()):
        return f"messages never delivered after the abandoned recvs: {remaining}"
    if any(l.startswith("ready err") for l in lines):
        return "a recv failed"
    return None


def nontrivial(case, lines):
    seen = False
    for op, l in zip(case.ops, lines[1:]):
        if op.startswith("drop") and seen:
            return True
        if l == "pending":
            seen = True
    return False


def signature(case, ml, il, o):
    return case.name.split("#")[0]
