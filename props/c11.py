"""C11 — PUB/XPUB deliver iff a subscription is a prefix (engine: world)."""
import itertools

from vlib import gen, worldgen as wg, zmtp
from vlib.core import Case

ID = "C11"
LEAN_TARGETS = ["ZmqVerif.Props.C11"]
TOPICS = [b"", b"a", b"ab", b"b"]
FRAMES = [b"", b"a", b"ab", b"abc", b"b"]
# one subscriber message = list of frames
ALPHA = [("sub", t) for t in TOPICS] + [("unsub", t) for t in TOPICS] + [("multi", None), ("emptyframe", None), ("badbyte", None)]
RULE = (
    "real PUB (reader tasks drained) and XPUB (subscriptions consumed by recv) with scripted subscribers. EXHAUSTIVE: "
    "all per-subscriber histories of length <= 3 (quick) / 4 (thorough) over {sub t, unsub t : t in '', a, ab, b} + "
    "{multi-frame, empty frame, bad first byte}, then every published first frame in {'', a, ab, abc, b} (wire of the "
    "subscriber read after each publish); length-4/5 histories sampled; 2..3 subscribers with independent random "
    "histories. Non-trivial: at least one publish was delivered and one was not. Spec oracle = reference multiset-prefix "
    "model (python): delivered iff some topic with positive count is a byte-prefix of the first frame; exactly one copy; "
    "XPUB recv returns each subscriber message verbatim, in per-peer order."
    " Family takeover (states open / eof / parked): a second connection registers under an identity that is still registered, for PUB and XPUB; for XPUB `parked` the application's recv is parked on the old stream when the new one is inserted — the new connection's subscriptions must be read and honoured."
    " Family fanout-fault: six subscribers of everything; one stalls until two 70 000-byte messages are buffered for it (above the high-water mark), then its writes fail with TimedOut / ConnectionReset; three more publishes: each of the five OTHER subscribers gets all five messages exactly once — with each subscriber as the victim in turn (the table walk's order is the hash map's)."
    ' Family binary-topics: topics and first frames that are NOT text — invalid UTF-8 (ff, fe 01, fd, 80), a lone lead byte (c3) against its character (c3 a9), NUL, the subscribe / unsubscribe marker bytes as topic, the replacement character ef bf bd, a 300-byte topic against 299- and 301-byte frames: every single subscription, sub-sub-unsub / sub-unsub pairs on two subscribers, seeded random histories; matching is on BYTES.'
)
ASSUMPTIONS = ["PUB subscription messages are processed by its reader tasks: observed at quiescent points (after `drain`)"]
TRUSTED = ["tokio current-thread scheduling of the PUB reader tasks (only run inside `drain`)"]
SHRINK = False


def sub_frames(item):
    k, t = item
    if k == "sub":
        return [b"\x01" + t]
    if k == "unsub":
        return [b"\x00" + t]
    if k == "multi":
        return [b"\x01a", b"x"]
    if k == "emptyframe":
        return [b""]
    return [b"\x02a"]


def ref_counts(hist):
    c = {}
    for k, t in hist:
        if k == "sub":
            c[t] = c.get(t, 0) + 1
        elif k == "unsub":
            c[t] = max(0, c.get(t, 0) - 1)
    return c


def ref_match(c, frame):
    return any(n > 0 and frame.startswith(t) for t, n in c.items())


# topics and first frames that are NOT text: every byte value is legal in a topic (a foreign SUB may subscribe to anything),
# matching is on BYTES — invalid UTF-8, lone lead bytes, NUL, the subscribe/unsubscribe marker bytes themselves, the
# replacement character, a topic longer than 255 bytes
BTOPICS = [b"\xff", b"\xfe\x01", b"\xc3", b"\xfd", b"\xc3\xa9", b"\x00", b"\x01", b"\xef\xbf\xbd", b"\x80", b"T" * 300, b"\xfe"]
BFRAMES = [b"\xff\x10", b"\xfe\x01z", b"\xc3\xa9x", b"\xfd", b"\xef\xbf\xbd0", b"\x00", b"\x01\x01", b"T" * 300 + b"x", b"T" * 299, b"\xc3",
           b"\x80\x80", b"\xfe"]


def build(typ, hists, n, tag, frames=None):
    FRAMES = frames if frames is not None else globals()["FRAMES"]
    sc = wg.Script()
    sc.sock(1, typ)
    for p, h in enumerate(hists, start=1):
        sc.attach(1, p, "SUB", b"s%d" % p)
        sc.add(f"wire {p}")
    # interleave the subscribers' histories round-robin
    order = []
    for i in range(max(len(h) for h in hists) if hists else 0):
        for p, h in enumerate(hists, start=1):
            if i < len(h):
                order.append((p, h[i]))
    for p, item in order:
        sc.reveal_msg(p, sub_frames(item))
    if typ == "PUB":
        sc.add("drain")
    else:
        for _ in order:
            f = sc.fut()
            sc.add(f"recv {f} 1", f"poll {f}", f"drop {f}")
    for fr in FRAMES:
        f = sc.fut()
        sc.add(f"send {f} 1 {wg.mtok([fr, b'body'])}", f"poll {f}")
        for p in range(1, len(hists) + 1):
            sc.add(f"wire {p}")
    c = sc.case(f"{tag}-{typ}#{n}", [f"{tag}-{typ}"])
    c.expect = (typ, hists, order) if frames is None else (typ, hists, order, frames)
    return c


def takeover_case(typ, old_state, n):
    """subscriptions are counted PER CONNECTION: a second connection that announces an identity which is still registered
    (the old connection open, or closed but not yet noticed) starts with NO subscription — it gets only what IT subscribes to"""
    sc = wg.Script()
    sc.sock(1, typ)
    sc.attach(1, 1, "SUB", b"sub-A")
    sc.reveal_msg(1, [b"\x01x"])

    def settle(k=1):
        if typ == "PUB":
            sc.add("drain")
        else:
            for _ in range(k):
                f = sc.fut()
                sc.add(f"recv {f} 1", f"poll {f}", f"drop {f}")

    settle()
    sc.send_once(1, [b"x-probe"])
    sc.add("wire 1")
    if old_state == "parked":
        # the application has looked again and found nothing: the old stream is parked, no event for it is queued
        f = sc.fut()
        sc.add(f"recv {f} 1", f"poll {f}", f"drop {f}")
    if old_state == "eof":
        sc.add("eof 1")
    sc.attach(1, 2, "SUB", b"sub-A")
    sc.add("wire 2")
    settle()
    sc.reveal_msg(2, [b"\x01y"])
    settle()
    sent = []
    for topic in (b"x-final", b"y-final", b"z-final"):
        f = sc.send_once(1, [topic])
        sc.add("wire 2")
        sent.append(topic)
    c = sc.case(f"takeover-{typ}-{old_state}#{n}", ["identity-takeover"])
    c.expect = ("takeover", typ, sent)
    return c


def fanout_fault_case(typ, victim, kind, n, nsub=6):
    """one subscriber's connection stalls until more than the high-water mark is buffered for it, then its writes FAIL
    (an error kind that is not a broken pipe: a timeout, a reset): delivery to every OTHER matching subscriber is
    unaffected — each still gets every matching message exactly once, wherever the table walk meets the failing one"""
    sc = wg.Script()
    sc.sock(1, typ)
    for p in range(1, nsub + 1):
        sc.attach(1, p, "SUB", b"s%d" % p)
        sc.reveal_msg(p, [b"\x01"])
    if typ == "PUB":
        sc.add("drain")
    else:
        for _ in range(nsub):
            f = sc.fut()
            sc.add(f"recv {f} 1", f"poll {f}", f"drop {f}")
    for p in range(1, nsub + 1):
        sc.add(f"wire {p}")
    sc.add(f"credit {victim} 0")
    sent = []
    for j in range(2):
        m = [b"big%d" % j, ("gen", 70000, 50 + j)]
        f = sc.fut()
        sc.add(f"send {f} 1 {wg.mtok(m)}", f"poll {f}")
        sent.append(m)
    sc.add(f"wrerr {victim} {kind}")
    for j in range(3):
        m = [b"while-%d-fails-%d" % (victim, j)]
        sc.send_once(1, m)
        sent.append(m)
    for p in range(1, nsub + 1):
        sc.add(f"wire {p}")
    c = sc.case(f"fanout-fault-{typ}-{kind}-{victim}#{n}", ["fanout-fault"])
    c.expect = ("fanout-fault", victim, nsub, sent)
    return c


def fanout_fault_oracle(case, lines):
    res = list(zip(case.ops, lines[1:]))
    _, victim, nsub, sent = case.expect
    want = "wire " + wg.show_wire(sent)
    for p in range(1, nsub + 1):
        if p == victim:
            continue
        w = [l for op, l in res if op == f"wire {p}"][-1]
        if w != want:
            return (f"subscriber {p} is subscribed to everything and its connection is healthy, yet it did not get exactly the "
                    f"{len(sent)} messages published while subscriber {victim}'s connection was failing: {w[:70]} (want {want[:70]})")
    return None


def takeover_oracle(case, lines):
    res = list(zip(case.ops, lines[1:]))
    _, typ, sent = case.expect
    w2 = [l for op, l in res if op == "wire 2"][1:]      # (the first read is the handshake)
    for topic, l in zip(sent, w2[-len(sent):]):
        want = "wire " + wg.show_wire([[topic]]) if topic.startswith(b"y") else "wire ."
        if l != want:
            return (f"the second connection under identity sub-A subscribed only to 'y': publishing {topic!r} put {l[:60]} on its "
                    f"wire (want {want[:40]}) — subscriptions are counted per connection, not per identity")
    return None


def cases(tier, rng):
    out = gen.corpus(ID)
    for typ in ("PUB", "XPUB"):
        for i, old_state in enumerate(("open", "eof") + (("parked",) if typ == "XPUB" else ())):
            out.append(takeover_case(typ, old_state, 990000 + i))
        k = 0
        for kind in ("TimedOut", "ConnectionReset"):
            for victim in range(1, 7):
                out.append(fanout_fault_case(typ, victim, kind, 980000 + k))
                k += 1
    # safety net: seeded random schedules of these socket types over scripted pipes (partial reads, back-pressure,
    # errors, futures polled once or twice and then ABANDONED, sockets dropped) — every line predicted by the World model
    for i in range(150 if tier == "quick" else 3000):
        out.append(wg.random_case(rng, f"random-world#{i}", ["PUB", "XPUB"], tags=("random-world",)))
    n = 0
    L = 3 if tier == "quick" else 4
    for typ in ("PUB", "XPUB"):
        for l in range(0, L + 1):
            for h in itertools.product(ALPHA, repeat=l):
                out.append(build(typ, [list(h)], n, "hist"))
                n += 1
        for _ in range(600 if tier == "quick" else 6000):
            h = [rng.choice(ALPHA) for _ in range(rng.randint(L + 1, L + 3))]
            out.append(build(typ, [h], n, "hist-sampled"))
            n += 1
        for _ in range(150 if tier == "quick" else 1500):
            k = rng.randint(2, 3)
            hs = [[rng.choice(ALPHA) for _ in range(rng.randint(0, 5))] for _ in range(k)]
            out.append(build(typ, hs, n, "multi-subscriber"))
            n += 1
        balpha = [("sub", t) for t in BTOPICS] + [("unsub", t) for t in BTOPICS]
        for t in BTOPICS:
            out.append(build(typ, [[("sub", t)]], n, "binary-topics", BFRAMES))
            n += 1
            out.append(build(typ, [[("sub", t), ("sub", t), ("unsub", t)], [("sub", t), ("unsub", t)]], n, "binary-topics", BFRAMES))
            n += 1
        for _ in range(120 if tier == "quick" else 1500):
            hs = [[rng.choice(balpha) for _ in range(rng.randint(1, 6))] for _ in range(rng.randint(1, 2))]
            out.append(build(typ, hs, n, "binary-topics", BFRAMES))
            n += 1
    return out


def oracle(case, lines):
    if any(l.startswith(("PANIC", "ABORT", "TIMEOUT")) for l in lines):
        return "panic/abort"
    if not case.expect:
        return None
    if case.expect[0] == "takeover":
        return takeover_oracle(case, lines)
    if case.expect[0] == "fanout-fault":
        return fanout_fault_oracle(case, lines)
    typ, hists, order = case.expect[:3]
    FRAMES = case.expect[3] if len(case.expect) > 3 else globals()["FRAMES"]
    res = list(zip(case.ops, lines[1:]))
    # XPUB: subscription messages verbatim and in per-peer order
    if typ == "XPUB":
        got = [l for op, l in res if op.startswith("poll") and l.startswith("ready ok M[")]
        per = {p: [wg.show_frames(sub_frames(it)) for it in h] for p, h in enumerate(hists, start=1)}
        bodies = [g[len("ready ok M["):-1] for g in got[: len(order)]]

        def interleaves(i, pos):
            if i == len(bodies):
                return all(pos[p] == len(per[p]) for p in per)
            for p in per:
                if pos[p] < len(per[p]) and per[p][pos[p]] == bodies[i]:
                    pos[p] += 1
                    if interleaves(i + 1, pos):
                        return True
                    pos[p] -= 1
            return False

        if len(bodies) != len(order) or not interleaves(0, {p: 0 for p in per}):
            return f"XPUB recv results {bodies} are not an interleaving of the subscribers' messages {per}, verbatim and in per-peer order"
    counts = [ref_counts(h) for h in hists]
    k = len(hists)
    idx = [i for i, (op, l) in enumerate(res) if op.startswith("send")]
    for fi, i in enumerate(idx):
        fr = FRAMES[fi]
        if res[i + 1][1] != "ready ok":
            return f"publish did not complete in one poll: {res[i + 1][1]}"
        for p in range(1, k + 1):
            wl = res[i + 1 + p][1]
            want = "wire " + wg.show_wire([[fr, b"body"]]) if ref_match(counts[p - 1], fr) else "wire ."
            if wl != want:
                return (f"subscriber {p} with subscriptions {counts[p - 1]}: publish of first frame {fr!r} -> {wl} "
                        f"(reference says {want})")
    return None


def nontrivial(case, lines):
    ws = [l for op, l in zip(case.ops, lines[1:]) if op.startswith("wire")][1:]
    return any(w == "wire ." for w in ws) and any(w != "wire ." for w in ws)


def signature(case, ml, il, o):
    return case.name.split("#")[0]
