"""C19 — endpoint parsing total, strict, round-trips (engine: endpoint)."""
import itertools
import re

from vlib import gen
from vlib.core import Case

ID = "C19"
LEAN_TARGETS = ["ZmqVerif.Props.C19"]
ALPHA = ["t", "c", "p", "i", ":", "/", "[", "]", ".", "0", "1", "9", "a", "\n", "é", "٣", "T"]
RULE = (
    "EXHAUSTIVE: every string over the 17-character alphabet {t,c,p,i,:,/,[,],.,0,1,9,a,\\n,é,٣(Arabic-Indic 3),T} "
    "up to length 4 (quick) / 5 (thorough) after each of the prefixes '', 'tcp://', 'ipc://', 'tcp://a:', 'tcp://[', "
    "plus all strings to length 4/5 without prefix restriction sampled; grammar-based valid/near-valid endpoints "
    "(IPv4, IPv6 bare and bracketed, domains, ports incl. leading zeros and 65535/65536); random Unicode; random "
    "IPv4/IPv6 addresses printed and re-parsed by the real std (samples the std::net laws the round-trip theorem "
    "assumes). One case = 50 strings. Non-trivial: at least one string of the case parsed successfully. Spec oracle "
    "on the implementation: no PANIC; a success re-parses to an equal endpoint ('re same'); acceptance agrees with "
    "an independent python reading of the grammar (lower-case tcp/ipc, non-empty host, decimal port <= 65535)."
    " Family history: parsing is a function of the string — the same address text (21 of them) under tcp / ipc / TCP / udp back to back and interleaved, and every grammar batch again reversed and shuffled (with repeats): every answer equals the model's, whatever was parsed before."
)
ASSUMPTIONS = ["std::net IPv6/IPv4 parse/print laws (Laws) are hypotheses of C19_roundtrip; sampled here against the real std"]
TRUSTED = ["regex crate semantics of the two patterns as spelled out in Model/Endpoint.lean", "Rust std::net address parsing/printing (modelled in Model/Ip.lean)"]
SHRINK = True


def hx(s):
    b = s.encode("utf-8")
    return b.hex() if b else "."


def batch(name, strings, tags, op="parse"):
    return Case(name, "endpoint", [f"{op} {hx(s)}" for s in strings], tags)


def grammar_strings(rng):
    hosts = ["a", "example.com", "127.0.0.1", "1.2.3.4", "255.255.255.255", "256.1.1.1", "1.2.3", "01.2.3.4", "::1", "[::1]",
             "::", "[::]", "1::2", "[1::2]", "::ffff:1.2.3.4", "[::ffff:1.2.3.4]", "1:2:3:4:5:6:7:8", "[1:2:3:4:5:6:7:8]",
             "1:2:3:4:5:6:7::", "[", "]", "[]", "[a]", "[::1", "::1]", "[[::1]]", "a:b", "a b", "*", "0.0.0.0", "localhost",
             "fe80::1%eth0", "[fe80::1%eth0]", "1:2:3:4:5:6:1.2.3.4", "::1.2.3.4", "[é]", "é", "x\ny", "", ":", "::ffff:0:0",
             "0:0:0:0:0:ffff:102:304", "1:0:0:2:0:0:0:3", "[1:0:0:2::3]", "12345::", "g::1", "1.2.3.4.5", "[1.2.3.4]"]
    ports = ["0", "1", "80", "65535", "65536", "99999", "00080", "", "-1", "+1", "8a", "٣", " 80", "80 ", "1e3", "0x50"]
    schemes = ["tcp", "ipc", "TCP", "Tcp", "udp", "", "t", "tcpx", "tcp1", "inproc", "pgm", "ipc ", "é"]
    seps = ["://", ":/", "//", ":", "", ":///"]
    out = []
    for h in hosts:
        for p in ports:
            out.append(f"tcp://{h}:{p}")
    for s in schemes:
        for sep in seps:
            out.append(f"{s}{sep}a:1")
            out.append(f"{s}{sep}/tmp/x")
    for path in ["/tmp/x", "x", "", "*", "a\nb", "é", " ", "/a:1", "@abstract", "a" * 300]:
        out.append(f"ipc://{path}")
    out += ["tcp://a:1\n", "\ntcp://a:1", "tcp://a:1 ", " tcp://a:1", "tcp://a", "tcp://:1", "tcp://a:", "tcp://", "ipc://", "tcp:///a:1"]
    return out


def cases(tier, rng):
    out = gen.corpus(ID)
    n = 0
    strings = []
    L = 4 if tier == "quick" else 5
    for pre in ["", "tcp://", "ipc://", "tcp://a:", "tcp://["]:
        for l in range(0, L + 1):
            for t in itertools.product(ALPHA, repeat=l):
                strings.append(pre + "".join(t))
    for i in range(0, len(strings), 50):
        out.append(batch(f"alpha#{n}", strings[i : i + 50], ["exhaustive-alphabet"]))
        n += 1
    gs = grammar_strings(rng)
    for i in range(0, len(gs), 50):
        out.append(batch(f"grammar#{n}", gs[i : i + 50], ["grammar"]))
        n += 1
    # parsing is a FUNCTION of the string: whatever was parsed before (successfully or not) changes nothing.  The same
    # address text under every transport spelling, back to back and interleaved; every grammar batch again in another order
    addrs = ["127.0.0.1", "127.0.0.1:5555", "a:1", "example.com:4567", "[::1]:5", "::1", "*:0", "*", "/tmp/x.sock", "x", "0.0.0.0:0",
             "localhost:80", "a.b:65535", "a.b:65536", "[fe80::1]:9", "host", ":1", "", "1.2.3.4:1", "[::ffff:1.2.3.4]:7", "tcp:1"]
    hs = []
    for a in addrs:
        hs += ["tcp://" + a, "ipc://" + a, "tcp://" + a, "TCP://" + a, "ipc://" + a, "udp://" + a, "tcp://" + a, "ipc://" + a, "ipc://" + a]
    for i in range(0, len(hs), 45):
        out.append(batch(f"history#{n}", hs[i : i + 45], ["history"]))
        n += 1
    for i in range(0, len(gs), 50):
        b = gs[i : i + 50]
        out.append(batch(f"grammar-reversed#{n}", b[::-1], ["history"]))
        n += 1
        b2 = b[:]
        rng.shuffle(b2)
        out.append(batch(f"grammar-shuffled#{n}", b2 + b2[:10], ["history"]))
        n += 1
    # random unicode / mutation of valid endpoints
    k = 40 if tier == "quick" else 600
    pool = ALPHA + list("0123456789abcdefxyz.-_%@ ") + ["é", "٣", "‮", "\U0001f600", "\x00", "\r"]
    for _ in range(k):
        ss = []
        for _ in range(50):
            base = rng.choice(gs)
            s = list(base)
            for _ in range(rng.randint(0, 3)):
                if s and rng.random() < 0.5:
                    s[rng.randrange(len(s))] = rng.choice(pool)
                else:
                    s.insert(rng.randrange(len(s) + 1), rng.choice(pool))
            ss.append("".join(s))
        out.append(batch(f"mutated#{n}", ss, ["mutated"]))
        n += 1
    # std::net laws, sampled
    k = 40 if tier == "quick" else 600
    for _ in range(k):
        ops = []
        for _ in range(25):
            segs = [rng.choice([0, 0, 0, 1, 0xFFFF, rng.randrange(65536)]) for _ in range(8)]
            if rng.random() < 0.1:
                segs[:6] = [0, 0, 0, 0, 0, 0xFFFF]
            ops.append("v6rt " + "".join(f"{s:04x}" for s in segs))
            ops.append("v4rt " + "".join(f"{rng.choice([0, 1, 9, 10, 99, 100, 255, rng.randrange(256)]):02x}" for _ in range(4)))
        out.append(Case(f"stdlaws#{n}", "endpoint", ops, ["std-laws"]))
        n += 1
    # IPv6 text parser, sampled on near-valid texts
    toks = ["0", "1", "ffff", "12345", "g", "", "1.2.3.4", "256.1.1.1", "00a", "A"]
    for _ in range(k):
        ops = []
        for _ in range(50):
            parts = [rng.choice(toks) for _ in range(rng.randint(1, 9))]
            s = ":".join(parts)
            if rng.random() < 0.4:
                i = rng.randrange(len(s) + 1)
                s = s[:i] + ":" + s[i:]
            ops.append("ip6 " + hx(s))
            ops.append("ip4 " + hx(".".join(rng.choice(["0", "1", "255", "256", "01", "", "1a", "999"]) for _ in range(rng.randint(3, 5)))))
        out.append(Case(f"iptext#{n}", "endpoint", ops, ["ip-text"]))
        n += 1
    return out


PORT = re.compile(r"^[0-9]+$")


def ref_accepts(s):
    """independent reading of the property's grammar (python)"""
    if "\n" in s:
        return False
    if s.startswith("ipc://"):
        return len(s) > 6
    if s.startswith("tcp://"):
        addr = s[6:]
        if ":" not in addr:
            return False
        h, p = addr.rsplit(":", 1)
        return len(h) > 0 and bool(PORT.match(p)) and p.isascii() and int(p) <= 65535
    return False


def oracle(case, impl_lines):
    for op, l in zip(case.ops, impl_lines[1:]):
        w = op.split()
        if l.startswith(("PANIC", "ABORT", "TIMEOUT")):
            return f"parsing panicked/aborted on {op}"
        if w[0] == "parse":
            s = bytes.fromhex(w[1]).decode("utf-8") if w[1] != "." else ""
            acc = l.startswith("ok ")
            if acc != ref_accepts(s):
                return f"acceptance differs from the grammar of the property for {s!r}: implementation says {l[:60]}"
            if acc and not l.endswith("| re same"):
                return f"text form does not re-parse to an equal endpoint for {s!r}: {l[:160]}"
            if acc and l.startswith("ok tcp dom"):
                # IP literals must be recognised as addresses, not as domain names
                host = bytes.fromhex(l.split()[3]).decode("utf-8")
                if re.match(r"^(25[0-5]|2[0-4]\d|1\d\d|[1-9]?\d)(\.(25[0-5]|2[0-4]\d|1\d\d|[1-9]?\d)){3}$", host, re.ASCII):  # ASCII digits only: '٣' is not a digit of an IPv4 literal
                    return f"IPv4 literal {host!r} classified as a domain name"
        if w[0] in ("v6rt", "v4rt") and not l.endswith("re same"):
            return f"std::net law violated (sample): {op} -> {l}"
    return None


def nontrivial(case, impl_lines):
    return any(l.startswith("ok ") or l.startswith("some ") or l.startswith("disp ") for l in impl_lines)


def signature(case, ml, il, o):
    return case.name.split("#")[0]
