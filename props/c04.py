"""C04 — the handshake admits exactly the well-formed, RFC-compatible peers (engines: tables, world)."""
import itertools
import re

from vlib import core, gen, worldgen as wg, zmtp
from vlib.core import Case

ID = "C04"
LEAN_TARGETS = ["ZmqVerif.Props.C04"]
PEER_TYPES = wg.ALL12 + ["BOGUS", None]  # 12 names, unknown, missing
# near-miss and over-long Socket-Type values (the RFC names are at most 6 octets): empty, lower case, a name with a
# suffix, 8 / 9 / 10 / 16 / 255 / 300 octets
ODD_TYPES = ["", "X", "req", "REQQ", "XREQ", "PUSHPULL", "PUSHPULL9", "SUBSCRIBER", "A" * 16, "B" * 255, "C" * 300]
VERSIONS = [(1, 0), (2, 1), (3, 0), (3, 1), (4, 0)]
MECHS = [b"NULL", b"PLAIN", b"CURVE", b"GSSAPI"]
SIGS = ["ok", "byte0", "byte9"]
IDENTS = [None, b"", b"i", b"I" * 255, b"J" * 256]
FIRST = ["ready", "othercmd", "message"]
RULE = (
    "all 144 SocketType::compatible queries, the names and the mechanism field through the REGENERATED tables (proved by "
    "decide). Real handshake through `attach` with a scripted raw peer: the FULL compatibility plane 9 local types x 14 "
    "peer Socket-Type values (12 names, unknown, missing) and every SINGLE-FACTOR deviation (versions 1.0/2.1/3.0/3.1/4.0, "
    "mechanisms NULL/PLAIN/CURVE/unknown, signature byte 0 / byte 9 wrong, identity none/empty/1/255/256 bytes, first item "
    "READY / other command / message) for every local type; a seeded pairwise sample of the product (quick) / the WHOLE "
    "product (thorough). Observed: attach result, the bytes the library wrote, whether both pipe halves were dropped, and "
    "for admitted peers that a message then flows. Non-trivial = the case was rejected for exactly one reason or admitted. "
    "Spec oracle (python, from the RFC table): admitted iff signature ok and version >= 3.0 and mechanism known and first "
    "item is READY and Socket-Type compatible and identity <= 255; admitted under the announced identity or a fresh one; "
    "a rejected connection has both halves dropped."
    " Family accept-side (engine net): on a bound endpoint over a real transport, with the monitor installed before bind, after bind, or replaced after bind, a raw client presents one deviation (version, mechanism, signature, incompatible / unknown Socket-Type, 256-byte identity, a message where READY is due) — its connection is closed and the socket's CURRENT monitor is told AcceptFailed; a well-formed client that follows is Accepted."
    ' Family reconnect-abandoned (engine world, shared with C14): a peer is admitted under an announced identity, recv is polled 0..2 times and abandoned (1..3 times over), then a SECOND connection completes a valid handshake announcing the same identity (the first still open, or closed but unnoticed): it is admitted under that identity and what it sends is delivered — it has become a peer.'
)
ASSUMPTIONS = ["freshness of auto-assigned identities (UUIDv4) is trusted", "monitor events (AcceptFailed) are observed by the net engine (C20)"]
TRUSTED = ["RFC 28/29/30/31 compatibility table as typed into Spec/Compat.lean and vlib/worldgen.py"]
SHRINK = False


def build(local, ptype, ver, mech, sig, ident, first, n, tag):
    g = zmtp.greeting(ver[0], ver[1], mech, 0, 0xFE if sig == "byte0" else 0xFF, 0x7E if sig == "byte9" else 0x7F)
    if first == "ready":
        item = zmtp.ready(ptype, ident)
    elif first == "othercmd":
        item = zmtp.command(b"HELLO", [(b"Socket-Type", (ptype or "REQ").encode())])
    else:
        item = zmtp.message([b"hello"])
    sc = wg.Script()
    sc.sock(1, local)
    f = sc.fut()
    sc.add(f"attach {f} 1 1", f"reveal 1 {wg.hx(g + item)}", f"poll {f}", "wire 1", "halves 1")
    if local in wg.CAN_RECV and local != "REQ":
        fr = [b"", b"x"] if local == "REP" else [b"\x01t"] if local == "XPUB" else [b"x"]
        sc.reveal_msg(1, fr)
        h = sc.fut()
        sc.add(f"recv {h} 1", f"poll {h}", f"drop {h}")
    c = sc.case(f"{tag}#{n}", [tag])
    c.expect = (local, ptype, ver, mech, sig, ident, first)
    return c


def cases(tier, rng):
    out = gen.corpus(ID)
    n = 0
    base = dict(ver=(3, 0), mech=b"NULL", sig="ok", ident=None, first="ready")
    for local in wg.TYPES9:
        for pt in PEER_TYPES:
            out.append(build(local, pt, n=n, tag="compat-plane", **base))
            n += 1
        for pt in ODD_TYPES:
            out.append(build(local, pt, n=n, tag="odd-socket-type", **base))
            n += 1
        good = wg.COMPAT[local][0]
        for v in VERSIONS:
            out.append(build(local, good, n=n, tag="deviation-version", **{**base, "ver": v}))
            n += 1
        # (near-miss names too: a known name as a proper prefix, a proper prefix of a known name, lower case, empty)
        for m in MECHS + [b"NULLX", b"NULL-2", b"PLAINTEXT", b"CURVE25519", b"NUL", b"null", b"", b"XNULL"]:
            out.append(build(local, good, n=n, tag="deviation-mechanism", **{**base, "mech": m}))
            n += 1
        for s in SIGS:
            out.append(build(local, good, n=n, tag="deviation-signature", **{**base, "sig": s}))
            n += 1
        for i in IDENTS:
            out.append(build(local, good, n=n, tag="deviation-identity", **{**base, "ident": i}))
            n += 1
        for fi in FIRST:
            out.append(build(local, good, n=n, tag="deviation-first-item", **{**base, "first": fi}))
            n += 1
    out += accept_side_cases(tier)
    out += wg.reconnect_abandoned_cases()
    product = itertools.product(wg.TYPES9, PEER_TYPES, VERSIONS, MECHS, SIGS, IDENTS, FIRST)
    if tier == "quick":
        allp = list(product)
        for t in rng.sample(allp, 2500):
            out.append(build(t[0], t[1], t[2], t[3], t[4], t[5], t[6], n, "product-sampled"))
            n += 1
    else:
        for t in product:
            out.append(build(t[0], t[1], t[2], t[3], t[4], t[5], t[6], n, "product-full"))
            n += 1
    return out


def accept_side_cases(tier):
    """ACCEPT side, over a real transport (engine net): nobody called anything when a remote's handshake is rejected, so
    the monitor is the only report there is — the one the socket has at that moment, whether it was installed before
    bind, after bind, or replaced after bind.  One deviation at a time, then a well-formed peer on the same endpoint."""
    from vlib import netgen

    out = []
    n = 0
    devs = {"version": dict(ver=(2, 1)), "mechanism": dict(mech=b"XNULL"), "signature": dict(sig="byte0"), "incompatible": dict(pt="SAME"),
            "socket-type": dict(pt="BOGUS"), "identity": dict(ident=b"J" * 256), "first-item": dict(first="message"), "none": {}}
    for local in (["PULL", "ROUTER", "PUB", "REP"] if tier == "quick" else wg.TYPES9):
        good = wg.COMPAT[local][0]
        for tr in (["tcp4"] if tier == "quick" else [t for t in netgen.transports() if t in ("tcp4", "ipc")]):
            for mon in ("before", "after", "replaced"):
                for dname, d in devs.items():
                    pt = d.get("pt", good)
                    if pt == "SAME":
                        pt = next(x for x in wg.ALL12 if x not in wg.COMPAT[local])
                    ver, mech, sig = d.get("ver", (3, 0)), d.get("mech", b"NULL"), d.get("sig", "ok")
                    g = zmtp.greeting(ver[0], ver[1], mech, 0, 0xFE if sig == "byte0" else 0xFF, 0x7F)
                    item = zmtp.message([b"hello"]) if d.get("first") == "message" else zmtp.ready(pt, d.get("ident"))
                    ops = [f"sock 1 {local}"] + {"before": ["monitor 1", f"bind 1 {tr}", "events 1 1"], "after": [f"bind 1 {tr}", "monitor 1"],
                                                 "replaced": ["monitor 1", f"bind 1 {tr}", "monitor 1"]}[mon]
                    ops += ["rawconn 1 ep#0", f"rawsend 1 {wg.hx(g + item)}"]
                    ops += ["rawwait 1 hs", "events 1 1"] if dname == "none" else ["rawwait 1 eof", "events 1 1"]
                    ops += ["rawconn 2 ep#0", f"rawhs 2 {good}", "rawwait 2 hs", "events 1 1"]
                    c = Case(f"accept-side-{local}-{tr}-{mon}-{dname}#{n}", "net", ops, ["accept-side"])
                    c.expect = ("accept-side", dname)
                    out.append(c)
                    n += 1
    return out


def accept_side_oracle(case, lines):
    if any(("PANIC" in l) or l.startswith(("ABORT", "TIMEOUT")) for l in lines):
        return "the handshake panicked/aborted"
    dname = case.expect[1]
    res = list(zip(case.ops, lines[1:]))
    evs = [l for op, l in res if op.startswith("events")][-2:]
    first = next(l for op, l in res if op.startswith("rawwait 1"))
    if dname == "none":
        if first != "hs-ok" or evs[0] != "events Accepted":
            return f"a well-formed compatible peer was not admitted / not reported: {first}, {evs[0]}"
    else:
        if first != "eof":
            return f"a connection rejected for its {dname} was not closed: {first}"
        if evs[0] != "events AcceptFailed":
            return (f"a connection rejected for its {dname} on the accept side was reported to nobody: the socket's monitor got "
                    f"`{evs[0]}` (want AcceptFailed)")
    if evs[1] != "events Accepted":
        return f"the well-formed peer that followed was not admitted / not reported: {evs[1]}"
    return None


def reference(local, ptype, ver, mech, sig, ident, first):
    reasons = []
    if sig != "ok":
        reasons.append("signature")
    if ver < (3, 0):
        reasons.append("version")
    if mech not in (b"NULL", b"PLAIN", b"CURVE"):
        reasons.append("mechanism")
    if first != "ready":
        reasons.append("first-item")
    else:
        if ptype is None or ptype not in wg.ALL12:
            reasons.append("socket-type")
        elif ptype not in wg.COMPAT[local]:
            reasons.append("incompatible")
        if ident is not None and len(ident) > 255:
            reasons.append("identity")
    return reasons


def oracle(case, lines):
    if any(l.startswith(("PANIC", "ABORT", "TIMEOUT")) for l in lines):
        return "the handshake panicked/aborted"
    if not case.expect:
        return None
    if case.expect[0] == "accept-side":
        return accept_side_oracle(case, lines)
    if case.expect[0] == "reconnect-abandoned":
        return wg.reconnect_abandoned_oracle(case, lines)
    local, ptype, ver, mech, sig, ident, first = case.expect
    reasons = reference(*case.expect)
    res = list(zip(case.ops, lines[1:]))
    poll = next(l for op, l in res if op.startswith("poll"))
    halves = next(l for op, l in res if op.startswith("halves"))
    if reasons:
        if not poll.startswith("ready err"):
            return f"admitted although {reasons}: {poll}"
        if halves != "halves r=1 w=1":
            return f"rejected ({reasons}) but the connection was not closed: {halves}"
        rec = [l for op, l in res[3:] if op.startswith("poll")]
        if rec and any(r.startswith("ready ok") for r in rec[0:]):
            return f"a rejected connection exchanged an application message: {rec}"
    else:
        if not poll.startswith("ready ok id="):
            return f"a well-formed compatible peer was rejected: {poll}"
        got = poll[len("ready ok id="):]
        want = gen.show_bytes(ident) if ident else gen.show_bytes(wg.placeholder(0))
        if got != want:
            return f"admitted under identity {got[:40]} instead of {want[:40]}"
        if halves == "halves r=1 w=1":
            return "an admitted peer's connection was dropped"
        rec = [l for op, l in res[3:] if op.startswith("poll")]
        if rec and not rec[0].startswith("ready ok"):
            return f"no message flows on an admitted connection: {rec[0]}"
    return None


def nontrivial(case, lines):
    if case.expect is not None and case.expect[0] in ("accept-side", "reconnect-abandoned"):
        return True
    return case.expect is not None and len(reference(*case.expect)) <= 1


def signature(case, ml, il, o):
    return case.name.split("#")[0]


def search(tier, rng):
    """a table obligation broke: find the first offending pair / name in the regenerated dump"""
    src = open(core.LEAN + "/ZmqVerif/Gen/Tables.lean").read()
    names = wg.ALL12
    rows = re.findall(r"\((\d+), (\d+), (none|some true|some false)\)", src)
    tab = {(int(a), int(b)): v for a, b, v in rows}
    for (a, b), v in sorted(tab.items()):
        if v == "none":
            return {"call": f"SocketType::{names[a]}.compatible(SocketType::{names[b]})", "observed": "panic"}
    for (a, b), v in sorted(tab.items()):
        if tab.get((b, a)) != v:
            return {"call": f"{names[a]}.compatible({names[b]}) = {v} but {names[b]}.compatible({names[a]}) = {tab.get((b, a))}", "observed": "asymmetric"}
        want = names[b] in wg.COMPAT[names[a]]
        if (v == "some true") != want:
            return {"call": f"{names[a]}.compatible({names[b]}) = {v}", "observed": f"RFC says {want}"}
    # mechanism field: known iff the bytes before the first NUL are exactly NULL / PLAIN / CURVE
    m = re.search(r"def mechParse[^\[]*:= \[(.*?)\]\n\n", src, re.S)
    if m:
        for row in re.findall(r"\(\[([0-9, ]+)\], (none|some \d+)\)", m.group(1)):
            field = bytes(int(x) for x in row[0].split(","))
            name = field.split(b"\0", 1)[0]
            want = {b"NULL": "some 0", b"PLAIN": "some 1", b"CURVE": "some 2"}.get(name, "none")
            if row[1] != want:
                return {"call": f"ZmqMechanism::try_from({field!r})", "observed": row[1],
                        "expected": f"{want} (0 = NULL, 1 = PLAIN, 2 = CURVE, none = rejected): the field names {name!r}"}
    return None
