"""C05 — each peer's messages delivered exactly once, whole, in order (engine: fq; socket-level recv
filters are covered by the world engine)."""
from vlib import fqgen, gen, worldgen
from vlib.core import Case

ID = "C05"
LEAN_TARGETS = ["ZmqVerif.Props.C05"]
RULE = (
    "real FairQueue over scripted streams vs the micro-step model, EXACT schedule replay (every poll result, wake "
    "count). EXHAUSTIVE: all op sequences over {poll, insert k, arrive k, close k, remove k} to depth 5 for 2 peers and "
    "depth 4 for 3 peers (modulo renaming of peers), each followed by 4 draining polls; every placement of one window "
    "action (an arrive/insert/close/remove of peer 1..3 executed INSIDE stream k's poll_next, before or after it looks "
    "at its queue) in short schedules; seeded random schedules of 20-60 ops with 1..5 peers and window actions. "
    "Non-trivial: at least one delivery happened. Spec oracle on the implementation's trace: per peer, the delivered "
    "sequence is a duplicate-free prefix of the arrived sequence; after the final drain every item of a peer that was "
    "inserted and never removed has been delivered. Socket level: 400 (quick) / 6000 (thorough) seeded random schedules of "
    "real PULL/SUB/DEALER/ROUTER/REP/XPUB sockets over scripted pipes, every recv result predicted by the World model."
)
ASSUMPTIONS = ["keys of simultaneously registered streams are distinct (peer identities are unique)",
               "parallel data races inside parking_lot / std collections are not modelled: one total order of events"]
TRUSTED = ["std BinaryHeap as a min-ticket multiset; parking_lot::Mutex as atomic lock sections"]


def cases(tier, rng):
    out = gen.corpus(ID)
    out += list(fqgen.exhaustive(2, 5 if tier == "quick" else 6, "exh2"))
    out += list(fqgen.exhaustive(3, 4 if tier == "quick" else 5, "exh3"))
    out += list(fqgen.windows("window", tier != "quick"))
    out += list(fqgen.exhaustive(2, 4 if tier == "quick" else 5, "exh2-budget", extra=["exhaust"]))
    out += list(fqgen.exhaust_cases(rng, 300 if tier == "quick" else 4000, "budget"))
    out += list(fqgen.random_cases(rng, 1500 if tier == "quick" else 20000, "random"))
    # socket level: the recv filters of the six receiving socket types on top of the queue — seeded random
    # schedules of real sockets over scripted pipes (partial reads, peers attached mid-way, EOF, errors); the
    # World model must predict every recv result
    for i in range(400 if tier == "quick" else 6000):
        out.append(worldgen.random_case(rng, f"sockets#{i}", ["PULL", "SUB", "DEALER", "ROUTER", "REP", "XPUB"],
                                        tags=("socket-level-random",)))
    return out


def oracle(case, lines):
    if any(l.startswith(("PANIC", "ABORT", "TIMEOUT")) for l in lines):
        return "the fair queue panicked"
    if any(l.startswith("LIVELOCK") for l in lines):
        return "poll_next never returned (budget exhausted: the receiver re-polled self-waking streams for ever) — nothing is delivered any more"
    if case.engine != "fq":
        return None  # socket-level random schedules: exact prediction by the World model is the check
    a = fqgen.analyse(case, lines)
    for k, d in a["delivered"].items():
        arr = a["arrived"].get(k, [])
        if len(set(d)) != len(d):
            return f"peer {k}: an item was delivered twice: {d}"
        if k in a["windowed"]:
            # a window action takes effect when the stream it rides on is next polled: only membership is known
            if not set(d) <= set(arr):
                return f"peer {k}: delivered {d} contains items that never arrived {arr}"
            continue
        if d != arr[: len(d)]:
            return f"peer {k}: delivered {d} is not a prefix of what arrived {arr} (lost / reordered / invented)"
    for k in a["inserted"]:
        if k in a["removed"] or k in a["windowed"]:
            continue
        if a["delivered"].get(k, []) != a["arrived"].get(k, []):
            return f"peer {k} (registered, never removed): after draining, {a['arrived'].get(k)} arrived but only {a['delivered'].get(k, [])} delivered"
    return None


def nontrivial(case, lines):
    return any(l.startswith("ready ") for l in lines)


def signature(case, ml, il, o):
    if any(l.startswith("LIVELOCK") for l in (il or [])):
        return "budget-livelock"
    return case.name.split("#")[0]
