"""C05 — each peer's messages delivered exactly once, whole, in order (engine: fq; socket-level recv
filters are covered by the world engine)."""
from vlib import fqgen, gen, worldgen
from vlib.core import Case

ID = "C05"
LEAN_TARGETS = ["ZmqVerif.Props.C05"]
RULE = (
    "real FairQueue over scripted streams vs the micro-step model, EXACT schedule replay (every poll result, wake "
    "count). EXHAUSTIVE: all op sequences over {poll, insert k, arrive k, close k, remove k} to depth 5 for 2 peers and "
    "depth 4 for 3 peers (modulo renaming of peers), each followed by 4 draining polls; every placement of one window "
    "action (an arrive/insert/close/remove of peer 1..3 executed INSIDE stream k's poll_next, before or after it looks "
    "at its queue) in short schedules; seeded random schedules of 20-60 ops with 1..5 peers and window actions. "
    "Non-trivial: at least one delivery happened. Spec oracle on the implementation's trace: per peer, the delivered "
    "sequence is a duplicate-free prefix of the arrived sequence; after the final drain every item of a peer that was "
    "inserted and never removed has been delivered. Socket level: 400 (quick) / 6000 (thorough) seeded random schedules of "
    "real PULL/SUB/DEALER/ROUTER/REP/XPUB sockets over scripted pipes, every recv result predicted by the World model; and "
    "300 / 5000 `streams` cases judged by the Spec itself: PULL/DEALER/ROUTER/REP fed by 1..3 peers in random chunks "
    "(messages numbered per peer, empty frames anywhere incl. last, 70 000-byte frames, clean EOF and EOF inside a "
    "message): per peer, the delivered sequence must equal the complete messages put on the wire; a message cut short "
    "is never surfaced; at most one error per connection that ended inside a message."
)
ASSUMPTIONS = ["keys of simultaneously registered streams are distinct (peer identities are unique)",
               "parallel data races inside parking_lot / std collections are not modelled: one total order of events"]
TRUSTED = ["std BinaryHeap as a min-ticket multiset; parking_lot::Mutex as atomic lock sections"]


def cases(tier, rng):
    out = gen.corpus(ID)
    out += list(fqgen.exhaustive(2, 5 if tier == "quick" else 6, "exh2"))
    out += list(fqgen.exhaustive(3, 4 if tier == "quick" else 5, "exh3"))
    out += list(fqgen.windows("window", tier != "quick"))
    out += list(fqgen.exhaustive(2, 4 if tier == "quick" else 5, "exh2-budget", extra=["exhaust"]))
    out += list(fqgen.exhaust_cases(rng, 300 if tier == "quick" else 4000, "budget"))
    out += list(fqgen.exhaustive(2, 4 if tier == "quick" else 5, "exh2-wakers", extra=["setwaker 1", "setwaker 2"]))
    out += list(fqgen.waker_cases(rng, 300 if tier == "quick" else 4000, "wakers"))
    out += list(fqgen.random_cases(rng, 1500 if tier == "quick" else 20000, "random"))
    # socket level: the recv filters of the six receiving socket types on top of the queue — seeded random
    # schedules of real sockets over scripted pipes (partial reads, peers attached mid-way, EOF, errors); the
    # World model must predict every recv result
    for i in range(400 if tier == "quick" else 6000):
        out.append(worldgen.random_case(rng, f"sockets#{i}", ["PULL", "SUB", "DEALER", "ROUTER", "REP", "XPUB"],
                                        tags=("socket-level-random",)))
    # socket level, judged by the Spec itself: unfiltered receivers (PULL, DEALER, ROUTER) fed by 1..3 peers whose
    # byte streams are revealed in random chunks interleaved with recv polls; every message carries its peer and
    # sequence number in its first frame, the other frames include empty ones (also as the LAST frame — a frame
    # that needs no further byte); some peers disconnect, cleanly or in the middle of a message
    for i in range(300 if tier == "quick" else 5000):
        out.append(stream_case(rng, f"streams#{i}"))
    # a peer connects again under an identity that is still registered while a recv is parked on the old stream
    out += worldgen.reconnect_parked_cases()
    return out


STREAM_PEER = {"PULL": "PUSH", "DEALER": "ROUTER", "ROUTER": "DEALER", "REP": "REQ"}
TAILS = [[], [b""], [b"x"], [b"", b""], [b"a", b""], [b"", b"b"], [b"y" * 300], [b"y" * 300, b""], [b"", b"z" * 70000]]


def stream_case(rng, name):
    from vlib import zmtp
    t = rng.choice(list(STREAM_PEER))
    sc = worldgen.Script()
    sc.sock(1, t)
    np_ = rng.randint(1, 3)
    streams, want, cutshort = {}, {}, set()
    for p in range(1, np_ + 1):
        sc.attach(1, p, STREAM_PEER[t], b"p%d" % p)
        msgs = [[b"m%d-%d" % (p, i)] + rng.choice(TAILS if tier_big(rng) else TAILS[:-1]) for i in range(rng.randint(1, 5))]
        # (REP: every request arrives behind its delimiter, which recv strips — the payload keeps its own empty frames)
        onwire = [([b""] + m if t == "REP" else m) for m in msgs]
        data = b"".join(zmtp.message(m) for m in onwire)
        want[p] = msgs
        r = rng.random()
        if r < 0.2 and len(msgs) > 0:
            # the connection ends inside the last message: that message must never be surfaced
            last = zmtp.message(onwire[-1])
            data = data[: len(data) - rng.randint(1, len(last) - 1)]
            want[p] = msgs[:-1]
            cutshort.add(p)
        streams[p] = data
    pos = {p: 0 for p in streams}
    ends = {p: (p in cutshort or rng.random() < 0.3) for p in streams}
    while any(pos[p] < len(streams[p]) for p in streams):
        p = rng.choice([q for q in streams if pos[q] < len(streams[q])])
        step = rng.choice([1, 1, 2, 3, 7, 64, 1000, 100000])
        chunk = streams[p][pos[p]: pos[p] + step]
        pos[p] += len(chunk)
        sc.add(f"reveal {p} {worldgen.hx(chunk)}")
        if pos[p] >= len(streams[p]) and ends[p] and rng.random() < 0.5:
            sc.add(f"eof {p}")
            ends[p] = False
        if rng.random() < 0.6:
            f = sc.fut()
            sc.add(f"recv {f} 1", f"poll {f}", f"drop {f}")
    for p in streams:
        if ends[p]:
            sc.add(f"eof {p}")
    for _ in range(sum(len(v) for v in want.values()) + 2 * np_ + 2):
        f = sc.fut()
        sc.add(f"recv {f} 1", f"poll {f}", f"drop {f}")
    c = sc.case(name, ["socket-level-streams"])
    c.expect = ("streams", t, {p: [[bytes(f) for f in m] for m in ms] for p, ms in want.items()}, len(cutshort))
    return c


def tier_big(rng):
    return rng.random() < 0.15


def stream_oracle(case, lines):
    _, t, want, ncut = case.expect
    got = {p: [] for p in want}
    nerr = 0
    for op, l in zip(case.ops, lines[1:]):
        if not op.startswith("poll"):
            continue
        if l.startswith("ready err"):
            nerr += 1
            continue
        if not l.startswith("ready ok M["):
            continue
        frames = l[len("ready ok M["):-1].split(",")
        if t == "ROUTER":
            ident, frames = frames[0], frames[1:]
        if not frames:
            return f"recv returned a message without frames: {l}"
        try:
            tag = bytes.fromhex(frames[0]).decode()
            p = int(tag[1:].split("-")[0])
        except Exception:
            return f"recv returned a message that no peer sent (first frame {frames[0][:40]}): merged or split?"
        if t == "ROUTER" and ident != (b"p%d" % p).hex():
            return f"ROUTER labelled a message of peer {p} with identity {ident}"
        if p not in got:
            return f"recv returned a message of unknown peer {p}"
        got[p].append(frames)
    for p, ms in want.items():
        exp = [[worldgen.show_frames([f]) for f in m] for m in ms]
        if got[p] != exp:
            k = next((i for i, (a, b) in enumerate(zip(got[p], exp)) if a != b), min(len(got[p]), len(exp)))
            return (f"peer {p}: {len(exp)} complete messages were put on the wire, recv delivered {len(got[p])}; first "
                    f"difference at message {k}: delivered {got[p][k] if k < len(got[p]) else None} / sent {exp[k] if k < len(exp) else None}")
    if nerr > ncut:
        return f"{nerr} recv errors for {ncut} connections that ended inside a message"
    return None


def oracle(case, lines):
    if any(l.startswith(("PANIC", "ABORT", "TIMEOUT")) for l in lines):
        return "the fair queue panicked"
    if any(l.startswith("LIVELOCK") for l in lines):
        return "poll_next never returned (budget exhausted: the receiver re-polled self-waking streams for ever) — nothing is delivered any more"
    if case.engine != "fq":
        if case.expect and case.expect[0] == "streams":
            return stream_oracle(case, lines)
        if case.expect and case.expect[0] == "reconnect-parked":
            return worldgen.reconnect_parked_oracle(case, lines)
        return None  # socket-level random schedules: exact prediction by the World model is the check
    a = fqgen.analyse(case, lines)
    for k, d in a["delivered"].items():
        arr = a["arrived"].get(k, [])
        if len(set(d)) != len(d):
            return f"peer {k}: an item was delivered twice: {d}"
        if k in a["windowed"]:
            # a window action takes effect when the stream it rides on is next polled: only membership is known
            if not set(d) <= set(arr):
                return f"peer {k}: delivered {d} contains items that never arrived {arr}"
            continue
        if d != arr[: len(d)]:
            return f"peer {k}: delivered {d} is not a prefix of what arrived {arr} (lost / reordered / invented)"
    for k in a["inserted"]:
        if k in a["removed"] or k in a["windowed"]:
            continue
        if a["delivered"].get(k, []) != a["arrived"].get(k, []):
            return f"peer {k} (registered, never removed): after draining, {a['arrived'].get(k)} arrived but only {a['delivered'].get(k, [])} delivered"
    return None


def nontrivial(case, lines):
    return any(l.startswith("ready ") for l in lines)


def signature(case, ml, il, o):
    if any(l.startswith("LIVELOCK") for l in (il or [])):
        return "budget-livelock"
    return case.name.split("#")[0]
