"""C16 — a failed or closed peer is isolated, forgotten, released (engine: world)."""
from vlib import gen, worldgen as wg, zmtp
from vlib.core import Case

ID = "C16"
LEAN_TARGETS = ["ZmqVerif.Props.C16"]
PEER = {"PULL": "PUSH", "SUB": "PUB", "DEALER": "ROUTER", "ROUTER": "DEALER", "REP": "REQ", "XPUB": "SUB",
        "PUB": "SUB", "PUSH": "PULL", "REQ": "REP"}
RULE = (
    "every socket type (9) with a victim connection and 1..2 healthy bystanders; EXHAUSTIVE over the cut position of the "
    "victim's byte stream (before/inside the greeting, between greeting and READY, inside READY, right after the "
    "handshake, inside a frame header, inside an 8-byte length, inside a body, between the frames of a multipart message, "
    "between messages) x the event {orderly EOF, read error, write error, protocol error}; then three recv polls (errors "
    "counted, no spin), traffic of the bystanders in both directions, sends that must not reach the victim, and the "
    "victim pipe's Drop flags. Non-trivial: the socket observed the end (an error, or the halves changed). Spec oracle: "
    "bystander traffic unaffected; at most one recv error for the event and Pending afterwards; once observed, no send is "
    "written to the victim; both halves of the victim are dropped. REQ reads only the peer whose reply it awaits: its cases walk "
    "the rotation (bystanders pre-loaded with answers) until the victim has been written to and awaited twice. The "
    "(type, event) pairs that failed on the pinned tree (orderly EOF on the six fair-queue sockets — D12; REQ, and write "
    "errors in REQ/ROUTER/REP — D13) were repaired; every pair is now required to hold."
    ' Family pub-backlog-then-end: a subscriber stops reading, output for it is buffered, then its connection ends on the read side (EOF, reset, malformed frame): both halves of the connection are released once the socket has observed it — nothing lingers to flush a backlog to a peer that is gone.'
    ' Family returning-identity (ROUTER, DEALER, PUSH, PULL, REP): a peer with a configured identity goes away and registers again under it — before or after the socket has observed the end: everything held for the FIRST connection is released (both halves), nothing sent afterwards is written to it, messages addressed to the identity / sent in rotation reach live connections.'
)
ASSUMPTIONS = ["descriptor release is observed through the pipe halves' Drop flags not modelled",
               "PUB notices a dead subscriber through its reader task; its write-side detection (only at the high-water mark) is outside the statement"]
TRUSTED = ["asynchronous-codec FramedRead2 EOF handling (modelled): EOF with leftover bytes yields the same error on every poll"]
SHRINK = False


def victim_stream(t):
    m1 = [b"", b"one", b"x" * 300] if t in ("REP", "REQ") else [b"\x01a"] if t in ("XPUB", "PUB") else [b"one", b"x" * 300]
    m2 = [b"", b"two"] if t in ("REP", "REQ") else [b"\x01b"] if t in ("XPUB", "PUB") else [b"two"]
    hs = wg.G + zmtp.ready(PEER[t], b"victim")
    d1, d2 = zmtp.message(m1), zmtp.message(m2)
    cuts = {"pre-greeting": 0, "in-greeting": 10, "greeting|ready": 64, "in-ready": 70, "after-handshake": len(hs),
            "in-header": len(hs) + 1, "between-messages": len(hs) + len(d1), "in-second-message": len(hs) + len(d1) + 1}
    if len(m1) > 1:
        # positions inside the long frame: 8-byte length, body; and between frames
        off = len(hs) + len(zmtp.frame(m1[0], more=True)) + (len(zmtp.frame(m1[1], more=True)) if len(m1) > 2 else 0)
        cuts["between-frames"] = off
        cuts["in-long-length"] = off + 4
        cuts["in-body"] = off + 9 + 100
    return hs + d1 + d2, cuts, len(hs)


def build(t, cutname, event, n, nby):
    stream, cuts, hslen = victim_stream(t)
    cut = cuts[cutname]
    sc = wg.Script()
    sc.sock(1, t)
    # bystanders first (so the victim's failure cannot be masked by registration order)
    for b in range(2, 2 + nby):
        sc.attach(1, b, PEER[t], b"by%d" % b)
        sc.add(f"wire {b}")
    f = sc.fut()
    sc.add(f"attach {f} 1 1")
    if cut:
        sc.add(f"reveal 1 {wg.hx(stream[:cut])}")
    sc.add(f"poll {f}")
    if event == "eof":
        sc.add("eof 1")
    elif event == "rderr":
        sc.add("rderr 1 ConnectionReset")
    elif event == "wrerr":
        sc.add("wrerr 1 BrokenPipe")
    elif event == "protoerr":
        junk = b"\x04\x03\x02HI" if cut >= 64 else b"garbage-not-zmtp" * 5
        sc.add(f"reveal 1 {wg.hx(junk)}")
    sc.add(f"poll {f}", f"drop {f}", "wire 1", "drain")
    # the socket gets its chances to observe the end
    recvs = []
    if t == "REQ":
        # REQ reads only from the peer whose reply it awaits: walk the rotation (the bystanders have their answers
        # waiting) often enough for the victim to be written to and awaited twice — data that arrived before the
        # failure is still delivered first — so that the socket does get to observe the end
        cycles = 2 * (nby + 1) + 1
        for b in range(2, 2 + nby):
            for i in range(cycles):
                sc.reveal_msg(b, [b"", b"ans%d-%d" % (b, i)])
        for i in range(cycles):
            g = sc.fut()
            sc.add(f"send {g} 1 {wg.mtok([b'q%d' % i])}", f"poll {g}", f"drop {g}")
            g = sc.fut()
            sc.add(f"recv {g} 1", f"poll {g}", f"drop {g}")
            recvs.append(g)
    elif t in wg.CAN_RECV:
        for _ in range(4):
            g = sc.fut()
            sc.add(f"recv {g} 1", f"poll {g}", f"drop {g}")
            recvs.append(g)
    if t in wg.CAN_SEND and t != "REQ":
        for i in range(3):
            g = sc.fut()
            if t == "ROUTER":
                fr = [b"victim", b"s%d" % i]
            elif t == "REP":
                fr = [b"s%d" % i]
            else:
                fr = [b"a", b"s%d" % i]
            sc.add(f"send {g} 1 {wg.mtok(fr)}", f"poll {g}", f"drop {g}")
    sc.add("drain", "wire 1", "halves 1")
    # bystander traffic must flow
    for b in range(2, 2 + nby):
        if t in wg.CAN_RECV and t != "REQ":
            fr = [b"", b"from%d" % b] if t == "REP" else [b"\x01z%d" % b] if t == "XPUB" else [b"from%d" % b]
            sc.reveal_msg(b, fr)
            g = sc.fut()
            sc.add(f"recv {g} 1", f"poll {g}", f"drop {g}")
            if t == "REP":
                h = sc.fut()
                sc.add(f"send {h} 1 {wg.mtok([b'rep'])}", f"poll {h}", f"drop {h}", f"wire {b}")
        if t in ("PUB",):
            sc.reveal_msg(b, [b"\x01"])
            sc.add("drain")
        if t in ("XPUB",):
            sc.reveal_msg(b, [b"\x01"])
            g = sc.fut()
            sc.add(f"recv {g} 1", f"poll {g}", f"drop {g}")
    if t in ("PUB", "XPUB", "PUSH", "DEALER"):
        for i in range(2 * nby):
            g = sc.fut()
            sc.add(f"send {g} 1 {wg.mtok([b'a', b'late%d' % i])}", f"poll {g}", f"drop {g}")
        for b in range(2, 2 + nby):
            sc.add(f"wire {b}")
    if t == "ROUTER":
        for b in range(2, 2 + nby):
            g = sc.fut()
            sc.add(f"send {g} 1 {wg.mtok([b'by%d' % b, b'late'])}", f"poll {g}", f"drop {g}", f"wire {b}")
    sc.add("wire 1", "halves 1")
    c = sc.case(f"{t}:{event}:{cutname}#{n}", [f"{event}"])
    c.expect = (t, cutname, event, cut >= hslen, nby)
    return c


def eof_with_message(t, armed, order, n):
    """the victim's orderly EOF and a message of a healthy peer are BOTH waiting when recv polls (the victim's ready
    event is ahead of the other's): recv returns the message — and the socket has observed the victim's end in that
    same call, so the victim must be forgotten and released just the same"""
    fr = [b"", b"live"] if t == "REP" else [b"\x01t"] if t == "XPUB" else [b"live"]
    sc = wg.Script()
    sc.sock(1, t)
    sc.attach(1, 1, PEER[t], b"victim")
    sc.attach(1, 2, PEER[t], b"by2")
    sc.add("wire 1", "wire 2")
    if armed:
        # a first recv finds nothing: both streams are polled and left with their wakers armed
        f = sc.fut()
        sc.add(f"recv {f} 1", f"poll {f}", f"drop {f}")
    if order == "eof-first":
        sc.add("eof 1")
        sc.reveal_msg(2, fr)
    else:
        sc.reveal_msg(2, fr)
        sc.add("eof 1")
    f = sc.fut()
    sc.add(f"recv {f} 1", f"poll {f}", f"drop {f}", "halves 1")
    # later sends must not reach the victim
    if t in wg.CAN_SEND:
        for i in range(3):
            g = sc.fut()
            m = [b"victim", b"s%d" % i] if t == "ROUTER" else [b"s%d" % i] if t == "REP" else [b"a", b"s%d" % i]
            sc.add(f"send {g} 1 {wg.mtok(m)}", f"poll {g}", f"drop {g}")
    sc.add("drain", "wire 1", "halves 1")
    c = sc.case(f"{t}:eofmsg:{'armed' if armed else 'fresh'}-{order}#{n}", ["eof-with-message"])
    c.expect = ("eofmsg", t)
    return c


def publisher_write_fault(t, kind, backlog, n):
    """PUB / XPUB: one subscriber's connection stops accepting data, its outbound buffer fills (or not: `backlog`), then its
    WRITES start failing with `kind` while its read side stays silent — every later publish still returns at once with
    success and every other subscriber receives every message"""
    sc = wg.Script()
    sc.sock(1, t)
    sc.attach(1, 1, "SUB", b"victim")
    sc.attach(1, 2, "SUB", b"by2")
    sc.attach(1, 3, "SUB", b"by3")
    for p in (1, 2, 3):
        sc.reveal_msg(p, [b"\x01"])
    if t == "PUB":
        sc.add("drain")
    else:
        for _ in range(4):
            f = sc.fut()
            sc.add(f"recv {f} 1", f"poll {f}", f"drop {f}")
    for p in (1, 2, 3):
        sc.add(f"wire {p}")
    sc.add("credit 1 0")
    for i in range(3 if backlog else 0):
        f = sc.fut()
        sc.add(f"send {f} 1 {wg.mtok([b'big', ('gen', 65536, 40 + i)])}", f"poll {f}", f"drop {f}", "wire 2", "wire 3")
    sc.add(f"wrerr 1 {kind}")
    sent = []
    for i in range(5):
        f = sc.fut()
        m = [b"small", b"m%d" % i]
        sc.add(f"send {f} 1 {wg.mtok(m)}", f"poll {f}", f"drop {f}", "wire 2", "wire 3")
        sent.append((f, m))
    c = sc.case(f"{t}:write-fault:{kind}:{'backlog' if backlog else 'empty'}#{n}", ["publisher-write-fault"])
    c.expect = ("pubfault", sent)
    return c


def pubfault_oracle(case, lines):
    res = list(zip(case.ops, lines[1:]))
    _, sent = case.expect
    for f, m in sent:
        i = next(k for k, (op, _) in enumerate(res) if op == f"poll {f}")
        if res[i][1] != "ready ok":
            return (f"publishing failed / waited because ANOTHER subscriber's connection has failed: `{res[i - 1][0][:40]}` -> "
                    f"{res[i][1]} (traffic with the other peers must continue unaffected)")
        want = "wire " + wg.show_wire([m])
        for j, p in ((i + 2, 2), (i + 3, 3)):
            if res[j][1] != want:
                return (f"healthy subscriber {p} did not receive {wg.show_frames(m)} after another subscriber's connection had "
                        f"failed: {res[j][1][:80]}")
    return None


def sub_replay_fault(kind, nby, n):
    """SUB tells a new peer its subscriptions before registering it: a WRITE fault exactly there (greeting and READY went
    through, the read side stays silent) must leave nothing behind — both halves released, later subscription changes
    succeed and reach the healthy peers only"""
    HS = 64 + 27
    sc = wg.Script()
    sc.sock(1, "SUB")
    for b in range(2, 2 + nby):
        sc.attach(1, b, "PUB", b"by%d" % b)
        sc.add(f"wire {b}")
    f = sc.fut()
    sc.add(f"sub {f} 1 {wg.hx(b'a')}", f"poll {f}", f"drop {f}")
    g = sc.fut()
    sc.add(f"credit 1 {HS}", f"attach {g} 1 1", f"reveal 1 {wg.hx(wg.G + zmtp.ready('PUB', b'victim'))}", f"poll {g}",
           f"wrerr 1 {kind}", f"poll {g}", f"drop {g}", "halves 1", "wire 1")
    later = []
    for t in (b"b", b"c"):
        h = sc.fut()
        sc.add(f"sub {h} 1 {wg.hx(t)}", f"poll {h}", f"drop {h}", "wire 1")
        later.append(h)
    sc.add("halves 1")
    c = sc.case(f"SUB:replay-fault:{kind}#{n}", ["sub-replay-fault"])
    c.expect = ("replayfault", later)
    return c


def replayfault_oracle(case, lines):
    res = list(zip(case.ops, lines[1:]))
    hv = [l for op, l in res if op == "halves 1"]
    if hv[0] != "halves r=1 w=1" or hv[-1] != "halves r=1 w=1":
        return (f"the connection that failed while it was being told the subscriptions is not released: {hv} (r = read half, "
                "w = write half dropped)")
    for h in case.expect[1]:
        r = [l for op, l in res if op == f"poll {h}"][-1]
        if r != "ready ok":
            return f"a later subscribe is still routed to the connection that failed during its join: {r[:60]} (want ready ok)"
    w1 = [l for op, l in res if op == "wire 1"][1:]
    if any(w != "wire ." for w in w1):
        return f"later subscription changes were written to the failed connection: {w1}"
    return None


def pub_backlog_then_end(t, event, n):
    """PUB / XPUB: a subscriber stops reading, output for it is buffered, then its connection ENDS on the read side (EOF,
    reset, protocol error): once the socket has observed that, EVERYTHING it holds for the connection is released — the
    write half with its backlog included; nothing lingers trying to flush to a peer that is gone"""
    sc = wg.Script()
    sc.sock(1, t)
    sc.attach(1, 1, "SUB", b"victim")
    sc.attach(1, 2, "SUB", b"by2")
    for p in (1, 2):
        sc.reveal_msg(p, [b"\x01"])
    if t == "PUB":
        sc.add("drain")
    else:
        for _ in range(3):
            f = sc.fut()
            sc.add(f"recv {f} 1", f"poll {f}", f"drop {f}")
    sc.add("wire 1", "wire 2", "credit 1 0")
    for i in range(2):
        f = sc.fut()
        sc.add(f"send {f} 1 {wg.mtok([b'big', ('gen', 40000, 60 + i)])}", f"poll {f}", f"drop {f}", "wire 2")
    sc.add({"eof": "eof 1", "rderr": "rderr 1 ConnectionReset", "protoerr": f"reveal 1 {wg.hx(bytes([4, 3, 2]) + b'HI')}"}[event])
    if t == "PUB":
        sc.add("drain")
    else:
        for _ in range(2):
            f = sc.fut()
            sc.add(f"recv {f} 1", f"poll {f}", f"drop {f}")
    sc.add("drain", "halves 1")
    f = sc.fut()
    sc.add(f"send {f} 1 {wg.mtok([b'after'])}", f"poll {f}", f"drop {f}", "wire 2", "drain", "halves 1")
    c = sc.case(f"{t}:backlog-then-{event}#{n}", ["pub-backlog-then-end"])
    c.expect = ("backlogend", f)
    return c


def returning_identity_case(t, pt, observed, n):
    """a peer with a configured identity goes away and REGISTERS AGAIN under the same identity — before the socket has
    observed the end of its first connection, or after: from then on the FIRST connection is history — everything held
    for it is released (both halves), and whatever the socket sends to that identity / in rotation goes to the live one"""
    sc = wg.Script()
    sc.sock(1, t)
    sc.attach(1, 1, pt, b"worker-1")
    sc.attach(1, 3, pt, b"other")
    sc.add("wire 1", "wire 3", "eof 1")
    if observed and t in wg.CAN_RECV:
        f = sc.fut()
        sc.add(f"recv {f} 1", f"poll {f}", f"drop {f}")
    sc.attach(1, 2, pt, b"worker-1")
    sc.add("wire 2")
    if t in wg.CAN_RECV:
        f = sc.fut()
        sc.add(f"recv {f} 1", f"poll {f}", f"drop {f}")
    sc.add("drain", "halves 1")
    sends = []
    if t in ("ROUTER", "DEALER", "PUSH"):
        for j in range(3):
            m = [b"worker-1", b"job-%d" % j] if t == "ROUTER" else [b"item-%d" % j]
            f = sc.fut()
            sc.add(f"send {f} 1 {wg.mtok(m)}", f"poll {f}", f"drop {f}", "wire 1", "wire 2", "wire 3")
            sends.append(m[1:] if t == "ROUTER" else m)
    sc.add("halves 1", "halves 2")
    c = sc.case(f"{t}:returning-identity-{'observed' if observed else 'unobserved'}#{n}", ["returning-identity"])
    c.expect = ("returning", t, sends)
    return c


def returning_identity_oracle(case, lines):
    res = list(zip(case.ops, lines[1:]))
    _, t, sends = case.expect
    h1 = [l for op, l in res if op == "halves 1"]
    h2 = [l for op, l in res if op == "halves 2"][-1]
    if h1[-1] != "halves r=1 w=1":
        return (f"the identity's FIRST connection has ended and the identity has registered again on a new connection, yet the socket "
                f"still holds part of the old one: {h1[-1]} (r / w = read / write half released)")
    if h2 != ("halves r=1 w=0" if t == "PUSH" else "halves r=0 w=0"):     # (PUSH never reads: it keeps the write half only)
        return f"the live connection of the returning identity was not kept whole: {h2}"
    w1 = "".join(l.split(" ", 1)[1] for op, l in res if op == "wire 1" and l != "wire .")[0:]
    w2 = "".join(l.split(" ", 1)[1] for op, l in res if op == "wire 2" and l != "wire .")
    w3 = "".join(l.split(" ", 1)[1] for op, l in res if op == "wire 3" and l != "wire .")
    for m in sends:
        if zmtp.message(m).hex() in w1:
            return f"a message sent after the identity had registered again was written to its ENDED connection: {wg.show_frames(m)}"
    if t == "ROUTER":
        for m in sends:
            if zmtp.message(m).hex() not in w2:
                return f"the message {wg.show_frames(m)} addressed to the returning identity did not reach its live connection"
    if t in ("DEALER", "PUSH") and sends:
        got = sum(1 for m in sends if zmtp.message(m).hex() in w2 or zmtp.message(m).hex() in w3)
        if got != len(sends):
            return f"only {got} of {len(sends)} messages sent in rotation reached a live connection"
    return None


def cases(tier, rng):
    out = gen.corpus(ID)
    n = 0
    for t, pt in (("ROUTER", "DEALER"), ("DEALER", "ROUTER"), ("PUSH", "PULL"), ("PULL", "PUSH"), ("REP", "REQ")):
        for observed in (False, True):
            out.append(returning_identity_case(t, pt, observed, 970000 + n))
            n += 1
    n = 0
    for t in ("PUB", "XPUB"):
        for event in ("eof", "rderr", "protoerr"):
            out.append(pub_backlog_then_end(t, event, n))
            n += 1
    for kind in ("BrokenPipe", "ConnectionReset"):
        for nby in (0, 1, 2):
            out.append(sub_replay_fault(kind, nby, n))
            n += 1
    for t in ("PUB", "XPUB"):
        for kind in ("ConnectionReset", "BrokenPipe", "TimedOut", "ConnectionAborted"):
            for backlog in (True, False):
                out.append(publisher_write_fault(t, kind, backlog, n))
                n += 1
    for t in ("PULL", "SUB", "DEALER", "ROUTER", "REP", "XPUB"):
        for armed in (False, True):
            for order in ("eof-first", "message-first"):
                out.append(eof_with_message(t, armed, order, n))
                n += 1
    for t in PEER:
        _, cuts, _ = victim_stream(t)
        for cutname in cuts:
            for event in ("eof", "rderr", "wrerr", "protoerr"):
                if event == "protoerr" and cutname not in ("pre-greeting", "greeting|ready", "after-handshake", "between-messages"):
                    continue  # junk in the middle of a frame is just frame data
                for nby in ((1,) if tier == "quick" else (1, 2)):
                    out.append(build(t, cutname, event, n, nby))
                    n += 1
    # safety net: seeded random schedules over every socket type (partial reads, back-pressure, EOF, read/write errors,
    # futures polled once or twice and then ABANDONED, sockets dropped) — every line predicted by the World model
    for i in range(250 if tier == "quick" else 4000):
        out.append(wg.random_case(rng, f"random-world#{i}", tags=("random-world",)))
    return out


def oracle(case, lines):
    for op, l in zip(case.ops, lines[1:]):
        if l.startswith("TIMEOUT"):
            return f"`{op}` never returned (the polling thread is blocked: no answer for 20 s) — recv/send hangs on the peer's end"
        if l.startswith(("PANIC", "ABORT")):
            return f"panic/abort in `{op}`"
    if not case.expect:
        return None
    if case.expect[0] == "returning":
        return returning_identity_oracle(case, lines)
    if case.expect[0] == "backlogend":
        res = list(zip(case.ops, lines[1:]))
        hv = [l for op, l in res if op == "halves 1"]
        if hv[-1] != "halves r=1 w=1":
            return (f"the socket has observed the end of a subscriber's connection but still holds part of it: {hv[-1]} "
                    "(r / w = read / write half released) — the backlog for a peer that is gone is kept")
        r = [l for op, l in res if op == f"poll {case.expect[1]}"][-1]
        w2 = [l for op, l in res if op == "wire 2"][-1]
        if r != "ready ok" or w2 != "wire " + wg.show_wire([[b"after"]]):
            return f"the other subscriber is affected by the victim's end: send={r[:40]} wire={w2[:40]}"
        return None
    if case.expect[0] == "replayfault":
        return replayfault_oracle(case, lines)
    if case.expect[0] == "pubfault":
        return pubfault_oracle(case, lines)
    if case.expect[0] == "eofmsg":
        t = case.expect[1]
        res = list(zip(case.ops, lines[1:]))
        got = [l for op, l in res if op.startswith("poll") and l.startswith("ready ok M[")]
        if t != "SUB" and not got:
            return "the healthy peer's message was not delivered"
        if res[-1][1] != "halves r=1 w=1":
            return (f"the victim's end was observed in the same recv call that returned another peer's message, yet its "
                    f"connection is not released: {res[-1][1]} (r = read half, w = write half)")
        if res[-2][1] != "wire .":
            return f"a later send was still written to the departed peer: {res[-2][1][:60]}"
        return None
    t, cutname, event, registered, nby = case.expect
    res = list(zip(case.ops, lines[1:]))
    # (a) bystanders
    tail_start = max(i for i, (op, l) in enumerate(res) if op == "halves 1" and i < len(res) - 1)
    tail = res[tail_start:]
    for op, l in tail:
        if op.startswith("poll") and l.startswith("ready err") :
            return f"traffic of a healthy peer failed after the victim's {event}: {l}"
    if t in wg.CAN_RECV and t != "REQ":
        got = [l for op, l in tail if op.startswith("poll") and l.startswith("ready ok M[")]
        if len(got) < nby:
            return f"a healthy peer's message was not delivered after the victim's {event} ({len(got)} of {nby})"
    if t in ("PUB", "XPUB", "PUSH", "DEALER", "ROUTER"):
        ws = [l for op, l in tail if op.startswith("wire") and op != "wire 1"]
        if not any(w != "wire ." for w in ws):
            return f"nothing reaches the healthy peers after the victim's {event}"
    if not registered and event != "wrerr":
        # the victim never became a peer: it must simply be gone
        if res[-1][1] != "halves r=1 w=1":
            return f"a connection that failed during the handshake ({cutname}, {event}) was not released: {res[-1][1]}"
        return None
    # (b) at most one error, no spin
    mid = res[:tail_start]
    errs = [l for op, l in mid if op.startswith("poll") and l.startswith("ready err") and "ReturnToSender" not in l]
    recv_errs = []
    seen_recv = False
    for i, (op, l) in enumerate(mid):
        if op.startswith("recv"):
            recv_errs.append(mid[i + 1][1])
    nerr = sum(1 for l in recv_errs if l.startswith("ready err"))
    if nerr > 1 and t != "REQ":
        return f"recv reported the victim's {event} {nerr} times: {recv_errs}"
    observed = nerr > 0 or res[-1][1] != "halves r=0 w=0" or any(l.startswith("ready err Codec.Io") for l in errs)
    if event == "eof" and t in wg.CAN_RECV:
        observed = True  # the socket polled the stream after the EOF (REQ: it awaited the victim's reply)
    if t == "REQ":
        observed = True  # the rotation was walked until the victim was written to and its reply awaited
    if event in ("rderr", "protoerr") and t in wg.CAN_RECV and t != "REQ":
        observed = True
    if t == "PUB" and event in ("eof", "rderr", "protoerr"):
        observed = True
    if t == "PUSH" and event != "wrerr":
        observed = False  # PUSH never reads: it can only notice a dead peer when a write fails
    if not observed:
        return None
    # (c) no later send reaches the victim; (d) released
    late_w1 = res[-2][1]
    if late_w1 != "wire .":
        return f"{event}@{cutname}: a later send was still written to the departed peer: {late_w1[:60]}"
    if res[-1][1] != "halves r=1 w=1":
        return f"{event}@{cutname}: the departed peer's connection is not released: {res[-1][1]} (r = read half, w = write half)"
    return None


def nontrivial(case, lines):
    return any(l.startswith("ready err") for l in lines) or lines[-1] != "halves r=0 w=0"


def signature(case, ml, il, o):
    if ":eofmsg:" in case.name:
        return case.name.split(":")[0] + ":eofmsg"
    parts = case.name.split("#")[0].split(":")
    if len(parts) != 3:
        return ":".join(parts[:3]) + (":spec" if o else ":diff")
    t, event, cutname = parts
    if o and ("not released" in o or "still written to the departed peer" in o):
        return f"{t}:{event}:kept"
    return f"{t}:{event}:{'spec' if o else 'diff'}"
