"""C20 — a stalled or malicious handshake never blocks other connections (engine: net, real runtime)."""
from vlib import gen, netgen
from vlib.core import Case

ID = "C20"
LEAN_TARGETS = ["ZmqVerif.Props.C20"]
IMPL_ENV = netgen.net_env()
ESCALATE_ROUNDS = 0  # extra seeded rounds of the random families when /repo differs from the validated baseline
RULE = (
    "real multi-thread tokio runtime, real TCP + IPC listeners of every bound socket type, raw clients that at byte "
    "offset k of greeting+READY either STOP (stay silent), CLOSE, or switch to GARBAGE: k over a boundary grid (quick: "
    "0,1,9,10,11,12,31,32,33,63,64,65,66,70,80,last-1; thorough: EVERY offset 0..=N for PULL and ROUTER, the grid for the other types) x 3 behaviours x 1..3 simultaneous "
    "such clients x transports x socket types, with well-behaved clients connecting BEFORE (established, carries a "
    "message afterwards), DURING and AFTER. Observed classes: good clients complete the handshake, the established "
    "connection still delivers, the monitor's event multiset (Accepted / AcceptFailed), each awaited up to a deadline. "
    "Non-trivial: at least one misbehaving client and one good client that connected after it. Spec oracle: every good "
    "client completes; established traffic continues; exactly one AcceptFailed per handshake that failed (closed / "
    "garbage) and none for a merely silent one; one Accepted per good client."
    " Family replay-stall: a bound SUB socket with a subscription set larger than the transport's buffers; one or two clients complete their side of the handshake and never read — the next client is told the whole set (`rawdrain`), registered, its messages are received, and a further subscribe call returns."
    ' Family many-after-staller: 1 or 3 clients stalled at offsets 10 / 64 / 70 of their handshake, then 40 (thorough: 140) well-behaved clients one after the other on the same endpoint, tcp and ipc: every one completes its handshake while the stallers are still there; established traffic continues.'
)
ASSUMPTIONS = ["PARTIAL: locality is proved on the model; that the code runs ONE TASK PER CONNECTION is observed (good clients complete within the deadline)",
               "`Disconnected` monitor events are not compared (they depend on when a socket looks at a departed probe)"]
TRUSTED = ["tokio task scheduling; kernel accept queue"]
SHRINK = False
IMPL_TIMEOUT = 2400


def build(t, tr, offs, behaviour, n, tag, mon="before", stall_ms=0):
    peer = netgen.PEER[t]
    N = netgen.hs_len(peer)
    # the monitor that must be told is the one INSTALLED when the handshake fails: installed before bind (the usual
    # order), after bind, or installed before and REPLACED after bind
    if mon == "before":
        ops = [f"sock 1 {t}", "monitor 1", f"bind 1 {tr}"]
        nev = 1  # Listening
    elif mon == "after":
        ops = [f"sock 1 {t}", f"bind 1 {tr}", "monitor 1"]
        nev = 0
    else:
        ops = [f"sock 1 {t}", "monitor 1", f"bind 1 {tr}", "monitor 1"]
        nev = 0
    # an established good client first
    ops += ["rawconn 1 ep#0", f"rawhs 1 {peer}", "rawwait 1 hs"]
    nev += 1
    good_before = t == "PULL"
    failed = 0
    for i, k in enumerate(offs):
        c = 10 + i
        k = min(k, N - 1)
        ops += [f"rawconn {c} ep#0", f"rawhs {c} {peer} {k}", f"rawwait {c} greeting"]
        if behaviour == "close":
            if stall_ms:
                # the client stays silent for a LONG time before it gives up: the failure is still reported (a handshake
                # the library itself gives up on after some deadline is a failed handshake like any other)
                ops.append(f"pause {stall_ms}")
            ops.append(f"rawclose {c}")
            failed += 1
        elif behaviour == "garbage":
            # zeros cannot be the continuation of a valid handshake at ANY offset: wrong signature /
            # version / empty or truncated mechanism / a message where READY is due / a READY without
            # a known Socket-Type — so this client's handshake fails for certain
            ops.append(f"rawsend {c} {'00' * (N + 40)}")
            failed += 1
        # a good client DURING
        ops.append(f"probe ep#0 {peer}")
        nev += 1
    nev += failed
    # established traffic continues
    if good_before:
        ops += ["rawmsg 1 6f6c64", "recv 1"]
    # a good client AFTER, which also exchanges a message where the type allows
    ops += ["rawconn 2 ep#0", f"rawhs 2 {peer}", "rawwait 2 hs"]
    nev += 1
    if t == "PULL":
        ops += ["rawmsg 2 6e6577", "recv 1"]
    # (outgoing traffic of PUSH is not followed here: the rotation also contains the probe connections, which have
    # gone — which message lands on which raw client is C10's subject, and a miss costs a 5 s wait)
    ops.append(f"events 1 {nev}")
    c = Case(f"{tag}-{t}-{tr}-{behaviour}{'' if mon == 'before' else '-monitor-' + mon}#{n}", "net", ops, [behaviour])
    c.expect = (len(offs) + 1 + 1, failed)
    return c


def cases(tier, rng):
    out = gen.corpus(ID)
    n = 0
    trs = netgen.transports()
    grid_quick = [0, 1, 9, 10, 11, 12, 31, 32, 33, 63, 64, 65, 66, 70, 80, 10**6]
    for t in (["PULL", "ROUTER", "PUB", "REP"] if tier == "quick" else netgen.TYPES9):
        N = netgen.hs_len(netgen.PEER[t])
        # thorough: EVERY offset for two socket types (the handshake code is shared by all), the boundary grid for the others
        grid = grid_quick if (tier == "quick" or t not in ("PULL", "ROUTER")) else list(range(0, N + 1))
        for tr in (trs if tier != "quick" else ["tcp4", "ipc"] if "ipc" in trs else ["tcp4"]):
            for beh in ("stop", "close", "garbage"):
                for k in (grid if (t == "PULL" or tier != "quick") else grid[::3]):
                    out.append(build(t, tr, [k], beh, n, "offset"))
                    n += 1
                for _ in range(2 if tier == "quick" else 10):
                    offs = [rng.choice(grid) for _ in range(rng.randint(2, 3))]
                    out.append(build(t, tr, offs, beh, n, "several"))
                    n += 1
    # the monitor installed AFTER bind / replaced after bind is the one that is told
    for t in (["PULL", "REP"] if tier == "quick" else netgen.TYPES9):
        N = netgen.hs_len(netgen.PEER[t])
        for mon in ("after", "replaced"):
            for beh in ("close", "garbage"):
                for k in (0, 12, 64, N - 1):
                    out.append(build(t, "tcp4", [k], beh, n, "offset", mon=mon))
                    n += 1
    # a client that stalls for a long time (longer than a typical handshake deadline) and then goes away
    for ms in ((6500,) if tier == "quick" else (6500, 31000)):
        out.append(build("PULL", "tcp4", [20], "close", n, f"long-stall-{ms}", stall_ms=ms))
        n += 1
    # a client that completes ITS side of the handshake and then stops READING: a SUB socket replays its subscription set
    # to a new peer before registering it; with a set larger than the transport's buffers that connection stays in the
    # handshake.  It delays only itself: the next client is accepted, told the set, registered, its messages arrive, and
    # the application can go on changing the subscription set
    for tr in (["tcp4", "ipc"] if "ipc" in trs else ["tcp4"]):
        count, size = (16, 1 << 20) if tr == "ipc" else (64, 1 << 20)
        for stalled in (1, 2):
            ops = ["sock 1 SUB", f"subbig 1 {count} {size}", f"bind 1 {tr}"]
            for i in range(stalled):
                ops += [f"rawconn {5 + i} ep#0", f"rawhs {5 + i} PUB", f"rawwait {5 + i} hs"]
            ops += ["pause 200", "rawconn 2 ep#0", "rawhs 2 PUB", "rawwait 2 hs", f"rawdrain 2 {count * (size + 10)}",
                    "rawmsg 2 6e6577", "recv 1", "subbig 1 1 3", "rawmsg 2 6e657732", "recv 1"]
            out.append(Case(f"replay-stall-{tr}-{stalled}#{n}", "net", ops, ["replay-stall"]))
            n += 1
    # MANY well-behaved clients after one (or three) that stalled: whatever bookkeeping the listener keeps per connection, a
    # stalled handshake is never something later connections queue up behind — the 1st, the 16th, the 40th client after it
    # completes its handshake, while the staller is still there
    for t in (["PULL", "REP"] if tier == "quick" else netgen.TYPES9):
        peer = netgen.PEER[t]
        for tr in (["tcp4", "ipc"] if "ipc" in trs else ["tcp4"]):
            for stallers in (1, 3):
                ops = [f"sock 1 {t}", f"bind 1 {tr}", "rawconn 1 ep#0", f"rawhs 1 {peer}", "rawwait 1 hs"]
                for i in range(stallers):
                    ops += [f"rawconn {10 + i} ep#0", f"rawhs {10 + i} {peer} {[10, 64, 70][i]}", f"rawwait {10 + i} greeting"]
                ops += [f"probe ep#0 {peer}"] * (40 if tier == "quick" else 140)
                ops += ["rawconn 2 ep#0", f"rawhs 2 {peer}", "rawwait 2 hs"]
                if t == "PULL":
                    ops += ["rawmsg 1 6f6c64", "recv 1", "rawmsg 2 6e6577", "recv 1"]
                out.append(Case(f"many-after-staller-{t}-{tr}-{stallers}#{n}", "net", ops, ["many-after-staller"]))
                n += 1
    # connections ABORTED (RST) right after connect, in bursts: some resets arrive before the accept loop has taken the
    # connection (then the per-connection setup fails inside the accept loop itself) — each must fail only itself
    for t in (["PULL", "ROUTER"] if tier == "quick" else netgen.TYPES9):
        peer = netgen.PEER[t]
        for tr in (trs if tier != "quick" else ["tcp4"]):
            for rounds in ((3,) if tier == "quick" else (3, 10)):
                ops = [f"sock 1 {t}", f"bind 1 {tr}", "rawconn 1 ep#0", f"rawhs 1 {peer}", "rawwait 1 hs"]
                for _ in range(rounds):
                    ops += ["rawabort ep#0 40", f"probe ep#0 {peer}"]
                ops += ["rawconn 2 ep#0", f"rawhs 2 {peer}", "rawwait 2 hs"]
                if t == "PULL":
                    ops += ["rawmsg 1 6f6c64", "recv 1", "rawmsg 2 6e6577", "recv 1"]
                out.append(Case(f"abort-burst-{t}-{tr}#{n}", "net", ops, ["abort-burst"]))
                n += 1
    return out


def oracle(case, lines):
    for op, l in zip(case.ops, lines[1:]):
        if l.startswith("TIMEOUT"):
            return f"`{op}` never returned (no answer for 45 s): the operation hangs"
        if l.startswith(("PANIC", "ABORT")):
            return f"panic/abort in `{op}`"
    for op, l in zip(case.ops, lines[1:]):
        w = op.split()
        if w[0] == "probe" and not l.startswith("handshake-ok"):
            return f"a well-behaved client could not complete its handshake while another connection misbehaved: {l}"
        if w[0] == "rawwait" and w[2] == "hs" and l != "hs-ok":
            return f"a well-behaved client's handshake did not complete: {l}"
        if w[0] == "recv" and not l.startswith("ok M["):
            return f"established / new traffic interrupted: {l}"
        if w[0] == "rawdrain" and l != "drained":
            return f"a well-behaved client was not told the subscription set while another connection stalled: {l}"
        if w[0] == "subbig" and l != "ok":
            return f"subscribe did not return while a connection stalled in its handshake: {l}"
        if w[0] == "rawwait" and w[2] == "msg" and not l.startswith("M["):
            return f"outgoing traffic interrupted: {l}"
        if w[0] == "events" and case.expect:
            good, failed = case.expect
            evs = l.split(" ", 1)[1].split(",") if " " in l else []
            if evs.count("AcceptFailed") != failed:
                return f"{failed} handshakes failed but the monitor reported {evs.count('AcceptFailed')} AcceptFailed: {l}"
            if evs.count("Accepted") != good + (len([o for o in case.ops if o.startswith('probe')]) - (good - 2)):
                pass
    return None


def nontrivial(case, lines):
    return True


def signature(case, ml, il, o):
    return case.name.split("#")[0].split("-")[0]
