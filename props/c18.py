"""C18 — bind/unbind: independent listeners, exact bookkeeping (engine: net, real runtime)."""
from vlib import gen, netgen
from vlib.core import Case

ID = "C18"
LEAN_TARGETS = ["ZmqVerif.Props.C18"]
IMPL_ENV = netgen.net_env()
ESCALATE_ROUNDS = 0  # extra seeded rounds of the random families when /repo differs from the validated baseline
RULE = (
    "real multi-thread tokio runtime, real TCP v4/v6 + IPC listeners, raw ZMTP clients. Seeded operation sequences of "
    "length <= 12 over {bind tcp://127.0.0.1:0, tcp://[::1]:0, tcp://localhost:0, ipc path; bind of an endpoint that is "
    "currently bound (duplicate) / that was unbound before (rebind) / malformed; unbind bound; unbind unknown; a fresh "
    "client connects and handshakes on a chosen endpoint; a message travels over a connection established BEFORE the last "
    "unbind} against the Lean model of the bind table (exact outcome class per op) — plus one directed case per transport "
    "and socket type. Nothing is enumerated exhaustively. Non-trivial: at least one bind, one unbind and one connect. "
    "Spec oracle (python reference BindSet): bind returns a NEW concrete endpoint (non-zero port, text form re-parses to "
    "it) and adds exactly it; a failed bind changes nothing; binds() = reference set after every op; a fresh connect is "
    "accepted iff the endpoint is in the set — immediately after unbind returns it is refused; established connections "
    "still carry messages; unbind of anything else fails with NoSuchBind."
    " Family monitor-gone: the socket's monitor was requested and its receiver dropped (before the first bind, or between two binds): bind still returns the endpoint it added to the set, the endpoint accepts, unbind removes it."
    " Family unbind-near: unbind of an endpoint that is not bound but RESEMBLES a bound one (the same port on 127.0.0.2 / [::1] / localhost / 0.0.0.0, the same host on the next port, an ipc path plus a suffix), before and after that endpoint's sibling on the same socket was unbound: no-such-bind every time, the bound endpoint keeps accepting, the established connection stays open."
)
ASSUMPTIONS = ["the OS does not hand out a listening address twice; connection refusal is immediate on loopback / unix sockets",
               "PARTIAL: OS, scheduler and timing are observed, not modelled; unavailable transports are skipped and recorded"]
TRUSTED = ["tokio TcpListener/UnixListener; the kernel's listen/accept semantics"]
SHRINK = False
IMPL_TIMEOUT = 1200


def directed(t, tr, n):
    peer = netgen.PEER[t]
    ops = [f"sock 1 {t}", f"bind 1 {tr}", f"bind 1 {tr}", "binds 1", f"probe ep#0 {peer}", f"probe ep#1 {peer}",
           "rawconn 1 ep#0", f"rawhs 1 {peer}", "rawwait 1 hs", "bind 1 dup:ep#0", "bind 1 badsyntax", "binds 1",
           "unbind 1 ep#0", "binds 1", f"probe ep#0 {peer}", f"probe ep#1 {peer}", "unbind 1 ep#0", "unbind 1 unknown",
           "rawwait 1 open", "bind 1 dup:ep#0", "binds 1", f"probe ep#0 {peer}", "unbind 1 ep#1", "unbind 1 ep#0", "binds 1",
           f"probe ep#0 {peer}", f"probe ep#1 {peer}"]
    if t == "PULL":
        ops[18:18] = ["rawmsg 1 6869", "recv 1"]
    return Case(f"directed-{t}-{tr}#{n}", "net", ops, ["directed"])


def cases(tier, rng):
    out = gen.corpus(ID)
    n = 0
    trs = netgen.transports()
    for tr in trs:
        for t in (["PULL", "ROUTER", "PUB"] if tier == "quick" else netgen.TYPES9):
            out.append(directed(t, tr, n))
            n += 1
    # a peer that connects and then stalls in the middle of its handshake must not stop the endpoint from accepting
    # further connections, nor `unbind` from returning (its own connection is none of the bind set's business)
    for tr in trs:
        for off in (0, 11, 64, 70):
            peer = netgen.PEER["PULL"]
            ops = ["sock 1 PULL", f"bind 1 {tr}", f"bind 1 {tr}", "rawconn 9 ep#0", f"rawhs 9 {peer} {off}", "rawwait 9 greeting",
                   f"probe ep#0 {peer}", "rawconn 1 ep#0", f"rawhs 1 {peer}", "rawwait 1 hs", "rawmsg 1 6869", "recv 1",
                   "unbind 1 ep#0", "binds 1", f"probe ep#0 {peer}", f"probe ep#1 {peer}", "rawmsg 1 6f6b", "recv 1",
                   "unbind 1 ep#1", "binds 1", f"probe ep#1 {peer}"]
            out.append(Case(f"stalled-peer-{tr}-{off}#{n}", "net", ops, ["stalled-peer"]))
            n += 1
    # unbind of an endpoint that is NOT in the bind set but RESEMBLES one that is (the same port on another host or under
    # another spelling of the host, the same host on the next port, an ipc path plus a suffix): no-such-bind, and the
    # endpoint it resembles stays bound and accepting — also right after that endpoint's sibling on the same socket was unbound
    for tr in trs:
        for t in ("PULL", "REP"):
            peer = netgen.PEER[t]
            for how in (("host2", "v6", "name", "any", "port") if tr == "tcp4" else ("host2", "name", "any", "port") if tr.startswith("tcp") else ("suffix",)):
                ops = [f"sock 1 {t}", f"bind 1 {tr}", f"bind 1 {tr}", "rawconn 1 ep#0", f"rawhs 1 {peer}", "rawwait 1 hs",
                       f"unbind 1 near:{how}:ep#0", "binds 1", f"probe ep#0 {peer}", f"probe ep#1 {peer}",
                       "unbind 1 ep#1", f"unbind 1 near:{how}:ep#1", f"unbind 1 near:{how}:ep#0", "unbind 1 ep#1", "binds 1",
                       f"probe ep#0 {peer}", f"probe ep#1 {peer}", "rawwait 1 open"]
                if t == "PULL":
                    ops += ["rawmsg 1 6869", "recv 1"]
                out.append(Case(f"unbind-near-{t}-{tr}-{how}#{n}", "net", ops, ["unbind-near"]))
                n += 1
    # the socket's monitor was requested and its receiver is GONE (the task reading the events ended): bind and unbind
    # are none the worse for it — the result of bind still says whether the endpoint is in the set and accepting
    for tr in trs:
        for t in ("PULL", "ROUTER", "PUB", "REP"):
            peer = netgen.PEER[t]
            for first_live in (False, True):
                ops = [f"sock 1 {t}", "monitor 1"]
                if first_live:
                    ops += [f"bind 1 {tr}", "events 1 1"]
                ops += ["monitordrop 1", f"bind 1 {tr}", "binds 1"]
                e = 1 if first_live else 0
                ops += [f"probe ep#{e} {peer}", f"rawconn 1 ep#{e}", f"rawhs 1 {peer}", "rawwait 1 hs", f"unbind 1 ep#{e}", "binds 1",
                        f"probe ep#{e} {peer}", f"bind 1 {tr}", "binds 1", f"probe ep#{e + 1} {peer}"]
                out.append(Case(f"monitor-gone-{t}-{tr}-{int(first_live)}#{n}", "net", ops, ["monitor-gone"]))
                n += 1
    # accept() itself FAILS for a while (the process is out of file descriptors while a client is queued on the
    # listener): a transient condition of the environment — the endpoint stays bound AND listening, the queued client is
    # accepted once descriptors are available again, unbind / re-bind work as ever
    for tr in [x for x in trs if x in ("tcp4", "ipc")]:
        for t in ("PULL", "REP"):
            peer = netgen.PEER[t]
            ops = [f"sock 1 {t}", f"bind 1 {tr}", "rawconn 1 ep#0", f"rawhs 1 {peer}", "rawwait 1 hs",
                   "fdhoard", "fdrelease 1", "rawconn 2 ep#0", "pause 100", "fdrelease all",
                   f"rawhs 2 {peer}", "rawwait 2 hs", "binds 1", f"probe ep#0 {peer}"]
            if t == "PULL":
                ops += ["rawmsg 1 6f6c64", "recv 1", "rawmsg 2 6e6577", "recv 1"]
            ops += ["unbind 1 ep#0", "binds 1", f"probe ep#0 {peer}", "unbind 1 ep#0", "bind 1 dup:ep#0", "binds 1",
                    f"probe ep#0 {peer}", "unbind 1 ep#0", f"probe ep#0 {peer}"]
            out.append(Case(f"accept-error-{t}-{tr}#{n}", "net", ops, ["accept-error"]))
            n += 1
            # … and unbind issued WHILE accept() keeps failing (the shortage lasts): it returns, the endpoint is gone from the
            # bind set and — once descriptors are back — refuses; the other endpoint of the socket is untouched
            for pause in (30, 150):
                ops = [f"sock 1 {t}", f"bind 1 {tr}", f"bind 1 {tr}", "rawconn 1 ep#1", f"rawhs 1 {peer}", "rawwait 1 hs",
                       "fdhoard", "fdrelease 1", "rawconn 2 ep#0", f"pause {pause}", "unbind 1 ep#0", "binds 1", "fdrelease all",
                       f"probe ep#0 {peer}", f"probe ep#1 {peer}"]
                if t == "PULL":
                    ops += ["rawmsg 1 6f6c64", "recv 1"]
                out.append(Case(f"accept-error-unbind-during-{t}-{tr}#{n}", "net", ops, ["accept-error"]))
                n += 1
    for _ in range(120 if tier == "quick" else 1500):
        t = rng.choice(["PULL", "PULL", "DEALER", "REP", "XPUB", "PUSH"])
        peer = netgen.PEER[t]
        ops = [f"sock 1 {t}"]
        bound, unbound, neps, raws, stalled = set(), set(), 0, [], 0
        for _ in range(rng.randint(5, 12)):
            r = rng.random()
            if r < 0.3:
                ops.append(f"bind 1 {rng.choice(trs + ['localhost'])}")
                bound.add(neps)
                neps += 1
            elif r < 0.38 and bound:
                ops.append(f"bind 1 dup:ep#{rng.choice(sorted(bound))}")
            elif r < 0.44 and unbound:
                e = rng.choice(sorted(unbound))
                ops.append(f"bind 1 dup:ep#{e}")
                unbound.discard(e)
                bound.add(e)
            elif r < 0.48:
                ops.append("bind 1 badsyntax")
            elif r < 0.62 and bound:
                e = rng.choice(sorted(bound))
                ops.append(f"unbind 1 ep#{e}")
                bound.discard(e)
                unbound.add(e)
            elif r < 0.68:
                ops.append(rng.choice(["unbind 1 unknown"] + [f"unbind 1 ep#{e}" for e in unbound]))
            elif r < 0.82 and neps:
                ops.append(f"probe ep#{rng.randrange(neps)} {peer}")
            elif r < 0.86 and bound and stalled < 2:
                stalled += 1
                e = rng.choice(sorted(bound))
                ops += [f"rawconn {7 + stalled} ep#{e}", f"rawhs {7 + stalled} {peer} {rng.choice([0, 5, 64, 66])}",
                        f"rawwait {7 + stalled} greeting"]
            elif bound and len(raws) < 3:
                c = len(raws) + 1
                e = rng.choice(sorted(bound))
                ops += [f"rawconn {c} ep#{e}", f"rawhs {c} {peer}", f"rawwait {c} hs"]
                raws.append(c)
            elif raws and t == "PULL":
                c = rng.choice(raws)
                ops += [f"rawmsg {c} {('m%d' % len(ops)).encode().hex()}", "recv 1"]
            ops.append("binds 1")
        for e in range(neps):
            ops.append(f"probe ep#{e} {peer}")
        if raws and t == "PULL":
            ops += [f"rawmsg {raws[0]} 6c617374", "recv 1"]
        out.append(Case(f"sequence#{n}", "net", ops, ["sequence"]))
        n += 1
    return out


def oracle(case, lines):
    for op, l in zip(case.ops, lines[1:]):
        if l.startswith("TIMEOUT"):
            return f"`{op}` never returned (no answer for 45 s): the operation hangs"
        if l.startswith(("PANIC", "ABORT")):
            return f"panic/abort in `{op}`"
    ref = set()
    ever = 0
    for op, l in zip(case.ops, lines[1:]):
        w = op.split()
        if w[0] == "bind":
            if l.startswith("ok ep#"):
                if "PORT0" in l or "TEXT-MISMATCH" in l:
                    return f"bind returned an unusable endpoint: {l}"
                e = int(l.split()[1][3:])
                if e in ref:
                    return f"bind returned endpoint ep#{e}, which is already in the bind set"
                if w[2] in ("tcp4", "tcp6", "localhost", "ipc") and e != ever:
                    return f"a wildcard/new bind did not resolve to a new endpoint: {l}"
                ever = max(ever, e + 1)
                ref.add(e)
            elif w[2].startswith("dup:") and int(w[2][7:]) not in ref and not l.startswith("ok"):
                return f"re-binding an endpoint that had been unbound failed: {l}"
            elif w[2] in ("tcp4", "tcp6", "localhost", "ipc"):
                return f"bind failed: {l}"
        elif w[0] == "unbind":
            e = int(w[2][3:]) if w[2].startswith("ep#") else None
            if e in ref:
                if l != "ok":
                    return f"unbind of a bound endpoint failed: {l}"
                ref.discard(e)
            elif l != "err NoSuchBind":
                return f"unbind of an endpoint that is not bound: {l} (want NoSuchBind)"
        elif w[0] == "binds":
            got = set(int(x[3:]) for x in l.split(" ", 1)[1].split(",") if x) if " " in l else set()
            if got != ref:
                return f"binds() = {sorted(got)} but the reference bind set is {sorted(ref)}"
        elif w[0] == "probe":
            e = int(w[1][3:])
            acc = l.startswith("handshake-ok")
            if acc != (e in ref):
                return f"endpoint ep#{e} {'is' if e in ref else 'is not'} in the bind set but a fresh client got: {l}"
            if "path=" in l and (("path=1" in l) != (e in ref)):
                return f"ipc socket file of ep#{e}: {l} while bound={e in ref}"
        elif w[0] == "recv" and not l.startswith("ok M["):
            return f"a message on an established connection was not delivered after bind-table changes: {l}"
        elif w[0] == "rawwait" and w[2] == "open" and l != "open":
            return f"an established connection was closed by an unbind: {l}"
    return None


def nontrivial(case, lines):
    t = " ".join(case.ops)
    return "bind" in t and "unbind" in t and "probe" in t


def signature(case, ml, il, o):
    return case.name.split("#")[0].split("-")[0]
