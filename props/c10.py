"""C10 — round-robin senders: exactly one peer, strict rotation (engine: world)."""
import itertools

from vlib import gen, worldgen as wg, zmtp
from vlib.core import Case

ID = "C10"
LEAN_TARGETS = ["ZmqVerif.Props.C10"]
PEER = {"PUSH": "PULL", "DEALER": "ROUTER", "REQ": "REP"}
RULE = (
    "real PUSH, DEALER and REQ with 0..5 scripted peers. EXHAUSTIVE: peer counts 0..5 x the position at which one more "
    "peer joins (before / between sends) x 2n+1 consecutive sends, the wire of EVERY peer read at the instant each send "
    "returns Ready; three credit scripts (unlimited; 3 bytes then more; stalled then resumed) with the wire read while "
    "the send is Pending and when it completes; message shapes 1..3 frames incl. a 70 000-byte frame; seeded schedules. "
    "REQ interleaves the replies it needs. Non-trivial: >= 2 peers and >= 2 successful sends. Spec oracle: a successful "
    "send wrote the COMPLETE message to exactly one peer by the time it returned; with a stable set of n peers any n "
    "consecutive successful sends hit n different peers; a peer that joins enters the rotation; with no peer the send "
    "fails with the message handed back and nothing written."
)
ASSUMPTIONS = ["cancelling a send mid-flush is not in this property's quantifier (it drops the peer from the rotation: noted, not claimed)"]
TRUSTED = ["crossbeam SegQueue as a FIFO queue"]
SHRINK = False


def do_send(sc, t, np, frames, reply_from=None):
    f = sc.fut()
    sc.add(f"send {f} 1 {wg.mtok(frames)}", f"poll {f}")
    for q in range(1, np + 1):
        sc.add(f"wire {q}")
    return f


def cases(tier, rng):
    out = gen.corpus(ID)
    # safety net: seeded random schedules of these socket types over scripted pipes (partial reads, back-pressure,
    # errors, futures polled once or twice and then ABANDONED, sockets dropped) — every line predicted by the World model
    for i in range(150 if tier == "quick" else 3000):
        out.append(wg.random_case(rng, f"random-world#{i}", ["PUSH", "DEALER", "REQ"], tags=("random-world",)))
    n = 0
    for t in PEER:
        for np0 in range(0, 6):
            for joinpos in [None] + list(range(0, 2 * np0 + 2, max(1, np0))):
                sc = wg.Script()
                sc.sock(1, t)
                for p in range(1, np0 + 1):
                    sc.attach(1, p, PEER[t], b"p%d" % p)
                    sc.add(f"wire {p}")
                np = np0
                sends = []
                total = 2 * np0 + 1
                for i in range(total):
                    if joinpos == i:
                        np += 1
                        sc.attach(1, np, PEER[t], b"p%d" % np)
                        sc.add(f"wire {np}")
                    # (shapes: one frame; a 70 000-byte second frame; frames with EQUAL contents; empty frames)
                    fr = ([b"m%d" % i] + ([("gen", 70000, i)] if i == 1 else [])) if i % 4 != 2 else \
                        [[b"same%d" % i, b"same%d" % i], [b"", b""], [b"x%d" % i, b"y", b"x%d" % i]][(i // 4) % 3]
                    f = sc.fut()
                    sc.add(f"send {f} 1 {wg.mtok(fr)}", f"poll {f}")
                    for q in range(1, np + 1):
                        sc.add(f"wire {q}")
                    sends.append((fr, np))
                    if t == "REQ" and np > 0:
                        # the reply to this request arrives on every peer (only the addressed one is read)
                        for q in range(1, np + 1):
                            sc.reveal_msg(q, [b"", b"r"])
                        g = sc.fut()
                        sc.add(f"recv {g} 1", f"poll {g}", f"drop {g}")
                c = sc.case(f"rotation-{t}#{n}", ["rotation-" + t])
                c.expect = ("rotation", t, sends)
                out.append(c)
                n += 1
        # a peer is LOST in the middle (its connection breaks: the send that picks it fails and the socket forgets it; its
        # identity stays in the rotation queue as a stale entry): afterwards every send succeeds, writes one complete
        # message to one survivor, and any n-1 consecutive sends reach n-1 different survivors
        for np0 in (2, 3, 4):
            for lost in range(1, np0 + 1):
                for when in (0, 1, np0):
                    sc = wg.Script()
                    sc.sock(1, t)
                    for p in range(1, np0 + 1):
                        sc.attach(1, p, PEER[t], b"p%d" % p)
                        sc.add(f"wire {p}")
                    for i in range(3 * np0 + 2):
                        if i == when:
                            sc.add(f"wrerr {lost} BrokenPipe")
                        fr = [b"m%d" % i, b"z"]
                        f = sc.fut()
                        sc.add(f"send {f} 1 {wg.mtok(fr)}", f"poll {f}", f"drop {f}")
                        for q in range(1, np0 + 1):
                            sc.add(f"wire {q}")
                        if t == "REQ":
                            for q in range(1, np0 + 1):
                                if q != lost or i < when:      # (the peer answers for as long as it is healthy)
                                    sc.reveal_msg(q, [b"", b"r"])
                            g = sc.fut()
                            sc.add(f"recv {g} 1", f"poll {g}", f"drop {g}")
                    c = sc.case(f"rotation-loss-{t}#{n}", ["rotation-loss"])
                    c.expect = ("loss", t, np0, lost)
                    out.append(c)
                    n += 1
        # credit scripts: partial writes, stall then resume
        if t != "REQ":
            for np0 in (1, 2, 3):
                for script in ("partial", "stall"):
                    sc = wg.Script()
                    sc.sock(1, t)
                    for p in range(1, np0 + 1):
                        sc.attach(1, p, PEER[t], b"p%d" % p)
                        sc.add(f"wire {p}")
                    for i in range(np0 + 1):
                        tgt = i % np0 + 1
                        sc.add(f"credit {tgt} {3 if script == 'partial' else 0}")
                        f = sc.fut()
                        fr = [b"x%d" % i, b"yy"]
                        sc.add(f"send {f} 1 {wg.mtok(fr)}", f"poll {f}")
                        for q in range(1, np0 + 1):
                            sc.add(f"wire {q}")
                        sc.add(f"credit {tgt} inf", f"poll {f}")
                        for q in range(1, np0 + 1):
                            sc.add(f"wire {q}")
                    c = sc.case(f"credit-{script}-{t}#{n}", ["credit-" + script])
                    c.expect = ("credit", t, np0)
                    out.append(c)
                    n += 1
    return out


def oracle(case, lines):
    if any(l.startswith(("PANIC", "ABORT", "TIMEOUT")) for l in lines):
        return "panic/abort"
    if not case.expect:
        return None
    res = list(zip(case.ops, lines[1:]))
    kind, t = case.expect[0], case.expect[1]
    if kind == "loss":
        np0, lost = case.expect[2], case.expect[3]
        idx = [i for i, (op, l) in enumerate(res) if op.startswith("send")]
        hist, failed, after_loss = [], 0, False
        for k, i in enumerate(idx):
            pl = res[i + 1][1]
            wires = {}
            j = i + 3
            while j < len(res) and res[j][0].startswith("wire"):
                wires[int(res[j][0].split()[1])] = res[j][1]
                j += 1
            fr = [b"m%d" % k, b"z"]
            if pl.startswith("ready err"):
                failed += 1
                after_loss = True
                if failed > 1:
                    return f"more than one send failed for ONE lost peer: send #{k}: {pl[:60]}"
                continue
            if pl != "ready ok":
                return f"send #{k} did not complete in one poll: {pl[:60]}"
            want = "wire " + wg.show_wire([([b""] if t == "REQ" else []) + fr])
            hit = [q for q, v in wires.items() if v != "wire ."]
            if len(hit) != 1 or wires[hit[0]] != want:
                return f"send #{k}: not exactly one complete message on exactly one peer: {dict((q, v[:40]) for q, v in wires.items())} (want {want[:40]})"
            if after_loss:
                if hit[0] == lost:
                    return f"send #{k} was written to the peer the socket had already seen fail"
                hist.append(hit[0])
        if failed != 1:
            return f"the send that picked the broken peer should have failed exactly once (failed {failed} times)"
        m = np0 - 1
        for a in range(len(hist) - m + 1):
            if len(set(hist[a:a + m])) != m:
                return f"after the loss, {m} consecutive sends over {m} stable survivors reached {hist[a:a + m]} (not {m} different peers)"
        return None
    if kind == "rotation":
        sends = case.expect[2]
        idx = [i for i, (op, l) in enumerate(res) if op.startswith("send")]
        hist = []  # target peer per successful send
        for (fr, np), i in zip(sends, idx):
            pl = res[i + 1][1]
            wires = {}
            j = i + 2
            while j < len(res) and res[j][0].startswith("wire"):
                wires[int(res[j][0].split()[1])] = res[j][1]
                j += 1
            if np == 0:
                if pl != f"ready err ReturnToSender M[{wg.show_frames(fr)}]":
                    return f"send with no connected peer: {pl[:80]} (want the message handed back intact)"
                continue
            if pl != "ready ok":
                return f"send #{len(hist)} with {np} peers did not succeed in one poll: {pl}"
            body = ([b""] if t == "REQ" else []) + fr
            want = "wire " + wg.show_wire([body])
            hit = [q for q, v in wires.items() if v != "wire ."]
            if len(hit) != 1 or wires[hit[0]] != want:
                return f"a successful send did not write the complete message to exactly one peer: {dict((q, v[:50]) for q, v in wires.items())}"
            hist.append((hit[0], np))
        # any n consecutive sends over a stable set of n peers hit n different peers
        for a in range(len(hist)):
            n = hist[a][1]
            win = hist[a : a + n]
            if len(win) == n and all(x[1] == n for x in win) and len(set(x[0] for x in win)) != n:
                return f"{n} consecutive sends over {n} stable peers reached {[x[0] for x in win]} (not {n} different peers)"
        # a peer that joined is eventually used
        maxnp = max((np for _, np in sends), default=0)
        if maxnp and hist and len(hist) >= 2 * maxnp and set(range(1, maxnp + 1)) - set(x[0] for x in hist):
            return f"peers {set(range(1, maxnp + 1)) - set(x[0] for x in hist)} never entered the rotation: {hist}"
        return None
    # credit scripts: when the send finally returns Ready the whole message is on exactly one wire
    np0 = case.expect[2]
    idx = [i for i, (op, l) in enumerate(res) if op.startswith("send")]
    for i in idx:
        fr = res[i][0].split()[3]
        first = res[i + 1][1]
        if first != "pending":
            return f"send over a stalled/partial connection should be Pending after the first poll: {first}"
        w1 = {int(res[i + 2 + q][0].split()[1]): res[i + 2 + q][1] for q in range(np0)}
        second = res[i + 2 + np0 + 1][1]
        w2 = {int(res[i + 2 + np0 + 2 + q][0].split()[1]): res[i + 2 + np0 + 2 + q][1] for q in range(np0)}
        if second != "ready ok":
            return f"send did not complete after credit was restored: {second}"
        total = {q: ("" if w1[q] == "wire ." else w1[q][5:]) + ("" if w2[q] == "wire ." else w2[q][5:]) for q in w1}
        frames = [bytes.fromhex(x) for x in fr.split(",")]
        want = zmtp.message(frames).hex()
        hit = [q for q, v in total.items() if v]
        if len(hit) != 1 or total[hit[0]] != want:
            return f"after the send returned the complete message is not on exactly one wire: {total}"
    return None


def nontrivial(case, lines):
    return sum(1 for l in lines if l == "ready ok") >= 2


def signature(case, ml, il, o):
    return case.name.split("#")[0]
