"""C09 — ROUTER labels inbound with the true sender and routes by first frame (engine: world)."""
import itertools

from vlib import gen, worldgen as wg, zmtp
from vlib.core import Case

ID = "C09"
LEAN_TARGETS = ["ZmqVerif.Props.C09"]
RULE = (
    "real ROUTER with 1..4 scripted peers (DEALER/REQ/ROUTER types) whose identities are announced (1, 16, 255 bytes) or "
    "auto-assigned. EXHAUSTIVE over identity assignments for 1..3 peers x every target choice (each peer, an unknown "
    "identity, the empty identity, a 256-byte identity, the identity of a peer that has gone after a read error was "
    "observed), the wire of EVERY peer read after each send; every peer then sends two messages in every interleaving "
    "order of arrival (2 peers) and the first frame of each recv is checked against the connection it was revealed on; "
    "seeded schedules with 4 peers. Non-trivial: at least one send was routed and one was refused. Spec oracle: recv = "
    "[identity of the revealing connection] + frames; a routed send appears, minus its first frame, on exactly that "
    "peer's wire; a refused send leaves every wire empty."
    ' Family transient-write: a transient write error before any byte or after a partial write (17 bytes) while ROUTER writes to the addressed peer: `Ok` means exactly one copy of the message minus its first frame on that connection, an error at most one; nothing on any other connection; a send to another peer afterwards is unaffected.'
)
ASSUMPTIONS = ["identities of simultaneously connected peers are distinct", "auto-assigned identities are compared through placeholders"]
TRUSTED = ["uuid v4 uniqueness of auto-assigned identities"]
SHRINK = False
IDS = [None, b"A", b"B" * 16, b"C" * 255]


def abandon_cases(n0):
    """a send is abandoned (future dropped) while the target's connection is not accepting data; the peer is still
    connected, so the next message addressed to it must be delivered — after the abandoned one, whole"""
    out = []
    n = n0
    for credit in (0, 1, 5, 9):
        for k in (1, 2):
            for big in (False, True):
                sc = wg.Script()
                sc.sock(1, "ROUTER")
                sc.attach(1, 1, "DEALER", b"slow")
                sc.attach(1, 2, "DEALER", b"other")
                sc.add("wire 1", "wire 2", f"credit 1 {credit}")
                f = sc.fut()
                first = [b"slow", (b"F" * 100 if big else b"first")]
                sc.add(f"send {f} 1 {wg.mtok(first)}")
                sc.add(*[f"poll {f}"] * k)
                sc.add(f"drop {f}", "wire 1", "credit 1 inf")
                g = sc.fut()
                sc.add(f"send {g} 1 {wg.mtok([b'slow', b'second'])}", f"poll {g}", "wire 1", "wire 2")
                c = sc.case(f"abandoned-send#{n}", ["abandoned-send"])
                c.expect = ("abandon", b"slow", credit, k)
                out.append(c)
                n += 1
    return out


def transient_cases(n0):
    """a TRANSIENT write error (`wrerr1`: exactly one write fails — EINTR, a timeout), before any byte or after a partial
    write, while ROUTER writes to the addressed peer: `Ok` means exactly one copy of the message (minus its first frame)
    on that peer's connection, an error means at most one; nothing on any other connection"""
    out = []
    n = n0
    for kind in ("Interrupted", "WouldBlock", "TimedOut", "BrokenPipe"):
        for credit in (None, 17):
            for body in ([b"hello"], [b"x" * 1000, b"y" * 40]):
                sc = wg.Script()
                sc.sock(1, "ROUTER")
                sc.attach(1, 1, "DEALER", b"target")
                sc.attach(1, 2, "DEALER", b"other")
                sc.add("wire 1", "wire 2")
                if credit is not None:
                    sc.add(f"credit 1 {credit}")
                f = sc.fut()
                sc.add(f"send {f} 1 {wg.mtok([b'target'] + body)}")
                if credit is not None:
                    sc.add(f"poll {f}", "wire 1", f"wrerr1 1 {kind}", "credit 1 inf", f"poll {f}")
                else:
                    sc.add(f"wrerr1 1 {kind}", f"poll {f}")
                sc.add(f"drop {f}", "wire 1", "wire 2")
                g = sc.fut()
                sc.add(f"send {g} 1 {wg.mtok([b'other', b'fine'])}", f"poll {g}", f"drop {g}", "wire 1", "wire 2")
                c = sc.case(f"transient-write-{kind}#{n}", ["transient-write"])
                c.expect = ("transient", f, body)
                out.append(c)
                n += 1
    return out


def ident_of(spec, k):
    """identity the model/harness will show for the k-th auto peer or the announced one"""
    return spec


def cases(tier, rng):
    out = gen.corpus(ID)
    # safety net: seeded random schedules of these socket types over scripted pipes (partial reads, back-pressure,
    # errors, futures polled once or twice and then ABANDONED, sockets dropped) — every line predicted by the World model
    for i in range(150 if tier == "quick" else 3000):
        out.append(wg.random_case(rng, f"random-world#{i}", ["ROUTER"], tags=("random-world",)))
    out += abandon_cases(100000)
    out += transient_cases(200000)
    n = 0
    # routing
    for npeers in (1, 2, 3):
        for assign in itertools.product(range(len(IDS)), repeat=npeers):
            if len([a for a in assign if a != 0]) != len(set(a for a in assign if a != 0)):
                continue  # announced identities must be distinct
            sc = wg.Script()
            sc.sock(1, "ROUTER")
            idents = {}
            autos = 0
            for p, a in enumerate(assign, start=1):
                ident = IDS[a]
                if ident is not None:
                    ident = ident[:-1] + bytes([48 + p]) if len(ident) > 1 else bytes([64 + p])
                sc.attach(1, p, rng.choice(["DEALER", "REQ", "ROUTER"]), ident)
                sc.add(f"wire {p}")
                if ident is None:
                    idents[p] = wg.placeholder(autos)
                    autos += 1
                else:
                    idents[p] = ident
            # one peer leaves (read error observed by recv) when there are >= 2
            gone = None
            if npeers >= 2:
                gone = npeers
                sc.add(f"rderr {gone} ConnectionReset")
                f = sc.fut()
                sc.add(f"recv {f} 1", f"poll {f}", f"drop {f}")
            targets = [(idents[p], p) for p in idents] + [(b"nobody", None), (b"", None), (b"Z" * 256, None)]
            sends = []
            for ti, (t, p) in enumerate(targets):
                payload = [b"m%d" % ti, b""]
                f = sc.fut()
                sc.add(f"send {f} 1 {wg.mtok([t] + payload)}", f"poll {f}")
                for q in idents:
                    sc.add(f"wire {q}")
                sends.append((t, None if p == gone else p, payload))
            c = sc.case(f"route#{n}", ["route"])
            c.expect = ("route", list(idents), sends)
            out.append(c)
            n += 1
    # a client restarts with a FIXED identity: the old connection ended (EOF / error observed), the new one announces
    # the same identity — replies must reach the connection that currently holds it
    for how in ("eof", "rderr"):
        for ident in (b"fixed", b"F" * 255):
            for between in (True, False):
                sc = wg.Script()
                sc.sock(1, "ROUTER")
                sc.attach(1, 1, "DEALER", ident)
                sc.attach(1, 3, "DEALER", b"other")
                sc.add("wire 1", "wire 3")
                sc.reveal_msg(1, [b"hello"])
                f = sc.fut()
                sc.add(f"recv {f} 1", f"poll {f}", f"drop {f}")
                sc.add(f"{how} 1" + (" ConnectionReset" if how == "rderr" else ""))
                if between:
                    f = sc.fut()
                    sc.add(f"recv {f} 1", f"poll {f}", f"drop {f}")
                sc.attach(1, 2, "DEALER", ident)
                sc.add("wire 2")
                sc.reveal_msg(2, [b"again"])
                f = sc.fut()
                sc.add(f"recv {f} 1", f"poll {f}", f"drop {f}")
                g = sc.fut()
                sc.add(f"send {g} 1 {wg.mtok([ident, b'reply'])}", f"poll {g}", "wire 1", "wire 2", "wire 3")
                c = sc.case(f"reconnect#{n}", ["reconnect-same-identity"])
                c.expect = ("reconnect", ident)
                out.append(c)
                n += 1
    # assigned identities are UNIQUE: anonymous peers among peers that announce 16-byte identities which look like the
    # values a careless generator would hand out (small big-endian counters, all zeros, all ones) — every anonymous peer
    # gets a label of its own, and messages addressed to an announced identity reach that peer only
    for shape in ("counters", "edges"):
        for order in ("anon-first", "anon-last", "interleaved"):
            announced = ([(k).to_bytes(16, "big") for k in range(1, 7)] if shape == "counters"
                         else [b"\x00" * 16, b"\xff" * 16, (1).to_bytes(16, "little"), (2 ** 64).to_bytes(16, "big")])
            plan = ([None, None] + announced) if order == "anon-first" else (announced + [None, None]) if order == "anon-last" \
                else [x for pair in zip(announced, [None] * len(announced)) for x in pair][: len(announced) + 3]
            sc = wg.Script()
            sc.sock(1, "ROUTER")
            idents, autos = {}, 0
            for p, ident in enumerate(plan, start=1):
                sc.attach(1, p, "DEALER", ident)
                sc.add(f"wire {p}")
                idents[p] = ident if ident is not None else wg.placeholder(autos)
                autos += ident is None
            exp = []
            for p in idents:
                fr = [b"from%d" % p]
                sc.reveal_msg(p, fr)
                exp.append((p, fr))
            for _ in range(len(idents) + 1):
                f = sc.fut()
                sc.add(f"recv {f} 1", f"poll {f}", f"drop {f}")
            sends = []
            for p, ident in idents.items():
                g = sc.fut()
                sc.add(f"send {g} 1 {wg.mtok([ident, b'to%d' % p])}", f"poll {g}", f"drop {g}")
                for q in idents:
                    sc.add(f"wire {q}")
                sends.append((ident, p, [b"to%d" % p]))
            c = sc.case(f"assigned-vs-announced#{n}", ["assigned-vs-announced"])
            c.expect = ("mixed", idents, exp, sends)
            out.append(c)
            n += 1
    # labelling: two peers, all interleavings of their messages
    for a1, a2 in [(None, None), (b"x", None), (b"x", b"y" * 255)]:
        seqs = set(itertools.permutations([1, 1, 2, 2]))
        for order in sorted(seqs):
            sc = wg.Script()
            sc.sock(1, "ROUTER")
            idents = {}
            autos = 0
            for p, ident in ((1, a1), (2, a2)):
                sc.attach(1, p, "DEALER", ident)
                idents[p] = ident if ident is not None else wg.placeholder(autos)
                autos += ident is None
            cnt = {1: 0, 2: 0}
            exp = []
            for p in order:
                cnt[p] += 1
                fr = [b"p%dm%d" % (p, cnt[p]), b"", b"t"]
                sc.reveal_msg(p, fr)
                exp.append((p, fr))
            for _ in range(5):
                f = sc.fut()
                sc.add(f"recv {f} 1", f"poll {f}", f"drop {f}")
            c = sc.case(f"label#{n}", ["label"])
            c.expect = ("label", idents, exp)
            out.append(c)
            n += 1
    # seeded: 4 peers, interleaved recv/send
    for _ in range(150 if tier == "quick" else 2000):
        sc = wg.Script()
        sc.sock(1, "ROUTER")
        idents = {}
        autos = 0
        for p in range(1, 5):
            ident = rng.choice([None, b"id%d" % p, bytes([65 + p]) * rng.choice([1, 16, 255])])
            sc.attach(1, p, "DEALER", ident)
            sc.add(f"wire {p}")
            idents[p] = ident if ident is not None else wg.placeholder(autos)
            autos += ident is None
        exp, sends = [], []
        for i in range(rng.randint(4, 14)):
            if rng.random() < 0.5:
                p = rng.randint(1, 4)
                fr = [b"p%dm%d" % (p, i)] + rng.choice([[], [b""], [b"", b"z"]])
                data = zmtp.message(fr)
                if rng.random() < 0.3 and len(data) > 2:
                    c = rng.randrange(1, len(data))
                    sc.add(f"reveal {p} {wg.hx(data[:c])}", f"reveal {p} {wg.hx(data[c:])}")
                else:
                    sc.reveal_msg(p, fr)
                exp.append((p, fr))
            else:
                t, p = rng.choice([(idents[q], q) for q in idents] + [(b"ghost", None)])
                payload = [b"s%d" % i]
                f = sc.fut()
                sc.add(f"send {f} 1 {wg.mtok([t] + payload)}", f"poll {f}")
                for q in idents:
                    sc.add(f"wire {q}")
                sends.append((t, p, payload))
        for _ in range(len(exp) + 1):
            f = sc.fut()
            sc.add(f"recv {f} 1", f"poll {f}", f"drop {f}")
        c = sc.case(f"mixed#{n}", ["mixed"])
        c.expect = ("mixed", idents, exp, sends)
        out.append(c)
        n += 1
    return out


def check_sends(res, peers, sends):
    idx = [i for i, (op, l) in enumerate(res) if op.startswith("send")]
    for (t, p, payload), i in zip(sends, idx):
        pl = res[i + 1][1]
        wires = {}
        j = i + 2
        while j < len(res) and res[j][0].startswith("wire"):
            wires[int(res[j][0].split()[1])] = res[j][1]
            j += 1
        if p is None:
            if not pl.startswith("ready err"):
                return f"send to an identity no connected peer has did not fail: {pl}"
            if any(v != "wire ." for v in wires.values()):
                return f"a refused send wrote to a connection: {wires}"
        else:
            if pl != "ready ok":
                return f"send to connected peer {p} failed: {pl}"
            for q, v in wires.items():
                want = "wire " + wg.show_wire([payload]) if q == p else "wire ."
                if v != want:
                    return f"send addressed to peer {p}: wire of peer {q} is {v[:60]} (want {want[:60]})"
    return None


def check_labels(res, idents, exp):
    got = [l[len("ready ok M["):-1] for op, l in res if op.startswith("poll") and l.startswith("ready ok M[")]
    per = {}
    for p, fr in exp:
        per.setdefault(p, []).append(wg.show_frames([idents[p]] + fr))
    for g in got:
        hit = [p for p, v in per.items() if v and v[0] == g]
        if not hit:
            return f"recv returned {g[:80]}: not [identity of the sending connection]+frames of any peer's next message"
        per[hit[0]].pop(0)
    if any(per.values()):
        return f"messages not delivered: {per}"
    return None


def oracle(case, lines):
    if any(l.startswith(("PANIC", "ABORT", "TIMEOUT")) for l in lines):
        return "panic/abort"
    if not case.expect:
        return None
    res = list(zip(case.ops, lines[1:]))
    kind = case.expect[0]
    if kind == "reconnect":
        w = {op: l for op, l in res if op.startswith("wire")}
        pl = [l for op, l in res if op.startswith("poll")][-1]
        want = "wire " + wg.show_wire([[b"reply"]])
        if pl != "ready ok" or w["wire 2"] != want or w["wire 1"] != "wire ." or w["wire 3"] != "wire .":
            return (f"after a client reconnected under the same identity the reply did not go to the connection that now "
                    f"holds it: send={pl} old={w['wire 1'][:40]} new={w['wire 2'][:40]} other={w['wire 3'][:40]}")
        got = [l for op, l in res if op.startswith("poll") and l.startswith("ready ok M[")]
        if not got or not got[-1].startswith(f"ready ok M[{wg.show_frames([case.expect[1]])},"):
            return f"message of the reconnected client not labelled with its identity: {got[-1][:80] if got else None}"
        return None
    if kind == "transient":
        _, f, body = case.expect
        w1 = "".join(l.split(" ", 1)[1] for op, l in res if op == "wire 1" and l != "wire .")
        w2 = "".join(l.split(" ", 1)[1] for op, l in res if op == "wire 2" and l != "wire .")
        enc = zmtp.message(body).hex()
        k = w1.count(enc)
        outcome = [l for op, l in res if op == f"poll {f}"][-1]
        if k > 1 or (outcome == "ready ok" and k != 1):
            return (f"ROUTER's send returned `{outcome}` and the addressed peer's connection carries the message {k} times (a "
                    "transient write error while it was being written)")
        if enc in w2:
            return "the message was written to a connection it was not addressed to"
        return None
    if kind == "abandon":
        _, ident, credit, k = case.expect
        polls = [(op, l) for op, l in res if op.startswith("poll")]
        last = polls[-1][1]
        if last != "ready ok":
            return (f"after a send to {ident!r} was abandoned while the connection was not accepting data, the next send to the "
                    f"same — still connected — peer failed: {last}")
        wire = "".join(l.split(" ", 1)[1] for op, l in res if op == "wire 1" and l != "wire .")
        tail = wg.show_wire([[b"second"]])
        if not wire.endswith(tail):
            return f"the message sent after the abandoned one did not reach the peer whole: wire ends …{wire[-60:]}"
        return None
    if kind == "route":
        return check_sends(res, case.expect[1], case.expect[2])
    if kind == "label":
        return check_labels(res, case.expect[1], case.expect[2])
    return check_sends(res, case.expect[1], case.expect[3]) or check_labels(res, case.expect[1], case.expect[2])


def nontrivial(case, lines):
    t = " ".join(lines)
    return "ready ok" in t and ("ready err" in t or bool(case.expect and case.expect[0] == "label"))


def signature(case, ml, il, o):
    return case.name.split("#")[0]
