"""C01 — framing conforms to ZMTP 3.0 and round-trips (engine: codec; Spec: Lean Rfc23 on real bytes)."""
import itertools
import os

from vlib import core
from vlib.core import Case
from vlib import gen

ID = "C01"
LEAN_TARGETS = ["ZmqVerif.Props.C01"]
RULE = (
    "corpus, then EXHAUSTIVE frame-length grids crossed for 1..3 frames (contents generated from (len,seed)), "
    "then seeded random messages (1..6 frames, log-uniform lengths), READY for 9 socket types x 6 identity "
    "sizes, the greeting; a case is non-trivial when the implementation produced a wire of >= 2 bytes; "
    "distinct = distinct op lists"
)
ASSUMPTIONS = [
    "bodies above 48 bytes are compared as first-16-bytes + length + FNV-64 of the real bytes",
    "the Spec oracle (Lean Rfc23 parser) is evaluated on the real bytes for wires up to 4 KiB; larger wires are "
    "tied to the model by hash, for which the theorems hold",
]
TRUSTED = ["model of bytes::BytesMut put/extend as list append"]
TYPES9 = ["PUB", "SUB", "REQ", "REP", "DEALER", "ROUTER", "PULL", "PUSH", "XPUB"]


def frame_tok(n, seed):
    return "." if n == 0 else f"@{n}:{seed}"


def msg_case(name, lens, seed, tags):
    msg = ",".join(frame_tok(n, seed + i) for i, n in enumerate(lens))
    return Case(name, "codec", [f"enc {msg}", f"roundtrip {msg}"], tags)


def cases(tier, rng):
    out = gen.corpus(ID)
    g1 = [0, 1, 2, 254, 255, 256, 257, 65535, 65536, 65537]
    big = [1 << 20, (1 << 22) + 1]
    g3 = [0, 1, 255, 256, 65536] if tier == "quick" else g1
    n = 0
    for a in g1 + big:
        out.append(msg_case(f"grid1#{n}", [a], n, ["grid1"]))
        n += 1
    g2 = g1 if tier == "quick" else g1 + big
    for a, b in itertools.product(g2, g2):
        out.append(msg_case(f"grid2#{n}", [a, b], n, ["grid2"]))
        n += 1
    for a, b, c in itertools.product(g3, g3, g3):
        out.append(msg_case(f"grid3#{n}", [a, b, c], n, ["grid3"]))
        n += 1
    # seeded random
    k = 150 if tier == "quick" else 1200
    top = 18 if tier == "quick" else 22
    for i in range(k):
        nf = rng.randint(1, 6)
        lens = []
        for _ in range(nf):
            e = rng.randint(0, top)
            lens.append(rng.randint(0, (1 << e)) if rng.random() < 0.8 else rng.choice(g1))
        if i % 10 == 0:
            # literal (non-generated) small contents, all byte values
            msg = ",".join(("".join(f"{rng.randrange(256):02x}" for _ in range(rng.randint(0, 20))) or ".") for _ in range(nf))
            out.append(Case(f"rand#{i}", "codec", [f"enc {msg}", f"roundtrip {msg}"], ["rand-literal"]))
        else:
            out.append(msg_case(f"rand#{i}", lens, rng.randrange(1 << 30), ["rand"]))
    # greeting and READY
    out.append(Case("greeting", "codec", ["encgreeting"], ["greeting"]))
    for t in TYPES9:
        for idlen in [None, 1, 200, 214, 215, 255]:
            tok = "none" if idlen is None else f"@{idlen}:{idlen}"
            out.append(Case(f"ready-{t}-{idlen}", "codec", [f"encready {t} {tok}"], ["ready"]))
    return out


def nontrivial(case, impl_lines):
    return any(l.startswith("wire ") and len(l) > 9 for l in impl_lines)


_spec_cache = {}


def _msg_size(tok):
    total = 0
    for f in tok.split(","):
        for part in f.split("+"):
            if part.startswith("@"):
                total += int(part[1:].split(":")[0])
            elif part != ".":
                total += len(part) // 2
    return total


def oracle_batch(cases_, impls):
    """Spec on the implementation's bytes: the strict RFC-23 parser (Lean, `Spec.Rfc23`) applied to
    the REAL wire gives back exactly the frames that were sent; the library's own decode of its own
    bytes gives the identical message; greeting / READY are well-formed per the RFC grammar."""
    verdicts = [None] * len(cases_)
    full_ops = []  # (case idx, op, kind)
    for ci, (case, impl_lines) in enumerate(zip(cases_, impls)):
        if any(l.startswith(("PANIC", "ABORT", "TIMEOUT")) for l in impl_lines):
            verdicts[ci] = "implementation panicked/aborted"
            continue
        for op, line in zip(case.ops, impl_lines[1:]):
            w = op.split()
            if w[0] == "enc" and _msg_size(w[1]) <= 4096:
                full_ops.append((ci, op, "enc"))
            elif w[0] == "roundtrip":
                sent = gen.show_msg(w[1])
                if line != f"rt M[{sent}] ; none | left 0":
                    verdicts[ci] = f"library decode of its own encoding differs from the message sent: {line[:160]}"
            elif w[0] == "encgreeting":
                full_ops.append((ci, op, "greeting"))
            elif w[0] == "encready":
                full_ops.append((ci, op, "ready"))
    if not full_ops:
        return verdicts
    c2 = Case("spec", "codec", [op for (_, op, _) in full_ops])
    il = core.run_impl("codec", [c2], extra_env={"VERIF_FULLHEX": "1"})[0][1:]
    spec_ops = []
    for (ci, op, kind), line in zip(full_ops, il):
        wire = line.split()[1] if line.startswith("wire ") else "00"
        if kind == "enc":
            spec_ops.append(f"rfcmsgs {wire}")
        elif kind == "greeting":
            spec_ops.append(f"rfcgreeting {wire} 3 0 4e554c4c 0")
        else:
            spec_ops.append(f"rfccmd {wire}")
    sp = core.run_model("spec", [Case("spec", "spec", spec_ops)])[0][1:]
    for (ci, op, kind), line, verdict in zip(full_ops, il, sp):
        if verdicts[ci]:
            continue
        w = op.split()
        if not line.startswith("wire "):
            verdicts[ci] = f"no wire produced: {line}"
        elif kind == "enc":
            sent = gen.show_msg(w[1])
            if verdict != f"msgs M[{sent}]":
                verdicts[ci] = f"strict RFC-23 parse of the real bytes is not the frames sent: {verdict[:140]} (sent M[{sent[:100]}])"
        elif kind == "greeting":
            if verdict != "valid":
                verdicts[ci] = f"greeting is not a well-formed version-3.0 NULL greeting: {line[:140]}"
        else:
            t_hex = w[1].encode().hex()
            want = [f"536f636b65742d54797065={t_hex}"]
            if w[2] != "none":
                want.insert(0, f"4964656e74697479={gen.show_bytes_tok(w[2])}")
            exp = "cmd 5245414459 {" + ";".join(want) + "}"
            if verdict != exp:
                verdicts[ci] = f"READY is not a well-formed RFC-23 command with Socket-Type/Identity: {verdict[:200]}"
    return verdicts


def oracle(case, impl_lines):
    return oracle_batch([case], [impl_lines])[0]


def signature(case, ml, il, o):
    return case.name.split("#")[0]
