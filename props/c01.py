"""C01 — framing conforms to ZMTP 3.0 and round-trips (engine: codec; Spec: Lean Rfc23 on real bytes)."""
import itertools
import os

from vlib import core
from vlib.core import Case
from vlib import gen

ID = "C01"
LEAN_TARGETS = ["ZmqVerif.Props.C01"]
ESCALATE_ROUNDS = 2  # extra seeded rounds of the random families when /repo differs from the validated baseline
RULE = (
    "corpus, then EXHAUSTIVE frame-length grids crossed for 1..3 frames (contents generated from (len,seed)), "
    "then seeded random messages (1..6 frames, log-uniform lengths), READY for 9 socket types x 6 identity "
    "sizes, the greeting; SOCKET level (engine world): each of the 9 socket types x configured identities (none, 1, 17, 200, 255 bytes) "
    "accepts a raw peer over a scripted pipe and the greeting + READY the real handshake wrote are parsed by a python "
    "RFC-23 reference (Socket-Type = the type, Identity iff configured, nothing else); a case is non-trivial when the implementation produced a wire of >= 2 bytes; "
    "distinct = distinct op lists"
    " Family transport-handshake (engine net): the handshake bytes as a raw peer RECEIVES them over tcp and ipc, on two connections the socket accepted on a bound endpoint and one it made with connect(), each of the 9 socket types: the greeting is the 64 bytes of the model (version 3.0, NULL, as-server 0 whichever side opened the connection) and the READY announces the socket's type."
)
ASSUMPTIONS = [
    "bodies above 48 bytes are compared as first-16-bytes + length + FNV-64 of the real bytes",
    "the Spec oracle (Lean Rfc23 parser) is evaluated on the real bytes for wires up to 4 KiB; larger wires are "
    "tied to the model by hash, for which the theorems hold",
]
TRUSTED = ["model of bytes::BytesMut put/extend as list append"]
TYPES9 = ["PUB", "SUB", "REQ", "REP", "DEALER", "ROUTER", "PULL", "PUSH", "XPUB"]


def frame_tok(n, seed):
    return "." if n == 0 else f"@{n}:{seed}"


def msg_case(name, lens, seed, tags):
    msg = ",".join(frame_tok(n, seed + i) for i, n in enumerate(lens))
    return Case(name, "codec", [f"enc {msg}", f"roundtrip {msg}"], tags)


def cases(tier, rng):
    out = gen.corpus(ID)
    g1 = [0, 1, 2, 254, 255, 256, 257, 65535, 65536, 65537]
    big = [1 << 20, (1 << 22) + 1]
    g3 = [0, 1, 255, 256, 65536] if tier == "quick" else g1
    n = 0
    for a in g1 + big:
        out.append(msg_case(f"grid1#{n}", [a], n, ["grid1"]))
        n += 1
    g2 = g1 if tier == "quick" else g1 + big
    for a, b in itertools.product(g2, g2):
        out.append(msg_case(f"grid2#{n}", [a, b], n, ["grid2"]))
        n += 1
    for a, b, c in itertools.product(g3, g3, g3):
        out.append(msg_case(f"grid3#{n}", [a, b, c], n, ["grid3"]))
        n += 1
    # seeded random
    k = 150 if tier == "quick" else 1200
    top = 18 if tier == "quick" else 22
    for i in range(k):
        nf = rng.randint(1, 6)
        lens = []
        for _ in range(nf):
            e = rng.randint(0, top)
            lens.append(rng.randint(0, (1 << e)) if rng.random() < 0.8 else rng.choice(g1))
        if i % 10 == 0:
            # literal (non-generated) small contents, all byte values
            msg = ",".join(("".join(f"{rng.randrange(256):02x}" for _ in range(rng.randint(0, 20))) or ".") for _ in range(nf))
            out.append(Case(f"rand#{i}", "codec", [f"enc {msg}", f"roundtrip {msg}"], ["rand-literal"]))
        else:
            out.append(msg_case(f"rand#{i}", lens, rng.randrange(1 << 30), ["rand"]))
    # greeting and READY
    out.append(Case("greeting", "codec", ["encgreeting"], ["greeting"]))
    for t in TYPES9:
        for idlen in [None, 1, 200, 214, 215, 255]:
            tok = "none" if idlen is None else f"@{idlen}:{idlen}"
            out.append(Case(f"ready-{t}-{idlen}", "codec", [f"encready {t} {tok}"], ["ready"]))
    out += socket_cases(tier)
    out += pressure_cases(tier)
    out += transport_handshake_cases(tier)
    return out


def transport_handshake_cases(tier):
    """the handshake bytes as a PEER receives them over a real transport, on a connection the socket ACCEPTED on a bound
    endpoint and on one it made with connect(): both roles run the same greeting (RFC 23: as-server is zero for NULL,
    whichever side opened the connection)"""
    from vlib import worldgen as wg

    out = []
    for t in TYPES9:
        peer = wg.COMPAT[t][0]
        for tr in ("tcp4", "ipc"):
            ops = [f"sock 1 {t}", f"bind 1 {tr}", "rawconn 1 ep#0", f"rawhs 1 {peer}", "rawwait 1 hsdump",
                   "rawconn 2 ep#0", f"rawhs 2 {peer}", "rawwait 2 hsdump",
                   f"connectout 1 {tr} 3 {peer}", "rawwait 3 hsdump"]
            c = Case(f"transport-handshake-{t}-{tr}", "net", ops, ["transport-handshake"])
            c.expect = ("transport-handshake", t)
            out.append(c)
    return out


def transport_oracle(case, lines):
    from vlib import zmtp

    if any(("PANIC" in l) or l.startswith(("ABORT", "TIMEOUT")) for l in lines):
        return "implementation panicked/aborted"
    t = case.expect[1]
    dumps = [(op, l) for op, l in zip(case.ops, lines[1:]) if op.endswith("hsdump")]
    for op, l in dumps:
        role = "made with connect()" if op.startswith("rawwait 3") else "accepted on a bound endpoint"
        if not l.startswith("hs "):
            return f"on a connection {role} the {t} socket did not complete its side of the handshake: {l}"
        data = bytes.fromhex(l.split()[1])
        g = zmtp.parse_greeting(data[:64])
        if isinstance(g, str):
            return f"greeting sent by the {t} socket on a connection {role} is malformed: {g}"
        if g[0] != 3 or g[1] != 0 or g[2] != b"NULL" or g[3] != 0:
            return (f"greeting sent by the {t} socket on a connection {role} is not version 3.0 / NULL / as-server 0: "
                    f"version {g[0]}.{g[1]} mechanism {g[2]!r} as-server {g[3]} (octet 32 of {data[:64].hex()})")
        try:
            frames = zmtp.parse_frames(data[64:])
            name, props = zmtp.parse_command(frames[0][1])
        except (ValueError, IndexError) as e:
            return f"READY sent by the {t} socket on a connection {role} is not well-formed: {e}"
        if len(frames) != 1 or name != b"READY" or dict(props) != {b"Socket-Type": t.encode()}:
            return f"READY sent by the {t} socket on a connection {role}: {name!r} {props!r}"
    return None


def socket_cases(tier):
    """what a SOCKET puts on an attached connection during the handshake: every implemented socket type, with and
    without a configured identity, accepting a compatible raw peer over a scripted pipe — the greeting and the READY
    come out of the real `peer_connected`, not out of the codec hook"""
    from vlib import worldgen as wg
    from vlib import zmtp

    out = []
    idents = [None, b"I", b"ident-16-bytes-xx", bytes(range(1, 201)), b"\xfe" * 255]
    if tier != "quick":
        idents += [bytes([7]) * n for n in (2, 100, 213, 214, 215, 254)]
    for t in TYPES9:
        peer = wg.COMPAT[t][0]
        for i, ident in enumerate(idents):
            sc = wg.Script()
            sc.sock(1, t, ident)
            sc.attach(1, 1, peer, b"peer")
            sc.add("wire 1")
            c = sc.case(f"socket-ready-{t}#{i}", ["socket-ready"])
            c.expect = (t, ident)
            out.append(c)
    return out


def pressure_cases(tier):
    """what a SOCKET's connection carries when the transport takes the bytes in pieces: sends under partial write credit,
    sends ABANDONED after a partial write and followed by another send, publishes to a subscriber that stalls between two
    messages.  Everything the socket wrote after the handshake, concatenated, must still be a ZMTP 3.0 frame sequence that
    an independent RFC-23 parser cuts into messages that were SENT, in order (whole messages may be missing only where
    the socket type may drop them: PUB at its high-water mark) — never a torn or overwritten frame."""
    from vlib import worldgen as wg

    out = []
    n = 0
    msgs = [[b"first", b"x" * 60], [b"second"], [b"", b"third", b""], [b"4"]]
    for t, peer in (("ROUTER", "DEALER"), ("DEALER", "ROUTER"), ("PUSH", "PULL"), ("REP", "REQ"), ("REQ", "REP"), ("PUB", "SUB"),
                    ("XPUB", "SUB")):
        for credits in ((7, None), (0, 3, None), (1, 1, 1, None), (66, None)):
            sc = wg.Script()
            sc.sock(1, t)
            sc.attach(1, 1, peer, b"p1")
            if t in ("PUB", "XPUB"):
                sc.reveal_msg(1, [b"\x01"])
                if t == "PUB":
                    sc.add("drain")
                else:
                    sc.recv_once(1)
            sc.add("wire 1")
            sent = []
            for i, m in enumerate(msgs):
                frames = ([b"p1"] + m) if t == "ROUTER" else m
                if t == "REP":
                    sc.reveal_msg(1, [b"", b"q%d" % i])
                    sc.recv_once(1)
                c = credits[min(i, len(credits) - 1)]
                sc.add(f"credit 1 {'inf' if c is None else c}")
                f = sc.fut()
                sc.add(f"send {f} 1 {wg.mtok(frames)}", f"poll {f}")
                if c is not None and t in ("ROUTER", "REQ", "REP"):
                    sc.add(f"drop {f}")                    # abandoned after a partial write (timeout / select!)
                elif c is not None and t in ("DEALER", "PUSH"):
                    # (an abandoned round-robin send takes its peer out of the rotation: nothing would follow) — resumed instead
                    sc.add("credit 1 inf", f"poll {f}", f"drop {f}")
                sc.add("wire 1")
                if t == "REQ":
                    sc.add("credit 1 inf")
                    g = sc.fut()
                    sc.add(f"recv {g} 1", f"poll {g}", f"drop {g}")
                    sc.reveal_msg(1, [b"", b"r%d" % i])
                    g = sc.fut()
                    sc.add(f"recv {g} 1", f"poll {g}", f"drop {g}", "wire 1")
                wire_msg = {"REQ": [b""] + m, "REP": [b""] + m}.get(t, m)
                sent.append(wire_msg)
            sc.add("credit 1 inf")
            if t not in ("REQ", "REP"):
                f = sc.fut()
                last = [b"p1", b"last"] if t == "ROUTER" else [b"last"]
                sc.add(f"send {f} 1 {wg.mtok(last)}", f"poll {f}", f"poll {f}", "wire 1")
                sent.append([b"last"])
            c = sc.case(f"socket-pressure-{t}#{n}", ["socket-pressure"])
            c.expect = ("pressure", t, sent)
            out.append(c)
            n += 1
    return out


def pressure_oracle(case, lines):
    from vlib import zmtp

    if any(l.startswith(("PANIC", "ABORT", "TIMEOUT")) for l in lines):
        return "implementation panicked/aborted"
    _, t, sent = case.expect
    deltas = [l.split(" ", 1)[1] for op, l in zip(case.ops, lines[1:]) if op == "wire 1"][1:]
    if any("#" in d for d in deltas):
        return None
    data = bytes.fromhex("".join(d for d in deltas if d != "."))
    # a frame may still be incomplete at the end (a send abandoned mid-write and never resumed is the application's doing
    # only if nothing follows — here every abandoned send is followed by a completed one, so the stream must be whole)
    try:
        frames = zmtp.parse_frames(data)
    except ValueError as e:
        return (f"what the {t} socket wrote under back-pressure is not a ZMTP 3.0 frame sequence: {e} "
                f"(wire after the handshake: {data.hex()[:120]}…)")
    got, cur = [], []
    for fl, body in frames:
        if fl & 4:
            return f"a command frame in the middle of the {t} socket's message stream"
        cur.append(body)
        if not fl & 1:
            got.append(cur)
            cur = []
    if cur:
        return f"the {t} socket's stream ends inside a multipart message: {cur}"
    # got must be a subsequence of sent (in order)
    i = 0
    for m in got:
        while i < len(sent) and sent[i] != m:
            i += 1
        if i == len(sent):
            return (f"the {t} socket's wire carries a message that was never sent, or out of order: {[x.hex() for x in m]} "
                    f"(sent: {[[x.hex() for x in mm] for mm in sent]})")
        i += 1
    if not got or got[-1] != sent[-1]:
        return f"the last message, sent on a writable connection, is not the last message on the {t} socket's wire"
    return None


def socket_oracle(case, lines):
    if case.expect and case.expect[0] == "pressure":
        return pressure_oracle(case, lines)
    from vlib import zmtp

    if any(l.startswith(("PANIC", "ABORT", "TIMEOUT")) for l in lines):
        return "implementation panicked/aborted"
    t, ident = case.expect
    wire = [l for op, l in zip(case.ops, lines[1:]) if op == "wire 1"]
    if not wire or not wire[-1].startswith("wire ") or wire[-1] == "wire .":
        return f"the socket wrote nothing on the connection: {wire}"
    tok = wire[-1].split()[1]
    if "#" in tok:
        # a long wire is printed as prefix#length:hash — compare with the canonical text of the two legal byte strings
        # (READY properties come out of a HashMap: either order), built by the python reference encoder
        g = zmtp.greeting()
        cands = [g + zmtp.command(b"READY", order) for order in
                 ([(b"Socket-Type", t.encode()), (b"Identity", ident)], [(b"Identity", ident), (b"Socket-Type", t.encode())])]
        if tok not in [gen.show_bytes(c) for c in cands]:
            return (f"greeting + READY written by the {t} socket configured with a {len(ident)}-byte identity is not the RFC-23 "
                    f"encoding of READY{{Socket-Type, Identity}}: {tok} (want {gen.show_bytes(cands[0])} or the other property order)")
        return None
    try:
        data = bytes.fromhex(tok)
    except ValueError:
        return f"unreadable wire line {wire[-1][:80]}"
    g = zmtp.parse_greeting(data[:64])
    if isinstance(g, str):
        return f"greeting written by the {t} socket is malformed: {g}"
    if g[0] != 3 or g[1] != 0 or g[2] != b"NULL" or g[3] != 0:
        return f"greeting written by the {t} socket is not version 3.0 / NULL / client: {g}"
    try:
        frames = zmtp.parse_frames(data[64:])
        if len(frames) != 1 or not (frames[0][0] & 4) or (frames[0][0] & 1):
            return f"after its greeting the {t} socket wrote {len(frames)} frames, flags {[f[0] for f in frames]} — want ONE command frame"
        name, props = zmtp.parse_command(frames[0][1])
    except ValueError as e:
        return f"READY written by the {t} socket is not well-formed: {e}"
    if name != b"READY":
        return f"command {name!r} instead of READY"
    want = {b"Socket-Type": t.encode()}
    if ident is not None:
        want[b"Identity"] = ident
    if len(props) != len(set(k for k, _ in props)) or dict(props) != want:
        return (f"READY of a {t} socket {'configured with identity ' + ident[:8].hex() + '…' if ident else 'without identity'} "
                f"carries {[(k.decode('latin1'), v[:8].hex()) for k, v in props]} — want Socket-Type"
                f"{' and Identity' if ident else ' only'}")
    return None


def nontrivial(case, impl_lines):
    return any((l.startswith("wire ") and len(l) > 9) or l.startswith("hs ") for l in impl_lines)


_spec_cache = {}


def _msg_size(tok):
    total = 0
    for f in tok.split(","):
        for part in f.split("+"):
            if part.startswith("@"):
                total += int(part[1:].split(":")[0])
            elif part != ".":
                total += len(part) // 2
    return total


def oracle_batch(cases_, impls):
    """Spec on the implementation's bytes: the strict RFC-23 parser (Lean, `Spec.Rfc23`) applied to
    the REAL wire gives back exactly the frames that were sent; the library's own decode of its own
    bytes gives the identical message; greeting / READY are well-formed per the RFC grammar."""
    if cases_ and cases_[0].engine == "world":
        return [socket_oracle(c, il) for c, il in zip(cases_, impls)]
    if cases_ and cases_[0].engine == "net":
        return [transport_oracle(c, il) for c, il in zip(cases_, impls)]
    verdicts = [None] * len(cases_)
    full_ops = []  # (case idx, op, kind)
    for ci, (case, impl_lines) in enumerate(zip(cases_, impls)):
        if any(l.startswith(("PANIC", "ABORT", "TIMEOUT")) for l in impl_lines):
            verdicts[ci] = "implementation panicked/aborted"
            continue
        for op, line in zip(case.ops, impl_lines[1:]):
            w = op.split()
            if w[0] == "enc" and _msg_size(w[1]) <= 4096:
                full_ops.append((ci, op, "enc"))
            elif w[0] == "roundtrip":
                sent = gen.show_msg(w[1])
                if line != f"rt M[{sent}] ; none | left 0":
                    verdicts[ci] = f"library decode of its own encoding differs from the message sent: {line[:160]}"
            elif w[0] == "encgreeting":
                full_ops.append((ci, op, "greeting"))
            elif w[0] == "encready":
                full_ops.append((ci, op, "ready"))
    if not full_ops:
        return verdicts
    c2 = Case("spec", "codec", [op for (_, op, _) in full_ops])
    il = core.run_impl("codec", [c2], extra_env={"VERIF_FULLHEX": "1"})[0][1:]
    spec_ops = []
    for (ci, op, kind), line in zip(full_ops, il):
        wire = line.split()[1] if line.startswith("wire ") else "00"
        if kind == "enc":
            spec_ops.append(f"rfcmsgs {wire}")
        elif kind == "greeting":
            spec_ops.append(f"rfcgreeting {wire} 3 0 4e554c4c 0")
        else:
            spec_ops.append(f"rfccmd {wire}")
    sp = core.run_model("spec", [Case("spec", "spec", spec_ops)])[0][1:]
    for (ci, op, kind), line, verdict in zip(full_ops, il, sp):
        if verdicts[ci]:
            continue
        w = op.split()
        if not line.startswith("wire "):
            verdicts[ci] = f"no wire produced: {line}"
        elif kind == "enc":
            sent = gen.show_msg(w[1])
            if verdict != f"msgs M[{sent}]":
                verdicts[ci] = f"strict RFC-23 parse of the real bytes is not the frames sent: {verdict[:140]} (sent M[{sent[:100]}])"
        elif kind == "greeting":
            if verdict != "valid":
                verdicts[ci] = f"greeting is not a well-formed version-3.0 NULL greeting: {line[:140]}"
        else:
            t_hex = w[1].encode().hex()
            want = [f"536f636b65742d54797065={t_hex}"]
            if w[2] != "none":
                want.insert(0, f"4964656e74697479={gen.show_bytes_tok(w[2])}")
            exp = "cmd 5245414459 {" + ";".join(want) + "}"
            if verdict != exp:
                verdicts[ci] = f"READY is not a well-formed RFC-23 command with Socket-Type/Identity: {verdict[:200]}"
    return verdicts


def oracle(case, impl_lines):
    return oracle_batch([case], [impl_lines])[0]


def signature(case, ml, il, o):
    return case.name.split("#")[0]
