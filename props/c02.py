"""C02 — stream reassembly is independent of segmentation (engine: codec)."""
import itertools

from vlib import gen, zmtp
from vlib.core import Case

ID = "C02"
LEAN_TARGETS = ["ZmqVerif.Props.C02"]
RULE = (
    "streams drawn from the item grammar (greeting, READY with 0..3 properties, messages of 1..4 frames incl. "
    "empty and >8 KiB frames, commands between messages); EXHAUSTIVE: all 2^(n-1) partitions of every short "
    "stream (n <= 11 quick / 15 thorough bytes beyond the greeting), every single cut and every pair of cuts of a "
    "medium stream, byte-at-a-time, cuts inside the greeting; seeded random partitions of long streams. "
    "Non-trivial: the implementation decoded at least one item. Each case ends with the same stream fed in ONE "
    "read to a fresh decoder: the Spec oracle compares the two item lists of the IMPLEMENTATION."
    " Family socket-yieldy (engine world): after the handshake the peer's pipe becomes a COOPERATIVE transport (`yieldy p k chunk`: at most `chunk` bytes per read, after every k reads that returned data it wakes the reader and answers Pending although more data is there, as a tokio resource does when the task's budget is used up); three small messages, or a 20000-byte frame (larger than the reader's buffer) followed by another message, are delivered exactly as over an ordinary transport; a second peer over an ordinary transport follows."
)
ASSUMPTIONS = ["FramedRead2 is modelled as: after every read, decode is called until it returns None (checked by the world engine for real sockets)"]
TRUSTED = ["asynchronous-codec FramedRead2 buffer handling (modelled, exercised for real by the harness)"]
SHRINK = True


def chunk_case(name, stream, cuts, tags):
    """feed `stream` cut at the given offsets, then once more whole into a fresh decoder"""
    ops = ["newdec"]
    prev = 0
    for c in list(cuts) + [len(stream)]:
        ops.append("feed " + zmtp.hx(stream[prev:c]))
        prev = c
    ops.append("newdec")
    ops.append("feed " + zmtp.hx(stream))
    return Case(name, "codec", ops, tags)


def short_streams():
    m = zmtp.message
    return [
        m([b""]),
        m([b"a"]) + m([b""]),
        m([b"", b"b"]),
        m([b"ab", b"", b"c"]),
        m([b"x"]) + m([b"y", b"z"]),
        zmtp.frame(b"\x05READY", command=True) + m([b"q"]),
        zmtp.frame(b"abc", force_long=True),
        m([b"a", b"b"]) + b"\x01\x02x",  # ends inside a message
    ]


def medium_stream(rng):
    s = zmtp.ready("PUSH", None)
    s += zmtp.message([b"hello", b"", b"w" * 40])
    s += zmtp.ready("PUSH", b"id", extra=[(b"X-k", b"v")])
    s += zmtp.message([bytes(rng.randrange(256) for _ in range(300))])
    s += zmtp.message([b"", b""])
    return s


def cases(tier, rng):
    out = gen.corpus(ID)
    g = zmtp.greeting()
    n = 0
    maxlen = 11 if tier == "quick" else 15
    for si, s in enumerate(short_streams()):
        s = s[:maxlen] if len(s) > maxlen else s
        L = len(s)
        for mask in range(1 << (L - 1)):
            cuts = [64] + [64 + i + 1 for i in range(L - 1) if mask >> i & 1]
            out.append(chunk_case(f"allparts{si}#{n}", g + s, cuts, ["all-partitions"]))
            n += 1
    med = g + medium_stream(rng)
    for c in range(1, len(med)):
        out.append(chunk_case(f"cut1#{n}", med, [c], ["single-cut"]))
        n += 1
    small = med[: 64 + (110 if tier == "quick" else 220)]
    for a, b in itertools.combinations(range(40, len(small)), 2):
        out.append(chunk_case(f"cut2#{n}", small, [a, b], ["pair-of-cuts"]))
        n += 1
    out.append(chunk_case(f"bytewise#{n}", med, list(range(1, len(med))), ["byte-at-a-time"]))
    # messages of MANY frames (a multipart message has no frame-count limit): coalesced into one read, one frame per
    # read, one byte per read for the shorter ones, and random partitions — the same items whatever the segmentation,
    # in particular a long run of complete frames arriving in ONE read is decoded to the end
    for nf in ([11, 12, 33, 100, 1000] if tier == "quick" else [9, 10, 11, 12, 13, 32, 33, 34, 100, 333, 1000, 5000]):
        for shape in ("empty", "short", "mixed"):
            fs = [b"" if shape == "empty" else bytes([65 + j % 26]) if shape == "short" else
                  rng.choice([b"", b"x", b"yy" * 3, bytes([j % 256]) * 300]) for j in range(nf)]
            body = zmtp.message(fs) + zmtp.message([b"tail"])
            st = g + zmtp.ready("PUSH", None) + body
            hs = len(st) - len(body)
            out.append(chunk_case(f"manyframes-coalesced#{n}", st, [hs], ["many-frames"]))
            n += 1
            # one frame per read
            cuts, pos = [hs], hs
            for f in fs[:-1]:
                pos += len(zmtp.frame(f, more=True))
                cuts.append(pos)
            out.append(chunk_case(f"manyframes-per-frame#{n}", st, cuts, ["many-frames"]))
            n += 1
            if nf <= 33:
                out.append(chunk_case(f"manyframes-bytewise#{n}", st, list(range(hs, len(st))), ["many-frames"]))
                n += 1
            cuts = sorted(set([hs] + [rng.randrange(hs, len(st)) for _ in range(rng.randint(1, 6))]))
            out.append(chunk_case(f"manyframes-random#{n}", st, cuts, ["many-frames"]))
            n += 1
    # long streams with > 8 KiB frames, random partitions
    k = 40 if tier == "quick" else 400
    for i in range(k):
        frames = []
        s = g + zmtp.ready(rng.choice(["REQ", "DEALER", "PUB"]), rng.choice([None, b"me"]))
        for _ in range(rng.randint(1, 4)):
            fs = []
            for _ in range(rng.randint(1, 4)):
                ln = rng.choice([0, 1, 255, 256, 8191, 8192, 8193, 20000, rng.randint(0, 70000)])
                fs.append(bytes([rng.randrange(256)]) * ln)
            s += zmtp.message(fs)
            if rng.random() < 0.3:
                s += zmtp.ready("REQ", None)
        ncuts = rng.randint(1, 12)
        cuts = sorted(set(rng.randrange(1, len(s)) for _ in range(ncuts)))
        out.append(chunk_case(f"long#{i}", s, cuts, ["long-random"]))
    out += handover_cases(tier)
    out += yieldy_cases(tier)
    return out


def items_of(lines):
    """flatten `items A ; B ; none | left n` lines into (items, terminal, left)"""
    items, term, left = [], None, None
    for l in lines:
        if l.startswith("items "):
            body, lf = l[6:].rsplit(" | left ", 1)
            parts = body.split(" ; ")
            items.extend(parts[:-1])
            term = parts[-1]
            left = lf
        elif l == "dead":
            pass
    return items, term, left


HAND_PEER = {"PULL": "PUSH", "SUB": "PUB", "DEALER": "ROUTER", "ROUTER": "DEALER", "REP": "REQ", "XPUB": "SUB", "PUB": "SUB",
             "REQ": "REP"}


def handover_cases(tier):
    """SOCKET level — the hand-over of the framed reader from the handshake to the socket: the peer's first message (or any
    prefix of it, cut at EVERY byte) arrives in the same segment as the end of its READY; the rest follows later.  Every
    socket type that reads: the message is delivered whole as the first message (PUB: the subscription takes effect)."""
    from vlib import worldgen as wg

    out = []
    n = 0
    for t, pt in HAND_PEER.items():
        first = {"REP": [b"", b"hello", b"w" * 5], "REQ": [b"", b"hello", b"w" * 5], "XPUB": [b"\x01topic"], "PUB": [b"\x01topic"]}.get(
            t, [b"hello", b"", b"w" * 5])
        if tier != "quick" and t in ("PULL", "ROUTER"):
            first = first + [b"L" * 300]
        data = zmtp.message(first)
        for k in range(0, len(data) + 1):
            sc = wg.Script()
            sc.sock(1, t)
            f = sc.fut()
            sc.add(f"attach {f} 1 1", f"reveal 1 {wg.hx(wg.G + zmtp.ready(pt, b'p1') + data[:k])}", f"poll {f}")
            if t == "REQ":
                sc.send_once(1, [b"q"])
            if k < len(data):
                # (a recv polled BEFORE the rest arrives, too: the reader must keep what it has)
                if t not in ("PUB", "REQ") and k % 2:
                    g = sc.fut()
                    sc.add(f"recv {g} 1", f"poll {g}", f"drop {g}")
                elif t == "PUB":
                    sc.add("drain")
                sc.add(f"reveal 1 {wg.hx(data[k:])}")
            if t == "PUB":
                sc.add("drain", "wire 1")
                sc.send_once(1, [b"topic-x", b"body"])
                sc.add("wire 1")
                want = ("wire", [b"topic-x", b"body"])
            else:
                g = sc.fut()
                sc.add(f"recv {g} 1", f"poll {g}")
                got = {"REP": first[1:], "REQ": first[1:], "ROUTER": [b"p1"] + first}.get(t, first)
                want = ("recv", g, got)
            c = sc.case(f"handover-{t}#{n}", ["socket-handover"])
            c.expect = want
            out.append(c)
            n += 1
    return out


def yieldy_cases(tier):
    """SOCKET level — a COOPERATIVE transport: reads come in pieces of `chunk` bytes and, after every k reads that returned
    data, the transport wakes the reader and answers Pending although more data is there (a tokio resource whose task
    has used up its budget, any in-memory transport that yields).  Such a schedule is just another way of splitting the
    stream into reads: the socket delivers the same messages — including a frame larger than the reader's buffer whose
    reads are interrupted by a yield."""
    from vlib import worldgen as wg

    out = []
    n = 0
    small = [[b"hello", b"", b"w" * 5], [b"L" * 20], [b"z"]]
    big = [[b"B", ("gen", 20000, 7)], [b"after"]]
    for t, pt in HAND_PEER.items():
        if t in ("PUB", "REQ"):
            continue
        for k, chunk, msgs in ((1, 2, small), (1, 5, small), (2, 1, small), (3, 3, small), (1, 64, small), (1, 4096, big), (2, 3000, big),
                               (1, 8192, big)):
            sc = wg.Script()
            sc.sock(1, t)
            sc.attach(1, 1, pt, b"p1")
            sc.attach(1, 2, pt, b"p2")
            sc.add(f"yieldy 1 {k} {chunk}")
            wire = []
            for m in msgs:
                m = ([b""] + m) if t == "REP" else m
                if t == "XPUB":
                    m = [b"\x01" + (m[0] if isinstance(m[0], bytes) else b"")] + m[1:]
                wire.append(m)
            sc.add("reveal 1 " + "+".join(wg.wire_tok(m) for m in wire))
            futs = []
            for _ in wire:
                g = sc.fut()
                sc.add(f"recv {g} 1", f"poll {g}", f"drop {g}")
                futs.append(g)
            # the other peer, over an ordinary transport, afterwards
            tail = [b"", b"tail"] if t == "REP" else [b"\x01tail"] if t == "XPUB" else [b"tail"]
            sc.reveal_msg(2, tail)
            g = sc.fut()
            sc.add(f"recv {g} 1", f"poll {g}", f"drop {g}")
            c = sc.case(f"yieldy-{t}-{k}-{chunk}#{n}", ["socket-yieldy"])
            want = []
            for m in wire:
                want.append({"REP": m[1:], "ROUTER": [b"p1"] + m}.get(t, m))
            c.expect = ("yieldy", futs, want)
            out.append(c)
            n += 1
    return out


def yieldy_oracle(case, lines):
    from vlib import worldgen as wg

    res = list(zip(case.ops, lines[1:]))
    _, futs, want = case.expect
    for g, m in zip(futs, want):
        r = [l for op, l in res if op == f"poll {g}"][-1]
        w = "ready ok M[" + wg.show_frames(m) + "]"
        if r != w:
            return (f"over a transport that yields in the middle of available data recv answered {r[:80]} — every byte of "
                    f"{w[:80]} had arrived: what is decoded must not depend on how the stream was cut into reads")
    return None


def handover_oracle(case, lines):
    from vlib import worldgen as wg

    if any(l.startswith(("PANIC", "ABORT", "TIMEOUT")) for l in lines):
        return "panic/abort"
    if case.expect[0] == "yieldy":
        return yieldy_oracle(case, lines)
    res = list(zip(case.ops, lines[1:]))
    if case.expect[0] == "wire":
        w = [l for op, l in res if op == "wire 1"][-1]
        if w != "wire " + wg.show_wire([case.expect[1]]):
            return (f"a subscription that arrived (partly) in the same segment as the end of the handshake did not take effect: "
                    f"a matching publish put {w[:60]} on the subscriber's wire")
        return None
    _, g, got = case.expect
    r = [l for op, l in res if op == f"poll {g}"][-1]
    if r != "ready ok M[" + wg.show_frames(got) + "]":
        return (f"the message that arrived (partly) in the same segment as the end of the handshake was not delivered whole as the "
                f"first message: {r[:100]} (want M[{wg.show_frames(got)[:60]}])")
    return None


def oracle(case, impl_lines):
    """the property itself, on the implementation: chunked == one-shot"""
    if case.engine == "world":
        return handover_oracle(case, impl_lines)
    if any(l.startswith(("ABORT", "TIMEOUT")) for l in impl_lines):
        return "implementation aborted"
    # split at the second `newdec`
    idx = [i for i, op in enumerate(case.ops) if op == "newdec"]
    if len(idx) < 2:
        return None
    a = impl_lines[1 + idx[0] : 1 + idx[1]]
    b = impl_lines[1 + idx[1] :]
    ia, ta, la = items_of(a)
    ib, tb, lb = items_of(b)
    if "PANIC" in (ta, tb):
        return None  # crashes belong to C03
    if ia != ib:
        return f"items differ between the segmented and the one-read run: {ia[:4]}… vs {ib[:4]}…"
    if ta != tb or la != lb:
        return f"final state differs between segmented and one-read run: ({ta},{la}) vs ({tb},{lb})"
    return None


def nontrivial(case, impl_lines):
    if case.engine == "world":
        return any(l.startswith(("ready ok M[", "wire ")) and l != "wire ." for l in impl_lines)
    return any(l.startswith("items ") and not l.startswith("items none") for l in impl_lines)


def signature(case, ml, il, o):
    return case.name.split("#")[0]
