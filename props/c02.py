"""C02 — stream reassembly is independent of segmentation (engine: codec)."""
import itertools

from vlib import gen, zmtp
from vlib.core import Case

ID = "C02"
LEAN_TARGETS = ["ZmqVerif.Props.C02"]
RULE = (
    "streams drawn from the item grammar (greeting, READY with 0..3 properties, messages of 1..4 frames incl. "
    "empty and >8 KiB frames, commands between messages); EXHAUSTIVE: all 2^(n-1) partitions of every short "
    "stream (n <= 11 quick / 15 thorough bytes beyond the greeting), every single cut and every pair of cuts of a "
    "medium stream, byte-at-a-time, cuts inside the greeting; seeded random partitions of long streams. "
    "Non-trivial: the implementation decoded at least one item. Each case ends with the same stream fed in ONE "
    "read to a fresh decoder: the Spec oracle compares the two item lists of the IMPLEMENTATION."
)
ASSUMPTIONS = ["FramedRead2 is modelled as: after every read, decode is called until it returns None (checked by the world engine for real sockets)"]
TRUSTED = ["asynchronous-codec FramedRead2 buffer handling (modelled, exercised for real by the harness)"]
SHRINK = True


def chunk_case(name, stream, cuts, tags):
    """feed `stream` cut at the given offsets, then once more whole into a fresh decoder"""
    ops = ["newdec"]
    prev = 0
    for c in list(cuts) + [len(stream)]:
        ops.append("feed " + zmtp.hx(stream[prev:c]))
        prev = c
    ops.append("newdec")
    ops.append("feed " + zmtp.hx(stream))
    return Case(name, "codec", ops, tags)


def short_streams():
    m = zmtp.message
    return [
        m([b""]),
        m([b"a"]) + m([b""]),
        m([b"", b"b"]),
        m([b"ab", b"", b"c"]),
        m([b"x"]) + m([b"y", b"z"]),
        zmtp.frame(b"\x05READY", command=True) + m([b"q"]),
        zmtp.frame(b"abc", force_long=True),
        m([b"a", b"b"]) + b"\x01\x02x",  # ends inside a message
    ]


def medium_stream(rng):
    s = zmtp.ready("PUSH", None)
    s += zmtp.message([b"hello", b"", b"w" * 40])
    s += zmtp.ready("PUSH", b"id", extra=[(b"X-k", b"v")])
    s += zmtp.message([bytes(rng.randrange(256) for _ in range(300))])
    s += zmtp.message([b"", b""])
    return s


def cases(tier, rng):
    out = gen.corpus(ID)
    g = zmtp.greeting()
    n = 0
    maxlen = 11 if tier == "quick" else 15
    for si, s in enumerate(short_streams()):
        s = s[:maxlen] if len(s) > maxlen else s
        L = len(s)
        for mask in range(1 << (L - 1)):
            cuts = [64] + [64 + i + 1 for i in range(L - 1) if mask >> i & 1]
            out.append(chunk_case(f"allparts{si}#{n}", g + s, cuts, ["all-partitions"]))
            n += 1
    med = g + medium_stream(rng)
    for c in range(1, len(med)):
        out.append(chunk_case(f"cut1#{n}", med, [c], ["single-cut"]))
        n += 1
    small = med[: 64 + (110 if tier == "quick" else 220)]
    for a, b in itertools.combinations(range(40, len(small)), 2):
        out.append(chunk_case(f"cut2#{n}", small, [a, b], ["pair-of-cuts"]))
        n += 1
    out.append(chunk_case(f"bytewise#{n}", med, list(range(1, len(med))), ["byte-at-a-time"]))
    # messages of MANY frames (a multipart message has no frame-count limit): coalesced into one read, one frame per
    # read, one byte per read for the shorter ones, and random partitions — the same items whatever the segmentation,
    # in particular a long run of complete frames arriving in ONE read is decoded to the end
    for nf in ([11, 12, 33, 100, 1000] if tier == "quick" else [9, 10, 11, 12, 13, 32, 33, 34, 100, 333, 1000, 5000]):
        for shape in ("empty", "short", "mixed"):
            fs = [b"" if shape == "empty" else bytes([65 + j % 26]) if shape == "short" else
                  rng.choice([b"", b"x", b"yy" * 3, bytes([j % 256]) * 300]) for j in range(nf)]
            body = zmtp.message(fs) + zmtp.message([b"tail"])
            st = g + zmtp.ready("PUSH", None) + body
            hs = len(st) - len(body)
            out.append(chunk_case(f"manyframes-coalesced#{n}", st, [hs], ["many-frames"]))
            n += 1
            # one frame per read
            cuts, pos = [hs], hs
            for f in fs[:-1]:
                pos += len(zmtp.frame(f, more=True))
                cuts.append(pos)
            out.append(chunk_case(f"manyframes-per-frame#{n}", st, cuts, ["many-frames"]))
            n += 1
            if nf <= 33:
                out.append(chunk_case(f"manyframes-bytewise#{n}", st, list(range(hs, len(st))), ["many-frames"]))
                n += 1
            cuts = sorted(set([hs] + [rng.randrange(hs, len(st)) for _ in range(rng.randint(1, 6))]))
            out.append(chunk_case(f"manyframes-random#{n}", st, cuts, ["many-frames"]))
            n += 1
    # long streams with > 8 KiB frames, random partitions
    k = 40 if tier == "quick" else 400
    for i in range(k):
        frames = []
        s = g + zmtp.ready(rng.choice(["REQ", "DEALER", "PUB"]), rng.choice([None, b"me"]))
        for _ in range(rng.randint(1, 4)):
            fs = []
            for _ in range(rng.randint(1, 4)):
                ln = rng.choice([0, 1, 255, 256, 8191, 8192, 8193, 20000, rng.randint(0, 70000)])
                fs.append(bytes([rng.randrange(256)]) * ln)
            s += zmtp.message(fs)
            if rng.random() < 0.3:
                s += zmtp.ready("REQ", None)
        ncuts = rng.randint(1, 12)
        cuts = sorted(set(rng.randrange(1, len(s)) for _ in range(ncuts)))
        out.append(chunk_case(f"long#{i}", s, cuts, ["long-random"]))
    return out


def items_of(lines):
    """flatten `items A ; B ; none | left n` lines into (items, terminal, left)"""
    items, term, left = [], None, None
    for l in lines:
        if l.startswith("items "):
            body, lf = l[6:].rsplit(" | left ", 1)
            parts = body.split(" ; ")
            items.extend(parts[:-1])
            term = parts[-1]
            left = lf
        elif l == "dead":
            pass
    return items, term, left


def oracle(case, impl_lines):
    """the property itself, on the implementation: chunked == one-shot"""
    if any(l.startswith(("ABORT", "TIMEOUT")) for l in impl_lines):
        return "implementation aborted"
    # split at the second `newdec`
    idx = [i for i, op in enumerate(case.ops) if op == "newdec"]
    if len(idx) < 2:
        return None
    a = impl_lines[1 + idx[0] : 1 + idx[1]]
    b = impl_lines[1 + idx[1] :]
    ia, ta, la = items_of(a)
    ib, tb, lb = items_of(b)
    if "PANIC" in (ta, tb):
        return None  # crashes belong to C03
    if ia != ib:
        return f"items differ between the segmented and the one-read run: {ia[:4]}… vs {ib[:4]}…"
    if ta != tb or la != lb:
        return f"final state differs between segmented and one-read run: ({ta},{la}) vs ({tb},{lb})"
    return None


def nontrivial(case, impl_lines):
    return any(l.startswith("items ") and not l.startswith("items none") for l in impl_lines)


def signature(case, ml, il, o):
    return case.name.split("#")[0]
